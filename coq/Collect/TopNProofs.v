(* Collect engine — lemmas about the model in Collect/TopN.v. *)
From Coq Require Import ZArith List Bool Lia.
From Verif Require Import Common.Bytes Collect.TopN.
Import ListNotations.
Local Open Scope Z_scope.

Lemma spec_total_length ms : spec_total ms = Z.of_nat (length ms).
Proof. reflexivity. Qed.
