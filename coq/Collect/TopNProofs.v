(* Collect engine — the collector of Collect/TopN.v returns the requested slice of the sorted
   match list: both stores implement "keep the K best, hand back the worst", the
   lowest-match-outside-results shortcut never drops a top-K match, Final drops the first skip. *)
From Coq Require Import ZArith List Bool Lia Permutation PeanoNat.
From Verif Require Import Common.Bytes Collect.TopN Collect.TopNOrder Collect.TopNSorted Collect.TopNHeap.
Import ListNotations.
Local Open Scope Z_scope.

Section Collector.
  Variable cmp : dmatch -> dmatch -> Z.
  Hypothesis cmp_anti : forall a b, cmp b a = - cmp a b.
  Hypothesis cmp_le_trans : forall a b c, cmp a b <= 0 -> cmp b c <= 0 -> cmp a c <= 0.
  Hypothesis cmp_eq_hit : forall a b, cmp a b = 0 -> hit a = hit b.

  Local Notation lt := (TopNSorted.lt cmp).
  Local Notation ssorted := (TopNSorted.ssorted cmp).
  Local Notation sort := (sort_by cmp).
  Local Notation ins := (insert_by cmp).

  Local Hint Resolve cmp_anti cmp_le_trans cmp_eq_hit : core.
  Set Default Proof Using "All".
  (* lemmas of TopNSorted / TopNHeap, applied to this section's comparison *)
  Local Notation Ap l := (l cmp cmp_anti cmp_le_trans cmp_eq_hit) (only parsing).

  Lemma lt_of_nle a b : cmp a b <> 0 -> ~ (0 <= cmp a b) -> lt a b.
  Proof. unfold TopNSorted.lt. lia. Qed.

  Lemma lt_flip a b : cmp a b <> 0 -> 0 <= cmp a b -> lt b a.
  Proof. unfold TopNSorted.lt. rewrite (cmp_anti a b). lia. Qed.

  (* ---------------------------------------------------------------- the slice store *)

  Lemma ins_back_perm d r : Permutation (ins_back cmp d r) (d :: r).
  Proof.
    induction r as [|e r IH]; cbn; [reflexivity|].
    destruct (0 <=? cmp d e); [reflexivity|]. rewrite IH. apply perm_swap.
  Qed.

  Lemma ins_back_sorted d r :
    ssorted (rev r) -> uhits (d :: r) -> ssorted (rev (ins_back cmp d r)).
  Proof.
    induction r as [|e r IH]; intros S U; [cbn; auto|].
    cbn [rev] in S. apply (Ap ssorted_app) in S. destruct S as (S1 & _ & C).
    cbn [ins_back]. destruct (0 <=? cmp d e) eqn:E.
    - apply Z.leb_le in E.
      assert (Hed : lt e d) by (apply lt_flip; [eapply (Ap uhits_neq); eauto; left; reflexivity|exact E]).
      change (rev (d :: e :: r)) with (rev (e :: r) ++ [d]).
      apply (Ap ssorted_app). repeat split.
      + cbn [rev]. apply (Ap ssorted_app). repeat split; cbn; auto.
      + cbn; auto.
      + intros a b Ha [<-|[]]. cbn [rev] in Ha. apply in_app_or in Ha. destruct Ha as [Ha|[<-|[]]]; [|exact Hed].
        eapply (Ap lt_trans); eauto. apply C; [exact Ha|left; reflexivity].
    - apply Z.leb_gt in E.
      assert (Hde : lt d e) by (unfold TopNSorted.lt; lia).
      cbn [rev]. apply (Ap ssorted_app). repeat split.
      + apply IH; [exact S1|]. eapply (Ap uhits_perm) in U; [|apply perm_swap]. eapply (Ap uhits_cons_inv); exact U.
      + cbn; auto.
      + intros a b Ha [<-|[]]. apply in_rev in Ha. apply (Permutation_in _ (ins_back_perm d r)) in Ha.
        destruct Ha as [<-|Ha]; [exact Hde|]. apply C; [apply -> in_rev; exact Ha|left; reflexivity].
  Qed.

  Lemma slice_add_perm d s : Permutation (slice_add cmp d s) (d :: s).
  Proof.
    unfold slice_add. rewrite <- Permutation_rev, ins_back_perm. constructor. apply Permutation_sym, Permutation_rev.
  Qed.

  Lemma slice_add_sorted d s : ssorted s -> uhits (d :: s) -> ssorted (slice_add cmp d s).
  Proof.
    intros S U. unfold slice_add. apply ins_back_sorted.
    - rewrite rev_involutive. exact S.
    - eapply (Ap uhits_perm); [|exact U]. constructor. apply Permutation_rev.
  Qed.

  Lemma slice_final_skipn skip (s : list dmatch) : slice_final skip s = skipn skip s.
  Proof.
    unfold slice_final. destruct (skip <=? length s)%nat eqn:E; [reflexivity|].
    apply Nat.leb_gt in E. symmetry. apply skipn_all2. lia.
  Qed.

  (* ---------------------------------------------------------------- both stores: AddNotExceedingSize *)

  Definition store_inv (heap : bool) (s : list dmatch) : Prop :=
    if heap then heap_ok cmp s else ssorted s.

  Lemma last_split (l : list dmatch) :
    l <> [] -> l = removelast l ++ [last l d0] /\ nth_error l (length l - 1) = Some (last l d0) /\
               length (removelast l) = (length l - 1)%nat.
  Proof.
    intros H. pose proof (app_removelast_last d0 H) as E.
    assert (L : length (removelast l) = (length l - 1)%nat).
    { rewrite E at 2. rewrite app_length. cbn. lia. }
    repeat split; auto.
    rewrite E at 1. rewrite nth_error_app2 by lia. rewrite L, Nat.sub_diag. reflexivity.
  Qed.

  Lemma add_spec heap d K s :
    store_inv heap s -> uhits (d :: s) -> (length s <= K)%nat ->
    exists s' r, add_not_exceeding heap cmp d K s = Some (s', r) /\ store_inv heap s' /\
      (((length s < K)%nat /\ r = None /\ Permutation s' (d :: s)) \/
       (length s = K /\ exists x, r = Some x /\ Permutation (x :: s') (d :: s) /\
                                  forall y, In y s' -> lt y x)).
  Proof.
    intros I U L. unfold add_not_exceeding. destruct heap; cbn [store_inv] in *.
    - (* heap *)
      unfold heap_add_not_exceeding.
      destruct ((Ap heap_push_correct) d s I) as (h' & E & Hok & P).
      rewrite E. pose proof (Permutation_length P) as Hlen. cbn in Hlen.
      destruct (K <? length h')%nat eqn:EK.
      + apply Nat.ltb_lt in EK.
        destruct ((Ap heap_pop_correct) h' Hok) as (x & h'' & E2 & Hok2 & P2 & Hmax).
        { intros ->. cbn in Hlen. lia. }
        rewrite E2. exists h'', (Some x). repeat split; auto.
        right. split; [lia|]. exists x. repeat split; auto.
        * rewrite P2. exact P.
        * intros y Hy. specialize (Hmax y Hy). unfold le in Hmax.
          assert (U2 : uhits (x :: h'')) by (eapply (Ap uhits_perm); [apply Permutation_sym; rewrite P2; exact P|exact U]).
          pose proof ((Ap uhits_neq) x h'' y U2 Hy) as N.
          unfold TopNSorted.lt. rewrite (cmp_anti y x) in N. lia.
      + apply Nat.ltb_ge in EK. exists h', None. repeat split; auto.
        left. repeat split; auto. lia.
    - (* slice *)
      unfold slice_add_not_exceeding.
      pose proof (slice_add_perm d s) as P. pose proof (slice_add_sorted d s I U) as S.
      pose proof (Permutation_length P) as Hlen. cbn in Hlen.
      set (s' := slice_add cmp d s) in *.
      destruct (K <? length s')%nat eqn:EK.
      + apply Nat.ltb_lt in EK.
        destruct (last_split s') as (E & N & Lr). { intros Z0. rewrite Z0 in Hlen. cbn in Hlen. lia. }
        rewrite N. exists (removelast s'), (Some (last s' d0)).
        rewrite E in S. apply (Ap ssorted_app) in S. destruct S as (S1 & _ & C).
        repeat split; auto.
        right. split; [lia|]. exists (last s' d0). repeat split; auto.
        * rewrite <- P. transitivity (removelast s' ++ [last s' d0]); [apply Permutation_cons_append|].
          rewrite <- E. reflexivity.
        * intros y Hy. apply C; [exact Hy|left; reflexivity].
      + apply Nat.ltb_ge in EK. exists s', None. repeat split; auto.
        left. repeat split; auto. lia.
  Qed.

  (* ---------------------------------------------------------------- both stores: Final *)

  Lemma pop_n_correct n : forall h acc,
    heap_ok cmp h -> uhits h -> (n <= length h)%nat ->
    pop_n cmp n h acc = Some (skipn (length h - n) (sort h) ++ acc).
  Proof.
    induction n as [|n IH]; intros h acc Hok U Hn.
    - cbn. rewrite Nat.sub_0_r. rewrite skipn_all2 by (rewrite (Ap sort_length); lia). reflexivity.
    - cbn [pop_n].
      destruct ((Ap heap_pop_correct) h Hok) as (x & h' & E & Hok' & P & Hmax).
      { intros ->. cbn in Hn. lia. }
      rewrite E. pose proof (Permutation_length P) as Hlen. cbn in Hlen.
      assert (U' : uhits (x :: h')) by (eapply (Ap uhits_perm); [apply Permutation_sym; exact P|exact U]).
      rewrite IH; [|exact Hok'|eapply (Ap uhits_cons_inv); exact U'|lia].
      (* sort h = sort h' ++ [x] *)
      assert (Es : sort h = sort h' ++ [x]).
      { symmetry. apply (Ap sort_unique); auto.
        - apply (Ap ssorted_app). repeat split.
          + apply (Ap sort_sorted); auto. eapply (Ap uhits_cons_inv); exact U'.
          + cbn; auto.
          + intros a b Ha [<-|[]]. apply (Permutation_in _ ((Ap sort_perm) h')) in Ha.
            specialize (Hmax a Ha). unfold le in Hmax.
            pose proof ((Ap uhits_neq) x h' a U' Ha) as N.
            unfold TopNSorted.lt. rewrite (cmp_anti a x) in N. lia.
        - rewrite <- P. rewrite ((Ap sort_perm) h'). apply Permutation_sym, Permutation_cons_append. }
      rewrite Es. f_equal.
      rewrite skipn_app. rewrite (Ap sort_length).
      replace (length h - S n - length h')%nat with 0%nat by lia.
      replace (length h - S n)%nat with (length h' - n)%nat by lia.
      cbn [skipn]. rewrite <- app_assoc. reflexivity.
  Qed.

  Lemma final_spec heap skip s :
    store_inv heap s -> uhits s ->
    (if heap then heap_final cmp skip s else Some (slice_final skip s)) = Some (skipn skip (sort s)).
  Proof.
    intros I U. destruct heap; cbn [store_inv] in I.
    - unfold heap_final. rewrite pop_n_correct by (auto; lia). rewrite app_nil_r. f_equal.
      destruct (Nat.le_gt_cases skip (length s)) as [H|H].
      + f_equal. lia.
      + rewrite !skipn_all2; [reflexivity| |]; rewrite (Ap sort_length); lia.
    - rewrite slice_final_skipn. rewrite (Ap sort_sorted_id); auto.
  Qed.

  (* ---------------------------------------------------------------- the handler invariant *)

  (* after the matches [p] went through the handler: the store holds exactly the K best of them
     and lowestMatchOutsideResults is the best of the rest *)
  Definition cinv (heap : bool) (K : nat) (p : list dmatch) (st : cstate) : Prop :=
    store_inv heap (st_store st) /\
    Permutation (st_store st) (firstn K (sort p)) /\
    st_lowest st = nth_error (sort p) K.

  Lemma nth_error_in_skipn (l : list dmatch) K x : nth_error l K = Some x -> In x (skipn K l).
  Proof.
    revert K; induction l as [|y l IH]; intros [|K] H; cbn in *; try discriminate.
    - injection H as ->. left; reflexivity.
    - apply IH; exact H.
  Qed.

  Lemma handle_step heap K p st d :
    cinv heap K p st -> uhits (p ++ [d]) ->
    exists st', handle cmp heap K None st d = Some st' /\ cinv heap K (p ++ [d]) st' /\
                st_total st' = st_total st /\ st_max st' = st_max st.
  Proof.
    intros (I & P & Low) U.
    set (L := sort p) in *.
    assert (Up : uhits p) by (eapply (Ap uhits_app_l); exact U).
    assert (SL : ssorted L) by (apply (Ap sort_sorted); auto).
    assert (UL : uhits (d :: L)).
    { apply (Ap uhits_app_comm) in U. cbn in U. eapply (Ap uhits_perm); [|exact U]. constructor.
      apply Permutation_sym, (Ap sort_perm). }
    unfold cinv. rewrite (Ap sort_by_snoc). fold L.
    unfold handle. cbv iota beta.
    (* does the shortcut fire? *)
    assert (Hcase :
      (exists l, st_lowest st = Some l /\ nth_error L K = Some l /\ 0 <= cmp d l) \/
      ((match st_lowest st with Some l => 0 <=? cmp d l | None => false end) = false /\
       ((length L <= K)%nat \/ exists x, nth_error L K = Some x /\ lt d x))).
    { destruct (st_lowest st) as [l|] eqn:El.
      - destruct (0 <=? cmp d l) eqn:E; [left; exists l; repeat split; auto; apply Z.leb_le; exact E|].
        right. split; [reflexivity|]. right. exists l. split; [auto|].
        apply Z.leb_gt in E. unfold TopNSorted.lt. lia.
      - right. split; [reflexivity|]. left. apply nth_error_None. auto. }
    destruct Hcase as [(l & El & Nl & Hge)|(Eshort & Hbefore)].
    - (* shortcut: d sorts after the (K+1)-th best, nothing changes *)
      rewrite El. replace (0 <=? cmp d l) with true by (symmetry; apply Z.leb_le; exact Hge).
      assert (Hld : lt l d).
      { apply lt_flip; [|exact Hge]. eapply (Ap uhits_neq); eauto. eapply nth_error_In; exact Nl. }
      destruct ((Ap insert_after_K) L K d l SL Nl Hld) as (H1 & H2).
      exists st. split; [reflexivity|]. split; [|split; reflexivity].
      split; [exact I|]. split.
      + rewrite H1. exact P.
      + rewrite H2. exact El.
    - rewrite Eshort.
      rewrite ((Ap insert_before_K) L K d SL Hbefore).
      set (F := firstn K L) in *. set (R := skipn K L) in *.
      assert (ELFR : L = F ++ R) by (symmetry; apply firstn_skipn).
      assert (UF : uhits (d :: F)).
      { rewrite ELFR in UL. change (d :: F ++ R) with ((d :: F) ++ R) in UL. eapply (Ap uhits_app_l); exact UL. }
      assert (Us : uhits (d :: st_store st)).
      { eapply (Ap uhits_perm); [|exact UF]. constructor. apply Permutation_sym; exact P. }
      assert (Hls : length (st_store st) = length F) by (apply Permutation_length; exact P).
      assert (HlF : (length F <= K)%nat) by (unfold F; rewrite firstn_length; lia).
      destruct (add_spec heap d K (st_store st) I Us) as (s' & r & Eadd & I' & Hr); [lia|].
      rewrite Eadd.
      set (M := ins d F).
      assert (PM : Permutation M (d :: F)) by apply (Ap insert_perm).
      assert (SM : ssorted M) by (apply (Ap insert_sorted); auto; apply (Ap ssorted_firstn); auto).
      destruct Hr as [(Hlt & -> & Ps')|(Heq & x & -> & Ps' & Hmax)].
      + (* room left: nothing evicted *)
        eexists. split; [reflexivity|]. cbn. repeat split; auto.
        * assert (HLK : (length L < K)%nat).
          { unfold F in Hls. rewrite firstn_length in Hls. lia. }
          assert (ER : R = []) by (apply skipn_all2; lia).
          rewrite ER, app_nil_r. rewrite firstn_all2.
          -- rewrite Ps', PM. constructor. exact P.
          -- rewrite (Permutation_length PM). cbn. lia.
        * assert (HLK : (length L < K)%nat).
          { unfold F in Hls. rewrite firstn_length in Hls. lia. }
          rewrite Low. transitivity (@None dmatch); [apply nth_error_None; lia|].
          symmetry. apply nth_error_None.
          rewrite app_length, (Permutation_length PM). cbn.
          assert (length R = 0)%nat by (unfold R; rewrite skipn_length; lia). lia.
      + (* the worst of store+d is evicted and becomes the new lowest *)
        assert (Hls' : length s' = K).
        { pose proof (Permutation_length Ps') as H. cbn in H. lia. }
        assert (Us' : uhits (x :: s')) by (eapply (Ap uhits_perm); [apply Permutation_sym; exact Ps'|exact Us]).
        assert (EM : sort s' ++ [x] = M).
        { apply (Ap ssorted_perm_eq); auto.
          - apply (Ap ssorted_app). repeat split.
            + apply (Ap sort_sorted); auto. eapply (Ap uhits_cons_inv); exact Us'.
            + cbn; auto.
            + intros a b Ha [<-|[]]. apply Hmax. apply (Permutation_in _ ((Ap sort_perm) s')). exact Ha.
          - rewrite PM. rewrite ((Ap sort_perm) s'). rewrite <- Permutation_cons_append. rewrite Ps'.
            constructor. exact P. }
        assert (HlS : length (sort s') = K) by (rewrite (Ap sort_length); exact Hls').
        assert (Hfirst : firstn K (M ++ R) = sort s').
        { rewrite <- EM. rewrite <- app_assoc. rewrite firstn_app, HlS, Nat.sub_diag. cbn [firstn].
          rewrite app_nil_r. apply firstn_all2. lia. }
        assert (Hnth : nth_error (M ++ R) K = Some x).
        { rewrite <- EM. rewrite <- app_assoc. rewrite nth_error_app2 by lia. rewrite HlS, Nat.sub_diag. reflexivity. }
        eexists. split; [reflexivity|]. cbn. repeat split; auto.
        * rewrite Hfirst. apply Permutation_sym, (Ap sort_perm).
        * rewrite Hnth. destruct (st_lowest st) as [l|] eqn:El; [|reflexivity].
          assert (Nl : nth_error L K = Some l) by (rewrite <- Low; reflexivity).
          assert (Hxl : lt x l).
          { assert (Hx : In x M) by (rewrite <- EM; apply in_or_app; right; left; reflexivity).
            apply (Permutation_in _ PM) in Hx. destruct Hx as [<-|Hx].
            - destruct Hbefore as [Hb|(y & Ny & Hy)]; [apply nth_error_None in Hb; congruence|].
              congruence.
            - apply ((Ap ssorted_firstn_lt_skipn) K L x l SL Hx). apply nth_error_in_skipn. exact Nl. }
          unfold TopNSorted.lt in Hxl. replace (cmp x l <? 0) with true by (symmetry; apply Z.ltb_lt; exact Hxl).
          reflexivity.
  Qed.

  (* ---------------------------------------------------------------- the Collect loop *)

  (* the search-after filter of the handler *)
  Definition passes (sa : option after_doc) (d : dmatch) : bool :=
    match sa with
    | Some a => negb (cmp d {| hit := hit d; did := []; score := sa_score a; keys := sa_keys a |} <=? 0)
    | None => true
    end.

  Lemma handle_filtered heap K sa st d :
    passes sa d = false -> handle cmp heap K sa st d = Some st.
  Proof.
    unfold passes, handle. destruct sa as [a|]; [|discriminate]. intros H.
    apply negb_false_iff in H. rewrite H. reflexivity.
  Qed.

  Lemma handle_passed heap K sa st d :
    passes sa d = true -> handle cmp heap K sa st d = handle cmp heap K None st d.
  Proof.
    unfold passes, handle. destruct sa as [a|]; [|reflexivity]. intros H.
    apply negb_true_iff in H. rewrite H. reflexivity.
  Qed.

  Lemma number_from_app n l1 l2 :
    number_from n (l1 ++ l2) = number_from n l1 ++ number_from (n + Z.of_nat (length l1)) l2.
  Proof.
    revert n; induction l1 as [|m l1 IH]; intros n; cbn [number_from app length].
    - rewrite Z.add_0_r. reflexivity.
    - rewrite IH. f_equal. f_equal. f_equal. lia.
  Qed.

  Lemma number_from_hits n l : map hit (number_from n l) = map (fun i => n + 1 + Z.of_nat i) (seq 0 (length l)).
  Proof.
    revert n; induction l as [|m l IH]; intros n; [reflexivity|].
    cbn [number_from map length seq hit]. f_equal; [lia|].
    rewrite IH. rewrite <- seq_shift, map_map. apply map_ext. intros i. lia.
  Qed.

  Lemma uhits_numbered n l : uhits (number_from n l).
  Proof.
    unfold uhits. rewrite number_from_hits.
    apply FinFun.Injective_map_NoDup; [|apply seq_NoDup]. intros a b H. lia.
  Qed.

  Lemma spec_max_snoc l m : spec_max_score (l ++ [m]) = Z.max (spec_max_score l) (rscore m).
  Proof. unfold spec_max_score. rewrite fold_left_app. reflexivity. Qed.

  Lemma collect_loop_inv heap K sa : forall ms pre st,
    cinv heap K (filter (passes sa) (numbered pre)) st ->
    st_total st = Z.of_nat (length pre) -> st_max st = spec_max_score pre ->
    exists st', collect_loop cmp heap K sa st ms = Some st' /\
                cinv heap K (filter (passes sa) (numbered (pre ++ ms))) st' /\
                st_total st' = Z.of_nat (length (pre ++ ms)) /\
                st_max st' = spec_max_score (pre ++ ms).
  Proof.
    induction ms as [|m ms IH]; intros pre st Hinv Ht Hm.
    - exists st. rewrite app_nil_r. auto.
    - cbn [collect_loop]. unfold collect_step.
      set (d := {| hit := st_total st + 1; did := rid m; score := rscore m; keys := rkeys m |}).
      set (st1 := {| st_store := st_store st; st_lowest := st_lowest st; st_total := st_total st + 1;
                     st_max := if st_max st <? rscore m then rscore m else st_max st |}).
      assert (Hnum : numbered (pre ++ [m]) = numbered pre ++ [d]).
      { unfold numbered. rewrite number_from_app. cbn [number_from]. rewrite Z.add_0_l, <- Ht. reflexivity. }
      assert (Hinv1 : cinv heap K (filter (passes sa) (numbered pre)) st1) by exact Hinv.
      assert (Hstep : exists st2, handle cmp heap K sa st1 d = Some st2 /\
                cinv heap K (filter (passes sa) (numbered (pre ++ [m]))) st2 /\
                st_total st2 = st_total st1 /\ st_max st2 = st_max st1).
      { rewrite Hnum, filter_app. cbn [filter].
        destruct (passes sa d) eqn:Ep.
        - rewrite handle_passed by exact Ep. apply handle_step; [exact Hinv1|].
          pose proof ((Ap uhits_filter) (passes sa) _ (uhits_numbered 0 (pre ++ [m]))) as U.
          fold (numbered (pre ++ [m])) in U. rewrite Hnum, filter_app in U. cbn [filter] in U.
          rewrite Ep in U. exact U.
        - rewrite handle_filtered by exact Ep. exists st1. rewrite app_nil_r. auto. }
      destruct Hstep as (st2 & E2 & Hinv2 & Ht2 & Hm2).
      rewrite E2.
      destruct (IH (pre ++ [m]) st2 Hinv2) as (st' & E' & Hinv' & Ht' & Hm').
      + rewrite Ht2. cbn. rewrite app_length. cbn. lia.
      + rewrite Hm2. cbn. rewrite spec_max_snoc, <- Hm.
        destruct (st_max st <? rscore m) eqn:E; [apply Z.ltb_lt in E|apply Z.ltb_ge in E]; lia.
      + exists st'. rewrite <- app_assoc in *. cbn in *. auto.
  Qed.

  (* the whole of collect, for the comparison function [cmp] *)
  Lemma collect_with_spec size skip sa ms :
    let heap := use_heap size skip in
    exists st,
      collect_loop cmp heap (size + skip) sa init_state ms = Some st /\
      (if heap then heap_final cmp skip (st_store st) else Some (slice_final skip (st_store st))) =
        Some (firstn size (skipn skip (sort (filter (passes sa) (numbered ms))))) /\
      st_total st = Z.of_nat (length ms) /\ st_max st = spec_max_score ms.
  Proof.
    intros heap. clearbody heap.
    destruct (collect_loop_inv heap (size + skip) sa ms [] init_state) as (st & E & (I & P & _) & Ht & Hm).
    - unfold cinv. cbn. rewrite firstn_nil. split; [|split].
      + destruct heap; cbn; [intros j Hj; cbn in Hj; lia|exact Logic.I].
      + constructor.
      + destruct (size + skip)%nat; reflexivity.
    - reflexivity.
    - reflexivity.
    - cbn [app] in *. exists st. repeat split; auto.
      set (p := filter (passes sa) (numbered ms)) in *.
      assert (Up : uhits p) by (apply (Ap uhits_filter), uhits_numbered).
      assert (Us : uhits (st_store st)).
      { eapply (Ap uhits_perm); [apply Permutation_sym; exact P|].
        pose proof ((Ap sort_uhits) p Up) as H. rewrite <- (firstn_skipn (size + skip) (sort p)) in H.
        eapply (Ap uhits_app_l); exact H. }
      rewrite (final_spec heap skip (st_store st) I Us). f_equal.
      rewrite <- ((Ap sort_unique) (st_store st) (firstn (size + skip) (sort p))).
      + rewrite firstn_skipn_comm. f_equal. f_equal. lia.
      + exact Us.
      + apply (Ap ssorted_firstn), (Ap sort_sorted); auto.
      + apply Permutation_sym. exact P.
  Qed.

End Collector.
