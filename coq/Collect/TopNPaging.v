(* Collect engine — the C06 theorems about the model of Collect/TopN.v: the comparison is a
   strict total order, collect returns the requested slice (plain and with a search-after
   sentinel), pages tile the sorted list, SearchAfter / SearchBefore return the next / previous
   page when the sort keys alone separate all matches. *)
From Coq Require Import ZArith List Bool Lia Permutation PeanoNat.
From Verif Require Import Common.Bytes Collect.TopN Collect.TopNOrder Collect.TopNSorted Collect.TopNHeap
  Collect.TopNProofs.
Import ListNotations.
Local Open Scope Z_scope.

(* ---------------------------------------------------------------- cmp_total_order *)

Lemma cmp_total_order so :
  (forall a, compare so a a = 0) /\
  (forall a b, compare so b a = - compare so a b) /\
  (forall a b c, compare so a b < 0 -> compare so b c < 0 -> compare so a c < 0) /\
  (forall a b, hit a <> hit b -> compare so a b < 0 \/ compare so b a < 0) /\
  (forall a b, compare so a b = 0 -> hit a = hit b) /\
  (forall a b, collector_cmp so a b = compare so a b).
Proof.
  repeat split.
  - apply compare_refl.
  - apply compare_anti.
  - apply compare_lt_trans.
  - apply compare_total.
  - apply compare_eq_hit.
  - apply collector_cmp_eq.
Qed.

Example cmp_total_order_nontrivial :
  let so := [{| kind := KField 0 0 false; desc := true |}; {| kind := KScore; desc := false |}] in
  let a := {| hit := 1; did := [100]; score := 5; keys := [[98]; [95]] |} in
  let b := {| hit := 2; did := [101]; score := 5; keys := [[98]; [95]] |} in
  let c := {| hit := 3; did := [102]; score := 4; keys := [[97]; [95]] |} in
  compare so a b = -1 /\ compare so b c = -1 /\ compare so a c = -1 /\ hit a <> hit b.
Proof. cbv. repeat split; discriminate. Qed.

(* ---------------------------------------------------------------- instantiating the comparison *)

Lemma ccmp_anti so a b : collector_cmp so b a = - collector_cmp so a b.
Proof. rewrite !collector_cmp_eq. apply compare_anti. Qed.
Lemma ccmp_le_trans so a b c :
  collector_cmp so a b <= 0 -> collector_cmp so b c <= 0 -> collector_cmp so a c <= 0.
Proof. rewrite !collector_cmp_eq. apply compare_le_trans. Qed.
Lemma ccmp_eq_hit so a b : collector_cmp so a b = 0 -> hit a = hit b.
Proof. rewrite collector_cmp_eq. apply compare_eq_hit. Qed.

Lemma insert_by_ext c1 c2 x l : (forall a b, c1 a b = c2 a b) -> insert_by c1 x l = insert_by c2 x l.
Proof. intros H. induction l as [|y l IH]; cbn; [reflexivity|]. rewrite H, IH. reflexivity. Qed.

Lemma sort_by_ext c1 c2 l : (forall a b, c1 a b = c2 a b) -> sort_by c1 l = sort_by c2 l.
Proof.
  intros H. induction l as [|x l IH] using rev_ind; [reflexivity|].
  unfold sort_by in *. rewrite !fold_left_app. cbn. rewrite IH. apply insert_by_ext. exact H.
Qed.

Lemma filter_ext_in' (f g : dmatch -> bool) l : (forall x, f x = g x) -> filter f l = filter g l.
Proof. intros H. apply filter_ext. exact H. Qed.

Lemma filter_true (l : list dmatch) : filter (fun _ => true) l = l.
Proof. induction l as [|x l IH]; cbn; [reflexivity|]. rewrite IH. reflexivity. Qed.

Lemma passes_eq so a d : passes (collector_cmp so) (Some a) d = passes_after so a d.
Proof.
  unfold passes, passes_after. rewrite collector_cmp_eq.
  destruct (compare so d _ <=? 0) eqn:E1; cbn; symmetry.
  - apply Z.ltb_ge. apply Z.leb_le. exact E1.
  - apply Z.ltb_lt. apply Z.leb_gt in E1. lia.
Qed.

(* collect, whatever the sentinel: the first [size] after skipping [skip] of the sorted list of
   the matches that pass the search-after filter *)
Lemma collect_spec so size skip sa ms :
  collect so size skip sa ms =
  Some {| results := firstn size (skipn skip
                       (sort_by (compare so)
                          (filter (passes (collector_cmp so) sa) (numbered ms))));
          total := spec_total ms; max_score := spec_max_score ms |}.
Proof.
  unfold collect.
  destruct (collect_with_spec (collector_cmp so) (ccmp_anti so) (ccmp_le_trans so) (ccmp_eq_hit so)
              size skip sa ms) as (st & E & F & Ht & Hm).
  cbv zeta in E, F. rewrite E, F. rewrite Ht, Hm.
  rewrite (sort_by_ext (collector_cmp so) (compare so)) by apply collector_cmp_eq.
  reflexivity.
Qed.

(* ---------------------------------------------------------------- topn_is_slice *)

Theorem topn_is_slice so size skip ms :
  collect so size skip None ms =
  Some {| results := spec_page so size skip ms; total := spec_total ms; max_score := spec_max_score ms |}.
Proof.
  rewrite collect_spec. unfold passes. rewrite filter_true. reflexivity.
Qed.

Lemma sorted_matches_props so ms :
  ssorted (compare so) (sorted_matches so ms) /\ Permutation (sorted_matches so ms) (numbered ms) /\
  uhits (sorted_matches so ms).
Proof.
  pose proof (uhits_numbered (compare so) (compare_anti so) (compare_le_trans so) (compare_eq_hit so) 0 ms) as U.
  repeat split.
  - apply (sort_sorted (compare so) (compare_anti so) (compare_le_trans so) (compare_eq_hit so)). exact U.
  - apply (sort_perm (compare so) (compare_anti so) (compare_le_trans so) (compare_eq_hit so)).
  - apply (sort_uhits (compare so) (compare_anti so) (compare_le_trans so) (compare_eq_hit so)). exact U.
Qed.

(* with a search-after sentinel: the slice of those that sort strictly after it *)
Theorem topn_after_is_slice so size a ms :
  collect so size 0 (Some a) ms =
  Some {| results := spec_after so size a ms; total := spec_total ms; max_score := spec_max_score ms |}.
Proof.
  rewrite collect_spec. unfold spec_after, sorted_matches. cbn [skipn].
  rewrite (filter_ext_in' _ _ _ (passes_eq so a)).
  rewrite (sort_filter (compare so) (compare_anti so) (compare_le_trans so) (compare_eq_hit so)).
  - reflexivity.
  - apply (uhits_numbered (compare so) (compare_anti so) (compare_le_trans so) (compare_eq_hit so)).
Qed.

(* ---------------------------------------------------------------- pages_tile *)

Lemma firstn_add (l : list dmatch) a b : firstn (a + b) l = firstn a l ++ firstn b (skipn a l).
Proof.
  revert l; induction a as [|a IH]; intros l; [reflexivity|].
  destruct l as [|x l]; cbn; [rewrite firstn_nil; reflexivity|]. rewrite IH. reflexivity.
Qed.

Lemma pages_concat (l : list dmatch) size n :
  concat (map (fun k => firstn size (skipn (k * size) l)) (seq 0 n)) = firstn (n * size) l.
Proof.
  induction n as [|n IH]; [reflexivity|].
  rewrite seq_S, map_app, concat_app, IH. cbn [map concat plus]. rewrite app_nil_r.
  replace (S n * size)%nat with (n * size + size)%nat by lia. symmetry. apply firstn_add.
Qed.

Definition page_results (so : sort_order) (size from : nat) (ms : list rmatch) : list dmatch :=
  match collect so size from None ms with Some r => results r | None => [] end.

Theorem pages_tile so size n ms :
  (length ms <= n * size)%nat ->
  concat (map (fun k => page_results so size (k * size) ms) (seq 0 n)) = sorted_matches so ms.
Proof.
  intros H. unfold page_results.
  rewrite (map_ext _ (fun k => firstn size (skipn (k * size) (sorted_matches so ms)))).
  - rewrite pages_concat. apply firstn_all2.
    destruct (sorted_matches_props so ms) as (_ & P & _).
    rewrite (Permutation_length P). unfold numbered.
    assert (L : forall n l, length (number_from n l) = length l)
      by (intros n0 l; revert n0; induction l; intros; cbn; auto).
    rewrite L. exact H.
  - intros k. rewrite topn_is_slice. reflexivity.
Qed.

Example pages_tile_nontrivial :
  let so := [{| kind := KScore; desc := true |}] in
  let ms := map (fun s => {| rid := [s]; rscore := s mod 3; rkeys := [score_sort_value] |})
                [1;2;3;4;5;6;7;8;9;10;11;12;13] in
  map did (concat (map (fun k => page_results so 6 (k * 6) ms) (seq 0 3))) =
  [[2];[5];[8];[11];[1];[4];[7];[10];[13];[3];[6];[9];[12]].
Proof. vm_compute. reflexivity. Qed.

(* ---------------------------------------------------------------- search-after / search-before *)

(* the sort keys alone separate any two matches of the stream (the sort is a total order) *)
Definition keys_distinct (so : sort_order) (ms : list rmatch) : Prop :=
  forall a b, In a (numbered ms) -> In b (numbered ms) ->
              cmp_keys so (score a) (score b) (keys a) (keys b) = 0 -> a = b.

Lemma filter_all_false (f : dmatch -> bool) l : (forall y, In y l -> f y = false) -> filter f l = [].
Proof.
  induction l as [|x l IH]; intros H; cbn; [reflexivity|].
  rewrite (H x (or_introl eq_refl)). apply IH. intros y Hy. apply H. right. exact Hy.
Qed.

Lemma filter_all_true (f : dmatch -> bool) l : (forall y, In y l -> f y = true) -> filter f l = l.
Proof.
  induction l as [|x l IH]; intros H; cbn; [reflexivity|].
  rewrite (H x (or_introl eq_refl)). f_equal. apply IH. intros y Hy. apply H. right. exact Hy.
Qed.

Lemma nth_error_split' (l : list dmatch) i x :
  nth_error l i = Some x -> l = firstn i l ++ x :: skipn (S i) l.
Proof.
  revert i; induction l as [|y l IH]; intros [|i] H; cbn in *; try discriminate.
  - injection H as ->. reflexivity.
  - f_equal. apply IH. exact H.
Qed.

Lemma passes_after_keys so x d :
  passes_after so (after_of x) d = (0 <? cmp_keys so (score d) (score x) (keys d) (keys x)).
Proof.
  unfold passes_after, after_of. rewrite compare_unfold. cbn [score keys hit sa_score sa_keys]. cbv zeta.
  destruct (cmp_keys so (score d) (score x) (keys d) (keys x) =? 0) eqn:E; [|reflexivity].
  apply Z.eqb_eq in E. rewrite E. unfold hit_cmp. cbn [hit]. rewrite Z.eqb_refl. reflexivity.
Qed.

(* in a list sorted by [compare so] whose keys are pairwise distinct, strictly-before means
   strictly-before on the keys *)
Lemma lt_keys so ms a b :
  keys_distinct so ms -> In a (numbered ms) -> In b (numbered ms) -> a <> b ->
  compare so a b < 0 -> cmp_keys so (score a) (score b) (keys a) (keys b) < 0.
Proof.
  intros KD Ha Hb Hne H. destruct (compare_keys_lt so a b H) as [K|[K _]]; [exact K|].
  exfalso. apply Hne. apply KD; auto.
Qed.

Lemma filter_after_sorted so ms i x :
  keys_distinct so ms -> nth_error (sorted_matches so ms) i = Some x ->
  filter (passes_after so (after_of x)) (sorted_matches so ms) = skipn (S i) (sorted_matches so ms).
Proof.
  intros KD N. destruct (sorted_matches_props so ms) as (S & P & U).
  set (L := sorted_matches so ms) in *.
  pose proof (nth_error_split' L i x N) as E.
  assert (ND : NoDup L) by (apply (ssorted_NoDup (compare so) (compare_anti so) (compare_le_trans so) (compare_eq_hit so)); exact S).
  assert (Hin : forall y, In y L -> In y (numbered ms)) by (intros y Hy; eapply Permutation_in; eauto).
  rewrite E in S, ND. apply (ssorted_app (compare so) (compare_anti so) (compare_le_trans so) (compare_eq_hit so)) in S.
  destruct S as (_ & S2 & C). cbn in S2. destruct S2 as (F2 & _). rewrite Forall_forall in F2.
  assert (Hx : In x L) by (eapply nth_error_In; exact N).
  rewrite E at 1. rewrite filter_app. cbn [filter].
  rewrite filter_all_false, passes_after_keys, cmp_keys_refl; cbn.
  - apply filter_all_true. intros y Hy. rewrite passes_after_keys. apply Z.ltb_lt.
    assert (Hyl : In y L) by (rewrite E; apply in_or_app; right; right; exact Hy).
    assert (Hne : x <> y).
    { intros <-. apply NoDup_remove_2 in ND. apply ND. apply in_or_app. right. exact Hy. }
    pose proof (lt_keys so ms x y KD (Hin _ Hx) (Hin _ Hyl) Hne (F2 y Hy)) as K.
    rewrite (cmp_keys_anti so (score x) (score y)). lia.
  - intros y Hy. rewrite passes_after_keys. apply Z.ltb_ge.
    assert (Hyl : In y L) by (rewrite E; apply in_or_app; left; exact Hy).
    assert (Hne : y <> x).
    { intros ->. apply NoDup_remove_2 in ND. apply ND. apply in_or_app. left. exact Hy. }
    pose proof (lt_keys so ms y x KD (Hin _ Hyl) (Hin _ Hx) Hne (C y x Hy (or_introl eq_refl))) as K. lia.
Qed.

Theorem search_after_next_page so size ms i x :
  keys_distinct so ms -> nth_error (sorted_matches so ms) i = Some x ->
  search so size (PAfter (after_of x)) ms =
  Some {| results := firstn size (skipn (S i) (sorted_matches so ms));
          total := spec_total ms; max_score := spec_max_score ms |}.
Proof.
  intros KD N. cbn [search]. rewrite topn_after_is_slice. unfold spec_after.
  rewrite (filter_after_sorted so ms i x KD N). reflexivity.
Qed.

(* without distinct keys search-after skips the matches that tie with the anchor: hit 2 below
   has the same score as the anchor (hit 1) and is lost *)
Example search_after_ties_lose_hits :
  let so := [{| kind := KScore; desc := true |}] in
  let ms := [ {| rid := [1]; rscore := 7; rkeys := [score_sort_value] |};
              {| rid := [2]; rscore := 7; rkeys := [score_sort_value] |};
              {| rid := [3]; rscore := 5; rkeys := [score_sort_value] |} ] in
  exists x, nth_error (sorted_matches so ms) 0 = Some x /\
            option_map (fun r => map did (results r)) (search so 2 (PAfter (after_of x)) ms) = Some [[3]] /\
            map did (firstn 2 (skipn 1 (sorted_matches so ms))) = [[2]; [3]].
Proof. eexists. vm_compute. repeat split. Qed.

Example search_after_next_page_nontrivial :
  let so := [{| kind := KScore; desc := true |}; {| kind := KId; desc := false |}] in
  let ms := map (fun s => {| rid := [s]; rscore := s mod 3; rkeys := [score_sort_value; [s]] |})
                [1;2;3;4;5;6;7;8;9;10;11;12;13] in
  exists x, nth_error (sorted_matches so ms) 3 = Some x /\
    option_map (fun r => map did (results r)) (search so 3 (PAfter (after_of x)) ms) = Some [[1];[4];[7]].
Proof. eexists. vm_compute. repeat split. Qed.

(* [keys_distinct] is decidable; the hypothesis holds on non-trivial streams *)
Definition keys_distinctb (so : sort_order) (ms : list rmatch) : bool :=
  let l := numbered ms in
  forallb (fun a => forallb (fun b =>
    negb (cmp_keys so (score a) (score b) (keys a) (keys b) =? 0) || (hit a =? hit b)) l) l.

Lemma keys_distinctb_sound so ms : keys_distinctb so ms = true -> keys_distinct so ms.
Proof.
  unfold keys_distinctb, keys_distinct. intros H a b Ha Hb K.
  rewrite forallb_forall in H. specialize (H a Ha). rewrite forallb_forall in H. specialize (H b Hb).
  rewrite K in H. cbn in H. apply Z.eqb_eq in H.
  eapply (uhits_in_eq (compare so) (compare_anti so) (compare_le_trans so) (compare_eq_hit so)); eauto.
  apply (uhits_numbered (compare so) (compare_anti so) (compare_le_trans so) (compare_eq_hit so)).
Qed.

Example keys_distinct_nontrivial :
  keys_distinct [{| kind := KScore; desc := true |}; {| kind := KId; desc := false |}]
    (map (fun s => {| rid := [s]; rscore := s mod 3; rkeys := [score_sort_value; [s]] |})
         [1;2;3;4;5;6;7;8;9;10;11;12;13]).
Proof. apply keys_distinctb_sound. vm_compute. reflexivity. Qed.

(* ---------------------------------------------------------------- the heap store is a priority queue *)

(* not a trusted abstraction: Push and Pop of the transcribed container/heap keep the heap order and
   the elements, Pop hands back an element no other sorts after, and the fuel never runs out *)
Theorem heap_store_is_pq so :
  (forall d h, heap_ok (collector_cmp so) h ->
     exists h', heap_push (collector_cmp so) d h = Some h' /\ heap_ok (collector_cmp so) h' /\
                Permutation h' (d :: h)) /\
  (forall h, heap_ok (collector_cmp so) h -> h <> [] ->
     exists x h', heap_pop (collector_cmp so) h = Some (x, h') /\ heap_ok (collector_cmp so) h' /\
                  Permutation (x :: h') h /\ forall y, In y h' -> collector_cmp so y x <= 0).
Proof.
  split.
  - intros d h H. apply (heap_push_correct (collector_cmp so) (ccmp_anti so) (ccmp_le_trans so) (ccmp_eq_hit so)). exact H.
  - intros h H Hne. apply (heap_pop_correct (collector_cmp so) (ccmp_anti so) (ccmp_le_trans so) (ccmp_eq_hit so)); assumption.
Qed.
