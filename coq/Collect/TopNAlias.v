(* Collect engine — paging through an IndexAlias (index_alias_impl.go MultiSearch) in the terms of
   the C06 model: when the sort keys alone separate all matches of all members, the alias returns
   what ONE index holding all the matches returns — for From/Size, SearchAfter and SearchBefore
   (hit for hit by id; Total and MaxScore exactly).  With TopNPaging / TopNBefore that makes every
   alias page the requested slice of the full ordering.

   The model ([multi_search], [alias_search]) is in Collect/TopNAliasModel.v.
   A member answers its request as [TopN.collect] says (buildTopNCollector: with SearchAfter the
   collector has skip 0).  Member hit numbers are member-local, so [compare] can return 0 for two
   hits of different members with equal keys; Go's sort.Sort is then free to order them either way.
   The model sorts with the insertion sort of TopN.v; the theorem below is about the case where
   that freedom does not arise.  (Nested aliases: an inner alias answers a From=0 child request, and
   by this theorem that answer is the answer of one index holding the inner members' matches — so an
   alias tree reduces to its flattening; the nesting itself is modelled and proved in Collect/Shards.v
   for C09.) *)
From Coq Require Import ZArith List Bool Lia Permutation PeanoNat.
From Verif Require Import Common.Bytes Collect.TopN Collect.TopNOrder Collect.TopNSorted Collect.TopNHeap
  Collect.TopNProofs Collect.TopNPaging Collect.TopNBefore Collect.TopNAliasModel.
Import ListNotations.
Local Open Scope Z_scope.

(* ---------------------------------------------------------------- same match, other hit number *)

Definition R (a b : dmatch) : Prop := did a = did b /\ score a = score b /\ keys a = keys b.

Definition kne (so : sort_order) (a b : dmatch) : Prop :=
  cmp_keys so (score a) (score b) (keys a) (keys b) <> 0.
(* pairwise different keys *)
Definition kd (so : sort_order) (l : list dmatch) : Prop := ForallOrdPairs (kne so) l.

Lemma kne_sym so a b : kne so a b -> kne so b a.
Proof. unfold kne. rewrite (cmp_keys_anti so (score a) (score b)). lia. Qed.

Lemma R_kne so a a' b b' : R a a' -> R b b' -> kne so a b -> kne so a' b'.
Proof. unfold R, kne. intros (_ & -> & ->) (_ & -> & ->). auto. Qed.

Lemma R_compare so a a' b b' : R a a' -> R b b' -> kne so a b -> compare so a' b' = compare so a b.
Proof.
  intros Ra Rb K. pose proof (R_kne so a a' b b' Ra Rb K) as K'.
  rewrite !compare_unfold. cbv zeta. unfold kne in K, K'.
  destruct Ra as (_ & <- & <-), Rb as (_ & <- & <-).
  destruct (cmp_keys so (score a) (score b) (keys a) (keys b) =? 0) eqn:E; [apply Z.eqb_eq in E; contradiction|reflexivity].
Qed.

Lemma R_map_did l l' : Forall2 R l l' -> map did l = map did l'.
Proof. induction 1 as [|a b l l' (E & _) _ IH]; cbn; [reflexivity|]. rewrite E, IH. reflexivity. Qed.

Lemma F2_firstn n : forall l l', Forall2 R l l' -> Forall2 R (firstn n l) (firstn n l').
Proof. induction n as [|n IH]; intros l l' H; [constructor|]. destruct H; cbn; constructor; auto. Qed.
Lemma F2_skipn n : forall l l', Forall2 R l l' -> Forall2 R (skipn n l) (skipn n l').
Proof. induction n as [|n IH]; intros l l' H; [exact H|]. destruct H; cbn; [constructor|auto]. Qed.
Lemma F2_concat ls ls' : Forall2 (Forall2 R) ls ls' -> Forall2 R (concat ls) (concat ls').
Proof. induction 1; cbn; [constructor|]. apply Forall2_app; assumption. Qed.
Lemma F2_filter (f : dmatch -> bool) l l' :
  (forall a b, R a b -> f a = f b) -> Forall2 R l l' -> Forall2 R (filter f l) (filter f l').
Proof.
  intros Hf. induction 1 as [|a b l l' Rab _ IH]; cbn; [constructor|].
  rewrite (Hf a b Rab). destruct (f b); [constructor|]; auto.
Qed.
Lemma F2_in_l l l' a : Forall2 R l l' -> In a l -> exists a', In a' l' /\ R a a'.
Proof.
  induction 1 as [|x y l l' Rxy _ IH]; intros []; [subst; exists y; split; [left; reflexivity|exact Rxy]|].
  destruct (IH H) as (a' & I & Ra). exists a'. split; [right; exact I|exact Ra].
Qed.

Lemma kd_R so l l' : Forall2 R l l' -> kd so l -> kd so l'.
Proof.
  induction 1 as [|a b l l' Rab F IH]; intros K; [constructor|].
  inversion K as [|? ? Fa K']; subst. constructor; [|apply IH; exact K'].
  rewrite Forall_forall in *. intros y' Hy'.
  assert (exists y, In y l /\ R y y') as (y & Hy & Ry).
  { clear -F Hy'. induction F as [|x z l l' Rxz _ IH]; [destruct Hy'|].
    destruct Hy' as [<-|Hy']; [exists x; split; [left; reflexivity|exact Rxz]|].
    destruct (IH Hy') as (y & I & Ry). exists y. split; [right; exact I|exact Ry]. }
  apply (R_kne so a b y y' Rab Ry). apply Fa. exact Hy.
Qed.

Lemma kd_app so l1 l2 : kd so (l1 ++ l2) -> kd so l1 /\ kd so l2 /\ (forall a b, In a l1 -> In b l2 -> kne so a b).
Proof.
  induction l1 as [|x l1 IH]; cbn; intros K.
  - split; [constructor|]. split; [exact K|]. intros ? ? [].
  - inversion K as [|? ? F K']; subst. destruct (IH K') as (K1 & K2 & C).
    rewrite Forall_forall in F. split; [|split; [exact K2|]].
    + constructor; [|exact K1]. apply Forall_forall. intros y Hy. apply F. apply in_or_app. left. exact Hy.
    + intros a b [<-|Ha] Hb; [apply F, in_or_app; right; exact Hb|apply C; assumption].
Qed.

Lemma kd_perm so l l' : Permutation l l' -> kd so l -> kd so l'.
Proof.
  induction 1 as [|x l l' P IH|x y l|l l' l'' P1 IH1 P2 IH2]; intros K.
  - exact K.
  - inversion K as [|? ? F K']; subst. constructor; [|apply IH; exact K'].
    rewrite Forall_forall in *. intros z Hz. apply F. eapply Permutation_in; [apply Permutation_sym; exact P|exact Hz].
  - inversion K as [|? ? F K']; subst. inversion K' as [|? ? F' K'']; subst.
    inversion F as [|? ? Kyx F'']; subst.
    constructor; [constructor; [apply kne_sym; exact Kyx|exact F']|constructor; [exact F''|exact K'']].
  - apply IH2, IH1, K.
Qed.

Lemma kd_in so l a b : kd so l -> In a l -> In b l -> a = b \/ kne so a b.
Proof.
  induction 1 as [|x l F K IH]; intros Ha Hb; [destruct Ha|].
  rewrite Forall_forall in F.
  destruct Ha as [<-|Ha], Hb as [<-|Hb]; auto.
  right. apply kne_sym. auto.
Qed.

(* ---------------------------------------------------------------- sorting does not look at hit
   numbers when the keys are pairwise different *)

Lemma insert_R so x x' l l' :
  R x x' -> Forall2 R l l' -> (forall y, In y l -> kne so x y) ->
  Forall2 R (insert_by (compare so) x l) (insert_by (compare so) x' l').
Proof.
  intros Rx. induction 1 as [|y y' l l' Ry F IH]; intros K; cbn; [constructor; [exact Rx|constructor]|].
  rewrite (R_compare so x x' y y' Rx Ry (K y (or_introl eq_refl))).
  destruct (compare so x y <? 0).
  - constructor; [exact Rx|]. constructor; assumption.
  - constructor; [exact Ry|]. apply IH. intros z Hz. apply K. right. exact Hz.
Qed.

Local Notation Ap so l := (l (compare so) (compare_anti so) (compare_le_trans so) (compare_eq_hit so)) (only parsing).

Lemma sort_R_gen so : forall l l', Forall2 R l l' -> forall acc acc', Forall2 R acc acc' ->
  kd so l -> (forall a b, In a acc -> In b l -> kne so a b) ->
  Forall2 R (fold_left (fun a x => insert_by (compare so) x a) l acc)
            (fold_left (fun a x => insert_by (compare so) x a) l' acc').
Proof.
  induction 1 as [|x x' l l' Rx F IH]; intros acc acc' Fa K C; cbn; [exact Fa|].
  inversion K as [|? ? Kx K']; subst. rewrite Forall_forall in Kx.
  apply IH; [|exact K'|].
  - apply insert_R; [exact Rx|exact Fa|]. intros y Hy. apply kne_sym. apply C; [exact Hy|left; reflexivity].
  - intros a b Ha Hb. apply (Permutation_in _ (Ap so insert_perm x acc)) in Ha.
    destruct Ha as [<-|Ha]; [apply Kx; exact Hb|apply C; [exact Ha|right; exact Hb]].
Qed.

Lemma sort_R so l l' : Forall2 R l l' -> kd so l ->
  Forall2 R (sort_by (compare so) l) (sort_by (compare so) l').
Proof. intros F K. unfold sort_by. apply sort_R_gen; auto. intros ? ? []. Qed.

(* the search-after filter looks at keys and score only *)
Lemma passes_after_R so a d d' : R d d' -> passes_after so a d = passes_after so a d'.
Proof.
  intros (_ & Es & Ek). unfold passes_after. rewrite !compare_unfold. cbv zeta. cbn [score keys hit].
  rewrite Es, Ek. unfold hit_cmp. cbn [hit]. rewrite !Z.eqb_refl. reflexivity.
Qed.

(* ---------------------------------------------------------------- top K of the merged top K's

   In a universe of hits with pairwise different hit numbers (where the comparison is a strict
   total order): the first K of the sorted concatenation of every part's first K are the first K
   of everything sorted. *)
Section Merge.
  Variable cmp : dmatch -> dmatch -> Z.
  Hypothesis cmp_anti : forall a b, cmp b a = - cmp a b.
  Hypothesis cmp_le_trans : forall a b c, cmp a b <= 0 -> cmp b c <= 0 -> cmp a c <= 0.
  Hypothesis cmp_eq_hit : forall a b, cmp a b = 0 -> hit a = hit b.

  Local Notation A l := (l cmp cmp_anti cmp_le_trans cmp_eq_hit) (only parsing).
  Local Notation srt := (sort_by cmp).
  Local Notation sorted := (ssorted cmp).

  Lemma uhits_concat_in (Fs : list (list dmatch)) g : uhits (concat Fs) -> In g Fs -> uhits g.
  Proof.
    induction Fs as [|h Fs IH]; intros U []; cbn in U.
    - subst. eapply (A uhits_app_l); exact U.
    - apply IH; [|assumption]. eapply (A uhits_app_r); exact U.
  Qed.

  Lemma uhits_NoDup l : uhits l -> NoDup l.
  Proof. unfold uhits. apply NoDup_map_inv. Qed.

  Definition top (K : nat) (g : list dmatch) : list dmatch := firstn K (srt g).

  Lemma in_tops K Fs x : In x (concat (map (top K) Fs)) -> exists g, In g Fs /\ In x (top K g).
  Proof.
    intros H. apply in_concat in H. destruct H as (t & Ht & Hx).
    apply in_map_iff in Ht. destruct Ht as (g & <- & Hg). exists g. auto.
  Qed.

  Lemma in_top_in K g x : In x (top K g) -> In x g.
  Proof.
    intros H. unfold top in H. apply (Permutation_in _ (A sort_perm g)).
    rewrite <- (firstn_skipn K (srt g)). apply in_or_app. left. exact H.
  Qed.

  Lemma tops_incl K Fs x : In x (concat (map (top K) Fs)) -> In x (concat Fs).
  Proof.
    intros H. destruct (in_tops K Fs x H) as (g & Hg & Hx).
    apply in_concat. exists g. split; [exact Hg|]. eapply in_top_in; exact Hx.
  Qed.

  (* the parts' first K's are a sub-multiset of everything *)
  Lemma tops_sub K Fs : exists rest, Permutation (concat (map (top K) Fs) ++ rest) (concat Fs).
  Proof.
    induction Fs as [|g Fs (rest & P)]; [exists []; constructor|].
    exists (skipn K (srt g) ++ rest). cbn [map concat].
    rewrite <- app_assoc.
    transitivity (top K g ++ skipn K (srt g) ++ concat (map (top K) Fs) ++ rest).
    - apply Permutation_app_head. apply Permutation_app_swap_app.
    - rewrite app_assoc. apply Permutation_app; [|exact P].
      unfold top. rewrite firstn_skipn. apply (A sort_perm).
  Qed.

  (* anything among the first K of everything is among the first K of its own part *)
  Lemma topK_in_child K Fs x :
    uhits (concat Fs) -> In x (top K (concat Fs)) -> In x (concat (map (top K) Fs)).
  Proof.
    intros U Hx. set (C := concat Fs) in *. set (S := srt C).
    assert (SS : sorted S) by (apply (A sort_sorted); exact U).
    assert (HxC : In x C) by (eapply in_top_in; exact Hx).
    apply in_concat in HxC. destruct HxC as (g & Hg & Hxg).
    apply in_concat. exists (top K g). split; [apply in_map; exact Hg|].
    assert (Ug : uhits g) by (eapply uhits_concat_in; eauto).
    assert (Sg : sorted (srt g)) by (apply (A sort_sorted); exact Ug).
    assert (Hxs : In x (srt g)) by (apply (Permutation_in _ (Permutation_sym (A sort_perm g))); exact Hxg).
    rewrite <- (firstn_skipn K (srt g)) in Hxs. apply in_app_or in Hxs.
    destruct Hxs as [Hxs|Hxs]; [exact Hxs|exfalso].
    set (T := firstn K S). set (Ag := firstn K (srt g)).
    assert (Llt : forall a, In a Ag -> TopNSorted.lt cmp a x).
    { intros a Ha. apply (A ssorted_firstn_lt_skipn K (srt g) a x Sg); [exact Ha|exact Hxs]. }
    assert (LA : length Ag = K).
    { unfold Ag. apply firstn_length_le.
      destruct (Nat.le_gt_cases K (length (srt g))) as [L|L]; [exact L|].
      rewrite skipn_all2 in Hxs by lia. destruct Hxs. }
    assert (Inc : incl (x :: Ag) T).
    { intros a [<-|Ha]; [exact Hx|].
      assert (HaS : In a S).
      { apply (Permutation_in _ (Permutation_sym (A sort_perm C))).
        apply in_concat. exists g. split; [exact Hg|].
        apply (Permutation_in _ (A sort_perm g)).
        rewrite <- (firstn_skipn K (srt g)). apply in_or_app. left. exact Ha. }
      rewrite <- (firstn_skipn K S) in HaS. apply in_app_or in HaS.
      destruct HaS as [HaS|HaS]; [exact HaS|exfalso].
      apply (A lt_asym a x); [apply Llt; exact Ha|].
      apply (A ssorted_firstn_lt_skipn K S x a SS); [exact Hx|exact HaS]. }
    assert (ND : NoDup (x :: Ag)).
    { constructor.
      - intros Hin. apply (A lt_irrefl x). apply Llt. exact Hin.
      - apply (A ssorted_NoDup). apply (A ssorted_firstn). exact Sg. }
    pose proof (NoDup_incl_length ND Inc) as L. cbn [length] in L.
    pose proof (firstn_le_length K S) as L2. fold T in L2. lia.
  Qed.

  Lemma firstn_app_short (T X : list dmatch) K :
    (length T <= K)%nat -> (length T = K \/ X = []) -> firstn K (T ++ X) = T.
  Proof.
    intros L [E| ->].
    - rewrite firstn_app, E, Nat.sub_diag. cbn. rewrite app_nil_r. rewrite <- E. apply firstn_all.
    - rewrite app_nil_r. apply firstn_all2. exact L.
  Qed.

  Theorem merge_topK K Fs :
    uhits (concat Fs) -> top K (concat (map (top K) Fs)) = top K (concat Fs).
  Proof.
    intros U. set (C := concat Fs) in *. set (M := concat (map (top K) Fs)). set (S := srt C).
    destruct (tops_sub K Fs) as (rest & P). fold M in P. fold C in P.
    assert (UM : uhits M).
    { eapply (A uhits_app_l). eapply (A uhits_perm); [apply Permutation_sym; exact P|exact U]. }
    set (p := fun x : dmatch => existsb (fun y => hit y =? hit x) M).
    assert (PM : Permutation M (filter p C)).
    { apply NoDup_Permutation.
      - apply uhits_NoDup; exact UM.
      - apply NoDup_filter, uhits_NoDup; exact U.
      - intros x. rewrite filter_In. split.
        + intros Hx. split; [apply tops_incl with (K := K); exact Hx|].
          unfold p. apply existsb_exists. exists x. split; [exact Hx|apply Z.eqb_refl].
        + intros (HxC & Hp). unfold p in Hp. apply existsb_exists in Hp.
          destruct Hp as (y & Hy & E). apply Z.eqb_eq in E.
          assert (y = x) as <-; [|exact Hy].
          eapply (A uhits_in_eq); [exact U| |exact HxC|exact E].
          apply tops_incl with (K := K). exact Hy. }
    assert (E : srt M = filter p S).
    { symmetry. apply (A sort_unique); [exact UM| |].
      - apply (A ssorted_filter), (A sort_sorted); exact U.
      - rewrite PM. apply (A filter_perm), (A sort_perm). }
    unfold top at 1. fold M. rewrite E. fold (top K C).
    rewrite <- (firstn_skipn K S). rewrite filter_app.
    rewrite (filter_all_true p (firstn K S)).
    - unfold top. fold S. apply firstn_app_short; [apply firstn_le_length|].
      destruct (Nat.le_gt_cases K (length S)) as [L|L].
      + left. apply firstn_length_le. exact L.
      + right. rewrite skipn_all2 by lia. reflexivity.
    - intros y Hy. unfold p. apply existsb_exists. exists y. split; [|apply Z.eqb_refl].
      apply topK_in_child; [exact U|exact Hy].
  Qed.

  Lemma filter_concat (f : dmatch -> bool) (Gs : list (list dmatch)) :
    filter f (concat Gs) = concat (map (filter f) Gs).
  Proof. induction Gs as [|g Gs IH]; cbn; [reflexivity|]. rewrite filter_app, IH. reflexivity. Qed.

  (* ... with a filter in front (the search-after filter) *)
  Theorem merge_topK_filter K f Gs :
    uhits (concat Gs) ->
    firstn K (srt (concat (map (fun g => firstn K (filter f (srt g))) Gs))) =
    firstn K (filter f (srt (concat Gs))).
  Proof.
    intros U.
    rewrite <- (A sort_filter) by exact U. rewrite filter_concat.
    assert (E : map (fun g => firstn K (filter f (srt g))) Gs = map (top K) (map (filter f) Gs)).
    { rewrite map_map. apply map_ext_in. intros g Hg. unfold top.
      rewrite (A sort_filter); [reflexivity|]. eapply uhits_concat_in; eauto. }
    rewrite E. apply merge_topK. rewrite <- filter_concat. apply (A uhits_filter). exact U.
  Qed.
End Merge.

(* ---------------------------------------------------------------- members' streams inside the
   stream of one index holding everything *)

Lemma R_sym a b : R a b -> R b a.
Proof. intros (A & B & C). repeat split; auto. Qed.
Lemma F2_sym l l' : Forall2 R l l' -> Forall2 R l' l.
Proof. induction 1; constructor; auto using R_sym. Qed.
Lemma F2_refl l : Forall2 R l l.
Proof. induction l; constructor; auto. repeat split. Qed.

Lemma kd_filter so f l : kd so l -> kd so (filter f l).
Proof.
  induction 1 as [|x l F K IH]; cbn; [constructor|].
  destruct (f x); [constructor|]; auto.
  rewrite Forall_forall in *. intros y Hy. apply filter_In in Hy. apply F. tauto.
Qed.

Lemma kd_firstn so n l : kd so l -> kd so (firstn n l).
Proof. intros K. rewrite <- (firstn_skipn n l) in K. apply kd_app in K. tauto. Qed.

Lemma kd_concat_in so Gs g : kd so (concat Gs) -> In g Gs -> kd so g.
Proof.
  induction Gs as [|h Gs IH]; intros K []; cbn in K; apply kd_app in K.
  - subst. tauto.
  - apply IH; tauto.
Qed.

Lemma kd_reverse so l : kd so l -> kd (reverse_so so) l.
Proof.
  unfold kd. apply ForallOrdPairs_ind; [constructor|]. intros a l0 F _ IH. constructor; [|exact IH].
  rewrite Forall_forall in *. intros y Hy. specialize (F y Hy). unfold kne in *.
  rewrite cmp_keys_reverse. lia.
Qed.

Lemma kd_of_keys_distinct so ms : keys_distinct so ms -> kd so (numbered ms).
Proof.
  intros KD.
  assert (ND : NoDup (numbered ms)).
  { apply uhits_NoDup. apply (uhits_numbered (compare so) (compare_anti so) (compare_le_trans so) (compare_eq_hit so)). }
  unfold keys_distinct in KD. revert KD ND. generalize (numbered ms). intros l.
  induction l as [|x l IH]; intros KD ND; [constructor|].
  inversion ND as [|? ? Hn ND']; subst. constructor.
  - apply Forall_forall. intros y Hy E. apply Hn.
    rewrite (KD x y (or_introl eq_refl) (or_intror Hy) E). exact Hy.
  - apply IH; [|exact ND']. intros a b Ha Hb. apply KD; right; assumption.
Qed.

(* the members' streams, numbered as they are inside the one index holding everything *)
Fixpoint segs (n : Z) (cs : list (list rmatch)) : list (list dmatch) :=
  match cs with
  | [] => []
  | c :: cs' => number_from n c :: segs (n + Z.of_nat (length c)) cs'
  end.

Lemma concat_segs cs : forall n, concat (segs n cs) = number_from n (concat cs).
Proof.
  induction cs as [|c cs IH]; intros n; cbn [segs concat]; [reflexivity|].
  rewrite IH. symmetry.
  apply (number_from_app (compare []) (compare_anti []) (compare_le_trans []) (compare_eq_hit [])).
Qed.

Lemma F2_number c : forall n m, Forall2 R (number_from n c) (number_from m c).
Proof. induction c as [|x c IH]; intros n m; cbn; constructor; [repeat split|apply IH]. Qed.

Lemma F2_segs cs : forall n, Forall2 (Forall2 R) (map numbered cs) (segs n cs).
Proof. induction cs as [|c cs IH]; intros n; cbn; constructor; [apply F2_number|apply IH]. Qed.

Local Notation Ac so l := (l (compare so) (compare_anti so) (compare_le_trans so) (compare_eq_hit so)) (only parsing).

(* what a member answers, given the member's stream numbered either way *)
Definition answer (so : sort_order) (K : nat) (f : dmatch -> bool) (g : list dmatch) : list dmatch :=
  firstn K (sort_by (compare so) (filter f g)).

Lemma answer_R so K f g g' :
  (forall a b, R a b -> f a = f b) -> Forall2 R g g' -> kd so g ->
  Forall2 R (answer so K f g) (answer so K f g').
Proof.
  intros Hf F Kd. unfold answer. apply F2_firstn. apply sort_R.
  - apply F2_filter; assumption.
  - apply kd_filter. exact Kd.
Qed.

Lemma answers_R so K f ls ls' :
  (forall a b, R a b -> f a = f b) -> Forall2 (Forall2 R) ls ls' -> (forall g, In g ls -> kd so g) ->
  Forall2 (Forall2 R) (map (answer so K f) ls) (map (answer so K f) ls').
Proof.
  intros Hf. induction 1 as [|g g' ls ls' Fg _ IH]; intros Kd; cbn; constructor.
  - apply answer_R; auto. apply Kd. left. reflexivity.
  - apply IH. intros h Hh. apply Kd. right. exact Hh.
Qed.

Lemma in_F2_kd so ls ls' : Forall2 (Forall2 R) ls ls' -> (forall g', In g' ls' -> kd so g') ->
  forall g, In g ls -> kd so g.
Proof.
  induction 1 as [|g g' ls ls' Fg _ IH]; intros Kd h []; [subst|].
  - apply (kd_R so g' h); [apply F2_sym; exact Fg|]. apply Kd. left. reflexivity.
  - apply IH; [|assumption]. intros k Hk. apply Kd. right. exact Hk.
Qed.

(* the merged members' answers, sorted and cut to K = the answer of one index holding everything
   (up to hit numbers) *)
Lemma alias_core so K f cs :
  (forall a b, R a b -> f a = f b) ->
  kd so (numbered (concat cs)) ->
  Forall2 R (firstn K (sort_by (compare so) (concat (map (answer so K f) (map numbered cs)))))
            (answer so K f (numbered (concat cs))).
Proof.
  intros Hf Kd. set (Gs := segs 0 cs).
  assert (EG : concat Gs = numbered (concat cs)) by apply concat_segs.
  assert (UG : uhits (concat Gs)).
  { rewrite EG. apply (Ac so uhits_numbered). }
  assert (KG : forall g, In g Gs -> kd so g).
  { intros g Hg. apply (kd_concat_in so Gs g); [rewrite EG; exact Kd|exact Hg]. }
  (* the answers computed on the global numbering *)
  set (MG := concat (map (answer so K f) Gs)).
  assert (EM : firstn K (sort_by (compare so) MG) = answer so K f (numbered (concat cs))).
  { unfold MG, answer.
    assert (E : map (fun g => firstn K (sort_by (compare so) (filter f g))) Gs =
                map (fun g => firstn K (filter f (sort_by (compare so) g))) Gs).
    { apply map_ext_in. intros g Hg. rewrite (Ac so sort_filter); [reflexivity|].
      eapply (Ac so uhits_concat_in); eauto. }
    rewrite E. rewrite (Ac so merge_topK_filter) by exact UG.
    rewrite EG. rewrite <- (Ac so sort_filter); [reflexivity|]. apply (Ac so uhits_numbered). }
  rewrite <- EM. apply F2_firstn.
  assert (F : Forall2 R (concat (map (answer so K f) (map numbered cs))) MG).
  { apply F2_concat. apply answers_R; [exact Hf|apply F2_segs|].
    apply (in_F2_kd so _ Gs); [apply F2_segs|exact KG]. }
  apply sort_R; [exact F|].
  apply (kd_R so MG); [apply F2_sym; exact F|].
  (* MG is a sub-multiset of the filtered global stream *)
  unfold MG, answer.
  assert (E : map (fun g => firstn K (sort_by (compare so) (filter f g))) Gs =
              map (top (compare so) K) (map (filter f) Gs)) by (rewrite map_map; reflexivity).
  rewrite E.
  destruct (Ac so tops_sub K (map (filter f) Gs)) as (rest & P).
  assert (Kf : kd so (concat (map (filter f) Gs))).
  { rewrite <- filter_concat, EG. apply kd_filter. exact Kd. }
  apply (kd_perm so _ _ (Permutation_sym P)) in Kf. apply kd_app in Kf. tauto.
Qed.

(* ---------------------------------------------------------------- Total and MaxScore *)

Lemma sum_totals cs : forall acc, fold_left Z.add (map spec_total cs) acc = acc + spec_total (concat cs).
Proof.
  induction cs as [|c cs IH]; intros acc; cbn [map fold_left concat]; [unfold spec_total; cbn; lia|].
  rewrite IH. unfold spec_total. rewrite app_length, Nat2Z.inj_add. lia.
Qed.

Definition smax (a : Z) (m : rmatch) : Z := Z.max a (rscore m).

Lemma fold_smax_from l : forall a, 0 <= a -> fold_left smax l a = Z.max a (fold_left smax l 0).
Proof.
  induction l as [|m l IH]; intros a Ha; cbn [fold_left]; [lia|].
  rewrite (IH (smax a m)) by (unfold smax; lia). rewrite (IH (smax 0 m)) by (unfold smax; lia).
  unfold smax. lia.
Qed.

Lemma spec_max_nonneg l : 0 <= spec_max_score l.
Proof.
  unfold spec_max_score. change (fun a m => Z.max a (rscore m)) with smax.
  assert (H : forall a, 0 <= a -> 0 <= fold_left smax l a); [|apply H; lia].
  induction l as [|m l IH]; intros a Ha; cbn; [exact Ha|]. apply IH. unfold smax. lia.
Qed.

Lemma spec_max_app l1 l2 : spec_max_score (l1 ++ l2) = Z.max (spec_max_score l1) (spec_max_score l2).
Proof.
  pose proof (spec_max_nonneg l1) as N. unfold spec_max_score in *.
  change (fun a m => Z.max a (rscore m)) with smax in *.
  rewrite fold_left_app. apply fold_smax_from. exact N.
Qed.

Lemma max_maxes cs : forall acc, 0 <= acc ->
  fold_left Z.max (map spec_max_score cs) acc = Z.max acc (spec_max_score (concat cs)).
Proof.
  induction cs as [|c cs IH]; intros acc Ha; cbn [map fold_left concat].
  - unfold spec_max_score. cbn. lia.
  - rewrite IH by (pose proof (spec_max_nonneg c); lia). rewrite spec_max_app. lia.
Qed.

(* ---------------------------------------------------------------- the theorem *)

Lemma sequence_o_map {A B} (f : A -> option B) (g : A -> B) l :
  (forall x, f x = Some (g x)) -> sequence_o (map f l) = Some (map g l).
Proof. intros H. induction l as [|x l IH]; cbn; [reflexivity|]. rewrite H, IH. reflexivity. Qed.

(* the search-after filter of the collector *)
Definition pf (so : sort_order) (sa : option after_doc) : dmatch -> bool := passes (collector_cmp so) sa.

Lemma pf_R so sa a b : R a b -> pf so sa a = pf so sa b.
Proof.
  intros Rab. unfold pf. destruct sa as [x|]; [|reflexivity].
  rewrite !passes_eq. apply passes_after_R. exact Rab.
Qed.

Definition member_answer (so : sort_order) (K : nat) (sa : option after_doc) (c : list rmatch) : cresult :=
  {| results := answer so K (pf so sa) (numbered c); total := spec_total c; max_score := spec_max_score c |}.

Lemma collect_member so K sa c : collect so K 0 sa c = Some (member_answer so K sa c).
Proof. rewrite collect_spec. reflexivity. Qed.

Lemma members_total so K sa cs : map total (map (member_answer so K sa) cs) = map spec_total cs.
Proof. rewrite map_map. apply map_ext. reflexivity. Qed.
Lemma members_max so K sa cs : map max_score (map (member_answer so K sa) cs) = map spec_max_score cs.
Proof. rewrite map_map. apply map_ext. reflexivity. Qed.
Lemma members_results so K sa cs :
  map results (map (member_answer so K sa) cs) = map (answer so K (pf so sa)) (map numbered cs).
Proof. rewrite !map_map. apply map_ext. reflexivity. Qed.

Lemma firstn_skipn_swap (l : list dmatch) size from :
  firstn size (skipn from l) = skipn from (firstn (from + size) l).
Proof. apply firstn_skipn_comm. Qed.

Lemma kd_answer so so' K f l : kd so l -> kd so (answer so' K f l).
Proof.
  intros Kd. unfold answer. apply kd_firstn.
  apply (kd_perm so (filter f l)); [|apply kd_filter; exact Kd].
  apply Permutation_sym. apply (sort_perm (compare so') (compare_anti so') (compare_le_trans so') (compare_eq_hit so')).
Qed.

Theorem multi_is_one_index so size p cs :
  keys_distinct so (concat cs) ->
  view (multi_search so size p cs) = view (search so size p (concat cs)).
Proof.
  intros KD. pose proof (kd_of_keys_distinct so _ KD) as Kd.
  unfold multi_search.
  destruct p as [from|a|a].
  - (* From / Size *)
    rewrite (sequence_o_map _ (member_answer so (size + from) None)) by (intros c; apply collect_member).
    cbn [search]. rewrite collect_spec. cbn [view results total max_score].
    rewrite members_total, members_max, members_results.
    rewrite sum_totals, (max_maxes cs 0) by lia.
    rewrite !firstn_skipn_swap. rewrite (Nat.add_comm from size).
    pose proof (alias_core so (size + from) (pf so None) cs (pf_R so None) Kd) as F.
    rewrite (R_map_did _ _ (F2_skipn from _ _ F)).
    pose proof (spec_max_nonneg (concat cs)). rewrite Z.add_0_l, Z.max_r by lia. reflexivity.
  - (* SearchAfter *)
    rewrite (sequence_o_map _ (member_answer so size (Some a))) by (intros c; apply collect_member).
    cbn [search]. rewrite collect_spec. cbn [view results total max_score skipn].
    rewrite members_total, members_max, members_results.
    rewrite sum_totals, (max_maxes cs 0) by lia.
    pose proof (alias_core so size (pf so (Some a)) cs (pf_R so (Some a)) Kd) as F.
    rewrite (R_map_did _ _ F).
    pose proof (spec_max_nonneg (concat cs)). rewrite Z.add_0_l, Z.max_r by lia. reflexivity.
  - (* SearchBefore: reversed sort, search-after, re-sort *)
    set (rso := reverse_so so).
    rewrite (sequence_o_map _ (member_answer rso size (Some a))) by (intros c; apply collect_member).
    cbn [search]. fold rso. rewrite collect_spec. cbn [view results total max_score skipn].
    rewrite members_total, members_max, members_results.
    rewrite sum_totals, (max_maxes cs 0) by lia.
    pose proof (alias_core rso size (pf rso (Some a)) cs (pf_R rso (Some a)) (kd_reverse so _ Kd)) as F.
    assert (F' : Forall2 R
      (sort_by (compare so) (firstn size (sort_by (compare rso)
         (concat (map (answer rso size (pf rso (Some a))) (map numbered cs))))))
      (sort_by (compare so) (answer rso size (pf rso (Some a)) (numbered (concat cs))))).
    { apply sort_R; [exact F|]. apply (kd_R so _ _ (F2_sym _ _ F)). apply kd_answer. exact Kd. }
    rewrite (R_map_did _ _ F').
    pose proof (spec_max_nonneg (concat cs)). rewrite Z.add_0_l, Z.max_r by lia. reflexivity.
Qed.

(* An alias over any number of members returns — ids in order, Total, MaxScore — what one index
   holding all the members' matches returns, for From/Size, SearchAfter and SearchBefore, whenever
   the sort keys separate all the matches. *)
Theorem alias_is_one_index so size p cs :
  keys_distinct so (concat cs) ->
  view (alias_search so size p cs) = view (search so size p (concat cs)).
Proof.
  intros KD. unfold alias_search.
  destruct cs as [|c [|c2 cs]]; try (apply multi_is_one_index; exact KD).
  cbn [concat]. rewrite app_nil_r. reflexivity.
Qed.

(* hence, with TopNPaging / TopNBefore: every alias page is the requested slice of all matches *)
Corollary alias_from_is_slice so size from cs :
  keys_distinct so (concat cs) ->
  view (alias_search so size (PFrom from) cs) =
  Some (map did (spec_page so size from (concat cs)), spec_total (concat cs), spec_max_score (concat cs)).
Proof. intros KD. rewrite alias_is_one_index by exact KD. cbn [search]. rewrite topn_is_slice. reflexivity. Qed.

Corollary alias_after_next_page so size cs i x :
  keys_distinct so (concat cs) -> nth_error (sorted_matches so (concat cs)) i = Some x ->
  view (alias_search so size (PAfter (after_of x)) cs) =
  Some (map did (firstn size (skipn (S i) (sorted_matches so (concat cs)))),
        spec_total (concat cs), spec_max_score (concat cs)).
Proof.
  intros KD N. rewrite alias_is_one_index by exact KD.
  rewrite (search_after_next_page so size (concat cs) i x KD N). reflexivity.
Qed.

Corollary alias_before_prev_page so size cs i x :
  keys_distinct so (concat cs) -> nth_error (sorted_matches so (concat cs)) i = Some x ->
  view (alias_search so size (PBefore (after_of x)) cs) =
  Some (map did (skipn (i - size) (firstn i (sorted_matches so (concat cs)))),
        spec_total (concat cs), spec_max_score (concat cs)).
Proof.
  intros KD N. rewrite alias_is_one_index by exact KD.
  rewrite (search_before_prev_page so size (concat cs) i x KD N). reflexivity.
Qed.

(* the hypotheses hold on a non-trivial value: 13 matches with tied scores over three members,
   stepping back from the fourth page *)
Example alias_before_prev_page_nontrivial :
  let so := [{| kind := KScore; desc := true |}; {| kind := KId; desc := false |}] in
  let mk := map (fun s => {| rid := [s]; rscore := s mod 3; rkeys := [score_sort_value; [s]] |}) in
  let cs := [mk [1;5;9;13;2]; mk [6;10;3]; mk [7;11;4;8;12]] in
  keys_distinct so (concat cs) /\
  exists x, nth_error (sorted_matches so (concat cs)) 9 = Some x /\
    view (alias_search so 3 (PBefore (after_of x)) cs) =
    Some (map did (skipn 6 (firstn 9 (sorted_matches so (concat cs)))), 13, 2).
Proof. split; [apply keys_distinctb_sound; vm_compute; reflexivity|]. eexists. vm_compute. split; reflexivity. Qed.
