(* Collect engine — proofs about the terms facet builder and the collector loop
   (range builders: Collect/FacetsRangeProofs.v). *)
From Coq Require Import ZArith List Bool Lia Permutation Sorted.
From Verif Require Import Common.Bytes Numeric.Model Collect.Facets Collect.FacetsLemmas.
Import ListNotations.
Local Open Scope Z_scope.

(* ---------- filters mean what their names say ---------- *)

Lemma has_prefix_iff p t : has_prefix p t = true <-> exists s, t = p ++ s.
Proof.
  revert t. induction p as [|x p IH]; intros t; cbn.
  - split; [intros _; exists t; reflexivity|reflexivity].
  - destruct t as [|y t]; [split; [discriminate|intros [s H]; discriminate]|].
    rewrite andb_true_iff, Z.eqb_eq, IH. split.
    + intros [-> [s ->]]. exists s. reflexivity.
    + intros [s H]. inversion H; subst. split; [reflexivity|exists s; reflexivity].
Qed.

Lemma has_infix_iff l t : has_infix l t = true <-> exists a b, t = a ++ l ++ b.
Proof.
  induction t as [|y t IH]; cbn.
  - rewrite orb_false_r, has_prefix_iff. split.
    + intros [s H]. exists [], s. exact H.
    + intros (a & b & H). destruct a; [exists b; exact H|discriminate].
  - rewrite orb_true_iff, has_prefix_iff, IH. split.
    + intros [[s H]|(a & b & H)]; [exists [], s; exact H|exists (y :: a), b; rewrite H; reflexivity].
    + intros (a & b & H). destruct a as [|x a]; [left; exists b; exact H|].
      right. inversion H; subst. exists a, b. reflexivity.
Qed.

Lemma has_suffix_iff l t : has_suffix l t = true <-> exists a, t = a ++ l.
Proof.
  unfold has_suffix. rewrite has_prefix_iff. split.
  - intros [s H]. exists (rev s). apply (f_equal (@rev Z)) in H.
    rewrite rev_involutive, rev_app_distr, rev_involutive in H. exact H.
  - intros [a ->]. exists (rev a). apply rev_app_distr.
Qed.

(* ---------- TermsFacetBuilder: what the fold computes ---------- *)

Lemma occ_step f t k d :
  (if accept f k then count_if (beqb k) (t :: d) else 0) =
  (if accept f t then (if beqb t k then 1 else 0) else 0) +
  (if accept f k then count_if (beqb k) d else 0).
Proof.
  rewrite count_if_cons, (beqb_sym k t). destruct (beqb t k) eqn:E.
  - apply beqb_eq in E. subst. destruct (accept f k); lia.
  - destruct (accept f k), (accept f t); lia.
Qed.

Lemma tfb_update_get f s t k :
  get k (tb_counts (tfb_update f s t)) =
  get k (tb_counts s) + (if accept f t then (if beqb t k then 1 else 0) else 0).
Proof. unfold tfb_update. destruct (accept f t); cbn; [apply get_bump|lia]. Qed.

Definition csum (m : list entry) : Z := zsum (map snd m).

Lemma tfb_update_fold f d : forall s,
  let s' := fold_left (tfb_update f) d s in
  (forall k, get k (tb_counts s') =
             get k (tb_counts s) + (if accept f k then count_if (beqb k) d else 0)) /\
  tb_total s' = tb_total s + Z.of_nat (length d) /\
  tb_missing s' = tb_missing s /\
  tb_saw s' = tb_saw s || existsb (accept f) d /\
  (wf (tb_counts s) -> wf (tb_counts s')) /\
  csum (tb_counts s') = csum (tb_counts s) + count_if (accept f) d.
Proof.
  induction d as [|t d IH]; intros s; cbn [fold_left].
  - cbn. repeat apply conj; intros; try destruct (accept f k); try rewrite orb_false_r; auto; unfold count_if; cbn; lia.
  - destruct (IH (tfb_update f s t)) as (Hg & Ht & Hm & Hs & Hw & Hc). cbn zeta.
    repeat apply conj.
    + intros k. rewrite Hg, tfb_update_get, occ_step. lia.
    + rewrite Ht. unfold tfb_update. destruct (accept f t); cbn [tb_total length]; lia.
    + rewrite Hm. unfold tfb_update. destruct (accept f t); reflexivity.
    + rewrite Hs. unfold tfb_update. cbn [existsb]. destruct (accept f t); cbn [tb_saw]; [|reflexivity].
      rewrite orb_true_r. reflexivity.
    + intros H. apply Hw. unfold tfb_update. destruct (accept f t); cbn [tb_counts]; [apply wf_bump|]; exact H.
    + rewrite Hc, count_if_cons. unfold tfb_update, csum. destruct (accept f t); cbn [tb_counts]; [rewrite csum_bump|]; lia.
Qed.

Lemma tfb_doc_spec f s d :
  let s' := tfb_doc f s d in
  (forall k, get k (tb_counts s') =
             get k (tb_counts s) + (if accept f k then count_if (beqb k) d else 0)) /\
  tb_total s' = tb_total s + Z.of_nat (length d) /\
  tb_missing s' = tb_missing s + (if existsb (accept f) d then 0 else 1) /\
  (wf (tb_counts s) -> wf (tb_counts s')) /\
  csum (tb_counts s') = csum (tb_counts s) + count_if (accept f) d.
Proof.
  cbn zeta. unfold tfb_doc.
  destruct (tfb_update_fold f d (tfb_start s)) as (Hg & Ht & Hm & Hs & Hw & Hc).
  cbn [tfb_start tb_counts tb_total tb_missing tb_saw orb] in *.
  unfold tfb_end. rewrite Hs. destruct (existsb (accept f) d); cbn [tb_counts tb_total tb_missing];
    repeat apply conj; auto; lia.
Qed.

Definition accepted_spec (f : tfilter) (ms : list doc) : Z :=
  zsum (map (fun d : doc => count_if (accept f) d) ms).

Lemma tfb_run_from f ms : forall s,
  let s' := fold_left (tfb_doc f) ms s in
  (forall k, get k (tb_counts s') = get k (tb_counts s) + occ f k ms) /\
  tb_total s' = tb_total s + total_spec ms /\
  tb_missing s' = tb_missing s + missing_spec f ms /\
  (wf (tb_counts s) -> wf (tb_counts s')) /\
  csum (tb_counts s') = csum (tb_counts s) + accepted_spec f ms.
Proof.
  induction ms as [|d ms IH]; intros s; cbn [fold_left].
  - cbn. unfold occ, total_spec, missing_spec, accepted_spec, count_if. cbn.
    repeat apply conj; intros; try destruct (accept f k); auto; lia.
  - destruct (IH (tfb_doc f s d)) as (Hg & Ht & Hm & Hw & Hc).
    destruct (tfb_doc_spec f s d) as (Hg' & Ht' & Hm' & Hw' & Hc'). cbn zeta in *.
    repeat apply conj.
    + intros k. rewrite Hg, Hg'. unfold occ. cbn [map zsum]. destruct (accept f k); lia.
    + rewrite Ht, Ht'. unfold total_spec. cbn [map zsum]. lia.
    + rewrite Hm, Hm'. unfold missing_spec. rewrite count_if_cons.
      destruct (existsb (accept f) d); cbn [negb]; lia.
    + auto.
    + rewrite Hc, Hc'. unfold accepted_spec. cbn [map zsum]. lia.
Qed.

Lemma tfb_run_spec f ms :
  let s := tfb_run f ms in
  wf (tb_counts s) /\
  (forall k, get k (tb_counts s) = occ f k ms) /\
  tb_total s = total_spec ms /\
  tb_missing s = missing_spec f ms /\
  csum (tb_counts s) = accepted_spec f ms.
Proof.
  cbn zeta. unfold tfb_run.
  destruct (tfb_run_from f ms tfb_init) as (Hg & Ht & Hm & Hw & Hc). cbn zeta in *.
  cbn [tfb_init tb_counts tb_total tb_missing get] in *. unfold csum in *. cbn [map zsum] in *.
  repeat apply conj; try lia.
  - apply Hw, wf_nil.
  - apply Hw, wf_nil.
  - intros k. rewrite Hg. lia.
Qed.

(* ---------- spec-side facts ---------- *)

Lemma count_if_split {A} (p : A -> bool) l :
  count_if p l + count_if (fun x => negb (p x)) l = Z.of_nat (length l).
Proof.
  induction l as [|x l IH]; [reflexivity|]. rewrite !count_if_cons. cbn [length].
  destruct (p x); cbn [negb]; lia.
Qed.

Lemma total_accepted_rejected f ms : total_spec ms = accepted_spec f ms + rejected_spec f ms.
Proof.
  unfold total_spec, accepted_spec, rejected_spec.
  induction ms as [|d ms IH]; cbn [map zsum]; [reflexivity|].
  pose proof (count_if_split (accept f) d). lia.
Qed.

Lemma count_if_pos {A} (p : A -> bool) l : 0 < count_if p l <-> exists x, In x l /\ p x = true.
Proof.
  induction l as [|x l IH].
  - unfold count_if; cbn. split; [lia|intros (x & [] & _)].
  - rewrite count_if_cons. pose proof (count_if_nonneg p l). split.
    + intros H0. destruct (p x) eqn:E; [exists x; split; [left; reflexivity|exact E]|].
      destruct (proj1 IH ltac:(lia)) as (y & Hy & Py). exists y. split; [right; exact Hy|exact Py].
    + intros (y & [<-|Hy] & Py); [rewrite Py; lia|].
      assert (0 < count_if p l) by (apply IH; exists y; auto). destruct (p x); lia.
Qed.

Lemma count_beqb_pos k d : 0 < count_if (beqb k) d <-> In k d.
Proof.
  rewrite count_if_pos. split.
  - intros (x & Hx & E). apply beqb_eq in E. subst. exact Hx.
  - intros H. exists k. split; [exact H|apply beqb_refl].
Qed.

Lemma occ_nonneg f k ms : 0 <= occ f k ms.
Proof.
  unfold occ. destruct (accept f k); [|lia]. apply zsum_map_nonneg. intros d. apply count_if_nonneg.
Qed.

Lemma occ_pos_iff f k ms : 0 < occ f k ms <-> accept f k = true /\ In k (concat ms).
Proof.
  unfold occ. destruct (accept f k); [|split; [lia|intros [H _]; discriminate]].
  induction ms as [|d ms IH]; cbn [map zsum concat].
  - split; [lia|intros [_ []]].
  - pose proof (count_if_nonneg (beqb k) d).
    assert (0 <= zsum (map (fun d => count_if (beqb k) d) ms))
      by (apply zsum_map_nonneg; intros; apply count_if_nonneg).
    rewrite in_app_iff, <- count_beqb_pos. split.
    + intros H1. split; [reflexivity|].
      destruct (Z.ltb_spec 0 (count_if (beqb k) d)); [left; assumption|right; apply IH; lia].
    + intros [_ [H1|H1]]; [lia|]. assert (0 < zsum (map (fun d => count_if (beqb k) d) ms)) by (apply IH; auto). lia.
Qed.

Lemma dedup_In x l : In x (dedup l) <-> In x l.
Proof.
  induction l as [|y l IH]; cbn; [reflexivity|].
  destruct (existsb (beqb y) l) eqn:E.
  - rewrite IH. apply existsb_beqb_In in E. split; [auto|intros [<-|H]; auto].
  - cbn. rewrite IH. reflexivity.
Qed.

Lemma dedup_NoDup l : NoDup (dedup l).
Proof.
  induction l as [|y l IH]; cbn; [constructor|].
  destruct (existsb (beqb y) l) eqn:E; [exact IH|].
  constructor; [|exact IH]. rewrite dedup_In. intros H. apply existsb_beqb_In in H. congruence.
Qed.

Lemma buckets_iff f ms k : In k (buckets f ms) <-> 0 < occ f k ms.
Proof.
  unfold buckets. rewrite dedup_In, filter_In, occ_pos_iff. tauto.
Qed.

Lemma buckets_meaning f ms k : In k (buckets f ms) <-> accept f k = true /\ In k (concat ms).
Proof. rewrite buckets_iff. apply occ_pos_iff. Qed.

Lemma buckets_length f ms counts :
  wf counts -> (forall k, get k counts = occ f k ms) -> length (buckets f ms) = length counts.
Proof.
  intros Hwf Hget. transitivity (length (keys counts)); [|apply map_length]. apply Permutation_length.
  apply NoDup_Permutation; [apply dedup_NoDup|apply Hwf|].
  intros k. rewrite buckets_iff. fold (keys counts). rewrite (wf_key_iff _ _ Hwf), Hget. reflexivity.
Qed.

(* a duplicate-free document contributes 1 to the count of each of its terms *)
Lemma count_beqb_nodup k d : NoDup d -> count_if (beqb k) d = if mem_term k d then 1 else 0.
Proof.
  induction 1 as [|t d Hnin Hnd IH]; [reflexivity|].
  rewrite count_if_cons, IH. unfold mem_term. cbn [existsb]. fold (mem_term k d).
  destruct (beqb k t) eqn:E; cbn [orb]; [|lia].
  apply beqb_eq in E. subst t.
  destruct (mem_term k d) eqn:M; [|lia]. apply existsb_beqb_In in M. contradiction.
Qed.

Lemma occ_terms_count f k ms :
  (forall d, In d ms -> NoDup d) -> accept f k = true -> occ f k ms = terms_count ms k.
Proof.
  intros Hnd Hacc. unfold occ, terms_count. rewrite Hacc.
  induction ms as [|d ms IH]; [reflexivity|].
  cbn [map zsum]. rewrite count_if_cons, IH by (intros; apply Hnd; right; assumption).
  rewrite count_beqb_nodup by (apply Hnd; left; reflexivity). reflexivity.
Qed.

(* ---------- terms_facet_spec ---------- *)

Lemma terms_facet_defined f size ms : 0 <= size -> exists r, terms_facet f size ms = Some r.
Proof. intros H. apply finish_defined. exact H. Qed.

Lemma terms_facet_spec f size ms r :
  terms_facet f size ms = Some r ->
  (* listed counts: visits of the term over all matching documents; the term passes the filter *)
  (forall t c, In (t, c) (fr_entries r) -> accept f t = true /\ c = occ f t ms /\ 0 < c) /\
  (* ... which is the number of matching documents containing it when no document visits a term twice *)
  ((forall d, In d ms -> NoDup d) -> forall t c, In (t, c) (fr_entries r) -> c = terms_count ms t) /\
  (* order: count descending, then term ascending (strictly: no term listed twice) *)
  StronglySorted e_lt (fr_entries r) /\
  (* the listed terms are the top-N of all buckets in that order *)
  length (fr_entries r) = Nat.min (Z.to_nat size) (length (buckets f ms)) /\
  (forall t, In t (buckets f ms) -> ~ In t (map fst (fr_entries r)) ->
     forall e, In e (fr_entries r) -> e_lt e (t, occ f t ms)) /\
  (* Total, Other, Missing *)
  fr_total r = total_spec ms /\
  fr_other r + zsum (map snd (fr_entries r)) = fr_total r /\
  fr_other r = rejected_spec f ms + unlisted_spec f ms (fr_entries r) /\
  fr_missing r = missing_spec f ms.
Proof.
  intros Hr. unfold terms_facet, tfb_result in Hr.
  destruct (tfb_run_spec f ms) as (Hwf & Hget & Htot & Hmis & Hcs). cbn zeta in *.
  destruct (finish_spec _ _ _ _ _ (fun k => occ f k ms) Hwf Hget Hr)
    as (H1 & H2 & H3 & H4 & H5 & H6 & H7 & H8).
  assert (Hlist : forall t c, In (t, c) (fr_entries r) -> accept f t = true /\ c = occ f t ms /\ 0 < c).
  { intros t c Hin. destruct (H1 t c Hin) as [Hc Hpos]. split; [|auto].
    subst c. apply occ_pos_iff in Hpos. apply Hpos. }
  split; [exact Hlist|]. split.
  { intros Hnd t c Hin. destruct (Hlist t c Hin) as (Ha & -> & _). apply occ_terms_count; assumption. }
  split; [exact H2|]. split.
  { rewrite H3. f_equal. symmetry. apply buckets_length; assumption. }
  split.
  { intros t Hb Hnin. apply H4; [apply buckets_iff; exact Hb|exact Hnin]. }
  split; [congruence|]. split; [exact H7|]. split; [|congruence].
  rewrite H8. unfold csum in Hcs. rewrite Hcs, Htot. pose proof (total_accepted_rejected f ms).
  assert (Hent : fr_entries r = firstn (Z.to_nat size) (sort_entries (tb_counts (tfb_run f ms)))).
  { apply finish_some in Hr. apply Hr. }
  unfold unlisted_spec. rewrite Hent.
  rewrite <- (skipn_sum_unlisted _ (fun k => occ f k ms) _ (buckets f ms) Hwf Hget);
    [lia|apply dedup_NoDup|intros k; apply buckets_iff].
Qed.

(* ---------- permutation invariance ---------- *)

Lemma occ_perm f k ms ms' : Permutation ms ms' -> occ f k ms = occ f k ms'.
Proof. intros H. unfold occ. destruct (accept f k); [|reflexivity]. apply zsum_perm, Permutation_map, H. Qed.

Lemma total_spec_perm ms ms' : Permutation ms ms' -> total_spec ms = total_spec ms'.
Proof. intros H. apply zsum_perm, Permutation_map, H. Qed.

Lemma missing_spec_perm f ms ms' : Permutation ms ms' -> missing_spec f ms = missing_spec f ms'.
Proof. intros H. apply count_if_perm, H. Qed.

(* two count maps with the same content give the same result, whatever their internal order *)
Lemma finish_ext size c1 c2 total missing :
  wf c1 -> wf c2 -> (forall k, get k c1 = get k c2) ->
  finish size c1 total missing = finish size c2 total missing.
Proof.
  intros W1 W2 Hg.
  assert (E : sort_entries c1 = sort_entries c2).
  { apply sorted_unique; [apply sort_sorted, W1|apply sort_sorted, W2|].
    intros [k c]. rewrite !sort_in, (wf_in_iff _ _ _ W1), (wf_in_iff _ _ _ W2), Hg. reflexivity. }
  unfold finish. rewrite E. reflexivity.
Qed.

Lemma terms_facet_perm f size ms ms' :
  Permutation ms ms' -> terms_facet f size ms = terms_facet f size ms'.
Proof.
  intros HP. unfold terms_facet, tfb_result.
  destruct (tfb_run_spec f ms) as (W1 & G1 & T1 & M1 & _).
  destruct (tfb_run_spec f ms') as (W2 & G2 & T2 & M2 & _). cbn zeta in *.
  rewrite T1, T2, M1, M2, (total_spec_perm _ _ HP), (missing_spec_perm f _ _ HP).
  apply finish_ext; [exact W1|exact W2|].
  intros k. rewrite G1, G2. apply occ_perm, HP.
Qed.

(* the order in which one document's terms are visited does not matter either *)
Lemma total_spec_inner ms ms' : Forall2 (@Permutation bytes) ms ms' -> total_spec ms = total_spec ms'.
Proof.
  unfold total_spec. induction 1 as [|d d' ms ms' Hd _ IH]; cbn [map zsum]; [reflexivity|].
  rewrite (Permutation_length Hd), IH. reflexivity.
Qed.

Lemma existsb_perm {A} (p : A -> bool) l l' : Permutation l l' -> existsb p l = existsb p l'.
Proof.
  intros HP. apply eq_true_iff_eq. rewrite !existsb_exists.
  split; intros (x & Hx & Px); exists x; split; auto.
  - eapply Permutation_in; eauto.
  - eapply Permutation_in; [symmetry|]; eauto.
Qed.

Lemma missing_spec_inner f ms ms' :
  Forall2 (@Permutation bytes) ms ms' -> missing_spec f ms = missing_spec f ms'.
Proof.
  unfold missing_spec. induction 1 as [|d d' ms ms' Hd _ IH]; [reflexivity|].
  rewrite !count_if_cons, IH, (existsb_perm _ _ _ Hd). reflexivity.
Qed.

Lemma occ_inner f k ms ms' : Forall2 (@Permutation bytes) ms ms' -> occ f k ms = occ f k ms'.
Proof.
  intros HP. unfold occ. destruct (accept f k); [|reflexivity].
  induction HP as [|d d' ms ms' Hd _ IH]; cbn [map zsum]; [reflexivity|].
  rewrite IH, (count_if_perm _ _ _ Hd). reflexivity.
Qed.

Lemma terms_facet_perm_inner f size ms ms' :
  Forall2 (@Permutation bytes) ms ms' -> terms_facet f size ms = terms_facet f size ms'.
Proof.
  intros HP. unfold terms_facet, tfb_result.
  destruct (tfb_run_spec f ms) as (W1 & G1 & T1 & M1 & _).
  destruct (tfb_run_spec f ms') as (W2 & G2 & T2 & M2 & _). cbn zeta in *.
  rewrite T1, T2, M1, M2, (total_spec_inner _ _ HP), (missing_spec_inner f _ _ HP).
  apply finish_ext; [exact W1|exact W2|].
  intros k. rewrite G1, G2. apply occ_inner, HP.
Qed.

(* ---------- the collector: facets see every match, whatever the store does ---------- *)

Section CollectorFacts.
  Context {H S F D : Type}.
  Variable offer : S -> H -> S.
  Variable facet_doc : F -> D -> F.

  Lemma collect_facets s0 f0 (ms : list (H * D)) :
    snd (collect offer facet_doc s0 f0 ms) = fold_left facet_doc (map snd ms) f0.
  Proof.
    unfold collect. revert s0 f0. induction ms as [|m ms IH]; intros s0 f0; cbn [fold_left map]; [reflexivity|].
    unfold collect_step at 2. cbn [fst snd]. apply IH.
  Qed.
End CollectorFacts.

(* The facet result of a search is a function of the multiset of matching documents: two
   collector runs with different stores (i.e. different Size / From / Sort / SearchAfter), fed the
   same matches in any order, report the same terms facet. *)
Lemma terms_facets_independent_of_paging
      {H S S' : Type} (offer : S -> H -> S) (offer' : S' -> H -> S') s0 s0'
      f size (ms ms' : list (H * doc)) :
  Permutation (map snd ms) (map snd ms') ->
  tfb_result size (snd (collect offer (tfb_doc f) s0 tfb_init ms)) =
  tfb_result size (snd (collect offer' (tfb_doc f) s0' tfb_init ms')).
Proof.
  intros HP. rewrite !collect_facets. apply (terms_facet_perm f size _ _ HP).
Qed.

(* ---------- the hypotheses of the theorems are satisfiable on non-trivial values ---------- *)

Example ex_ms : list doc := [[[97]; [98]]; [[98]; [99; 100]]; []; [[98]; [120]]].
Example ex_filter : tfilter := {| tf_prefix := []; tf_regex := Some [{| ra_start := true; ra_lit := [97]; ra_end := false |};
                                                                     {| ra_start := false; ra_lit := [98]; ra_end := true |};
                                                                     {| ra_start := false; ra_lit := [100]; ra_end := false |}] |}.
Example ex_terms_facet :
  terms_facet ex_filter 2 ex_ms =
  Some {| fr_entries := [([98], 3); ([97], 1)]; fr_total := 6; fr_missing := 1; fr_other := 2 |} /\
  (forall d, In d ex_ms -> NoDup d) /\
  Permutation ex_ms (rev ex_ms).
Proof.
  split; [vm_compute; reflexivity|]. split; [|apply Permutation_rev].
  intros d Hd. cbn in Hd.
  repeat (destruct Hd as [<-|Hd]; [repeat constructor; cbn; intuition discriminate|]). destruct Hd.
Qed.

(* two count maps with the same content in different internal order (Go map iteration order) *)
Example ex_map_order :
  let c1 := bump [98] (bump [97] (bump [98] [])) in
  let c2 := bump [98] (bump [98] (bump [97] [])) in
  wf c1 /\ wf c2 /\ c1 <> c2 /\ (forall k, get k c1 = get k c2) /\
  StronglySorted e_lt (sort_entries c1) /\ sort_entries c1 = sort_entries c2.
Proof.
  cbn zeta.
  assert (W1 : wf (bump [98] (bump [97] (bump [98] [])))) by (repeat apply wf_bump; apply wf_nil).
  assert (W2 : wf (bump [98] (bump [98] (bump [97] [])))) by (repeat apply wf_bump; apply wf_nil).
  split; [exact W1|]. split; [exact W2|]. split; [intros E; vm_compute in E; discriminate E|].
  split; [intros k; rewrite !get_bump; cbn [get]; lia|].
  split; [apply sort_sorted, W1|vm_compute; reflexivity].
Qed.
