(* Collect engine — generic lemmas for the facet proofs: sums, the count map (bump/get), the
   entry order, insertion sort, uniqueness of strictly sorted lists, and [finish]. *)
From Coq Require Import ZArith List Bool Lia Permutation Sorted.
From Verif Require Import Common.Bytes Numeric.Model Collect.Facets.
Import ListNotations.
Local Open Scope Z_scope.

(* ---------- sums ---------- *)

Lemma zsum_app l1 l2 : zsum (l1 ++ l2) = zsum l1 + zsum l2.
Proof. induction l1 as [|x l1 IH]; cbn; [reflexivity|]. rewrite IH. lia. Qed.

Lemma zsum_perm l l' : Permutation l l' -> zsum l = zsum l'.
Proof. induction 1; cbn; lia. Qed.

Lemma zsum_map_add {A} (f g : A -> Z) l :
  zsum (map (fun x => f x + g x) l) = zsum (map f l) + zsum (map g l).
Proof. induction l as [|x l IH]; cbn; [reflexivity|]. rewrite IH. lia. Qed.

Lemma zsum_map_ext {A} (f g : A -> Z) l :
  (forall x, In x l -> f x = g x) -> zsum (map f l) = zsum (map g l).
Proof.
  induction l as [|x l IH]; cbn; intros H; [reflexivity|].
  rewrite (H x), IH; auto.
Qed.

Lemma zsum_map_zero {A} (f : A -> Z) l : (forall x, In x l -> f x = 0) -> zsum (map f l) = 0.
Proof. induction l as [|x l IH]; cbn; intros H; [reflexivity|]. rewrite (H x), IH; auto. Qed.

Lemma zsum_map_nonneg {A} (f : A -> Z) l : (forall x, 0 <= f x) -> 0 <= zsum (map f l).
Proof. intros H. induction l as [|x l IH]; cbn; [lia|]. specialize (H x). lia. Qed.

Lemma count_if_nonneg {A} (p : A -> bool) l : 0 <= count_if p l.
Proof. unfold count_if. lia. Qed.

Lemma count_if_cons {A} (p : A -> bool) x l :
  count_if p (x :: l) = (if p x then 1 else 0) + count_if p l.
Proof. unfold count_if. cbn. destruct (p x); cbn [length]; lia. Qed.

Lemma count_if_perm {A} (p : A -> bool) l l' : Permutation l l' -> count_if p l = count_if p l'.
Proof.
  induction 1; rewrite ?count_if_cons; lia.
Qed.

(* ---------- byte-string equality ---------- *)

Lemma beqb_refl a : beqb a a = true.
Proof. apply beqb_eq. reflexivity. Qed.

Lemma beqb_sym a b : beqb a b = beqb b a.
Proof.
  destruct (beqb a b) eqn:E1, (beqb b a) eqn:E2; try reflexivity.
  - apply beqb_eq in E1. subst. rewrite beqb_refl in E2. discriminate.
  - apply beqb_eq in E2. subst. rewrite beqb_refl in E1. discriminate.
Qed.

Lemma beqb_neq a b : beqb a b = false <-> a <> b.
Proof.
  split; intros H.
  - intros ->. rewrite beqb_refl in H. discriminate.
  - destruct (beqb a b) eqn:E; [|reflexivity]. apply beqb_eq in E. contradiction.
Qed.

Lemma existsb_beqb_In t l : existsb (beqb t) l = true <-> In t l.
Proof.
  rewrite existsb_exists. split.
  - intros (x & Hin & E). apply beqb_eq in E. subst. exact Hin.
  - intros Hin. exists t. split; [exact Hin|apply beqb_refl].
Qed.

(* ---------- the count map ---------- *)

Definition keys (m : list entry) : list bytes := map fst m.
Definition wf (m : list entry) : Prop := NoDup (keys m) /\ Forall (fun e : entry => 0 < snd e) m.

Lemma wf_nil : wf [].
Proof. split; constructor. Qed.

Lemma get_bump k k' m : get k (bump k' m) = get k m + (if beqb k' k then 1 else 0).
Proof.
  induction m as [|[k0 c] m IH]; cbn.
  - destruct (beqb k' k); lia.
  - destruct (beqb k0 k') eqn:E0; cbn.
    + apply beqb_eq in E0. subst k0. destruct (beqb k' k); lia.
    + destruct (beqb k0 k) eqn:E1.
      * apply beqb_eq in E1. subst k0. rewrite beqb_sym, E0. lia.
      * exact IH.
Qed.

Lemma keys_bump x k m : In x (keys (bump k m)) <-> x = k \/ In x (keys m).
Proof.
  induction m as [|[k0 c] m IH]; cbn.
  - intuition.
  - destruct (beqb k0 k) eqn:E0; cbn.
    + apply beqb_eq in E0. subst k0. intuition.
    + rewrite IH. intuition.
Qed.

Lemma wf_bump k m : wf m -> wf (bump k m).
Proof.
  intros [Hnd Hpos]. induction m as [|[k0 c] m IH]; cbn.
  - split; repeat constructor; cbn; auto; lia.
  - inversion Hnd as [|? ? Hnin Hnd']; subst. inversion Hpos as [|? ? Hc Hpos']; subst. cbn in Hc.
    destruct (beqb k0 k) eqn:E0.
    + split; [exact Hnd|]. constructor; [cbn; lia|exact Hpos'].
    + destruct (IH Hnd' Hpos') as [IH1 IH2]. split.
      * cbn. constructor; [|exact IH1]. fold (keys (bump k m)). rewrite keys_bump.
        intros [->|Hin]; [rewrite beqb_refl in E0; discriminate|contradiction].
      * constructor; [exact Hc|exact IH2].
Qed.

Lemma csum_bump k m : zsum (map snd (bump k m)) = zsum (map snd m) + 1.
Proof.
  induction m as [|[k0 c] m IH]; cbn; [lia|].
  destruct (beqb k0 k); cbn; lia.
Qed.

Lemma get_notin k m : ~ In k (keys m) -> get k m = 0.
Proof.
  induction m as [|[k0 c] m IH]; cbn; intros H; [reflexivity|].
  destruct (beqb k0 k) eqn:E.
  - apply beqb_eq in E. subst. exfalso. apply H. left. reflexivity.
  - apply IH. intros Hin. apply H. right. exact Hin.
Qed.

Lemma get_in k c m : NoDup (keys m) -> In (k, c) m -> get k m = c.
Proof.
  induction m as [|[k0 c0] m IH]; cbn; intros Hnd Hin; [contradiction|].
  inversion Hnd as [|? ? Hnin Hnd']; subst.
  destruct Hin as [E|Hin].
  - inversion E; subst. rewrite beqb_refl. reflexivity.
  - destruct (beqb k0 k) eqn:E.
    + apply beqb_eq in E. subst. exfalso. apply Hnin. apply (in_map fst) in Hin. exact Hin.
    + apply IH; assumption.
Qed.

Lemma in_get k m : get k m <> 0 -> In (k, get k m) m.
Proof.
  induction m as [|[k0 c0] m IH]; cbn; intros H; [contradiction|].
  destruct (beqb k0 k) eqn:E.
  - apply beqb_eq in E. subst. left. reflexivity.
  - right. apply IH. exact H.
Qed.

Lemma wf_in_iff m k c : wf m -> (In (k, c) m <-> c = get k m /\ 0 < c).
Proof.
  intros [Hnd Hpos]. split.
  - intros Hin. split; [symmetry; apply get_in; assumption|].
    rewrite Forall_forall in Hpos. apply (Hpos _ Hin).
  - intros [-> Hc]. apply in_get. lia.
Qed.

Lemma wf_key_iff m k : wf m -> (In k (keys m) <-> 0 < get k m).
Proof.
  intros Hwf. split.
  - intros Hin. apply in_map_iff in Hin as ([k0 c] & E & Hin). cbn in E. subst k0.
    apply (wf_in_iff m k c Hwf) in Hin as [-> Hc]. exact Hc.
  - intros Hc. assert (Hin : In (k, get k m) m) by (apply in_get; lia).
    apply (in_map fst) in Hin. exact Hin.
Qed.

(* ---------- the entry order ---------- *)

Lemma bltb_lt a b : bltb a b = true <-> bcompare a b = Lt.
Proof. unfold bltb. destruct (bcompare a b); split; intros; congruence. Qed.

Lemma e_ltb_lt a b : e_ltb a b = true <-> e_lt a b.
Proof.
  unfold e_ltb, e_lt. destruct (snd a =? snd b) eqn:E.
  - apply Z.eqb_eq in E. rewrite bltb_lt. split; [intros H; right; auto|intros [H|[_ H]]; [lia|exact H]].
  - apply Z.eqb_neq in E. rewrite Z.ltb_lt. split; [intros H; left; exact H|intros [H|[H _]]; [exact H|contradiction]].
Qed.

Lemma e_lt_irrefl a : ~ e_lt a a.
Proof. intros [H|[_ H]]; [lia|]. rewrite bcompare_refl in H. discriminate. Qed.

Lemma e_lt_trans a b c : e_lt a b -> e_lt b c -> e_lt a c.
Proof.
  intros [H1|[E1 H1]] [H2|[E2 H2]].
  - left; lia.
  - left; lia.
  - left; lia.
  - right. split; [lia|]. eapply bcompare_trans_lt; eauto.
Qed.

Lemma e_lt_total a b : fst a <> fst b -> e_lt a b \/ e_lt b a.
Proof.
  intros Hne. unfold e_lt.
  destruct (Z.lt_trichotomy (snd a) (snd b)) as [H|[H|H]]; [right; left; exact H| |left; left; exact H].
  destruct (bcompare (fst a) (fst b)) eqn:E.
  - apply bcompare_eq in E. contradiction.
  - left. right. auto.
  - right. right. split; [lia|]. rewrite bcompare_antisym, E. reflexivity.
Qed.

(* ---------- insertion sort ---------- *)

Lemma insert_perm x l : Permutation (insert_entry x l) (x :: l).
Proof.
  induction l as [|y l IH]; cbn; [reflexivity|].
  destruct (e_ltb x y); [reflexivity|].
  rewrite IH. apply perm_swap.
Qed.

Lemma sort_perm l : Permutation (sort_entries l) l.
Proof.
  induction l as [|x l IH]; cbn; [reflexivity|].
  rewrite insert_perm. constructor. exact IH.
Qed.

Lemma sort_in e l : In e (sort_entries l) <-> In e l.
Proof.
  split; apply Permutation_in; [apply sort_perm|symmetry; apply sort_perm].
Qed.

Lemma insert_sorted x l :
  NoDup (keys (x :: l)) -> StronglySorted e_lt l -> StronglySorted e_lt (insert_entry x l).
Proof.
  induction l as [|y l IH]; cbn; intros Hnd Hs.
  - constructor; constructor.
  - inversion Hs as [|? ? Hs' Hall]; subst.
    destruct (e_ltb x y) eqn:E.
    + apply e_ltb_lt in E. constructor; [exact Hs|].
      constructor; [exact E|]. rewrite Forall_forall in *. intros z Hz.
      eapply e_lt_trans; [exact E|apply Hall; exact Hz].
    + assert (Hxy : e_lt y x).
      { destruct (e_lt_total x y) as [H|H]; [| |exact H].
        - inversion Hnd as [|? ? Hnin _]; subst. intros Heq. apply Hnin. left. symmetry. exact Heq.
        - apply e_ltb_lt in H. congruence. }
      constructor.
      * apply IH; [|exact Hs'].
        inversion Hnd as [|? ? Hnin Hnd']; subst. inversion Hnd' as [|? ? Hnin' Hnd'']; subst.
        cbn. constructor; [|exact Hnd'']. intros Hin. apply Hnin. right. exact Hin.
      * rewrite Forall_forall in *. intros z Hz.
        apply (Permutation_in _ (insert_perm x l)) in Hz. destruct Hz as [<-|Hz]; [exact Hxy|auto].
Qed.

Lemma sort_sorted l : NoDup (keys l) -> StronglySorted e_lt (sort_entries l).
Proof.
  induction l as [|x l IH]; cbn; intros Hnd; [constructor|].
  inversion Hnd as [|? ? Hnin Hnd']; subst.
  apply insert_sorted; [|apply IH; exact Hnd'].
  cbn. constructor; [|].
  - intros Hin. apply Hnin. unfold keys in *.
    eapply Permutation_in; [apply Permutation_map; apply sort_perm|exact Hin].
  - eapply Permutation_NoDup; [apply Permutation_map; symmetry; apply sort_perm|exact Hnd'].
Qed.

(* a strictly sorted list is determined by its set of elements: this is what makes one
   deterministic sort function a faithful model of sort.Sort over a randomly ordered Go map *)
Lemma sorted_unique l1 l2 :
  StronglySorted e_lt l1 -> StronglySorted e_lt l2 -> (forall e, In e l1 <-> In e l2) -> l1 = l2.
Proof.
  revert l2. induction l1 as [|a l1 IH]; intros l2 H1 H2 Hiff.
  - destruct l2 as [|b l2]; [reflexivity|]. exfalso. apply (proj2 (Hiff b)). left. reflexivity.
  - destruct l2 as [|b l2]; [exfalso; apply (proj1 (Hiff a)); left; reflexivity|].
    inversion H1 as [|? ? H1' A1]; subst. inversion H2 as [|? ? H2' A2]; subst.
    rewrite Forall_forall in A1, A2.
    assert (a = b).
    { destruct (proj1 (Hiff a) (or_introl eq_refl)) as [E|Ha]; [auto|].
      destruct (proj2 (Hiff b) (or_introl eq_refl)) as [E|Hb]; [auto|].
      exfalso. apply (e_lt_irrefl a). eapply e_lt_trans; [apply A1; exact Hb|apply A2; exact Ha]. }
    subst b. f_equal. apply IH; [exact H1'|exact H2'|].
    intros e. split; intros He.
    + destruct (proj1 (Hiff e) (or_intror He)) as [E|H]; [|exact H].
      subst e. exfalso. apply (e_lt_irrefl a). apply A1. exact He.
    + destruct (proj2 (Hiff e) (or_intror He)) as [E|H]; [|exact H].
      subst e. exfalso. apply (e_lt_irrefl a). apply A2. exact He.
Qed.

Lemma SS_app_lt {A} (R : A -> A -> Prop) l1 l2 :
  StronglySorted R (l1 ++ l2) -> forall a b, In a l1 -> In b l2 -> R a b.
Proof.
  induction l1 as [|x l1 IH]; cbn; intros Hs a b Ha Hb; [contradiction|].
  inversion Hs as [|? ? Hs' Hall]; subst. rewrite Forall_forall in Hall.
  destruct Ha as [<-|Ha].
  - apply Hall. apply in_or_app. right. exact Hb.
  - eapply IH; eauto.
Qed.

Lemma In_firstn_incl {A} n (l : list A) x : In x (firstn n l) -> In x l.
Proof.
  revert n. induction l as [|y l IH]; intros n H; destruct n; cbn in *; try contradiction.
  destruct H as [->|H]; [left; reflexivity|right; eapply IH; exact H].
Qed.

Lemma SS_firstn {A} (R : A -> A -> Prop) n l : StronglySorted R l -> StronglySorted R (firstn n l).
Proof.
  revert n. induction l as [|x l IH]; intros n Hs; destruct n; cbn; try constructor.
  - inversion Hs; subst. apply IH. assumption.
  - inversion Hs as [|? ? Hs' Hall]; subst. rewrite Forall_forall in *.
    intros y Hy. apply Hall. eapply (In_firstn_incl n); exact Hy.
Qed.

Lemma listed_b_iff es t : listed_b es t = true <-> In t (keys es).
Proof.
  unfold listed_b, keys. rewrite existsb_exists, in_map_iff. split.
  - intros (e & He & E). apply beqb_eq in E. exists e. auto.
  - intros (e & E & He). exists e. split; [exact He|]. apply beqb_eq. exact E.
Qed.

Lemma NoDup_app_disjoint {A} (l1 l2 : list A) x : NoDup (l1 ++ l2) -> In x l2 -> ~ In x l1.
Proof.
  induction l1 as [|y l1 IH]; cbn; intros Hnd Hx; [tauto|].
  inversion Hnd as [|? ? Hnin Hnd']; subst. intros [->|H].
  - apply Hnin. apply in_or_app. right. exact Hx.
  - exact (IH Hnd' Hx H).
Qed.

(* the counts beyond the first n sorted entries = the counts of the buckets not listed *)
Lemma skipn_sum_unlisted counts (cnt : bytes -> Z) n dom :
  wf counts -> (forall k, get k counts = cnt k) ->
  NoDup dom -> (forall k, In k dom <-> 0 < cnt k) ->
  zsum (map snd (skipn n (sort_entries counts))) =
  zsum (map (fun t => if listed_b (firstn n (sort_entries counts)) t then 0 else cnt t) dom).
Proof.
  intros Hwf Hget Hnd Hdom.
  set (srt := sort_entries counts). set (L := firstn n srt). set (K := skipn n srt).
  set (g := fun t => if listed_b L t then 0 else cnt t).
  assert (Hperm : Permutation srt counts) by apply sort_perm.
  assert (Hnds : NoDup (keys srt)).
  { eapply Permutation_NoDup; [apply Permutation_map; symmetry; exact Hperm|apply Hwf]. }
  assert (Hdk : Permutation dom (keys srt)).
  { apply NoDup_Permutation; [exact Hnd|exact Hnds|]. intros k.
    rewrite Hdom, <- Hget, <- (wf_key_iff _ _ Hwf). unfold keys.
    split; apply Permutation_in; apply Permutation_map; [symmetry|]; exact Hperm. }
  rewrite (zsum_perm _ _ (Permutation_map g Hdk)).
  assert (Esplit : keys srt = keys L ++ keys K).
  { unfold keys, L, K. rewrite <- map_app, firstn_skipn. reflexivity. }
  rewrite Esplit, map_app, zsum_app.
  assert (E1 : zsum (map g (keys L)) = 0).
  { apply zsum_map_zero. intros t Ht. unfold g. apply listed_b_iff in Ht. rewrite Ht. reflexivity. }
  rewrite E1. unfold keys at 1. rewrite map_map. cbn [Z.add].
  apply zsum_map_ext. intros [k c] Hin. cbn [fst snd]. unfold g.
  assert (Hnl : listed_b L k = false).
  { destruct (listed_b L k) eqn:E; [|reflexivity]. apply listed_b_iff in E. exfalso.
    rewrite Esplit in Hnds. apply (NoDup_app_disjoint _ _ k Hnds); [|exact E].
    apply (in_map fst) in Hin. exact Hin. }
  rewrite Hnl.
  assert (Hc : In (k, c) counts).
  { apply (Permutation_in _ Hperm). unfold K in Hin. rewrite <- (firstn_skipn n srt). apply in_or_app. right. exact Hin. }
  apply (wf_in_iff _ _ _ Hwf) in Hc as [-> _]. apply Hget.
Qed.

(* ---------- finish ---------- *)

Lemma finish_some size counts total missing r :
  finish size counts total missing = Some r ->
  0 <= size /\
  fr_entries r = firstn (Z.to_nat size) (sort_entries counts) /\
  fr_total r = total /\ fr_missing r = missing /\
  fr_other r = total - zsum (map snd (fr_entries r)).
Proof.
  unfold finish. destruct (size <? 0) eqn:E; [discriminate|].
  apply Z.ltb_ge in E. intros H. inversion H; subst; cbn. auto.
Qed.

Lemma finish_defined size counts total missing :
  0 <= size -> exists r, finish size counts total missing = Some r.
Proof.
  intros H. unfold finish. apply Z.ltb_ge in H. rewrite H. eexists. reflexivity.
Qed.

(* everything [finish] guarantees, for a count map described by a count function [cnt] *)
Lemma finish_spec size counts total missing r (cnt : bytes -> Z) :
  wf counts ->
  (forall k, get k counts = cnt k) ->
  finish size counts total missing = Some r ->
  (forall k c, In (k, c) (fr_entries r) -> c = cnt k /\ 0 < c) /\
  StronglySorted e_lt (fr_entries r) /\
  length (fr_entries r) = Nat.min (Z.to_nat size) (length counts) /\
  (forall k, 0 < cnt k -> ~ In k (keys (fr_entries r)) ->
     forall e, In e (fr_entries r) -> e_lt e (k, cnt k)) /\
  fr_total r = total /\ fr_missing r = missing /\
  fr_other r + zsum (map snd (fr_entries r)) = fr_total r /\
  fr_other r = (total - zsum (map snd counts)) +
               zsum (map snd (skipn (Z.to_nat size) (sort_entries counts))).
Proof.
  intros Hwf Hget Hfin. apply finish_some in Hfin as (Hsz & Hent & Htot & Hmis & Hoth).
  assert (Hss : StronglySorted e_lt (sort_entries counts)) by (apply sort_sorted; apply Hwf).
  set (n := Z.to_nat size) in *. pose (srt := sort_entries counts). fold srt in Hent, Hss.
  repeat split.
  - rewrite Hent in H. apply In_firstn_incl in H. apply (proj1 (sort_in _ counts)) in H.
    apply (wf_in_iff _ _ _ Hwf) in H as [-> _]. apply Hget.
  - rewrite Hent in H. apply In_firstn_incl in H. apply (proj1 (sort_in _ counts)) in H.
    apply (wf_in_iff _ _ _ Hwf) in H as [_ H]. exact H.
  - rewrite Hent. apply SS_firstn. exact Hss.
  - rewrite Hent, firstn_length. f_equal. apply Permutation_length. apply sort_perm.
  - intros k Hk Hnin e He.
    assert (Hin : In (k, cnt k) srt).
    { apply (proj2 (sort_in _ counts)). apply (wf_in_iff _ _ _ Hwf). rewrite Hget. auto. }
    rewrite <- (firstn_skipn n srt) in Hin, Hss. rewrite Hent in He, Hnin.
    apply in_app_or in Hin as [Hin|Hin].
    + exfalso. apply Hnin. apply (in_map fst) in Hin. exact Hin.
    + eapply SS_app_lt; eauto.
  - exact Htot.
  - exact Hmis.
  - lia.
  - rewrite Hoth, Hent.
    assert (E : zsum (map snd counts) = zsum (map snd (firstn n srt)) + zsum (map snd (skipn n srt))).
    { rewrite <- zsum_app, <- map_app, firstn_skipn. apply zsum_perm. apply Permutation_map.
      symmetry. apply sort_perm. }
    unfold n, srt in *. lia.
Qed.
