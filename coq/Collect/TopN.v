(* Collect engine — executable model of bleve's top-N collector (definitions only).

   Transcribed from /repo:
     search/sort.go            SortOrder.Compare, CompareScoreDescending, SortField.Value
                               (filterTermsByType, filterTermsByMode), SortField.Reverse, HighTerm/LowTerm
     search/collector/topn.go  newTopNCollector (getOptimalCollectorCompare, getOptimalCollectorStore),
                               TopNCollector.Collect (basicPrepare), MakeTopNDocumentMatchHandler,
                               createSearchAfterDocument, finalizeResults
     search/collector/slice.go collectStoreSlice.{add, removeLast, AddNotExceedingSize, Final}
     search/collector/heap.go  collectStoreHeap.{AddNotExceedingSize, Final, Less} over Go's
                               container/heap (Push/Pop/up/down transcribed as an explicit binary heap
                               on a list used as an array)
     index_impl.go             SearchInContext: From/Size/SearchAfter, and SearchBefore executed as
                               SearchAfter under the reversed sort followed by a re-sort
   (search/collector/list.go is not reachable from getOptimalCollectorStore and is not modelled.)

   Scores are Z keys: the harness passes the IEEE-754 bit pattern of a float64 score that is
   +0 or positive and finite; on those the bit pattern orders exactly as the float does.
   Sort keys are byte strings ([list Z]); Go's string comparison is bytewise lexicographic = [bcompare].
   Sizes, skips and array positions are [nat] (they are lengths / positions in a list). *)
From Coq Require Import ZArith List Bool.
From Verif Require Import Common.Bytes.
Import ListNotations.
Local Open Scope Z_scope.

(* ---------------------------------------------------------------- matches and sort orders *)

(* a match as delivered by the searcher (before the collector numbers it) *)
Record rmatch := { rid : bytes; rscore : Z; rkeys : list bytes }.

(* search.DocumentMatch as far as the collector looks at it *)
Record dmatch := { hit : Z; did : bytes; score : Z; keys : list bytes }.

(* one SearchSort: SortScore | SortDocID | SortField{Type, Mode, Missing}; [desc] = Descending() *)
Inductive skind :=
| KScore
| KId
| KField (ty : Z)            (* 0 auto, 1 string, 2 number, 3 date  (SortFieldType) *)
         (mode : Z)          (* 0 default(first), 1 min, 2 max       (SortFieldMode) *)
         (missing_first : bool).
Record skey := { kind : skind; desc : bool }.
Definition sort_order := list skey.

Definition is_score (k : skey) : bool := match kind k with KScore => true | _ => false end.

Definition zcmp3 (a b : Z) : Z := if a <? b then -1 else if b <? a then 1 else 0.
Definition bcmp3 (a b : bytes) : Z := match bcompare a b with Lt => -1 | Eq => 0 | Gt => 1 end.

(* SortOrder.Compare, the loop over the sort keys ([i.Sort[x]] of a slot that is out of range
   would panic in Go; here it reads as the empty string — never exercised: keys are aligned) *)
Fixpoint cmp_keys (so : sort_order) (si sj : Z) (ki kj : list bytes) : Z :=
  match so with
  | [] => 0
  | k :: so' =>
      let c := if is_score k then zcmp3 si sj else bcmp3 (hd [] ki) (hd [] kj) in
      if c =? 0 then cmp_keys so' si sj (tl ki) (tl kj)
      else if desc k then - c else c
  end.

(* SortOrder.Compare: keys, then "impose order based on index natural sort order" *)
Definition compare (so : sort_order) (i j : dmatch) : Z :=
  let c := cmp_keys so (score i) (score j) (keys i) (keys j) in
  if c =? 0 then
    (if hit i =? hit j then 0 else if hit j <? hit i then 1 else -1)
  else c.

(* search.CompareScoreDescending *)
Definition compare_score_desc (i j : dmatch) : Z :=
  if score i <? score j then 1
  else if score j <? score i then -1
  else if hit j <? hit i then 1
  else if hit i <? hit j then -1
  else 0.

(* getOptimalCollectorCompare *)
Definition collector_cmp (so : sort_order) : dmatch -> dmatch -> Z :=
  match so with
  | [k] => if is_score k && desc k then compare_score_desc else compare so
  | _ => compare so
  end.

(* SortOrder.Reverse: SortScore/SortDocID flip Desc; SortField flips Desc and Missing *)
Definition reverse_key (k : skey) : skey :=
  {| kind := match kind k with
             | KField ty mode mf => KField ty mode (negb mf)
             | x => x
             end;
     desc := negb (desc k) |}.
Definition reverse_so (so : sort_order) : sort_order := map reverse_key so.

(* ---------------------------------------------------------------- SortField.Value *)

Definition shift_start_int64 : Z := 32.      (* numeric.ShiftStartInt64 = 0x20 *)

(* numeric.ValidPrefixCodedTermBytes: Some shift | None *)
Definition valid_prefix_coded (p : bytes) : option Z :=
  match p with
  | [] => None
  | b0 :: _ =>
      if (b0 <? shift_start_int64) || (shift_start_int64 + 63 <? b0) then None
      else
        let shift := b0 - shift_start_int64 in
        let nchars := (63 - shift) / 7 + 1 in
        if Z.of_nat (length p) =? nchars + 1 then Some shift else None
  end.

Definition is_shift0 (t : bytes) : bool :=
  match valid_prefix_coded t with Some s => s =? 0 | None => false end.
Definition is_valid_pc (t : bytes) : bool :=
  match valid_prefix_coded t with Some _ => true | None => false end.

(* SortField.filterTermsByType *)
Definition filter_terms_by_type (ty : Z) (terms : list bytes) : list bytes :=
  if ty =? 0 then
    let zero := filter is_shift0 terms in
    if forallb is_valid_pc terms && negb (match zero with [] => true | _ => false end)
    then zero else terms
  else if (ty =? 2) || (ty =? 3) then filter is_shift0 terms
  else terms.

(* strings.Repeat(string(utf8.MaxRune), 3): U+10FFFF is f4 8f bf bf *)
Definition high_term : bytes := [244;143;191;191; 244;143;191;191; 244;143;191;191].
Definition low_term : bytes := [0].

Fixpoint bmin (a : bytes) (l : list bytes) : bytes :=
  match l with [] => a | b :: l' => bmin (if bltb b a then b else a) l' end.
Fixpoint bmax (a : bytes) (l : list bytes) : bytes :=
  match l with [] => a | b :: l' => bmax (if bltb a b then b else a) l' end.

(* SortField.filterTermsByMode (sort.Sort(BytesSlice) then first / last = least / greatest) *)
Definition filter_terms_by_mode (mode : Z) (missing_first dsc : bool) (terms : list bytes) : bytes :=
  match terms with
  | [t] => t
  | t :: rest =>
      if mode =? 0 then t
      else if mode =? 1 then bmin t rest
      else if mode =? 2 then bmax t rest
      else (* unknown mode with several terms falls through to "missing" *)
        if negb missing_first then (if dsc then low_term else high_term)
        else (if dsc then high_term else low_term)
  | [] =>
      if negb missing_first then (if dsc then low_term else high_term)
      else (if dsc then high_term else low_term)
  end.

Definition score_sort_value : bytes := [95;115;99;111;114;101].   (* "_score" *)

(* SearchSort.Value for one slot; [terms] = the doc values the visitor saw for the slot's field *)
Definition key_value (k : skey) (id : bytes) (terms : list bytes) : bytes :=
  match kind k with
  | KScore => score_sort_value
  | KId => id
  | KField ty mode mf => filter_terms_by_mode mode mf (desc k) (filter_terms_by_type ty terms)
  end.

(* SortOrder.Value: one key per slot *)
Fixpoint sort_values (so : sort_order) (id : bytes) (terms : list (list bytes)) : list bytes :=
  match so with
  | [] => []
  | k :: so' => key_value k id (hd [] terms) :: sort_values so' id (tl terms)
  end.

(* ---------------------------------------------------------------- the two stores *)

Section Stores.
  Variable cmp : dmatch -> dmatch -> Z.

  (* --- slice.go: a slice kept sorted best-first *)

  (* collectStoreSlice.add walks from the END of the slice; [ins_back d r] is that walk on the
     reversed slice [r]: stop at the first element [e] (from the end) with cmp(d, e) >= 0 *)
  Fixpoint ins_back (d : dmatch) (r : list dmatch) : list dmatch :=
    match r with
    | [] => [d]
    | e :: r' => if 0 <=? cmp d e then d :: r else e :: ins_back d r'
    end.
  Definition slice_add (d : dmatch) (s : list dmatch) : list dmatch := rev (ins_back d (rev s)).

  (* collectStoreSlice.AddNotExceedingSize: new slice, removed element *)
  Definition slice_add_not_exceeding (d : dmatch) (size : nat) (s : list dmatch)
    : list dmatch * option dmatch :=
    let s' := slice_add d s in
    if (size <? length s')%nat
    then (removelast s', nth_error s' (length s' - 1))
    else (s', None).

  (* collectStoreSlice.Final *)
  Definition slice_final (skip : nat) (s : list dmatch) : list dmatch :=
    if (skip <=? length s)%nat then skipn skip s else [].

  (* --- heap.go over container/heap: the slice [h] is the heap array *)

  (* collectStoreHeap.Less(i, j): -compare(h[i], h[j]) < 0 *)
  Definition less (h : list dmatch) (i j : nat) : bool :=
    match nth_error h i, nth_error h j with
    | Some a, Some b => 0 <? cmp a b
    | _, _ => false          (* index out of range panics in Go; never reached *)
    end.

  Fixpoint set_nth (h : list dmatch) (i : nat) (x : dmatch) : list dmatch :=
    match h, i with
    | [], _ => []
    | _ :: t, O => x :: t
    | y :: t, S i' => y :: set_nth t i' x
    end.

  (* collectStoreHeap.Swap *)
  Definition swap (h : list dmatch) (i j : nat) : list dmatch :=
    match nth_error h i, nth_error h j with
    | Some a, Some b => set_nth (set_nth h i b) j a
    | _, _ => h
    end.

  (* container/heap.up(h, j); fuel = number of loop iterations allowed *)
  Fixpoint up (fuel : nat) (h : list dmatch) (j : nat) : option (list dmatch) :=
    match fuel with
    | O => None
    | S f =>
        let i := ((j - 1) / 2)%nat in       (* parent; (0-1)/2 = 0 in Go (truncation) and here *)
        if (i =? j)%nat || negb (less h j i) then Some h
        else up f (swap h i j) i
    end.

  (* container/heap.down(h, i0, n)  (its int-overflow guard [j1 < 0] cannot fire on nat) *)
  Fixpoint down (fuel : nat) (h : list dmatch) (i n : nat) : option (list dmatch) :=
    match fuel with
    | O => None
    | S f =>
        let j1 := (2 * i + 1)%nat in
        if (n <=? j1)%nat then Some h
        else
          let j := if ((j1 + 1 <? n)%nat && less h (j1 + 1) j1) then (j1 + 1)%nat else j1 in
          if negb (less h j i) then Some h
          else down f (swap h i j) j n
    end.

  (* heap.Push(c, doc): c.Push appends, then up(h, Len-1) *)
  Definition heap_push (d : dmatch) (h : list dmatch) : option (list dmatch) :=
    let h' := h ++ [d] in
    up (length h') h' (length h' - 1).

  (* heap.Pop(c): n := Len-1; Swap(0, n); down(0, n); c.Pop() takes the last element off *)
  Definition heap_pop (h : list dmatch) : option (dmatch * list dmatch) :=
    match length h with
    | O => None                       (* index out of range in Go *)
    | S n =>
        match down (S n) (swap h 0 n) 0 n with
        | None => None
        | Some h' =>
            match nth_error h' n with
            | Some x => Some (x, firstn n h')
            | None => None
            end
        end
    end.

  (* collectStoreHeap.AddNotExceedingSize *)
  Definition heap_add_not_exceeding (d : dmatch) (size : nat) (h : list dmatch)
    : option (list dmatch * option dmatch) :=
    match heap_push d h with
    | None => None
    | Some h' =>
        if (size <? length h')%nat then
          match heap_pop h' with
          | Some (x, h'') => Some (h'', Some x)
          | None => None
          end
        else Some (h', None)
    end.

  (* the loop of collectStoreHeap.Final: [n] pops, rv[i] filled from the back, so the element
     popped last comes first *)
  Fixpoint pop_n (n : nat) (h : list dmatch) (acc : list dmatch) : option (list dmatch) :=
    match n with
    | O => Some acc
    | S n' =>
        match heap_pop h with
        | Some (x, h') => pop_n n' h' (x :: acc)
        | None => None
        end
    end.

  (* collectStoreHeap.Final: size := count - skip; if size <= 0 return empty *)
  Definition heap_final (skip : nat) (h : list dmatch) : option (list dmatch) :=
    pop_n (length h - skip) h [].

End Stores.

(* ---------------------------------------------------------------- the collector *)

Definition store_switch : nat := 10.             (* "if size+skip > 10" in getOptimalCollectorStore *)
Definition prealloc_size_skip_cap : nat := 1000. (* PreAllocSizeSkipCap *)
Definition check_done_every : Z := 1024.         (* CheckDoneEvery: context poll period; no effect
                                                    on results with a live context *)

(* getOptimalCollectorStore: which store; the backing capacity only pre-sizes the allocation *)
Definition use_heap (size skip : nat) : bool := (store_switch <? size + skip)%nat.
Definition backing_size (size skip : nat) : nat :=
  if (prealloc_size_skip_cap <? size + skip)%nat then S prealloc_size_skip_cap else S (size + skip).

(* the search-after sentinel of createSearchAfterDocument: encoded sort keys and, when a key is
   the score, the parsed score *)
Record after_doc := { sa_keys : list bytes; sa_score : Z }.

Record cstate := {
  st_store : list dmatch;        (* slice (sorted, best first) or heap array *)
  st_lowest : option dmatch;     (* lowestMatchOutsideResults *)
  st_total : Z;                  (* hc.total *)
  st_max : Z                     (* hc.maxScore (bit pattern; starts at +0.0 = 0) *)
}.

Definition init_state : cstate :=
  {| st_store := []; st_lowest := None; st_total := 0; st_max := 0 |}.

Definition add_not_exceeding (heap : bool) (cmp : dmatch -> dmatch -> Z) (d : dmatch) (k : nat)
  (s : list dmatch) : option (list dmatch * option dmatch) :=
  if heap then heap_add_not_exceeding cmp d k s else Some (slice_add_not_exceeding cmp d k s).

(* the closure returned by MakeTopNDocumentMatchHandler, on a prepared match *)
Definition handle (cmp : dmatch -> dmatch -> Z) (heap : bool) (k : nat) (sa : option after_doc)
  (st : cstate) (d : dmatch) : option cstate :=
  let dropped_by_after :=
    match sa with
    | Some a =>
        (* hc.searchAfter.HitNumber = d.HitNumber; if hc.cmp(d, hc.searchAfter) <= 0 { skip } *)
        let s := {| hit := hit d; did := []; score := sa_score a; keys := sa_keys a |} in
        cmp d s <=? 0
    | None => false
    end in
  if dropped_by_after then Some st
  else
    let dropped_by_lowest :=
      match st_lowest st with
      | Some l => 0 <=? cmp d l          (* hc.cmp(d, lowestMatchOutsideResults) >= 0 *)
      | None => false
      end in
    if dropped_by_lowest then Some st
    else
      match add_not_exceeding heap cmp d k (st_store st) with
      | None => None
      | Some (s', removed) =>
          let low' :=
            match removed with
            | None => st_lowest st
            | Some r =>
                match st_lowest st with
                | None => Some r
                | Some l => if cmp r l <? 0 then Some r else Some l
                end
            end in
          Some {| st_store := s'; st_lowest := low'; st_total := st_total st; st_max := st_max st |}
      end.

(* one iteration of the Collect loop: basicPrepare (count, number, max score), then the handler *)
Definition collect_step (cmp : dmatch -> dmatch -> Z) (heap : bool) (k : nat) (sa : option after_doc)
  (st : cstate) (m : rmatch) : option cstate :=
  let total' := st_total st + 1 in
  let d := {| hit := total'; did := rid m; score := rscore m; keys := rkeys m |} in
  let max' := if st_max st <? rscore m then rscore m else st_max st in
  handle cmp heap k sa
    {| st_store := st_store st; st_lowest := st_lowest st; st_total := total'; st_max := max' |} d.

Fixpoint collect_loop (cmp : dmatch -> dmatch -> Z) (heap : bool) (k : nat) (sa : option after_doc)
  (st : cstate) (ms : list rmatch) : option cstate :=
  match ms with
  | [] => Some st
  | m :: ms' =>
      match collect_step cmp heap k sa st m with
      | None => None
      | Some st' => collect_loop cmp heap k sa st' ms'
      end
  end.

Record cresult := { results : list dmatch; total : Z; max_score : Z }.

(* NewTopNCollector(size, skip, sort) / NewTopNCollectorAfter(size, sort, after) + Collect +
   finalizeResults.  None only if heap fuel ran out (proved impossible). *)
Definition collect (so : sort_order) (size skip : nat) (sa : option after_doc) (ms : list rmatch)
  : option cresult :=
  let cmp := collector_cmp so in
  let heap := use_heap size skip in
  match collect_loop cmp heap (size + skip) sa init_state ms with
  | None => None
  | Some st =>
      let fin := if heap then heap_final cmp skip (st_store st)
                 else Some (slice_final skip (st_store st)) in
      match fin with
      | None => None
      | Some rs => Some {| results := rs; total := st_total st; max_score := st_max st |}
      end
  end.

(* ---------------------------------------------------------------- the spec *)

(* the arrival stream with the hit numbers Collect assigns: 1, 2, 3, ... *)
Fixpoint number_from (n : Z) (ms : list rmatch) : list dmatch :=
  match ms with
  | [] => []
  | m :: ms' =>
      {| hit := n + 1; did := rid m; score := rscore m; keys := rkeys m |} :: number_from (n + 1) ms'
  end.
Definition numbered (ms : list rmatch) : list dmatch := number_from 0 ms.

(* insertion sort; [insert_by] puts [x] in front of the first element that sorts after it *)
Fixpoint insert_by (cmp : dmatch -> dmatch -> Z) (x : dmatch) (l : list dmatch) : list dmatch :=
  match l with
  | [] => [x]
  | y :: l' => if cmp x y <? 0 then x :: l else y :: insert_by cmp x l'
  end.
Definition sort_by (cmp : dmatch -> dmatch -> Z) (l : list dmatch) : list dmatch :=
  fold_left (fun acc x => insert_by cmp x acc) l [].

(* all matches in the requested order, ties broken by hit number *)
Definition sorted_matches (so : sort_order) (ms : list rmatch) : list dmatch :=
  sort_by (compare so) (numbered ms).

(* SPEC: positions skip .. skip+size of the fully sorted match list *)
Definition spec_page (so : sort_order) (size skip : nat) (ms : list rmatch) : list dmatch :=
  firstn size (skipn skip (sorted_matches so ms)).

(* SPEC with a search-after sentinel: the first [size] of the sorted matches that sort strictly
   after the sentinel (which takes every match's own hit number, so equal keys do not pass) *)
Definition passes_after (so : sort_order) (a : after_doc) (d : dmatch) : bool :=
  0 <? compare so d {| hit := hit d; did := []; score := sa_score a; keys := sa_keys a |}.
Definition spec_after (so : sort_order) (size : nat) (a : after_doc) (ms : list rmatch) : list dmatch :=
  firstn size (filter (passes_after so a) (sorted_matches so ms)).

Definition spec_total (ms : list rmatch) : Z := Z.of_nat (length ms).
Definition spec_max_score (ms : list rmatch) : Z := fold_left (fun a m => Z.max a (rscore m)) ms 0.

(* ---------------------------------------------------------------- Index.Search paging *)

Inductive page_req :=
| PFrom (from : nat)
| PAfter (a : after_doc)
| PBefore (a : after_doc).

(* index_impl.go SearchInContext, the part that concerns C06:
   SearchBefore: Sort.Reverse(); SearchAfter := SearchBefore; collect; Sort.Reverse();
   sort hits with the original order (sort.Sort over searchHitSorter — modelled by [sort_by]:
   the sorted permutation, unique because hit numbers differ). *)
Definition search (so : sort_order) (size : nat) (p : page_req) (ms : list rmatch) : option cresult :=
  match p with
  | PFrom from => collect so size from None ms
  | PAfter a => collect so size 0 (Some a) ms
  | PBefore a =>
      match collect (reverse_so so) size 0 (Some a) ms with
      | None => None
      | Some r => Some {| results := sort_by (compare so) (results r);
                          total := total r; max_score := max_score r |}
      end
  end.

(* the sentinel a client builds from a hit of an earlier page (its Sort / DecodedSort values) *)
Definition after_of (d : dmatch) : after_doc := {| sa_keys := keys d; sa_score := score d |}.
