(* Collect engine — the correspondence check as evaluated (terms decoded once per case) is the
   check as defined (model and spec applied to the visited terms). *)
From Coq Require Import ZArith List Bool Lia.
From Verif Require Import Common.Bytes Numeric.Model Collect.Facets Collect.FacetsLemmas
     Collect.FacetsProofs Collect.FacetsRangeProofs Collect.FacetsCorr.
Import ListNotations.
Local Open Scope Z_scope.

Lemma forallb_ext' {A} (f g : A -> bool) l : (forall x, f x = g x) -> forallb f l = forallb g l.
Proof. intros H. induction l as [|x l IH]; cbn; [reflexivity|]. rewrite H, IH. reflexivity. Qed.

Lemma predecoded_vals {T V} (vo : T -> option V) (ms : list (list T)) (oidv : option V -> option V) :
  (forall o, oidv o = o) ->
  map (doc_vals oidv) (map (map vo) ms) = map (doc_vals vo) ms.
Proof.
  intros Hid. rewrite map_map. apply map_ext. intros d.
  apply (doc_vals_map vo vo oidv). intros t. rewrite Hid. reflexivity.
Qed.

Lemma run_ok_is_direct tdocs ndocs ddocs r :
  run_ok tdocs (map (map num_value_of) ndocs) (map (map date_value_of) ddocs)
         (map (doc_vals oid) (map (map num_value_of) ndocs))
         (map (doc_vals oid) (map (map date_value_of) ddocs))
         (range_missing ndocs) (range_missing ddocs) r
  = run_ok_direct tdocs ndocs ddocs r.
Proof.
  destruct r as [size p rx impl|size ranges impl|size ranges impl]; cbn [run_ok run_ok_direct].
  - reflexivity.
  - rewrite (predecoded_vals num_value_of ndocs oid) by reflexivity.
    unfold numeric_facet.
    rewrite (range_facet_map nr_name num_inr num_value_of num_value_of oid) by reflexivity.
    reflexivity.
  - rewrite (predecoded_vals date_value_of ddocs oid) by reflexivity.
    unfold date_facet.
    rewrite (range_facet_map dr_name date_inr date_value_of date_value_of oid) by reflexivity.
    reflexivity.
Qed.

Theorem check_is_direct c : check c = check_direct c.
Proof.
  destruct c as [tv nv dv runs]. unfold check, check_direct. cbn zeta.
  f_equal. apply forallb_ext'. intros r. apply run_ok_is_direct.
Qed.

(* the documents handed to model and spec by the check never hold a term twice, so the listed
   counts are numbers of matching documents ([terms_facet_spec], second clause) *)
Lemma checked_docs_nodup tv d : In d (map dv_text tv) -> NoDup d.
Proof. intros H. apply in_map_iff in H as (v & <- & _). apply dedup_NoDup. Qed.
