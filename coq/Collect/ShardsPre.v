(* Collect engine — executable model of the alias PRE-SEARCH (definitions only).

   Transcribed from /repo:
     search/util.go        FieldTermSynonymMap.MergeWith (f[field][term] = append(f[field][term], synonyms...))
     pre_search.go         synonymPreSearchResultProcessor.add / finalize (the first non-nil SynonymResult
                           becomes the accumulator, later ones are merged into it), bm25PreSearchResultProcessor
                           .add / finalize (DocCount and per-field cardinalities add up),
                           createPreSearchResultProcessor (one processor per raised flag; knn never raised here)
     index_alias_impl.go   preSearchRequired (synonyms: query is not match-none, the ALIAS' OWN mapping —
                           SetIndexMapping — has synonym sources and a queried field has one; bm25: the context
                           asks for global scoring and the alias' own mapping scores with BM25),
                           preSearch / preSearchDataSearch (members asked under PreSearchKey, results combined
                           in arrival order, finalize), indexAliasImpl.SearchInContext: the PreSearchKey branch
                           (an alias that is a member of another alias answers a pre-search with
                           flags{synonyms = query is not match-none, bm25 = its own mapping scores with BM25}),
                           redistributePreSearchData (synonym map and BM25 stats handed on unchanged), the
                           single-member short circuit (NO pre-search there, PreSearchData handed on),
                           constructPreSearchData / constructSynonymPreSearchData / constructBM25PreSearchData
                           (every member gets the same merged map / stats), "req.PreSearchData == nil && flags
                           != nil" (pre-search runs at most once on a path from the root)
     index_impl.go         what a member INDEX answers to a pre-search request (indexImpl.preSearch) and which
                           documents it matches when a synonym map / BM25 stats arrive in PreSearchData
                           (SearchInContext: the map replaces the index' own thesaurus lookup) are NOT
                           re-modelled: both are taken from the real member ([sl_pre], and the listing
                           [sl_leaf] made under [sl_used]).

   The pre-search only decides WHICH PreSearchData reaches each member; the page/merge logic (Shards.v) does
   not look at it.  So the model is two-phase: [resolve] walks the alias tree exactly as SearchInContext
   does, computes the data that reaches every member and checks that the member's listing was made under
   that data; the resulting plain [tree] is searched by [Shards.search].

   Go maps are association lists here; Go's map iteration order is unspecified, so two maps are the same
   when they hold the same (field, term, synonym) triples ([fts_equiv]; duplicates — the same synonym
   appended twice by MergeWith when a definition is replicated — do not change which documents match). *)
From Coq Require Import ZArith List Bool.
From Verif Require Import Common.Bytes Collect.Shards.
Import ListNotations.
Local Open Scope Z_scope.

(* ---------------------------------------------------------------- search.FieldTermSynonymMap *)

Definition tmap := list (bytes * list bytes).           (* term -> synonyms *)
Definition fts := list (bytes * tmap).                  (* field -> term -> synonyms *)

(* f[field][term] = append(f[field][term], synonyms...) *)
Fixpoint tmap_append (m : tmap) (term : bytes) (syns : list bytes) : tmap :=
  match m with
  | [] => [(term, syns)]
  | (t, s) :: m' => if beqb t term then (t, s ++ syns) :: m' else (t, s) :: tmap_append m' term syns
  end.
Definition tmap_merge (m other : tmap) : tmap :=
  fold_left (fun acc ts => tmap_append acc (fst ts) (snd ts)) other m.

(* "if _, exists := f[field]; !exists { f[field] = make(map[string][]string) }" then the loop over terms *)
Fixpoint fts_merge_field (f : fts) (field : bytes) (tm : tmap) : fts :=
  match f with
  | [] => [(field, tmap_merge [] tm)]
  | (fd, m) :: f' => if beqb fd field then (fd, tmap_merge m tm) :: f'
                     else (fd, m) :: fts_merge_field f' field tm
  end.
(* FieldTermSynonymMap.MergeWith *)
Definition fts_merge_with (f other : fts) : fts :=
  fold_left (fun acc ft => fts_merge_field acc (fst ft) (snd ft)) other f.

(* the content of a map: its (field, term, synonym) triples *)
Definition triple := (bytes * bytes * bytes)%type.
Definition tmap_triples (field : bytes) (m : tmap) : list triple :=
  flat_map (fun ts => map (fun s => (field, fst ts, s)) (snd ts)) m.
Definition fts_triples (f : fts) : list triple := flat_map (fun ft => tmap_triples (fst ft) (snd ft)) f.

Definition triple_eqb (a b : triple) : bool :=
  beqb (fst (fst a)) (fst (fst b)) && beqb (snd (fst a)) (snd (fst b)) && beqb (snd a) (snd b).
Definition triples_incl (a b : list triple) : bool := forallb (fun x => existsb (triple_eqb x) b) a.
Definition triples_equiv (a b : list triple) : bool := triples_incl a b && triples_incl b a.
Definition fts_equiv (a b : fts) : bool := triples_equiv (fts_triples a) (fts_triples b).

(* ---------------------------------------------------------------- pre-search results and their processors *)

(* search.BM25Stats: DocCount (a float64 holding a count: a Z here) and FieldCardinality *)
Record bm25 := { bm_count : Z; bm_cards : list (bytes * Z) }.

(* what a member answers to a pre-search request, as far as the processors read it:
   SearchResult.SynonymResult and SearchResult.BM25Stats; [None] = Go nil *)
Record presult := { p_syn : option fts; p_bm25 : option bm25 }.

Record flags := { fl_syn : bool; fl_bm25 : bool }.      (* preSearchFlags (knn is never set here) *)

(* synonymPreSearchResultProcessor.add *)
Definition syn_add (acc : option fts) (r : presult) : option fts :=
  match p_syn r with
  | None => acc                                          (* sr.SynonymResult == nil: return *)
  | Some s => match acc with
              | None => Some s                           (* s.finalizedFts = sr.SynonymResult *)
              | Some a => Some (fts_merge_with a s)
              end
  end.

(* b.fieldCardinality[field] += cardinality *)
Fixpoint cards_add (m : list (bytes * Z)) (field : bytes) (c : Z) : list (bytes * Z) :=
  match m with
  | [] => [(field, c)]
  | (f, x) :: m' => if beqb f field then (f, x + c) :: m' else (f, x) :: cards_add m' field c
  end.
(* bm25PreSearchResultProcessor.add *)
Definition bm_add (acc : bm25) (r : presult) : bm25 :=
  match p_bm25 r with
  | None => acc
  | Some b => {| bm_count := bm_count acc + bm_count b;
                 bm_cards := fold_left (fun m fc => cards_add m (fst fc) (snd fc)) (bm_cards b) (bm_cards acc) |}
  end.
Definition bm_zero : bm25 := {| bm_count := 0; bm_cards := [] |}.

(* preSearchDataSearch: the processors of the raised flags see every member's result in arrival
   order, then finalize (the synonym one leaves SynonymResult nil when no member had any; the BM25
   one always sets the stats) *)
Definition presearch_combine (fl : flags) (rs : list presult) : presult :=
  {| p_syn := if fl_syn fl then fold_left syn_add rs None else None;
     p_bm25 := if fl_bm25 fl then Some (fold_left bm_add rs bm_zero) else None |}.

(* ---------------------------------------------------------------- the request / mapping facts the flags depend on *)

Record pcfg := {
  c_matchnone : bool;   (* isMatchNoneQuery(req.Query) *)
  c_synfield : bool;    (* the shared mapping has synonym sources and a field the query searches has one *)
  c_bm25 : bool;        (* the shared mapping's ScoringModel is bm25 *)
  c_global : bool       (* the context carries SearchTypeKey = GlobalScoring *)
}.

(* preSearchRequired for an alias whose own mapping is set ([mapped]) or nil *)
Definition pre_required (c : pcfg) (mapped : bool) : option flags :=
  let syn := negb (c_matchnone c) && mapped && c_synfield c in
  let bm := negb (c_matchnone c) && c_global c && mapped && c_bm25 c in
  if syn || bm then Some {| fl_syn := syn; fl_bm25 := bm |} else None.

(* ---------------------------------------------------------------- PreSearchData handed to a member *)

(* the two keys a member looks at; [pd_syn = Some m]: SynonymPreSearchDataKey is present (a nil map
   reads as the empty one: the member then skips its own thesaurus lookup and expands nothing) *)
Record pdata := { pd_syn : option fts; pd_bm25 : option bm25 }.

(* constructPreSearchData *)
Definition construct (fl : flags) (r : presult) : pdata :=
  {| pd_syn := if fl_syn fl then Some (match p_syn r with Some s => s | None => [] end) else None;
     pd_bm25 := if fl_bm25 fl then p_bm25 r else None |}.

Fixpoint cards_get (m : list (bytes * Z)) (f : bytes) : option Z :=
  match m with
  | [] => None
  | (f', x) :: m' => if beqb f' f then Some x else cards_get m' f
  end.
Definition bm_eqb (a b : bm25) : bool :=
  (bm_count a =? bm_count b) &&
  forallb (fun f => option_eqb Z.eqb (cards_get (bm_cards a) f) (cards_get (bm_cards b) f))
          (map fst (bm_cards a) ++ map fst (bm_cards b)).
Definition pdata_eqb (a b : pdata) : bool :=
  option_eqb fts_equiv (pd_syn a) (pd_syn b) && option_eqb bm_eqb (pd_bm25 a) (pd_bm25 b).

(* ---------------------------------------------------------------- alias trees with pre-search inputs *)

Record sleaf := {
  sl_pre : presult;            (* the member's answer to the pre-search request (indexImpl.preSearch) *)
  sl_used : option pdata;      (* the PreSearchData under which [sl_leaf] was listed; None = none *)
  sl_leaf : leaf               (* the member's matches / MaxScore / facets under [sl_used] *)
}.

Inductive stree := SLeaf (sl : sleaf) | SAlias (mapped : bool) (members : list stree).

(* SearchInContext under PreSearchKey: a member index answers [sl_pre]; a member alias runs
   preSearchDataSearch over its own members with flags{synonyms: !isMatchNoneQuery, bm25: isBM25Enabled(i.mapping)} *)
Fixpoint presearch (c : pcfg) (t : stree) {struct t} : presult :=
  match t with
  | SLeaf sl => sl_pre sl
  | SAlias m cs =>
      presearch_combine {| fl_syn := negb (c_matchnone c); fl_bm25 := m && c_bm25 c |} (map (presearch c) cs)
  end.

(* the PreSearchData an alias hands to its members, given the data that came with the request *)
Definition alias_data (c : pcfg) (mapped : bool) (cs : list stree) (data : option pdata) : option pdata :=
  match cs with
  | [] | [_] => data                       (* ErrorAliasEmpty / short circuit: handed on, no pre-search *)
  | _ =>
      match data with
      | Some _ => data                     (* already pre-searched: redistributePreSearchData *)
      | None =>
          match pre_required c mapped with
          | Some fl => Some (construct fl (presearch_combine fl (map (presearch c) cs)))
          | None => None
          end
      end
  end.

(* every member index with the PreSearchData that reaches it *)
Fixpoint leaf_data (c : pcfg) (t : stree) (data : option pdata) {struct t} : list (sleaf * option pdata) :=
  match t with
  | SLeaf sl => [(sl, data)]
  | SAlias m cs => flat_map (fun k => leaf_data c k (alias_data c m cs data)) cs
  end.

Definition odata_eqb := option_eqb pdata_eqb.

Fixpoint sequence {A} (l : list (option A)) : option (list A) :=
  match l with
  | [] => Some []
  | None :: _ => None
  | Some x :: l' => match sequence l' with Some r => Some (x :: r) | None => None end
  end.

(* the plain alias tree the real search runs over; None = a member's listing was not made under the
   data the model says reaches it (the case is then rejected) *)
Fixpoint resolve (c : pcfg) (t : stree) (data : option pdata) {struct t} : option tree :=
  match t with
  | SLeaf sl => if odata_eqb data (sl_used sl) then Some (Leaf (sl_leaf sl)) else None
  | SAlias m cs =>
      match sequence (map (fun k => resolve c k (alias_data c m cs data)) cs) with
      | Some ts => Some (Alias ts)
      | None => None
      end
  end.

(* IndexAlias.Search with the pre-search phase *)
Definition search_pre (g : guard) (c : pcfg) (t : stree) (rq : request) : option result :=
  match resolve c t None with
  | Some t' => search g t' rq
  | None => None
  end.

Fixpoint sleaves (t : stree) : list sleaf :=
  match t with
  | SLeaf sl => [sl]
  | SAlias _ cs => flat_map sleaves cs
  end.

Fixpoint all_mapped (t : stree) : bool :=
  match t with
  | SLeaf _ => true
  | SAlias m cs => m && forallb all_mapped cs
  end.

Fixpoint wf_stree (t : stree) : bool :=
  match t with
  | SLeaf _ => true
  | SAlias _ cs => match cs with [] => false | _ => forallb wf_stree cs end
  end.

(* ---------------------------------------------------------------- SPEC side: the whole thesaurus *)

Definition osyn_triples (o : option fts) : list triple := match o with Some s => fts_triples s | None => [] end.

(* the synonyms (for this query) of one index holding every definition: the union of the members' *)
Definition global_triples (t : stree) : list triple :=
  flat_map (fun sl => osyn_triples (p_syn (sl_pre sl))) (sleaves t).

(* the synonyms a member index expands the query with: the map it was handed, else its own thesaurus *)
Definition effective_triples (sl : sleaf) (d : option pdata) : list triple :=
  match d with
  | Some pd => match pd_syn pd with Some s => fts_triples s | None => osyn_triples (p_syn (sl_pre sl)) end
  | None => osyn_triples (p_syn (sl_pre sl))
  end.

(* every member index searches with the whole thesaurus: the configuration in which the alias has to
   answer as the single index does (an alias that was not given the mapping runs no pre-search; its
   members then know only their own definitions) *)
Definition whole_thesaurus (c : pcfg) (t : stree) : bool :=
  forallb (fun sd => triples_equiv (effective_triples (fst sd) (snd sd)) (global_triples t)) (leaf_data c t None).

(* no member index expands the query with synonyms, handed or its own (then scores do not depend on
   the order / multiplicity in which synonyms were appended or read from the thesaurus) *)
Definition no_synonyms_used (c : pcfg) (t : stree) : bool :=
  forallb (fun sd => match effective_triples (fst sd) (snd sd) with [] => true | _ => false end)
          (leaf_data c t None).
