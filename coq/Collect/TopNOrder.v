(* Collect engine — the comparison of Collect/TopN.v is a total preorder on matches that is a
   strict total order as soon as hit numbers differ; the score-descending fast path equals the
   generic comparison. *)
From Coq Require Import ZArith List Bool Lia.
From Verif Require Import Common.Bytes Collect.TopN.
Import ListNotations.
Local Open Scope Z_scope.

(* ---------------------------------------------------------------- one sort slot *)

Lemma zcmp3_range a b : zcmp3 a b = -1 \/ zcmp3 a b = 0 \/ zcmp3 a b = 1.
Proof. unfold zcmp3. destruct (a <? b); [lia|]. destruct (b <? a); lia. Qed.

Lemma zcmp3_spec a b :
  (zcmp3 a b = -1 /\ a < b) \/ (zcmp3 a b = 0 /\ a = b) \/ (zcmp3 a b = 1 /\ b < a).
Proof.
  unfold zcmp3. destruct (a <? b) eqn:E1; [left; lia|].
  destruct (b <? a) eqn:E2; [right; right; lia | right; left; lia].
Qed.

Lemma bcmp3_spec a b :
  (bcmp3 a b = -1 /\ bcompare a b = Lt) \/ (bcmp3 a b = 0 /\ a = b) \/ (bcmp3 a b = 1 /\ bcompare b a = Lt).
Proof.
  unfold bcmp3. destruct (bcompare a b) eqn:E.
  - right; left. split; [reflexivity|]. apply bcompare_eq; exact E.
  - left. auto.
  - right; right. split; [reflexivity|]. rewrite bcompare_antisym, E. reflexivity.
Qed.

Lemma bcompare_lt_irrefl a : bcompare a a <> Lt.
Proof. rewrite bcompare_refl. discriminate. Qed.

Lemma bcompare_lt_asym a b : bcompare a b = Lt -> bcompare b a = Lt -> False.
Proof. intros H1 H2. rewrite bcompare_antisym, H1 in H2. discriminate. Qed.

(* the comparison of one slot: scores or the slot's key strings *)
Definition slot (k : skey) (s1 s2 : Z) (x1 x2 : bytes) : Z :=
  if is_score k then zcmp3 s1 s2 else bcmp3 x1 x2.

(* a slot comparison is the sign of a strict total order: described by a ternary relation *)
Definition sign3 (c12 c23 c13 : Z) : Prop :=   (* c12 c23 c13 consistent *)
    (c12 = -1 \/ c12 = 0 \/ c12 = 1) /\ (c23 = -1 \/ c23 = 0 \/ c23 = 1) /\ (c13 = -1 \/ c13 = 0 \/ c13 = 1) /\
    (c12 = 0 -> c13 = c23) /\ (c23 = 0 -> c13 = c12) /\
    (c12 = -1 -> c23 = -1 -> c13 = -1) /\ (c12 = 1 -> c23 = 1 -> c13 = 1).

Lemma slot_sign3 k s1 s2 s3 x1 x2 x3 :
  sign3 (slot k s1 s2 x1 x2) (slot k s2 s3 x2 x3) (slot k s1 s3 x1 x3).
Proof.
  unfold slot. destruct (is_score k).
  - destruct (zcmp3_spec s1 s2) as [[E1 H1]|[[E1 H1]|[E1 H1]]];
    destruct (zcmp3_spec s2 s3) as [[E2 H2]|[[E2 H2]|[E2 H2]]];
    destruct (zcmp3_spec s1 s3) as [[E3 H3]|[[E3 H3]|[E3 H3]]];
    rewrite E1, E2, E3; unfold sign3; lia.
  - destruct (bcmp3_spec x1 x2) as [[E1 H1]|[[E1 H1]|[E1 H1]]];
    destruct (bcmp3_spec x2 x3) as [[E2 H2]|[[E2 H2]|[E2 H2]]];
    destruct (bcmp3_spec x1 x3) as [[E3 H3]|[[E3 H3]|[E3 H3]]];
    rewrite E1, E2, E3; subst;
    try (exfalso; eapply bcompare_lt_irrefl; eassumption);
    try (exfalso; eapply bcompare_lt_asym; eassumption);
    try (exfalso; eapply bcompare_lt_irrefl; eapply bcompare_trans_lt; eassumption);
    try (exfalso; eapply bcompare_lt_asym; [eapply bcompare_trans_lt; eassumption|eassumption]);
    try (exfalso; eapply bcompare_lt_asym; [eassumption|eapply bcompare_trans_lt; eassumption]);
    unfold sign3; lia.
Qed.

Lemma slot_refl k s x : slot k s s x x = 0.
Proof.
  unfold slot. destruct (is_score k).
  - unfold zcmp3. rewrite Z.ltb_irrefl. reflexivity.
  - unfold bcmp3. rewrite bcompare_refl. reflexivity.
Qed.

Lemma slot_anti k s1 s2 x1 x2 : slot k s2 s1 x2 x1 = - slot k s1 s2 x1 x2.
Proof.
  unfold slot. destruct (is_score k).
  - unfold zcmp3. destruct (s1 <? s2) eqn:E1, (s2 <? s1) eqn:E2; lia.
  - unfold bcmp3. rewrite (bcompare_antisym x1 x2). destruct (bcompare x1 x2); reflexivity.
Qed.

Lemma slot_range k s1 s2 x1 x2 :
  slot k s1 s2 x1 x2 = -1 \/ slot k s1 s2 x1 x2 = 0 \/ slot k s1 s2 x1 x2 = 1.
Proof. destruct (slot_sign3 k s1 s2 s2 x1 x2 x2) as (H & _). exact H. Qed.

Lemma slot_eq_l k s1 s2 s3 x1 x2 x3 :
  slot k s1 s2 x1 x2 = 0 -> slot k s1 s3 x1 x3 = slot k s2 s3 x2 x3.
Proof. destruct (slot_sign3 k s1 s2 s3 x1 x2 x3) as (_ & _ & _ & H & _). exact H. Qed.
Lemma slot_eq_r k s1 s2 s3 x1 x2 x3 :
  slot k s2 s3 x2 x3 = 0 -> slot k s1 s3 x1 x3 = slot k s1 s2 x1 x2.
Proof. destruct (slot_sign3 k s1 s2 s3 x1 x2 x3) as (_ & _ & _ & _ & H & _). exact H. Qed.
Lemma slot_lt_trans k s1 s2 s3 x1 x2 x3 :
  slot k s1 s2 x1 x2 = -1 -> slot k s2 s3 x2 x3 = -1 -> slot k s1 s3 x1 x3 = -1.
Proof. destruct (slot_sign3 k s1 s2 s3 x1 x2 x3) as (_ & _ & _ & _ & _ & H & _). exact H. Qed.
Lemma slot_gt_trans k s1 s2 s3 x1 x2 x3 :
  slot k s1 s2 x1 x2 = 1 -> slot k s2 s3 x2 x3 = 1 -> slot k s1 s3 x1 x3 = 1.
Proof. destruct (slot_sign3 k s1 s2 s3 x1 x2 x3) as (_ & _ & _ & _ & _ & _ & H). exact H. Qed.

(* ---------------------------------------------------------------- all sort keys *)

Lemma cmp_keys_unfold k so s1 s2 k1 k2 :
  cmp_keys (k :: so) s1 s2 k1 k2 =
  let c := slot k s1 s2 (hd [] k1) (hd [] k2) in
  if c =? 0 then cmp_keys so s1 s2 (tl k1) (tl k2) else if desc k then - c else c.
Proof. reflexivity. Qed.

Lemma cmp_keys_range so s1 s2 k1 k2 :
  cmp_keys so s1 s2 k1 k2 = -1 \/ cmp_keys so s1 s2 k1 k2 = 0 \/ cmp_keys so s1 s2 k1 k2 = 1.
Proof.
  revert k1 k2; induction so as [|k so IH]; intros k1 k2; [cbn; lia|].
  rewrite cmp_keys_unfold. cbv zeta.
  pose proof (slot_range k s1 s2 (hd [] k1) (hd [] k2)) as R.
  destruct (slot k s1 s2 (hd [] k1) (hd [] k2) =? 0) eqn:E; [apply IH|].
  destruct (desc k); lia.
Qed.

Lemma cmp_keys_refl so s k : cmp_keys so s s k k = 0.
Proof.
  revert k; induction so as [|x so IH]; intros k; [reflexivity|].
  rewrite cmp_keys_unfold. cbv zeta. rewrite slot_refl. cbn. apply IH.
Qed.

Lemma cmp_keys_anti so s1 s2 k1 k2 : cmp_keys so s2 s1 k2 k1 = - cmp_keys so s1 s2 k1 k2.
Proof.
  revert k1 k2; induction so as [|k so IH]; intros k1 k2; [reflexivity|].
  rewrite !cmp_keys_unfold. cbv zeta. rewrite (slot_anti k s1 s2).
  pose proof (slot_range k s1 s2 (hd [] k1) (hd [] k2)) as R.
  destruct (slot k s1 s2 (hd [] k1) (hd [] k2) =? 0) eqn:E.
  - apply Z.eqb_eq in E. rewrite E. cbn. apply IH.
  - apply Z.eqb_neq in E.
    replace (- slot k s1 s2 (hd [] k1) (hd [] k2) =? 0) with false by (symmetry; apply Z.eqb_neq; lia).
    destruct (desc k); lia.
Qed.

(* equal on the keys: interchangeable in any comparison *)
Lemma cmp_keys_eq_l so s1 s2 s3 k1 k2 k3 :
  cmp_keys so s1 s2 k1 k2 = 0 -> cmp_keys so s1 s3 k1 k3 = cmp_keys so s2 s3 k2 k3.
Proof.
  revert k1 k2 k3; induction so as [|k so IH]; intros k1 k2 k3 H; [reflexivity|].
  rewrite !cmp_keys_unfold in *. cbv zeta in *.
  pose proof (slot_range k s1 s2 (hd [] k1) (hd [] k2)) as R.
  destruct (slot k s1 s2 (hd [] k1) (hd [] k2) =? 0) eqn:E.
  - apply Z.eqb_eq in E. rewrite (slot_eq_l k s1 s2 s3 _ _ (hd [] k3) E).
    destruct (slot k s2 s3 (hd [] k2) (hd [] k3) =? 0); [apply IH; exact H|reflexivity].
  - apply Z.eqb_neq in E. destruct (desc k); lia.
Qed.

Lemma cmp_keys_eq_r so s1 s2 s3 k1 k2 k3 :
  cmp_keys so s2 s3 k2 k3 = 0 -> cmp_keys so s1 s3 k1 k3 = cmp_keys so s1 s2 k1 k2.
Proof.
  intros H.
  assert (H' : cmp_keys so s3 s2 k3 k2 = 0) by (rewrite cmp_keys_anti, H; reflexivity).
  pose proof (cmp_keys_eq_l so s3 s2 s1 k3 k2 k1 H') as E.
  rewrite (cmp_keys_anti so s1 s3 k1 k3), (cmp_keys_anti so s1 s2 k1 k2) in E. lia.
Qed.

Lemma cmp_keys_lt_trans so s1 s2 s3 k1 k2 k3 :
  cmp_keys so s1 s2 k1 k2 < 0 -> cmp_keys so s2 s3 k2 k3 < 0 -> cmp_keys so s1 s3 k1 k3 < 0.
Proof.
  revert k1 k2 k3; induction so as [|k so IH]; intros k1 k2 k3 H12 H23; [cbn in *; lia|].
  rewrite !cmp_keys_unfold in *. cbv zeta in *.
  pose proof (slot_range k s1 s2 (hd [] k1) (hd [] k2)) as R12.
  pose proof (slot_range k s2 s3 (hd [] k2) (hd [] k3)) as R23.
  destruct (slot k s1 s2 (hd [] k1) (hd [] k2) =? 0) eqn:E12.
  - apply Z.eqb_eq in E12. rewrite (slot_eq_l k s1 s2 s3 _ _ (hd [] k3) E12).
    destruct (slot k s2 s3 (hd [] k2) (hd [] k3) =? 0); [eapply IH; eassumption|exact H23].
  - apply Z.eqb_neq in E12.
    destruct (slot k s2 s3 (hd [] k2) (hd [] k3) =? 0) eqn:E23.
    + apply Z.eqb_eq in E23. rewrite (slot_eq_r k s1 s2 s3 (hd [] k1) _ _ E23).
      apply Z.eqb_neq in E12. rewrite E12. exact H12.
    + apply Z.eqb_neq in E23.
      destruct (desc k).
      * assert (A : slot k s1 s2 (hd [] k1) (hd [] k2) = 1) by lia.
        assert (B : slot k s2 s3 (hd [] k2) (hd [] k3) = 1) by lia.
        rewrite (slot_gt_trans k s1 s2 s3 _ _ _ A B). reflexivity.
      * assert (A : slot k s1 s2 (hd [] k1) (hd [] k2) = -1) by lia.
        assert (B : slot k s2 s3 (hd [] k2) (hd [] k3) = -1) by lia.
        rewrite (slot_lt_trans k s1 s2 s3 _ _ _ A B). reflexivity.
Qed.

(* ---------------------------------------------------------------- compare *)

Definition hit_cmp (i j : dmatch) : Z :=
  if hit i =? hit j then 0 else if hit j <? hit i then 1 else -1.

Lemma compare_unfold so i j :
  compare so i j =
  let c := cmp_keys so (score i) (score j) (keys i) (keys j) in if c =? 0 then hit_cmp i j else c.
Proof. reflexivity. Qed.

Lemma hit_cmp_spec a b :
  (hit_cmp a b = -1 /\ hit a < hit b) \/ (hit_cmp a b = 0 /\ hit a = hit b) \/ (hit_cmp a b = 1 /\ hit b < hit a).
Proof.
  unfold hit_cmp. destruct (hit a =? hit b) eqn:E1; [right; left; lia|].
  destruct (hit b <? hit a) eqn:E2; [right; right; lia|left; lia].
Qed.

Lemma compare_range so a b : compare so a b = -1 \/ compare so a b = 0 \/ compare so a b = 1.
Proof.
  rewrite compare_unfold. cbv zeta.
  pose proof (cmp_keys_range so (score a) (score b) (keys a) (keys b)) as R.
  destruct (cmp_keys so (score a) (score b) (keys a) (keys b) =? 0); [|exact R].
  destruct (hit_cmp_spec a b) as [[E _]|[[E _]|[E _]]]; rewrite E; lia.
Qed.

Lemma compare_refl so a : compare so a a = 0.
Proof.
  rewrite compare_unfold. cbv zeta. rewrite cmp_keys_refl. cbn.
  unfold hit_cmp. rewrite Z.eqb_refl. reflexivity.
Qed.

Lemma compare_anti so a b : compare so b a = - compare so a b.
Proof.
  rewrite !compare_unfold. cbv zeta. rewrite (cmp_keys_anti so (score a) (score b)).
  pose proof (cmp_keys_range so (score a) (score b) (keys a) (keys b)) as R.
  destruct (cmp_keys so (score a) (score b) (keys a) (keys b) =? 0) eqn:E.
  - apply Z.eqb_eq in E. rewrite E. cbn.
    destruct (hit_cmp_spec a b) as [[E1 H1]|[[E1 H1]|[E1 H1]]];
    destruct (hit_cmp_spec b a) as [[E2 H2]|[[E2 H2]|[E2 H2]]]; lia.
  - apply Z.eqb_neq in E.
    replace (- cmp_keys so (score a) (score b) (keys a) (keys b) =? 0) with false
      by (symmetry; apply Z.eqb_neq; lia).
    reflexivity.
Qed.

(* compare = 0 exactly when keys compare equal and the hit numbers coincide *)
Lemma compare_eq_inv so a b :
  compare so a b = 0 -> cmp_keys so (score a) (score b) (keys a) (keys b) = 0 /\ hit a = hit b.
Proof.
  rewrite compare_unfold. cbv zeta.
  destruct (cmp_keys so (score a) (score b) (keys a) (keys b) =? 0) eqn:E.
  - apply Z.eqb_eq in E. intros H. split; [exact E|].
    destruct (hit_cmp_spec a b) as [[E1 H1]|[[E1 H1]|[E1 H1]]]; lia.
  - apply Z.eqb_neq in E. intros H. lia.
Qed.

Lemma compare_eq_hit so a b : compare so a b = 0 -> hit a = hit b.
Proof. intros H. apply (compare_eq_inv so a b H). Qed.

Lemma compare_keys_lt so a b :
  compare so a b < 0 ->
  cmp_keys so (score a) (score b) (keys a) (keys b) < 0 \/
  (cmp_keys so (score a) (score b) (keys a) (keys b) = 0 /\ hit a < hit b).
Proof.
  rewrite compare_unfold. cbv zeta.
  destruct (cmp_keys so (score a) (score b) (keys a) (keys b) =? 0) eqn:E.
  - apply Z.eqb_eq in E. intros H. right. split; [exact E|].
    destruct (hit_cmp_spec a b) as [[E1 H1]|[[E1 H1]|[E1 H1]]]; lia.
  - intros H. left. exact H.
Qed.

Lemma compare_of_keys_lt so a b :
  cmp_keys so (score a) (score b) (keys a) (keys b) < 0 -> compare so a b < 0.
Proof.
  intros H. rewrite compare_unfold. cbv zeta.
  replace (cmp_keys so (score a) (score b) (keys a) (keys b) =? 0) with false
    by (symmetry; apply Z.eqb_neq; lia). exact H.
Qed.

Lemma compare_of_keys_eq so a b :
  cmp_keys so (score a) (score b) (keys a) (keys b) = 0 -> compare so a b = hit_cmp a b.
Proof. intros H. rewrite compare_unfold. cbv zeta. rewrite H. reflexivity. Qed.

Lemma compare_lt_trans so a b c : compare so a b < 0 -> compare so b c < 0 -> compare so a c < 0.
Proof.
  intros H1 H2.
  destruct (compare_keys_lt so a b H1) as [K1|[K1 N1]];
  destruct (compare_keys_lt so b c H2) as [K2|[K2 N2]].
  - apply compare_of_keys_lt. eapply cmp_keys_lt_trans; eassumption.
  - apply compare_of_keys_lt. rewrite (cmp_keys_eq_r so _ _ _ (keys a) _ _ K2). exact K1.
  - apply compare_of_keys_lt. rewrite (cmp_keys_eq_l so _ _ _ _ _ (keys c) K1). exact K2.
  - rewrite compare_of_keys_eq.
    + destruct (hit_cmp_spec a c) as [[E1 G1]|[[E1 G1]|[E1 G1]]]; lia.
    + rewrite (cmp_keys_eq_l so _ _ _ _ _ (keys c) K1). exact K2.
Qed.

Lemma compare_eq_l so a b c : compare so a b = 0 -> compare so a c = compare so b c.
Proof.
  intros H. destruct (compare_eq_inv so a b H) as [K N].
  rewrite !compare_unfold. cbv zeta. rewrite (cmp_keys_eq_l so _ _ _ _ _ (keys c) K).
  unfold hit_cmp. rewrite N. reflexivity.
Qed.

Lemma compare_le_trans so a b c : compare so a b <= 0 -> compare so b c <= 0 -> compare so a c <= 0.
Proof.
  intros H1 H2.
  destruct (Z.eq_dec (compare so a b) 0) as [E1|E1].
  - rewrite (compare_eq_l so a b c E1). exact H2.
  - destruct (Z.eq_dec (compare so b c) 0) as [E2|E2].
    + assert (E2' : compare so c b = 0) by (rewrite compare_anti, E2; reflexivity).
      pose proof (compare_eq_l so c b a E2') as E.
      rewrite (compare_anti so a c), (compare_anti so a b) in E. lia.
    + assert (compare so a c < 0) by (eapply compare_lt_trans with b; lia). lia.
Qed.

(* matches with different hit numbers are never equivalent: together with the above, a strict
   total order (irreflexive, transitive, total, asymmetric) on any set of matches with pairwise
   different hit numbers *)
Lemma compare_total so a b : hit a <> hit b -> compare so a b < 0 \/ compare so b a < 0.
Proof.
  intros H. pose proof (compare_range so a b) as R. pose proof (compare_anti so a b) as A.
  destruct (Z.eq_dec (compare so a b) 0) as [E|E]; [apply compare_eq_hit in E; contradiction|lia].
Qed.

(* ---------------------------------------------------------------- the specialised comparison *)

Lemma compare_score_desc_eq k a b :
  is_score k = true -> desc k = true -> compare_score_desc a b = compare [k] a b.
Proof.
  intros Hs Hd. unfold compare_score_desc, compare. cbn [cmp_keys]. rewrite Hs, Hd.
  unfold zcmp3.
  destruct (score a <? score b) eqn:E1; [reflexivity|].
  destruct (score b <? score a) eqn:E2; [reflexivity|]. cbn.
  destruct (hit a =? hit b) eqn:E3, (hit b <? hit a) eqn:E4, (hit a <? hit b) eqn:E5; lia.
Qed.

Lemma collector_cmp_eq so a b : collector_cmp so a b = compare so a b.
Proof.
  unfold collector_cmp. destruct so as [|k [|k' so]]; try reflexivity.
  destruct (is_score k) eqn:Hs; [|reflexivity]. destruct (desc k) eqn:Hd; [|reflexivity].
  cbn. apply compare_score_desc_eq; assumption.
Qed.
