(* Collect engine — terms facets through a tree of aliases (Shards.v): with a covering size, the
   facet result of any alias tree is the facet result of the union of the members' documents
   (every alias level merges its members' results and calls Fixup). *)
From Coq Require Import ZArith List Bool Lia Permutation.
From Verif Require Import Common.Bytes Collect.Shards Collect.ShardsSort Collect.ShardsProofs
  Collect.ShardsFacetProofs.
Import ListNotations.
Local Open Scope Z_scope.

Lemma search_some_of_wf_g g t : forall rq, wf_tree t = true -> exists r, search g t rq = Some r.
Proof.
  induction t as [lf|cs IH] using tree_ind'; intros rq Hwf; [eexists; reflexivity|].
  destruct cs as [|c [|c' cs']]; [discriminate| |eexists; reflexivity].
  inversion IH as [|? ? Hc _]; subst. cbn in Hwf. rewrite andb_true_r in Hwf.
  cbn [search]. apply Hc, Hwf.
Qed.

Section FacetTree.
  Variable g : guard.
  Let search_some_of_wf := search_some_of_wf_g g.
  Variable name : bytes.
  Variable size : Z.
  (* the term lists of the documents a member index matched (one list per document) *)
  Variable D : leaf -> list (list bytes).

  Definition tdocs (t : tree) : list (list bytes) := flat_map D (leaves t).
  (* every member's facet result is the terms facet of its own matches (statement of C10) *)
  Definition leaves_built (t : tree) : Prop :=
    Forall (fun lf => l_facets lf = [(name, terms_build size (D lf))]) (leaves t).
  Definition facet_rq (rq : request) : Prop := q_fsizes rq = [(name, size)].

  Lemma facet_rq_child rq : facet_rq rq -> facet_rq (child_request (reverse_for_before rq)).
  Proof. unfold facet_rq, child_request, reverse_for_before. destruct (q_before rq); cbn; auto. Qed.

  Lemma tdocs_alias cs : tdocs (Alias cs) = flat_map tdocs cs.
  Proof. unfold tdocs. cbn [leaves]. apply flat_map_flat_map. Qed.

  Lemma facets_merge_single f1 f2 :
    facets_merge [(name, f1)] [(name, f2)] = [(name, fres_merge f1 f2)].
  Proof.
    unfold facets_merge. cbn [fold_left fst snd facets_get]. rewrite beqb_refl.
    cbn [facets_update]. rewrite beqb_refl. reflexivity.
  Qed.

  Lemma fold_merge_facets (fs : list fres) : forall r0 f0,
    r_facets r0 = [(name, f0)] ->
    forall rest, map r_facets rest = map (fun f => [(name, f)]) fs ->
    r_facets (fold_left result_merge rest r0) = [(name, fold_left fres_merge fs f0)].
  Proof.
    induction fs as [|f fs IH]; intros r0 f0 H0 rest Hrest.
    - destruct rest; [exact H0|discriminate].
    - destruct rest as [|r rest]; [discriminate|]. cbn in Hrest. inversion Hrest as [[Hr Hrest']].
      cbn [fold_left]. apply IH; [|exact Hrest'].
      cbn [result_merge r_facets]. rewrite H0, Hr. apply facets_merge_single.
  Qed.

  Definition tree_facets_ok (t : tree) : Prop :=
    forall rq r, wf_tree t = true -> facet_rq rq -> leaves_built t ->
      zlen (terms_count (tdocs t)) <= size ->
      search g t rq = Some r -> r_facets r = [(name, terms_build size (tdocs t))].

  Lemma part_covered (cs : list tree) c :
    In c cs -> zlen (terms_count (flat_map tdocs cs)) <= size -> zlen (terms_count (tdocs c)) <= size.
  Proof.
    intros Hc Hcov. eapply Z.le_trans; [|exact Hcov]. apply terms_count_part_le. intro t.
    apply in_split in Hc as (A & B & ->). rewrite flat_map_app. cbn [flat_map].
    rewrite !concat_app, !occ_app.
    pose proof (occ_nonneg (concat (flat_map tdocs A)) t). pose proof (occ_nonneg (concat (flat_map tdocs B)) t). lia.
  Qed.

  Lemma leaves_built_part cs c : In c cs -> leaves_built (Alias cs) -> leaves_built c.
  Proof.
    unfold leaves_built. cbn [leaves]. intros Hc H. apply Forall_forall. intros lf Hlf.
    rewrite Forall_forall in H. apply H. apply in_flat_map. exists c. split; assumption.
  Qed.

  Lemma multi_facets_ok cs rq :
    cs <> [] -> Forall tree_facets_ok cs -> forallb wf_tree cs = true -> facet_rq rq ->
    leaves_built (Alias cs) -> zlen (terms_count (flat_map tdocs cs)) <= size ->
    r_facets (multi_search g rq (fun crq => map (fun c => search g c crq) cs))
    = [(name, terms_build size (flat_map tdocs cs))].
  Proof.
    intros Hne Hcs Hwf Hrq Hb Hcov.
    set (crq := child_request (reverse_for_before rq)).
    (* every member answers with the facet of its own documents *)
    assert (Haux : forall cs0, incl cs0 cs ->
              exists rs, map (fun c => search g c crq) cs0 = map Some rs /\
                         map r_facets rs = map (fun c => [(name, terms_build size (tdocs c))]) cs0).
    { induction cs0 as [|c cs0 IH]; intro Hin; [exists []; split; reflexivity|].
      destruct IH as (rs & E1 & E2); [intros c' Hc'; apply Hin; right; exact Hc'|].
      assert (Hc : In c cs) by (apply Hin; left; reflexivity).
      assert (Hwc : wf_tree c = true) by (eapply forallb_forall in Hwf; eauto).
      destruct (search_some_of_wf c crq Hwc) as [rc Es].
      exists (rc :: rs). cbn [map]. rewrite Es, E1, E2. split; [reflexivity|]. f_equal.
      rewrite Forall_forall in Hcs.
      apply (Hcs c Hc crq rc Hwc (facet_rq_child rq Hrq) (leaves_built_part cs c Hc Hb) (part_covered cs c Hc Hcov) Es). }
    destruct (Haux cs (incl_refl cs)) as (rs & Ers & Hfs). clear Haux.
    unfold multi_search. fold crq. rewrite Ers. cbn [r_facets]. rewrite Hrq. cbn [fold_left fst snd].
    unfold merge_results. rewrite oks_map_Some.
    destruct cs as [|c0 cs']; [congruence|]. destruct rs as [|r0 rs']; [discriminate|].
    cbn [map] in Hfs. inversion Hfs as [[H0 Hrest]].
    rewrite (fold_merge_facets (map (fun c => terms_build size (tdocs c)) cs') r0 (terms_build size (tdocs c0)) H0 rs').
    2:{ rewrite Hrest, map_map. reflexivity. }
    unfold facets_fixup. cbn [facets_update]. rewrite beqb_refl. f_equal. f_equal.
    rewrite <- map_map.
    rewrite (facet_merge_exact size (tdocs c0) (map tdocs cs')).
    - cbn [concat flat_map]. rewrite flat_map_concat_map. reflexivity.
    - cbn [concat]. rewrite <- flat_map_concat_map. exact Hcov.
  Qed.

  Lemma tree_facets_ok_all t : tree_facets_ok t.
  Proof.
    induction t as [lf|cs IH] using tree_ind'; intros rq r Hwf Hrq Hb Hcov Hs.
    - cbn in Hs. inversion Hs; subst. cbn [leaf_search r_facets].
      unfold leaves_built in Hb. cbn [leaves] in Hb. inversion Hb as [|? ? Hlf _]; subst.
      rewrite Hlf. unfold tdocs. cbn [leaves flat_map]. rewrite app_nil_r. reflexivity.
    - destruct cs as [|c [|c' cs']]; [discriminate| |].
      + inversion IH as [|? ? Hc _]; subst. cbn in Hwf. rewrite andb_true_r in Hwf.
        assert (E : tdocs (Alias [c]) = tdocs c) by (rewrite tdocs_alias; cbn; apply app_nil_r).
        rewrite E in *. cbn [search] in Hs.
        apply (Hc rq r Hwf Hrq); auto.
        apply (leaves_built_part [c] c); [left; reflexivity|exact Hb].
      + cbn [search] in Hs. inversion Hs; subst. rewrite tdocs_alias in *.
        apply (multi_facets_ok (c :: c' :: cs') rq); auto. discriminate.
  Qed.
End FacetTree.

(* through any tree of aliases: the terms facet of the union, when the size covers all its terms *)
Theorem alias_tree_facets : forall g name size (D : leaf -> list (list bytes)) t rq r,
  wf_tree t = true -> q_fsizes rq = [(name, size)] ->
  Forall (fun lf => l_facets lf = [(name, terms_build size (D lf))]) (leaves t) ->
  zlen (terms_count (flat_map D (leaves t))) <= size ->
  search g t rq = Some r ->
  r_facets r = [(name, terms_build size (flat_map D (leaves t)))].
Proof. intros g name size D t. exact (tree_facets_ok_all g name size D t). Qed.

(* hypotheses satisfiable on a non-trivial value: nested aliases, three members, one without matches
   (for the example a document's terms are carried in its stored-field values) *)
Definition exf_D (lf : leaf) : list (list bytes) := map (fun h => map snd (hfields h)) (l_matches lf).
Definition exf_leaf (docs : list (list bytes)) : leaf :=
  {| l_matches := map (fun ts => {| hkeys := []; hid := []; hnum := 0; hfields := map (fun t => ([], t)) ts |}) docs;
     l_maxscore := 0; l_facets := [([102], terms_build 3 docs)] |}.
Definition exf_tree : tree :=
  Alias [Leaf (exf_leaf [[[1]; [2]]; []]); Alias [Leaf (exf_leaf []); Leaf (exf_leaf [[[3]; [2]]; [[1]]])]].
Definition exf_rq : request :=
  {| q_desc := [false]; q_from := 0; q_size := 1; q_after := None; q_before := None; q_fsizes := [([102], 3)] |}.

Example alias_tree_facets_example :
  wf_tree exf_tree = true /\
  Forall (fun lf => l_facets lf = [([102], terms_build 3 (exf_D lf))]) (leaves exf_tree) /\
  zlen (terms_count (flat_map exf_D (leaves exf_tree))) <= 3 /\
  option_map r_facets (search GuardGt exf_tree exf_rq)
  = Some [([102], {| f_total := 5; f_missing := 1; f_other := 0;
                     f_terms := Some [([1], 2); ([2], 2); ([3], 1)]; f_nranges := None |})].
Proof.
  split; [reflexivity|]. split; [repeat constructor|]. split; [vm_compute; discriminate|].
  vm_compute. reflexivity.
Qed.
