(* Collect engine — facet correspondence cases: a corpus' matching documents (what the harness
   indexed for each document the implementation returned as a match), a list of runs (facet request
   + what Index.Search returned in SearchResult.Facets under some Size/From/Sort/SearchAfter
   setting), checked against the executable model AND the specification of Collect/Facets.v.

   The page settings of a run do not appear here on purpose: the model's answer depends on the
   match list only, so any dependence of the implementation on them shows up as a mismatch. *)
From Coq Require Import ZArith List Bool.
From Verif Require Import Common.Bytes Numeric.Model Collect.Facets.
Import ListNotations.
Local Open Scope Z_scope.

(* ---------- doc-value terms of a stored document (what the doc-value readers deliver) ----------
   Both engines keep, per document and field, the SET of indexed terms (zap doc-value section /
   uninverted cache / upsidedown back-index row), so a value indexed twice is visited once.  The
   order inside a document is irrelevant to the model (counts are sums). *)

(* index-time precision steps of numeric and datetime fields (document/field_numeric.go,
   field_datetime.go); Extracted/Obligations_C10.v re-checks them against the facts regenerated
   from /repo on every run *)
Definition dv_step_numeric : Z := 4.
Definition dv_step_datetime : Z := 4.

(* keyword analyser: one term per value, the value's bytes *)
Definition dv_text (vals : list bytes) : doc := dedup vals.

(* numeric field: prefix-coded terms of every shift 0, step, 2*step, ... of Float64ToInt64(value);
   [vals] are float64 bit patterns *)
Definition dv_num (vals : list Z) : doc :=
  dedup (flat_map (fun b => index_terms dv_step_numeric (f2i b)) vals).

(* datetime field: the same over UnixNano; [vals] are int64 nanoseconds *)
Definition dv_date (vals : list Z) : doc :=
  dedup (flat_map (fun ns => index_terms dv_step_datetime ns) vals).

Inductive run :=
| RTerms (size : Z) (prefix : bytes) (rx : option regex) (impl : facet_result)
| RNum (size : Z) (ranges : list nrange) (impl : facet_result)
| RDate (size : Z) (ranges : list drange) (impl : facet_result).

(* per matching document: values of the text / numeric / date facet field ([] = field absent) *)
Inductive case :=
| Case (tvals : list (list bytes)) (nvals : list (list Z)) (dvals : list (list Z)) (runs : list run).

Definition entry_eqb (a b : entry) : bool := beqb (fst a) (fst b) && (snd a =? snd b).

Definition result_eqb (a b : facet_result) : bool :=
  list_eqb entry_eqb (fr_entries a) (fr_entries b) &&
  (fr_total a =? fr_total b) && (fr_missing a =? fr_missing b) && (fr_other a =? fr_other b).

Definition model_agrees (m : option facet_result) (impl : facet_result) : bool :=
  match m with Some r => result_eqb r impl | None => false end.

(* ---------- the specification, evaluated directly on what the implementation returned ---------- *)

Fixpoint sorted_b (l : list entry) : bool :=
  match l with
  | [] => true
  | a :: l' => match l' with [] => true | b :: _ => e_ltb a b && sorted_b l' end
  end.

Definition zmin_len (size : Z) (n : nat) : Z := Z.min size (Z.of_nat n).

(* terms facet: every listed (t,c) has c = number of matching documents containing t and t passes
   the filter; listed in (count desc, term asc) order; as many as min(size, #buckets); every bucket
   not listed comes after every listed entry; Total = all visited terms; Other + sum listed = Total;
   Missing = matches without an accepted value *)
Definition terms_spec_ok (f : tfilter) (size : Z) (ms : list doc) (r : facet_result) : bool :=
  let es := fr_entries r in
  forallb (fun e => accept f (fst e) && (snd e =? terms_count ms (fst e)) && (0 <? snd e)) es &&
  sorted_b es &&
  (Z.of_nat (length es) =? zmin_len size (length (buckets f ms))) &&
  forallb (fun t => listed_b es t || forallb (fun e => e_ltb e (t, terms_count ms t)) es) (buckets f ms) &&
  (fr_total r =? total_spec ms) &&
  (fr_other r + zsum (map snd es) =? fr_total r) &&
  (fr_other r =? rejected_spec f ms + unlisted_spec f ms es) &&
  (fr_missing r =? missing_spec f ms).

Fixpoint names_distinct (l : list bytes) : bool :=
  match l with
  | [] => true
  | x :: l' => negb (existsb (beqb x) l') && names_distinct l'
  end.

Section RangeSpec.
  Context {R V : Type}.
  Variable rname : R -> bytes.
  Variable inr : R -> V -> bool.

  (* range facet: every listed (name,c) is a requested range with c = number of values of matching
     documents in it (> 0); order; min(size, #non-empty ranges) listed; non-empty ranges not listed
     come after; Total = sum over all ranges; Other + listed = Total; Missing = matches without a
     visited term.  [vss]: the decoded shift-0 values per matching document ([map doc_vals ms]);
     [missing]: [range_missing ms]. *)
  Definition range_spec_ok (ranges : list R) (size : Z) (vss : list (list V)) (missing : Z)
             (r : facet_result) : bool :=
    let es := fr_entries r in
    let rc := map (fun x => (rname x, range_count_vals inr x vss)) ranges in
    let nonempty := filter (fun p : entry => 0 <? snd p) rc in
    names_distinct (map fst rc) &&
    forallb (fun e => existsb (fun p => entry_eqb p e) nonempty) es &&
    sorted_b es &&
    (Z.of_nat (length es) =? zmin_len size (length nonempty)) &&
    forallb (fun p : entry => existsb (fun e : entry => beqb (fst e) (fst p)) es ||
                              forallb (fun e => e_ltb e p) es) nonempty &&
    (fr_total r =? zsum (map snd rc)) &&
    (fr_other r + zsum (map snd es) =? fr_total r) &&
    (fr_missing r =? missing).
End RangeSpec.

(* ---------- the check, as defined: model and spec on the visited terms ---------- *)

Definition run_ok_direct (tdocs ndocs ddocs : list doc) (r : run) : bool :=
  match r with
  | RTerms size p rx impl =>
      let f := {| tf_prefix := p; tf_regex := rx |} in
      model_agrees (terms_facet f size tdocs) impl && terms_spec_ok f size tdocs impl
  | RNum size ranges impl =>
      model_agrees (numeric_facet ranges size ndocs) impl &&
      range_spec_ok nr_name num_inr ranges size (map (doc_vals num_value_of) ndocs) (range_missing ndocs) impl
  | RDate size ranges impl =>
      model_agrees (date_facet ranges size ddocs) impl &&
      range_spec_ok dr_name date_inr ranges size (map (doc_vals date_value_of) ddocs) (range_missing ddocs) impl
  end.

Definition check_direct (c : case) : bool :=
  match c with
  | Case tv nv dv runs =>
      (length tv =? length nv)%nat && (length tv =? length dv)%nat &&
      forallb (run_ok_direct (map dv_text tv) (map dv_num nv) (map dv_date dv)) runs
  end.

(* ---------- the check, as evaluated: every term is decoded once per case, not once per run.
   FacetsCorrProofs.check_is_direct proves [check c = check_direct c] for every case. ---------- *)

Definition oid (o : option Z) : option Z := o.

Definition run_ok (tdocs : list doc) (npd dpd : list (list (option Z))) (nvs dvs : list (list Z))
           (nmiss dmiss : Z) (r : run) : bool :=
  match r with
  | RTerms size p rx impl =>
      let f := {| tf_prefix := p; tf_regex := rx |} in
      model_agrees (terms_facet f size tdocs) impl && terms_spec_ok f size tdocs impl
  | RNum size ranges impl =>
      model_agrees (range_facet nr_name oid num_inr ranges size npd) impl &&
      range_spec_ok nr_name num_inr ranges size nvs nmiss impl
  | RDate size ranges impl =>
      model_agrees (range_facet dr_name oid date_inr ranges size dpd) impl &&
      range_spec_ok dr_name date_inr ranges size dvs dmiss impl
  end.

Definition check (c : case) : bool :=
  match c with
  | Case tv nv dv runs =>
      let tdocs := map dv_text tv in
      let ndocs := map dv_num nv in
      let ddocs := map dv_date dv in
      let npd := map (map num_value_of) ndocs in
      let dpd := map (map date_value_of) ddocs in
      let nvs := map (doc_vals oid) npd in
      let dvs := map (doc_vals oid) dpd in
      (length tv =? length nv)%nat && (length tv =? length dv)%nat &&
      forallb (run_ok tdocs npd dpd nvs dvs (range_missing ndocs) (range_missing ddocs)) runs
  end.

(* what the model expects for each run, and whether the implementation's answer meets the spec *)
Definition explain (c : case) : list (option facet_result * bool) :=
  match c with
  | Case tv nv dv runs =>
      let tdocs := map dv_text tv in
      let ndocs := map dv_num nv in
      let ddocs := map dv_date dv in
      map (fun r =>
        match r with
        | RTerms size p rx impl =>
            let f := {| tf_prefix := p; tf_regex := rx |} in
            (terms_facet f size tdocs, terms_spec_ok f size tdocs impl)
        | RNum size ranges impl =>
            (numeric_facet ranges size ndocs,
             range_spec_ok nr_name num_inr ranges size (map (doc_vals num_value_of) ndocs) (range_missing ndocs) impl)
        | RDate size ranges impl =>
            (date_facet ranges size ddocs,
             range_spec_ok dr_name date_inr ranges size (map (doc_vals date_value_of) ddocs) (range_missing ddocs) impl)
        end) runs
  end.
