(* Collect engine — lemmas about the generic insertion sort of Shards.v and about sub-multisets:
   the order-free "truncation" lemmas behind top-k merging, sortedness, uniqueness of the sorted
   permutation under an order that is total / transitive / antisymmetric on a domain [P]. *)
From Coq Require Import ZArith List Bool Lia Permutation.
From Verif Require Import Common.Bytes Collect.Shards.
Import ListNotations.

(* ---------------------------------------------------------------- sub-multisets *)

Definition submset {A} (l' l : list A) : Prop := exists rest, Permutation (l' ++ rest) l.

Lemma submset_perm {A} (l1 l2 : list A) : Permutation l1 l2 -> submset l1 l2.
Proof. intro H. exists []. rewrite app_nil_r. exact H. Qed.

Lemma submset_refl {A} (l : list A) : submset l l.
Proof. apply submset_perm, Permutation_refl. Qed.

Lemma submset_trans {A} (l1 l2 l3 : list A) : submset l1 l2 -> submset l2 l3 -> submset l1 l3.
Proof.
  intros [r1 H1] [r2 H2]. exists (r1 ++ r2). rewrite app_assoc.
  eapply Permutation_trans; [|exact H2]. apply Permutation_app_tail. exact H1.
Qed.

Lemma submset_app {A} (a a' b b' : list A) : submset a' a -> submset b' b -> submset (a' ++ b') (a ++ b).
Proof.
  intros [ra Ha] [rb Hb]. exists (ra ++ rb).
  eapply Permutation_trans; [|apply Permutation_app; [exact Ha|exact Hb]].
  rewrite <- !app_assoc. apply Permutation_app_head.
  rewrite !app_assoc. apply Permutation_app_tail. apply Permutation_app_comm.
Qed.

Lemma submset_firstn {A} k (l : list A) : submset (firstn k l) l.
Proof. exists (skipn k l). rewrite firstn_skipn. apply Permutation_refl. Qed.

Lemma submset_skipn {A} k (l : list A) : submset (skipn k l) l.
Proof.
  exists (firstn k l). eapply Permutation_trans; [apply Permutation_app_comm|].
  rewrite firstn_skipn. apply Permutation_refl.
Qed.

Lemma filter_split_perm {A} (f : A -> bool) (l : list A) :
  Permutation (filter f l ++ filter (fun x => negb (f x)) l) l.
Proof.
  induction l as [|x l IH]; cbn; [constructor|].
  destruct (f x); cbn.
  - constructor. exact IH.
  - eapply Permutation_trans; [apply Permutation_sym, Permutation_middle|]. constructor. exact IH.
Qed.

Lemma submset_filter {A} (f : A -> bool) (l : list A) : submset (filter f l) l.
Proof. eexists. apply filter_split_perm. Qed.

Lemma submset_map {A B} (f : A -> B) (l' l : list A) : submset l' l -> submset (map f l') (map f l).
Proof. intros [r H]. exists (map f r). rewrite <- map_app. apply Permutation_map. exact H. Qed.

Lemma submset_concat_map {A} (f : list A -> list A) (S : list (list A)) :
  (forall s, submset (f s) s) -> submset (concat (map f S)) (concat S).
Proof.
  intro Hf. induction S as [|s S IH]; cbn; [apply submset_refl|].
  apply submset_app; [apply Hf|exact IH].
Qed.

Lemma submset_incl {A} (l' l : list A) : submset l' l -> incl l' l.
Proof.
  intros [r H] x Hx. eapply Permutation_in; [exact H|]. apply in_or_app. left. exact Hx.
Qed.

Lemma NoDup_app_l {A} (l r : list A) : NoDup (l ++ r) -> NoDup l.
Proof.
  induction l as [|x l IH]; cbn; intro H; [constructor|].
  inversion H as [|? ? Hnin Hn]; subst. constructor; [|apply IH; exact Hn].
  intro Hin. apply Hnin. apply in_or_app. left. exact Hin.
Qed.

Lemma submset_NoDup {A} (l' l : list A) : submset l' l -> NoDup l -> NoDup l'.
Proof.
  intros [r H] Hn. apply Permutation_sym in H. apply (Permutation_NoDup H) in Hn.
  eapply NoDup_app_l. exact Hn.
Qed.

Lemma submset_Forall {A} (P : A -> Prop) (l' l : list A) : submset l' l -> Forall P l -> Forall P l'.
Proof.
  intros Hs Hf. apply Forall_forall. intros x Hx. eapply Forall_forall; [exact Hf|].
  eapply submset_incl; eauto.
Qed.

(* ---------------------------------------------------------------- insertion sort, order-free facts *)

Section IsortFacts.
  Context {A : Type} (leb : A -> A -> bool).
  Notation insert := (insert leb).
  Notation isort := (isort leb).

  Lemma insert_perm x l : Permutation (insert x l) (x :: l).
  Proof.
    induction l as [|y l IH]; cbn; [apply Permutation_refl|].
    destruct (leb x y); [apply Permutation_refl|].
    eapply Permutation_trans; [apply perm_skip, IH|]. apply perm_swap.
  Qed.

  Lemma isort_perm l : Permutation (isort l) l.
  Proof.
    induction l as [|x l IH]; cbn; [constructor|].
    eapply Permutation_trans; [apply insert_perm|]. constructor. exact IH.
  Qed.

  Lemma isort_length l : length (isort l) = length l.
  Proof. apply Permutation_length, isort_perm. Qed.

  Lemma isort_app l1 l2 : isort (l1 ++ l2) = fold_right insert (isort l2) l1.
  Proof. unfold Shards.isort. apply fold_right_app. Qed.

  (* inserting into a list truncated to its first k elements gives the same first k elements *)
  Lemma firstn_insert_trunc k x l : firstn k (insert x l) = firstn k (insert x (firstn k l)).
  Proof.
    revert l; induction k as [|k IH]; intro l; [reflexivity|].
    destruct l as [|y l]; [reflexivity|].
    cbn [firstn Shards.insert]. destruct (leb x y) eqn:E.
    - cbn [firstn]. f_equal.
      change (y :: firstn k l) with (firstn (S k) (y :: l)).
      rewrite firstn_firstn. f_equal. lia.
    - cbn [firstn]. f_equal. apply IH.
  Qed.

  Lemma firstn_insert_all_trunc k l base :
    firstn k (fold_right insert base l) = firstn k (fold_right insert (firstn k base) l).
  Proof.
    induction l as [|x l IH]; cbn [fold_right].
    - rewrite firstn_firstn. f_equal. lia.
    - rewrite firstn_insert_trunc, IH, <- firstn_insert_trunc. reflexivity.
  Qed.

  (* ------------------------------------------------------------ sortedness on a domain *)

  Fixpoint sorted (l : list A) : Prop :=
    match l with
    | [] => True
    | x :: l' => Forall (fun y => leb x y = true) l' /\ sorted l'
    end.

  Lemma sorted_firstn k l : sorted l -> sorted (firstn k l).
  Proof.
    revert l; induction k as [|k IH]; intros [|x l] H; cbn; auto.
    destruct H as [H1 H2]. split; [|apply IH; exact H2].
    eapply submset_Forall; [apply submset_firstn|exact H1].
  Qed.

  Variable P : A -> Prop.
  Hypothesis leb_total : forall x y, P x -> P y -> leb x y = false -> leb y x = true.
  Hypothesis leb_trans : forall x y z, P x -> P y -> P z -> leb x y = true -> leb y z = true -> leb x z = true.
  Hypothesis leb_antisym : forall x y, P x -> P y -> leb x y = true -> leb y x = true -> x = y.

  Lemma insert_sorted x l : P x -> Forall P l -> sorted l -> sorted (insert x l).
  Proof.
    intros Px. induction l as [|y l IH]; intros Hp Hs; cbn; [split; [constructor|exact I]|].
    inversion Hp as [|? ? Py Hpl]; subst. destruct Hs as [Hy Hs].
    destruct (leb x y) eqn:E.
    - cbn. split; [|split; assumption].
      constructor; [exact E|].
      apply Forall_forall. intros z Hz.
      apply (leb_trans x y z Px Py); [eapply Forall_forall in Hpl; eauto|exact E|].
      eapply Forall_forall in Hy; eauto.
    - cbn. split; [|apply IH; assumption].
      apply Forall_forall. intros z Hz.
      apply (Permutation_in _ (insert_perm x l)) in Hz. destruct Hz as [<-|Hz].
      + apply leb_total; assumption.
      + eapply Forall_forall in Hy; eauto.
  Qed.

  Lemma isort_Forall l : Forall P l -> Forall P (isort l).
  Proof. intro H. eapply Permutation_Forall; [apply Permutation_sym, isort_perm|exact H]. Qed.

  Lemma isort_sorted l : Forall P l -> sorted (isort l).
  Proof.
    induction l as [|x l IH]; intro H; cbn; [exact I|].
    inversion H; subst. apply insert_sorted; auto. apply isort_Forall; assumption.
  Qed.

  Lemma sorted_perm_eq l1 : forall l2, Forall P l1 -> sorted l1 -> sorted l2 -> Permutation l1 l2 -> l1 = l2.
  Proof.
    induction l1 as [|x l1 IH]; intros l2 Hp H1 H2 Hperm.
    - apply Permutation_nil in Hperm. subst. reflexivity.
    - destruct l2 as [|y l2]; [apply Permutation_sym, Permutation_nil in Hperm; discriminate|].
      inversion Hp as [|? ? Px Hpl]; subst.
      destruct H1 as [Hx H1]. destruct H2 as [Hy H2].
      assert (Py : P y).
      { eapply Forall_forall; [exact Hp|]. eapply Permutation_in; [apply Permutation_sym, Hperm|]. left; reflexivity. }
      assert (Exy : x = y).
      { assert (Hin1 : In x (y :: l2)) by (eapply Permutation_in; [exact Hperm|left; reflexivity]).
        assert (Hin2 : In y (x :: l1)) by (eapply Permutation_in; [apply Permutation_sym, Hperm|left; reflexivity]).
        destruct Hin1 as [E|Hin1]; [congruence|]. destruct Hin2 as [E|Hin2]; [congruence|].
        apply leb_antisym; auto.
        - eapply Forall_forall in Hx; eauto.
        - eapply Forall_forall in Hy; eauto. }
      subst y. f_equal. apply IH; auto. eapply Permutation_cons_inv; eauto.
  Qed.

  Lemma isort_perm_inv l1 l2 : Forall P l1 -> Permutation l1 l2 -> isort l1 = isort l2.
  Proof.
    intros Hp Hperm.
    assert (Hp2 : Forall P l2) by (eapply Permutation_Forall; eauto).
    apply sorted_perm_eq.
    - apply isort_Forall; exact Hp.
    - apply isort_sorted; exact Hp.
    - apply isort_sorted; exact Hp2.
    - eapply Permutation_trans; [apply isort_perm|].
      eapply Permutation_trans; [exact Hperm|apply Permutation_sym, isort_perm].
  Qed.

  Lemma isort_sorted_id l : Forall P l -> sorted l -> isort l = l.
  Proof.
    intros Hp Hs. apply sorted_perm_eq.
    - apply isort_Forall; exact Hp.
    - apply isort_sorted; exact Hp.
    - exact Hs.
    - apply isort_perm.
  Qed.

  (* truncating one part to its own top k before sorting the whole does not change the top k *)
  Lemma topk_two k s c :
    Forall P s -> Forall P c ->
    firstn k (isort (firstn k (isort s) ++ c)) = firstn k (isort (s ++ c)).
  Proof.
    intros Hs Hc.
    assert (Hts : Forall P (firstn k (isort s))).
    { eapply submset_Forall; [apply submset_firstn|apply isort_Forall; exact Hs]. }
    rewrite (isort_perm_inv (firstn k (isort s) ++ c) (c ++ firstn k (isort s))).
    2:{ apply Forall_app; split; assumption. }
    2:{ apply Permutation_app_comm. }
    rewrite (isort_perm_inv (s ++ c) (c ++ s)).
    2:{ apply Forall_app; split; assumption. }
    2:{ apply Permutation_app_comm. }
    rewrite !isort_app.
    rewrite (isort_sorted_id (firstn k (isort s))).
    2:{ exact Hts. }
    2:{ apply sorted_firstn, isort_sorted; exact Hs. }
    symmetry. apply firstn_insert_all_trunc.
  Qed.

  (* top-k merge over any number of shards *)
  Lemma topk_merge_gen k (shards : list (list A)) :
    Forall P (concat shards) ->
    firstn k (isort (concat (map (fun s => firstn k (isort s)) shards))) = firstn k (isort (concat shards)).
  Proof.
    induction shards as [|s shards IH]; intro Hp; [reflexivity|].
    cbn [map concat] in *. apply Forall_app in Hp as [Hs Hc].
    specialize (IH Hc).
    rewrite isort_app, firstn_insert_all_trunc, IH, <- firstn_insert_all_trunc, <- isort_app.
    apply topk_two; assumption.
  Qed.
End IsortFacts.

(* slicing lemmas *)
Lemma slice_via_firstn {A} (from size : nat) (l : list A) :
  firstn size (skipn from l) = skipn from (firstn (from + size) l).
Proof.
  revert l; induction from as [|from IH]; intro l; [reflexivity|].
  destruct l as [|x l]; [cbn; rewrite firstn_nil; reflexivity|].
  cbn. apply IH.
Qed.
