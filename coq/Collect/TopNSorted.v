(* Collect engine — sorted lists under a comparison function: insertion sort yields THE sorted
   permutation; how inserting one more element changes the first K elements (the facts behind
   the bounded stores and the lowest-match shortcut). Generic in the comparison [cmp]. *)
From Coq Require Import ZArith List Bool Lia Permutation.
From Verif Require Import Common.Bytes Collect.TopN.
Import ListNotations.
Local Open Scope Z_scope.

Section Sorted.
  Variable cmp : dmatch -> dmatch -> Z.
  Hypothesis cmp_anti : forall a b, cmp b a = - cmp a b.
  Hypothesis cmp_le_trans : forall a b c, cmp a b <= 0 -> cmp b c <= 0 -> cmp a c <= 0.
  Hypothesis cmp_eq_hit : forall a b, cmp a b = 0 -> hit a = hit b.
  (* every lemma of the section takes (cmp, cmp_anti, cmp_le_trans, cmp_eq_hit), used or not *)
  Set Default Proof Using "All".

  Definition lt (a b : dmatch) : Prop := cmp a b < 0.

  Lemma cmp_refl a : cmp a a = 0.
  Proof. pose proof (cmp_anti a a). lia. Qed.

  Lemma lt_trans a b c : lt a b -> lt b c -> lt a c.
  Proof.
    unfold lt. intros H1 H2.
    assert (H : cmp a c <= 0) by (apply cmp_le_trans with b; lia).
    destruct (Z.eq_dec (cmp a c) 0) as [E|E]; [|lia].
    assert (cmp c b <= 0) by (apply cmp_le_trans with a; [rewrite cmp_anti; lia|lia]).
    rewrite cmp_anti in H0. lia.
  Qed.

  Lemma lt_irrefl a : ~ lt a a.
  Proof. unfold lt. rewrite cmp_refl. lia. Qed.

  Lemma lt_asym a b : lt a b -> lt b a -> False.
  Proof. unfold lt. rewrite (cmp_anti a b). lia. Qed.

  (* ---------------------------------------------------------------- distinct hit numbers *)

  Definition uhits (l : list dmatch) : Prop := NoDup (map hit l).

  Lemma uhits_perm l l' : Permutation l l' -> uhits l -> uhits l'.
  Proof. unfold uhits. intros P H. eapply Permutation_NoDup; [apply Permutation_map; exact P|exact H]. Qed.

  Lemma uhits_cons_inv d l : uhits (d :: l) -> uhits l.
  Proof. unfold uhits. cbn. intros H. inversion H; assumption. Qed.

  Lemma uhits_neq d l y : uhits (d :: l) -> In y l -> cmp d y <> 0.
  Proof.
    unfold uhits. cbn. intros H Hin E. inversion H as [|? ? Hn _]; subst.
    apply Hn. rewrite (cmp_eq_hit _ _ E). apply in_map. exact Hin.
  Qed.

  Lemma uhits_total d l y : uhits (d :: l) -> In y l -> lt d y \/ lt y d.
  Proof.
    intros H Hin. pose proof (uhits_neq d l y H Hin) as N. unfold lt. rewrite (cmp_anti d y). lia.
  Qed.

  Lemma uhits_app_comm l1 l2 : uhits (l1 ++ l2) -> uhits (l2 ++ l1).
  Proof. apply uhits_perm. apply Permutation_app_comm. Qed.

  Lemma uhits_app_l l1 l2 : uhits (l1 ++ l2) -> uhits l1.
  Proof.
    unfold uhits. rewrite map_app. induction (map hit l1) as [|x t IH]; cbn; intros H; [constructor|].
    inversion H as [|? ? Hn Hd]; subst. constructor; [|apply IH; exact Hd].
    intros Hin. apply Hn. apply in_or_app. left. exact Hin.
  Qed.

  Lemma uhits_app_r l1 l2 : uhits (l1 ++ l2) -> uhits l2.
  Proof. intros H. apply uhits_app_comm in H. eapply uhits_app_l; exact H. Qed.

  Lemma uhits_in_eq l a b : uhits l -> In a l -> In b l -> hit a = hit b -> a = b.
  Proof.
    unfold uhits. induction l as [|x l IH]; cbn; intros H Ha Hb E; [contradiction|].
    inversion H as [|? ? Hn Hd]; subst.
    destruct Ha as [<-|Ha], Hb as [<-|Hb]; auto.
    - exfalso. apply Hn. rewrite E. apply in_map. exact Hb.
    - exfalso. apply Hn. rewrite <- E. apply in_map. exact Ha.
  Qed.

  (* ---------------------------------------------------------------- strictly sorted lists *)

  Fixpoint ssorted (l : list dmatch) : Prop :=
    match l with
    | [] => True
    | x :: t => Forall (lt x) t /\ ssorted t
    end.

  Lemma ssorted_app l1 l2 :
    ssorted (l1 ++ l2) <-> ssorted l1 /\ ssorted l2 /\ (forall a b, In a l1 -> In b l2 -> lt a b).
  Proof.
    induction l1 as [|x l1 IH]; cbn.
    - split; [intros H; repeat split; auto; intros ? ? []|intros (_ & H & _); exact H].
    - rewrite IH. rewrite Forall_app. split.
      + intros ((F1 & F2) & S1 & S2 & C). repeat split; auto.
        intros a b [<-|Ha] Hb; [rewrite Forall_forall in F2; auto|auto].
      + intros ((F1 & S1) & S2 & C). repeat split; auto.
        apply Forall_forall. intros b Hb. apply C; auto.
  Qed.

  Lemma ssorted_firstn n l : ssorted l -> ssorted (firstn n l).
  Proof. intros H. rewrite <- (firstn_skipn n l) in H. apply ssorted_app in H. tauto. Qed.

  Lemma ssorted_skipn n l : ssorted l -> ssorted (skipn n l).
  Proof. intros H. rewrite <- (firstn_skipn n l) in H. apply ssorted_app in H. tauto. Qed.

  Lemma ssorted_firstn_lt_skipn n l a b :
    ssorted l -> In a (firstn n l) -> In b (skipn n l) -> lt a b.
  Proof. intros H. rewrite <- (firstn_skipn n l) in H. apply ssorted_app in H. intros; apply H; auto. Qed.

  Lemma ssorted_filter f l : ssorted l -> ssorted (filter f l).
  Proof.
    induction l as [|x l IH]; cbn; [auto|]. intros (F & S).
    destruct (f x); cbn; [split|]; auto.
    apply Forall_forall. intros y Hy. apply filter_In in Hy. rewrite Forall_forall in F. apply F; tauto.
  Qed.

  (* a strictly sorted list is determined by its elements *)
  Lemma ssorted_perm_eq l1 l2 : ssorted l1 -> ssorted l2 -> Permutation l1 l2 -> l1 = l2.
  Proof.
    revert l2; induction l1 as [|x l1 IH]; intros l2 S1 S2 P.
    - apply Permutation_nil in P. auto.
    - destruct l2 as [|y l2]; [apply Permutation_sym, Permutation_nil in P; discriminate|].
      cbn in S1, S2. destruct S1 as (F1 & S1), S2 as (F2 & S2).
      rewrite Forall_forall in F1, F2.
      assert (x = y) as ->.
      { assert (Hy : In y (x :: l1)) by (eapply Permutation_in; [apply Permutation_sym; exact P|left; reflexivity]).
        assert (Hx : In x (y :: l2)) by (eapply Permutation_in; [exact P|left; reflexivity]).
        destruct Hy as [E|Hy]; [exact E|]. destruct Hx as [E|Hx]; [auto|].
        exfalso. apply (lt_asym x y); auto. }
      f_equal. apply IH; auto. eapply Permutation_cons_inv; exact P.
  Qed.

  Lemma ssorted_NoDup l : ssorted l -> NoDup l.
  Proof.
    induction l as [|x l IH]; cbn; [constructor|]. intros (F & S). constructor; auto.
    intros Hin. rewrite Forall_forall in F. apply (lt_irrefl x). auto.
  Qed.

  (* ---------------------------------------------------------------- insertion *)

  Lemma insert_perm x l : Permutation (insert_by cmp x l) (x :: l).
  Proof.
    induction l as [|y l IH]; cbn; [reflexivity|].
    destruct (cmp x y <? 0); [reflexivity|].
    rewrite IH. apply perm_swap.
  Qed.

  Lemma insert_sorted x l : ssorted l -> uhits (x :: l) -> ssorted (insert_by cmp x l).
  Proof.
    induction l as [|y l IH]; intros S U; [cbn; auto|].
    cbn in S. destruct S as (F & S). cbn [insert_by].
    destruct (cmp x y <? 0) eqn:E.
    - apply Z.ltb_lt in E. cbn. repeat split; auto.
      constructor; [exact E|]. rewrite Forall_forall in *. intros z Hz. apply lt_trans with y; auto.
    - apply Z.ltb_ge in E.
      assert (Hyx : lt y x).
      { destruct (uhits_total x (y :: l) y U (or_introl eq_refl)) as [H|H]; [unfold lt in H; lia|exact H]. }
      cbn. split.
      + apply Forall_forall. intros z Hz.
        apply (Permutation_in _ (insert_perm x l)) in Hz. destruct Hz as [<-|Hz]; [exact Hyx|].
        rewrite Forall_forall in F. auto.
      + apply IH; [exact S|].
        eapply uhits_perm in U; [|apply perm_swap]. eapply uhits_cons_inv; exact U.
  Qed.

  Lemma sort_by_snoc l x : sort_by cmp (l ++ [x]) = insert_by cmp x (sort_by cmp l).
  Proof. unfold sort_by. rewrite fold_left_app. reflexivity. Qed.

  Lemma sort_perm l : Permutation (sort_by cmp l) l.
  Proof.
    induction l as [|x l IH] using rev_ind; [reflexivity|].
    rewrite sort_by_snoc, insert_perm, IH. apply Permutation_cons_append.
  Qed.

  Lemma sort_sorted l : uhits l -> ssorted (sort_by cmp l).
  Proof.
    induction l as [|x l IH] using rev_ind; intros U; [cbn; auto|].
    rewrite sort_by_snoc. apply insert_sorted.
    - apply IH. eapply uhits_app_l; exact U.
    - apply uhits_app_comm in U. cbn in U.
      eapply uhits_perm; [|exact U]. constructor. apply Permutation_sym, sort_perm.
  Qed.

  Lemma sort_length l : length (sort_by cmp l) = length l.
  Proof. apply Permutation_length, sort_perm. Qed.

  Lemma sort_uhits l : uhits l -> uhits (sort_by cmp l).
  Proof. apply uhits_perm. apply Permutation_sym, sort_perm. Qed.

  (* the sorted permutation is unique: anything sorted with the same elements IS sort_by *)
  Lemma sort_unique l s : uhits l -> ssorted s -> Permutation s l -> s = sort_by cmp l.
  Proof.
    intros U S P. apply ssorted_perm_eq; auto using sort_sorted.
    rewrite P. apply Permutation_sym, sort_perm.
  Qed.

  Lemma sort_sorted_id l : uhits l -> ssorted l -> sort_by cmp l = l.
  Proof. intros U S. symmetry. apply sort_unique; auto. Qed.

  (* filtering commutes with sorting *)
  Lemma filter_perm (f : dmatch -> bool) l l' : Permutation l l' -> Permutation (filter f l) (filter f l').
  Proof.
    induction 1; cbn.
    - constructor.
    - destruct (f x); auto.
    - destruct (f x), (f y); auto. apply perm_swap.
    - etransitivity; eassumption.
  Qed.

  Lemma uhits_filter f l : uhits l -> uhits (filter f l).
  Proof.
    unfold uhits. induction l as [|x l IH]; cbn; [auto|]. intros H. inversion H as [|? ? Hn Hd]; subst.
    destruct (f x); cbn; [constructor|]; auto.
    intros Hin. apply Hn. apply in_map_iff in Hin. destruct Hin as (y & E & Hy).
    apply in_map_iff. exists y. split; [exact E|]. apply filter_In in Hy. tauto.
  Qed.

  Lemma sort_filter f l : uhits l -> sort_by cmp (filter f l) = filter f (sort_by cmp l).
  Proof.
    intros U. symmetry. apply sort_unique.
    - apply uhits_filter; exact U.
    - apply ssorted_filter, sort_sorted; exact U.
    - apply filter_perm, sort_perm.
  Qed.

  (* ---------------------------------------------------------------- inserting below / above position K *)

  (* d sorts after the element at position K: the first K+1 positions do not change *)
  Lemma insert_after_K l K d x :
    ssorted l -> nth_error l K = Some x -> lt x d ->
    firstn K (insert_by cmp d l) = firstn K l /\ nth_error (insert_by cmp d l) K = Some x.
  Proof.
    revert K; induction l as [|y l IH]; intros K S N Hxd; [destruct K; discriminate|].
    cbn in S. destruct S as (F & S). cbn [insert_by].
    assert (E : cmp d y <? 0 = false).
    { apply Z.ltb_ge.
      destruct K as [|K]; cbn in N.
      - injection N as ->. unfold lt in Hxd. rewrite (cmp_anti d x) in Hxd. lia.
      - apply nth_error_In in N. rewrite Forall_forall in F.
        pose proof (lt_trans _ _ _ (F _ N) Hxd) as H. unfold lt in H. rewrite (cmp_anti d y) in H. lia. }
    rewrite E. destruct K as [|K]; cbn in *; [auto|].
    destruct (IH K S N Hxd) as (H1 & H2). rewrite H1. auto.
  Qed.

  (* d sorts before the element at position K (or there is none): insertion happens within the
     first K elements, the rest is untouched *)
  Lemma insert_before_K l K d :
    ssorted l ->
    (length l <= K)%nat \/ (exists x, nth_error l K = Some x /\ lt d x) ->
    insert_by cmp d l = insert_by cmp d (firstn K l) ++ skipn K l.
  Proof.
    revert K; induction l as [|y l IH]; intros K S H.
    - destruct K; reflexivity.
    - cbn in S. destruct S as (F & S).
      destruct K as [|K].
      + cbn [firstn skipn insert_by app]. destruct H as [H|(x & N & Hx)]; [cbn in H; lia|].
        cbn in N. injection N as ->. unfold lt in Hx. apply Z.ltb_lt in Hx. rewrite Hx. reflexivity.
      + cbn [firstn skipn insert_by]. destruct (cmp d y <? 0).
        * cbn. rewrite firstn_skipn. reflexivity.
        * cbn. f_equal. apply IH; [exact S|].
          destruct H as [H|(x & N & Hx)]; [left; cbn in H; lia|right; exists x; auto].
  Qed.

  Lemma removelast_firstn_len (l : list dmatch) : removelast l = firstn (length l - 1) l.
  Proof.
    induction l as [|x l IH]; [reflexivity|].
    destruct l as [|y l]; [reflexivity|].
    change (removelast (x :: y :: l)) with (x :: removelast (y :: l)). rewrite IH.
    cbn [length]. replace (S (S (length l)) - 1)%nat with (S (S (length l) - 1)) by lia. reflexivity.
  Qed.

End Sorted.
