(* Collect engine — correspondence cases for C06: what the real TopNCollector / Index.Search
   returned on an input, checked against the executable model (Collect/TopN.v) and the spec. *)
From Coq Require Import ZArith List Bool Uint63.
From Verif Require Import Common.Bytes Collect.TopN Collect.TopNAliasModel.
Import ListNotations.
Local Open Scope Z_scope.

(* Compact literals for cases files. coqc spends ~0.4 ms elaborating one Z numeral (number
   notations are interpreted by reduction) but next to nothing on a primitive-integer literal, so the
   harness writes every number as a [%uint63] literal: [zi i] is its value, [bs i] the byte string
   whose big-endian digits follow a leading 01 byte (at most 7 bytes), [bn] concatenates chunks.
   E.g. bs 0x016b3530 = "k50". Used only to read case data (never in the model or the theorems). *)
Fixpoint bz_go (n : nat) (v : Z) (acc : bytes) : bytes :=
  match n with
  | O => acc
  | S n' => bz_go n' (v / 256) (v mod 256 :: acc)
  end.
Definition zi (i : Uint63.int) : Z := Uint63.to_Z i.
Definition bs (i : Uint63.int) : bytes := let v := zi i in bz_go (Z.to_nat (Z.log2 v / 8)) v [].
Definition bn (l : list Uint63.int) : bytes := concat (map bs l).

Definition ids_eqb := list_eqb beqb.
Definition ids_of (l : list dmatch) : list bytes := map did l.

(* what the implementation reported for one collection / search *)
Record observed := { o_ids : list bytes; o_total : Z; o_max : Z }.

Definition agrees (r : option cresult) (o : observed) : bool :=
  match r with
  | Some r => ids_eqb (ids_of (results r)) (o_ids o) && (total r =? o_total o) && (max_score r =? o_max o)
  | None => false
  end.

(* the sort keys alone separate any two matches (so SearchAfter/SearchBefore lose nothing) *)
Fixpoint adjacent_keys_differ (so : sort_order) (l : list dmatch) : bool :=
  match l with
  | a :: ((b :: _) as l') =>
      negb (cmp_keys so (score a) (score b) (keys a) (keys b) =? 0) && adjacent_keys_differ so l'
  | _ => true
  end.

(* a collector-level match: id, score bits, and per sort slot the doc values of that slot's field *)
Record cmatch := { c_id : bytes; c_score : Z; c_terms : list (list bytes) }.
Definition prepare (so : sort_order) (m : cmatch) : rmatch :=
  {| rid := c_id m; rscore := c_score m; rkeys := sort_values so (c_id m) (c_terms m) |}.

(* an API-level match: one hit of the implementation's own Size=all listing, given in HitNumber
   order with its HitNumber, ID, score bits and Sort strings *)
Record amatch := { a_hit : Z; a_id : bytes; a_score : Z; a_keys : list bytes }.
Definition of_amatch (m : amatch) : rmatch := {| rid := a_id m; rscore := a_score m; rkeys := a_keys m |}.

Fixpoint hits_are_1_to_n (n : Z) (ms : list amatch) : bool :=
  match ms with
  | [] => true
  | m :: ms' => (a_hit m =? n + 1) && hits_are_1_to_n (n + 1) ms'
  end.

Inductive preq :=
| QFrom (from : nat)
| QAfter (i : nat) (a : after_doc)     (* anchor = i-th hit of the listing; [a] = what was sent *)
| QBefore (i : nat) (a : after_doc).
Record probe := { p_size : nat; p_req : preq; p_obs : observed }.

Inductive case :=
| CColl (so : sort_order) (size skip : nat) (after : option after_doc) (ms : list cmatch) (obs : observed)
| CApi (so : sort_order) (ms : list amatch) (probes : list probe)
(* an IndexAlias (possibly nested) over several member indexes: [children] = each member's own
   Size=all listing (HitNumber order, numbered by that member); [probes] were sent to the alias *)
| CAlias (so : sort_order) (children : list (list amatch)) (probes : list probe).

(* the values sent as SearchAfter/SearchBefore are those of the i-th hit of the sorted listing *)
Definition anchor_ok (so : sort_order) (sorted : list dmatch) (i : nat) (a : after_doc) : bool :=
  match nth_error sorted i with
  | Some d => cmp_keys so (score d) (sa_score a) (keys d) (sa_keys a) =? 0
  | None => false
  end.

Definition check_probe (so : sort_order) (ms : list rmatch) (p : probe) : bool :=
  let sorted := sorted_matches so ms in
  let o := p_obs p in
  let size := p_size p in
  match p_req p with
  | QFrom from =>
      agrees (search so size (PFrom from) ms) o &&
      (* the property: the page is the slice of the sorted list; totals *)
      ids_eqb (ids_of (spec_page so size from ms)) (o_ids o) &&
      (o_total o =? spec_total ms) && (o_max o =? spec_max_score ms)
  | QAfter i a =>
      agrees (search so size (PAfter a) ms) o &&
      ids_eqb (ids_of (spec_after so size a ms)) (o_ids o) &&
      anchor_ok so sorted i a &&
      (if adjacent_keys_differ so sorted
       then ids_eqb (ids_of (firstn size (skipn (S i) sorted))) (o_ids o) else true) &&
      (o_total o =? spec_total ms) && (o_max o =? spec_max_score ms)
  | QBefore i a =>
      agrees (search so size (PBefore a) ms) o &&
      anchor_ok so sorted i a &&
      (if adjacent_keys_differ so sorted
       then ids_eqb (ids_of (skipn (i - size) (firstn i sorted))) (o_ids o) else true) &&
      (o_total o =? spec_total ms) && (o_max o =? spec_max_score ms)
  end.

(* ---------------------------------------------------------------- alias over several indexes

   The statement for an alias is the same as for one index holding all the documents: a page is
   the requested slice of ALL matches (of every member) in the requested order.  Hit numbers are
   member-local, so "ties broken by natural index order" says nothing about two matches of
   different members with equal keys: which of them comes first is not judged.  What is judged
   for every page, ties or not ([page_ok]): it has as many hits as the slice, no id twice, and its
   k-th hit carries exactly the sort keys of the k-th element of the slice (any two orderings of the
   matches that respect the keys have the same keys at every position).  When the keys separate all
   matches this says the page IS the slice, which is then also compared id by id. *)

Fixpoint find_id (id : bytes) (l : list dmatch) : option dmatch :=
  match l with
  | [] => None
  | d :: l' => if beqb (did d) id then Some d else find_id id l'
  end.

Fixpoint nodup_ids (l : list bytes) : bool :=
  match l with
  | [] => true
  | x :: l' => negb (existsb (beqb x) l') && nodup_ids l'
  end.

Fixpoint page_keys_ok (so : sort_order) (all : list dmatch) (expected : list dmatch) (ids : list bytes) : bool :=
  match expected, ids with
  | [], [] => true
  | e :: es, i :: is' =>
      match find_id i all with
      | Some m => cmp_keys so (score e) (score m) (keys e) (keys m) =? 0
      | None => false
      end && page_keys_ok so all es is'
  | _, _ => false
  end.

Definition page_ok (so : sort_order) (all expected : list dmatch) (ids : list bytes) : bool :=
  nodup_ids ids && page_keys_ok so all expected ids.

(* SPEC with a search-before sentinel: the last [size] of the sorted matches that sort strictly
   before it *)
Definition passes_before (so : sort_order) (a : after_doc) (d : dmatch) : bool :=
  compare so d {| hit := hit d; did := []; score := sa_score a; keys := sa_keys a |} <? 0.
Definition last_n (n : nat) (l : list dmatch) : list dmatch := skipn (length l - n) l.
Definition before_of_sorted (so : sort_order) (size : nat) (a : after_doc) (sorted : list dmatch) : list dmatch :=
  last_n size (filter (passes_before so a) sorted).
Definition after_of_sorted (so : sort_order) (size : nat) (a : after_doc) (sorted : list dmatch) : list dmatch :=
  firstn size (filter (passes_after so a) sorted).

(* what the statement says the alias must return for a probe; [sorted] = all matches sorted *)
Definition alias_expected (so : sort_order) (sorted : list dmatch) (size : nat) (q : preq) : list dmatch :=
  match q with
  | QFrom from => firstn size (skipn from sorted)
  | QAfter _ a => after_of_sorted so size a sorted
  | QBefore _ a => before_of_sorted so size a sorted
  end.

(* ... and by position, when the keys separate all matches *)
Definition alias_expected_by_position (sorted : list dmatch) (size : nat) (q : preq) : list dmatch :=
  match q with
  | QFrom from => firstn size (skipn from sorted)
  | QAfter i _ => firstn size (skipn (S i) sorted)
  | QBefore i _ => skipn (i - size) (firstn i sorted)
  end.

Definition page_req_of (q : preq) : page_req :=
  match q with QFrom from => PFrom from | QAfter _ a => PAfter a | QBefore _ a => PBefore a end.

(* [cs] = the members' streams.  The executable model of the alias (TopNAliasModel.alias_search, the
   flat alias over all members — what a nested alias tree reduces to) is compared when the keys
   separate all matches; with cross-member ties its order is one of several Go's sort may produce *)
Definition check_alias_probe (so : sort_order) (cs : list (list rmatch)) (sorted : list dmatch) (total_order : bool)
  (n_total max_sc : Z) (p : probe) : bool :=
  let o := p_obs p in
  (if total_order then agrees (alias_search so (p_size p) (page_req_of (p_req p)) cs) o else true) &&
  page_ok so sorted (alias_expected so sorted (p_size p) (p_req p)) (o_ids o) &&
  match p_req p with
  | QFrom _ => true
  | QAfter i a | QBefore i a => anchor_ok so sorted i a
  end &&
  (if total_order
   then ids_eqb (ids_of (alias_expected_by_position sorted (p_size p) (p_req p))) (o_ids o)
   else true) &&
  (o_total o =? n_total) && (o_max o =? max_sc).

Definition alias_matches (children : list (list amatch)) : list rmatch := map of_amatch (concat children).

Definition check (c : case) : bool :=
  match c with
  | CColl so size skip after cms o =>
      let ms := map (prepare so) cms in
      agrees (collect so size skip after ms) o &&
      (o_total o =? spec_total ms) && (o_max o =? spec_max_score ms) &&
      match after with
      | None => ids_eqb (ids_of (spec_page so size skip ms)) (o_ids o)
      | Some a => ids_eqb (ids_of (spec_after so size a ms)) (o_ids o)
      end
  | CApi so ams probes =>
      hits_are_1_to_n 0 ams &&
      let ms := map of_amatch ams in
      forallb (check_probe so ms) probes
  | CAlias so children probes =>
      forallb (hits_are_1_to_n 0) children &&
      let ms := alias_matches children in
      nodup_ids (map rid ms) &&
      let sorted := sorted_matches so ms in
      let total_order := adjacent_keys_differ so sorted in
      let n_total := spec_total ms in
      let max_sc := spec_max_score ms in
      forallb (check_alias_probe so (map (map of_amatch) children) sorted total_order n_total max_sc) probes
  end.

(* what the model expected, for replay files *)
Record expected := { e_model : option (list bytes * Z * Z); e_spec : list bytes }.
Inductive expl :=
| EColl (e : expected)
| EApi (hits_ok : bool) (sorted : list bytes) (per_probe : list (bool * expected)).

Definition res_view (r : option cresult) : option (list bytes * Z * Z) :=
  match r with Some r => Some (ids_of (results r), total r, max_score r) | None => None end.

Definition explain (c : case) : expl :=
  match c with
  | CColl so size skip after cms _ =>
      let ms := map (prepare so) cms in
      EColl {| e_model := res_view (collect so size skip after ms);
               e_spec := match after with
                         | None => ids_of (spec_page so size skip ms)
                         | Some a => ids_of (spec_after so size a ms)
                         end |}
  | CApi so ams probes =>
      let ms := map of_amatch ams in
      let sorted := sorted_matches so ms in
      EApi (hits_are_1_to_n 0 ams) (ids_of sorted)
        (map (fun p =>
                (check_probe so ms p,
                 match p_req p with
                 | QFrom from => {| e_model := res_view (search so (p_size p) (PFrom from) ms);
                                    e_spec := ids_of (spec_page so (p_size p) from ms) |}
                 | QAfter i a => {| e_model := res_view (search so (p_size p) (PAfter a) ms);
                                    e_spec := ids_of (firstn (p_size p) (skipn (S i) sorted)) |}
                 | QBefore i a => {| e_model := res_view (search so (p_size p) (PBefore a) ms);
                                     e_spec := ids_of (skipn (i - p_size p) (firstn i sorted)) |}
                 end)) probes)
  | CAlias so children probes =>
      let ms := alias_matches children in
      let sorted := sorted_matches so ms in
      let total_order := adjacent_keys_differ so sorted in
      EApi (forallb (hits_are_1_to_n 0) children && nodup_ids (map rid ms)) (ids_of sorted)
        (map (fun p =>
                (check_alias_probe so (map (map of_amatch) children) sorted total_order (spec_total ms) (spec_max_score ms) p,
                 {| e_model := res_view (alias_search so (p_size p) (page_req_of (p_req p)) (map (map of_amatch) children));
                    e_spec := ids_of (if total_order
                                      then alias_expected_by_position sorted (p_size p) (p_req p)
                                      else alias_expected so sorted (p_size p) (p_req p)) |})) probes)
  end.
