(* Collect engine — executable model of paging through an IndexAlias, in the terms of the C06
   model (definitions only).

   Transcribed from /repo:
     index_alias_impl.go  indexAliasImpl.SearchInContext (single member: handed to that index;
                          otherwise MultiSearch), MultiSearch (SearchBefore: req.Sort.Reverse() and
                          SearchAfter := SearchBefore BEFORE the members are asked; child results
                          concatenated; hitsInCurrentPage; re-sort under the original order),
                          hitsInCurrentPage (sort, skip From, trim to Size),
                          createChildSearchRequest -> search_no_knn.go copySearchRequest
                          (Size = Size+From, From = 0, same Sort / SearchAfter)
     search.go            SearchResult.Merge (hits appended, Total added, MaxScore max)
   A member answers its (child) request as [TopN.collect] says (buildTopNCollector: with SearchAfter
   the collector has skip 0).  Member hit numbers are member-local, so [compare] can return 0 for two
   hits of different members with equal keys and Go's sort.Sort (not stable) is then free to order
   them either way; [sort_by] (insertion sort) is one such order.  The pre-search / knn / synonym /
   score-fusion paths of the alias are not modelled (the requests of C06 never trigger them);
   alias trees are modelled in Collect/Shards.v (C09). *)
From Coq Require Import ZArith List Bool.
From Verif Require Import Common.Bytes Collect.TopN.
Import ListNotations.
Local Open Scope Z_scope.

Fixpoint sequence_o {A} (l : list (option A)) : option (list A) :=
  match l with
  | [] => Some []
  | None :: _ => None
  | Some x :: l' => match sequence_o l' with Some r => Some (x :: r) | None => None end
  end.

(* MultiSearch over [children] (each the match stream of one member) *)
Definition multi_search (so : sort_order) (size : nat) (p : page_req) (children : list (list rmatch))
  : option cresult :=
  let '(cso, csize, from, sa, resort) :=
    match p with
    | PFrom from => (so, (size + from)%nat, from, None, false)
    | PAfter a => (so, size, 0%nat, Some a, false)
    | PBefore a => (reverse_so so, size, 0%nat, Some a, true)
    end in
  match sequence_o (map (collect cso csize 0 sa) children) with
  | None => None
  | Some rs =>
      let hits := concat (map results rs) in                                 (* Merge *)
      let page := firstn size (skipn from (sort_by (compare cso) hits)) in   (* hitsInCurrentPage *)
      Some {| results := if resort then sort_by (compare so) page else page;
              total := fold_left Z.add (map total rs) 0;
              max_score := fold_left Z.max (map max_score rs) 0 |}
  end.

(* indexAliasImpl.SearchInContext *)
Definition alias_search (so : sort_order) (size : nat) (p : page_req) (children : list (list rmatch))
  : option cresult :=
  match children with
  | [c] => search so size p c
  | _ => multi_search so size p children
  end.

(* what a caller sees of a result: ids in order, Total, MaxScore *)
Definition view (r : option cresult) : option (list bytes * Z * Z) :=
  match r with Some r => Some (map did (results r), total r, max_score r) | None => None end.

