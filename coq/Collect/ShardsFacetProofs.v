(* Collect engine — proofs about facet merging in the alias/shards model (Shards.v):
   terms facets, when the facet size covers all the terms of the union. *)
From Coq Require Import ZArith List Bool Lia Permutation.
From Verif Require Import Common.Bytes Collect.Shards Collect.ShardsSort.
Import ListNotations.
Local Open Scope Z_scope.

(* ---------------------------------------------------------------- lookups in term lists *)

Fixpoint tlookup (l : list (bytes * Z)) (t : bytes) : option Z :=
  match l with
  | [] => None
  | (t', c) :: l' => if beqb t' t then Some c else tlookup l' t
  end.

Lemma beqb_refl a : beqb a a = true.
Proof. apply beqb_eq. reflexivity. Qed.

Lemma beqb_neq a b : a <> b -> beqb a b = false.
Proof. intro H. destruct (beqb a b) eqn:E; [|reflexivity]. apply beqb_eq in E. contradiction. Qed.

Lemma beqb_sym a b : beqb a b = beqb b a.
Proof.
  destruct (beqb a b) eqn:E.
  - apply beqb_eq in E. subst. symmetry. apply beqb_refl.
  - symmetry. apply beqb_neq. intro H. subst. rewrite beqb_refl in E. discriminate.
Qed.

Lemma tlookup_none_notin l t : tlookup l t = None <-> ~ In t (map fst l).
Proof.
  induction l as [|[t' c] l IH]; cbn; [tauto|].
  destruct (beqb t' t) eqn:E.
  - apply beqb_eq in E. subst. split; [discriminate|]. intro H. exfalso. apply H. left. reflexivity.
  - rewrite IH. split.
    + intros H [H1|H1]; [subst; rewrite beqb_refl in E; discriminate|auto].
    + intros H H1. apply H. right. exact H1.
Qed.

Lemma tlookup_in l t c : NoDup (map fst l) -> In (t, c) l -> tlookup l t = Some c.
Proof.
  induction l as [|[t' c'] l IH]; cbn; intros Hn Hin; [contradiction|].
  inversion Hn as [|? ? Hnin Hn']; subst. destruct Hin as [E|Hin].
  - inversion E; subst. rewrite beqb_refl. reflexivity.
  - destruct (beqb t' t) eqn:E; [|apply IH; assumption].
    apply beqb_eq in E. subst. exfalso. apply Hnin. change t with (fst (t, c)). apply in_map. exact Hin.
Qed.

Lemma tlookup_some_in l t c : tlookup l t = Some c -> In (t, c) l.
Proof.
  induction l as [|[t' c'] l IH]; cbn; [discriminate|].
  destruct (beqb t' t) eqn:E.
  - apply beqb_eq in E. intro H. inversion H; subst. left. reflexivity.
  - intro H. right. apply IH, H.
Qed.

(* two key-unique lists with the same lookups are permutations of each other *)
Lemma perm_of_lookup l1 : forall l2,
  NoDup (map fst l1) -> NoDup (map fst l2) -> (forall t, tlookup l1 t = tlookup l2 t) -> Permutation l1 l2.
Proof.
  induction l1 as [|[t c] l1 IH]; intros l2 Hn1 Hn2 Hl.
  - destruct l2 as [|[t c] l2]; [constructor|].
    specialize (Hl t). cbn in Hl. rewrite beqb_refl in Hl. discriminate.
  - inversion Hn1 as [|? ? Hnin1 Hn1']; subst.
    assert (Hin : In (t, c) l2).
    { apply tlookup_some_in. rewrite <- Hl. cbn. rewrite beqb_refl. reflexivity. }
    apply in_split in Hin as (A & B & ->).
    eapply Permutation_trans; [|apply Permutation_middle]. constructor.
    assert (Hn2' : NoDup (map fst (A ++ B))).
    { rewrite map_app in *. cbn in Hn2. eapply NoDup_remove_1. exact Hn2. }
    assert (HninAB : ~ In t (map fst (A ++ B))).
    { rewrite map_app in *. cbn in Hn2. eapply NoDup_remove_2. exact Hn2. }
    apply IH; auto. intro t'.
    destruct (beqb t t') eqn:E.
    + apply beqb_eq in E. subst t'.
      rewrite (proj2 (tlookup_none_notin l1 t) Hnin1), (proj2 (tlookup_none_notin (A ++ B) t) HninAB). reflexivity.
    + specialize (Hl t'). cbn in Hl. rewrite E in Hl. rewrite Hl.
      clear -E. induction A as [|[a ca] A IHA]; cbn.
      * rewrite E. reflexivity.
      * destruct (beqb a t'); [reflexivity|exact IHA].
Qed.

(* ---------------------------------------------------------------- term lists as count functions *)

Definition oc (z : Z) : option Z := if z =? 0 then None else Some z.

(* [l] lists exactly the terms with f t > 0, each once, with count f t *)
Definition repr (l : list (bytes * Z)) (f : bytes -> Z) : Prop :=
  NoDup (map fst l) /\ (forall t, 0 <= f t) /\ forall t, tlookup l t = oc (f t).

Lemma terms_add_keys l t c x : In x (map fst (terms_add l t c)) <-> In x (map fst l) \/ x = t.
Proof.
  induction l as [|[t' c'] l IH]; cbn; [intuition|].
  destruct (beqb t' t) eqn:E; cbn.
  - apply beqb_eq in E. subst. intuition.
  - rewrite IH. intuition.
Qed.

Lemma terms_add_nodup l t c : NoDup (map fst l) -> NoDup (map fst (terms_add l t c)).
Proof.
  induction l as [|[t' c'] l IH]; cbn; intro H; [constructor; [intros []|constructor]|].
  inversion H as [|? ? Hnin Hn]; subst.
  destruct (beqb t' t) eqn:E; cbn; [constructor; assumption|].
  constructor; [|apply IH, Hn].
  rewrite terms_add_keys. intros [H1|H1]; [contradiction|]. subst. rewrite beqb_refl in E. discriminate.
Qed.

Lemma terms_add_lookup l t c t' :
  tlookup (terms_add l t c) t' =
  if beqb t t' then Some (match tlookup l t with Some c' => c' + c | None => c end) else tlookup l t'.
Proof.
  induction l as [|[a ca] l IH]; cbn [terms_add tlookup].
  - destruct (beqb t t'); reflexivity.
  - destruct (beqb a t) eqn:Ea; cbn [tlookup].
    + apply beqb_eq in Ea. subst a. destruct (beqb t t'); reflexivity.
    + rewrite IH. destruct (beqb t t') eqn:Et.
      * apply beqb_eq in Et. subst t'. rewrite Ea. reflexivity.
      * reflexivity.
Qed.

Lemma repr_add l f t c : repr l f -> 0 < c ->
  repr (terms_add l t c) (fun t' => f t' + if beqb t t' then c else 0).
Proof.
  intros (Hn & Hpos & Hl) Hc. split; [apply terms_add_nodup, Hn|]. split.
  - intro t'. specialize (Hpos t'). destruct (beqb t t'); lia.
  - intro t'. rewrite terms_add_lookup. destruct (beqb t t') eqn:E.
    + apply beqb_eq in E. subst t'. rewrite Hl. unfold oc. specialize (Hpos t).
      destruct (f t =? 0) eqn:E0.
      * apply Z.eqb_eq in E0. rewrite E0. cbn. destruct (c =? 0) eqn:E1; [lia|reflexivity].
      * destruct (f t + c =? 0) eqn:E1; [lia|reflexivity].
    + rewrite Hl. rewrite Z.add_0_r. reflexivity.
Qed.

Lemma repr_ext l f g : repr l f -> (forall t, f t = g t) -> repr l g.
Proof.
  intros (Hn & Hpos & Hl) E. split; [exact Hn|]. split; intro t; rewrite <- E; auto.
Qed.

Definition occ (ts : list bytes) (t : bytes) : Z := zlen (filter (beqb t) ts).

Lemma occ_nonneg ts t : 0 <= occ ts t.
Proof. unfold occ, zlen. lia. Qed.

Lemma occ_app a b t : occ (a ++ b) t = occ a t + occ b t.
Proof. unfold occ, zlen. rewrite filter_app, app_length. lia. Qed.

Lemma fold_add1_repr ts : forall acc f, repr acc f ->
  repr (fold_left (fun acc t => terms_add acc t 1) ts acc) (fun t => f t + occ ts t).
Proof.
  induction ts as [|x ts IH]; intros acc f H; cbn [fold_left].
  - eapply repr_ext; [exact H|]. intro t. unfold occ, zlen. cbn. lia.
  - eapply repr_ext; [apply IH, repr_add; [exact H|lia]|].
    intro t. cbn beta. unfold occ at 2. cbn [filter]. rewrite (beqb_sym x t).
    destruct (beqb t x); unfold occ, zlen; cbn [length]; lia.
Qed.

Lemma repr_nil : repr [] (fun _ => 0).
Proof. split; [constructor|]. split; [intro; lia|]. intro t. reflexivity. Qed.

Lemma terms_count_repr docs : repr (terms_count docs) (occ (concat docs)).
Proof.
  unfold terms_count. eapply repr_ext; [apply fold_add1_repr, repr_nil|]. intro t. cbn. lia.
Qed.

Lemma repr_perm l l' f : Permutation l l' -> repr l f -> repr l' f.
Proof.
  intros Hp (Hn & Hpos & Hl). assert (Hn' : NoDup (map fst l')).
  { eapply Permutation_NoDup; [apply Permutation_map; exact Hp|exact Hn]. }
  split; [exact Hn'|]. split; [exact Hpos|]. intro t. rewrite <- Hl.
  destruct (tlookup l t) eqn:E.
  - apply tlookup_in; [exact Hn'|]. eapply Permutation_in; [exact Hp|]. apply tlookup_some_in, E.
  - apply tlookup_none_notin. apply tlookup_none_notin in E. intro H. apply E.
    eapply Permutation_in; [apply Permutation_map, Permutation_sym; exact Hp|exact H].
Qed.

Lemma repr_counts_pos l f t c : repr l f -> In (t, c) l -> 0 < c /\ c = f t.
Proof.
  intros (Hn & Hpos & Hl) Hin. apply (tlookup_in l t c Hn) in Hin. rewrite Hl in Hin.
  unfold oc in Hin. specialize (Hpos t). destruct (f t =? 0) eqn:E; [discriminate|].
  inversion Hin; subst. apply Z.eqb_neq in E. lia.
Qed.

(* merging a key-unique list into another adds the count functions *)
Lemma terms_add_all_repr ot : forall l f g, repr l f -> repr ot g ->
  repr (terms_add_all l ot) (fun t => f t + g t).
Proof.
  induction ot as [|[t c] ot IH]; intros l f g Hl Hot.
  - cbn. eapply repr_ext; [exact Hl|]. intro t. destruct Hot as (_ & _ & Hg).
    specialize (Hg t). cbn in Hg. unfold oc in Hg. destruct (g t =? 0) eqn:E; [|discriminate].
    apply Z.eqb_eq in E. lia.
  - unfold terms_add_all. cbn [fold_left fst snd].
    change (fold_left (fun acc tc => terms_add acc (fst tc) (snd tc)) ot (terms_add l t c))
      with (terms_add_all (terms_add l t c) ot).
    destruct (repr_counts_pos _ _ t c Hot (or_introl eq_refl)) as [Hc Ec].
    destruct Hot as (Hn & Hpos & Hg). cbn in Hn. inversion Hn as [|? ? Hnin Hn']; subst.
    (* the rest of [ot] represents g without t *)
    assert (Hot' : repr ot (fun t' => if beqb t t' then 0 else g t')).
    { split; [exact Hn'|]. split.
      - intro t'. destruct (beqb t t'); [lia|apply Hpos].
      - intro t'. specialize (Hg t'). cbn in Hg. destruct (beqb t t') eqn:E.
        + apply beqb_eq in E. subst t'. apply tlookup_none_notin. exact Hnin.
        + exact Hg. }
    eapply repr_ext; [apply IH; [apply repr_add; [exact Hl|exact Hc]|exact Hot']|].
    intro t'. cbn beta. destruct (beqb t t') eqn:E; [|lia].
    apply beqb_eq in E. subst t'. lia.
Qed.

(* ---------------------------------------------------------------- the order of TermFacets.Less *)

Lemma bleb_trans a b c : not_gt (bcompare a b) = true -> not_gt (bcompare b c) = true -> not_gt (bcompare a c) = true.
Proof.
  destruct (bcompare a b) eqn:E1; cbn; try discriminate; intros _.
  - apply bcompare_eq in E1. subst. auto.
  - destruct (bcompare b c) eqn:E2; cbn; try discriminate; intros _.
    + apply bcompare_eq in E2. subst. rewrite E1. reflexivity.
    + rewrite (bcompare_trans_lt _ _ _ E1 E2). reflexivity.
Qed.

Lemma term_leb_total x y : True -> True -> term_leb x y = false -> term_leb y x = true.
Proof.
  intros _ _. unfold term_leb. rewrite (Z.eqb_sym (snd y) (snd x)).
  destruct (snd x =? snd y) eqn:E.
  - rewrite (bcompare_antisym (fst x) (fst y)). destruct (bcompare (fst x) (fst y)); cbn; congruence.
  - intro H. apply Z.eqb_neq in E. apply Z.ltb_ge in H. apply Z.ltb_lt. lia.
Qed.

Lemma term_leb_trans x y z : True -> True -> True ->
  term_leb x y = true -> term_leb y z = true -> term_leb x z = true.
Proof.
  intros _ _ _. unfold term_leb. intros H1 H2.
  destruct (snd x =? snd y) eqn:E1; destruct (snd y =? snd z) eqn:E2; destruct (snd x =? snd z) eqn:E3;
    rewrite ?Z.eqb_eq, ?Z.eqb_neq, ?Z.ltb_lt in *; try lia.
  apply (bleb_trans _ _ _ H1 H2).
Qed.

Lemma term_leb_antisym x y : True -> True -> term_leb x y = true -> term_leb y x = true -> x = y.
Proof.
  intros _ _. unfold term_leb. rewrite (Z.eqb_sym (snd y) (snd x)).
  destruct (snd x =? snd y) eqn:E.
  - apply Z.eqb_eq in E. rewrite (bcompare_antisym (fst x) (fst y)).
    destruct (bcompare (fst x) (fst y)) eqn:Ec; cbn; try discriminate.
    apply bcompare_eq in Ec. intros _ _. destruct x, y; cbn in *; congruence.
  - rewrite !Z.ltb_lt. lia.
Qed.

Lemma isort_terms_perm l1 l2 : Permutation l1 l2 -> isort term_leb l1 = isort term_leb l2.
Proof.
  intro H. apply (isort_perm_inv term_leb (fun _ => True) term_leb_total term_leb_trans term_leb_antisym); auto.
  apply Forall_forall. auto.
Qed.

(* ---------------------------------------------------------------- sums *)

Lemma sum_counts_from l : forall s, fold_left (fun s tc => s + snd tc) l s = s + sum_counts l.
Proof.
  unfold sum_counts. induction l as [|x l IH]; intro s; cbn [fold_left]; [lia|].
  rewrite (IH (s + snd x)), (IH (0 + snd x)). lia.
Qed.

Lemma sum_counts_cons x l : sum_counts (x :: l) = snd x + sum_counts l.
Proof. unfold sum_counts at 1. cbn. rewrite sum_counts_from. lia. Qed.

Lemma sum_counts_perm l1 l2 : Permutation l1 l2 -> sum_counts l1 = sum_counts l2.
Proof.
  induction 1; rewrite ?sum_counts_cons; lia.
Qed.

Lemma sum_counts_add l t c : sum_counts (terms_add l t c) = sum_counts l + c.
Proof.
  induction l as [|[t' c'] l IH]; cbn [terms_add].
  - rewrite sum_counts_cons. cbn. unfold sum_counts. cbn. lia.
  - destruct (beqb t' t); rewrite !sum_counts_cons; cbn [snd]; [lia|]. rewrite IH. lia.
Qed.

Lemma sum_counts_terms_count docs : sum_counts (terms_count docs) = zlen (concat docs).
Proof.
  unfold terms_count.
  assert (H : forall ts acc, sum_counts (fold_left (fun acc t => terms_add acc t 1) ts acc) = sum_counts acc + zlen ts).
  { induction ts as [|x ts IH]; intro acc; cbn [fold_left]; [unfold zlen; cbn; lia|].
    rewrite IH, sum_counts_add. unfold zlen. cbn [length]. lia. }
  rewrite H. unfold sum_counts. cbn. lia.
Qed.

(* ---------------------------------------------------------------- the facet of a covered shard *)

Definition nmissing (docs : list (list bytes)) : Z :=
  zlen (filter (fun d => match d with [] => true | _ => false end) docs).

Lemma terms_build_covered size docs :
  zlen (terms_count docs) <= size ->
  terms_build size docs =
  {| f_total := zlen (concat docs); f_missing := nmissing docs; f_other := 0;
     f_terms := Some (isort term_leb (terms_count docs)); f_nranges := None |}.
Proof.
  intro H. unfold terms_build.
  set (s := isort term_leb (terms_count docs)).
  assert (Hlen : zlen s = zlen (terms_count docs)) by (unfold zlen; subst s; rewrite isort_length; reflexivity).
  assert (Hf : firstn (Z.to_nat (Z.min size (zlen s))) s = s).
  { apply firstn_all2. unfold zlen in *. lia. }
  rewrite Hf. f_equal.
  subst s. rewrite (sum_counts_perm _ _ (isort_perm term_leb (terms_count docs))).
  rewrite sum_counts_terms_count. lia.
Qed.

(* distinct terms of a part are at most those of the whole *)
Lemma repr_incl_length l1 l2 f1 f2 :
  repr l1 f1 -> repr l2 f2 -> (forall t, f1 t <= f2 t) -> zlen l1 <= zlen l2.
Proof.
  intros (Hn1 & Hp1 & Hl1) (Hn2 & Hp2 & Hl2) Hle.
  unfold zlen. apply inj_le. rewrite <- (map_length fst l1), <- (map_length fst l2).
  apply NoDup_incl_length; [exact Hn1|].
  intros t Ht. destruct (tlookup l2 t) eqn:E2.
  - apply tlookup_some_in in E2. change t with (fst (t, z)). apply in_map. exact E2.
  - exfalso. assert (E1 : tlookup l1 t <> None) by (rewrite tlookup_none_notin; tauto).
    rewrite Hl1 in E1. rewrite Hl2 in E2. unfold oc in *. specialize (Hle t). specialize (Hp1 t).
    destruct (f2 t =? 0) eqn:Z2; [|discriminate]. apply Z.eqb_eq in Z2.
    destruct (f1 t =? 0) eqn:Z1; [congruence|]. apply Z.eqb_neq in Z1. lia.
Qed.

Lemma terms_count_part_le (docs part : list (list bytes)) :
  (forall t, occ (concat part) t <= occ (concat docs) t) ->
  zlen (terms_count part) <= zlen (terms_count docs).
Proof. intro H. eapply repr_incl_length; [apply terms_count_repr|apply terms_count_repr|exact H]. Qed.

(* ---------------------------------------------------------------- merging covered shards *)

Definition merged_ok (fr : fres) (docs : list (list bytes)) : Prop :=
  f_total fr = zlen (concat docs) /\ f_missing fr = nmissing docs /\ f_other fr = 0 /\
  f_nranges fr = None /\ exists L, f_terms fr = Some L /\ repr L (occ (concat docs)).

Lemma zlen_app_local {A} (a b : list A) : zlen (a ++ b) = zlen a + zlen b.
Proof. unfold zlen. rewrite app_length. lia. Qed.

Lemma nmissing_app a b : nmissing (a ++ b) = nmissing a + nmissing b.
Proof. unfold nmissing, zlen. rewrite filter_app, app_length. lia. Qed.

Lemma build_merged_ok size docs : zlen (terms_count docs) <= size -> merged_ok (terms_build size docs) docs.
Proof.
  intro H. rewrite terms_build_covered by exact H. unfold merged_ok. cbn.
  repeat split; try reflexivity. eexists. split; [reflexivity|].
  eapply repr_perm; [apply Permutation_sym, isort_perm|apply terms_count_repr].
Qed.

Lemma merge_step size fr docs docs2 :
  merged_ok fr docs -> zlen (terms_count docs2) <= size ->
  merged_ok (fres_merge fr (terms_build size docs2)) (docs ++ docs2).
Proof.
  intros (Ht & Hm & Ho & Hnr & L & HL & Hrep) Hc.
  rewrite terms_build_covered by exact Hc.
  unfold fres_merge. cbn [f_terms f_nranges f_total f_missing f_other]. rewrite HL, Hnr.
  unfold merged_ok. cbn [f_terms f_nranges f_total f_missing f_other].
  rewrite concat_app, zlen_app_local, nmissing_app by idtac.
  repeat split; try lia; try reflexivity.
  eexists. split; [reflexivity|].
  eapply repr_ext.
  - apply terms_add_all_repr; [exact Hrep|].
    eapply repr_perm; [apply Permutation_sym, isort_perm|apply terms_count_repr].
  - intro t. cbn beta. rewrite occ_app. reflexivity.
Qed.

Lemma merge_fold size shards : forall fr docs,
  merged_ok fr docs ->
  Forall (fun s => zlen (terms_count s) <= size) shards ->
  merged_ok (fold_left fres_merge (map (terms_build size) shards) fr) (docs ++ concat shards).
Proof.
  induction shards as [|s shards IH]; intros fr docs Hok Hc; cbn [map fold_left concat].
  - rewrite app_nil_r. exact Hok.
  - inversion Hc as [|? ? Hs Hc']; subst. rewrite app_assoc. apply IH; [|exact Hc'].
    apply merge_step; assumption.
Qed.

(* facet_merge_exact: terms facets, size covering all the terms of the union *)
Theorem facet_merge_exact : forall size (s0 : list (list bytes)) (shards : list (list (list bytes))),
  zlen (terms_count (concat (s0 :: shards))) <= size ->
  fres_fixup size (fold_left fres_merge (map (terms_build size) shards) (terms_build size s0))
  = terms_build size (concat (s0 :: shards)).
Proof.
  intros size s0 shards Hcov. cbn [concat] in *.
  (* every member is covered as well *)
  assert (Hpart : forall s, In s (s0 :: shards) -> zlen (terms_count s) <= size).
  { intros s Hs. eapply Z.le_trans; [|exact Hcov]. apply terms_count_part_le. intro t.
    change (s0 ++ concat shards) with (concat (s0 :: shards)).
    apply in_split in Hs as (A & B & ->). rewrite !concat_app. cbn [concat]. rewrite !concat_app, !occ_app.
    pose proof (occ_nonneg (concat (concat A)) t). pose proof (occ_nonneg (concat (concat B)) t). lia. }
  assert (Hok : merged_ok (fold_left fres_merge (map (terms_build size) shards) (terms_build size s0))
                          (s0 ++ concat shards)).
  { apply merge_fold; [apply build_merged_ok, Hpart; left; reflexivity|].
    apply Forall_forall. intros s Hs. apply Hpart. right. exact Hs. }
  destruct Hok as (Ht & Hm & Ho & Hnr & L & HL & Hrep).
  rewrite (terms_build_covered size (s0 ++ concat shards) Hcov).
  assert (Hperm : Permutation L (terms_count (s0 ++ concat shards))).
  { destruct Hrep as (Hn1 & _ & Hl1). destruct (terms_count_repr (s0 ++ concat shards)) as (Hn2 & _ & Hl2).
    apply perm_of_lookup; auto. intro t. rewrite Hl1, Hl2. reflexivity. }
  unfold fres_fixup. rewrite HL.
  assert (Hlen : zlen (isort term_leb L) = zlen (terms_count (s0 ++ concat shards))).
  { unfold zlen. rewrite isort_length. rewrite (Permutation_length Hperm). reflexivity. }
  rewrite Hlen. destruct (size <? zlen (terms_count (s0 ++ concat shards))) eqn:E; [apply Z.ltb_lt in E; lia|].
  rewrite Ht, Hm, Ho, Hnr. rewrite (isort_terms_perm _ _ Hperm). reflexivity.
Qed.

(* hypothesis satisfiable on a non-trivial value; the members arrive in either order *)
Example facet_merge_example :
  let a := [[[1]; [2]]; []; [[2]]] in
  let b := [[[3]; [2]]; [[1]]] in
  zlen (terms_count (concat [a; b])) <= 3 /\
  fres_fixup 3 (fres_merge (terms_build 3 a) (terms_build 3 b)) = terms_build 3 (a ++ b) /\
  fres_fixup 3 (fres_merge (terms_build 3 b) (terms_build 3 a)) = terms_build 3 (a ++ b) /\
  f_terms (terms_build 3 (a ++ b)) = Some [([2], 3); ([1], 2); ([3], 1)].
Proof. cbv zeta. repeat split; vm_compute; try reflexivity. discriminate. Qed.
