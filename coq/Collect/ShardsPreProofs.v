(* Collect engine — lemmas about the alias pre-search model (ShardsPre.v):
   - MergeWith loses nothing: the merged synonym map holds exactly the triples of both maps;
   - the synonym processor is complete for every arrival order of the members' answers;
   - a pre-search over a (nested) alias collects the synonyms of every member index below it;
   - when every alias carries the mapping, every member index is handed the whole thesaurus;
   - [resolve] keeps the shape of the tree, so the page theorem of ShardsProofs.v applies to
     searches with a pre-search phase. *)
From Coq Require Import ZArith List Bool Permutation Lia.
From Verif Require Import Common.Bytes Collect.Shards Collect.ShardsSort Collect.ShardsProofs Collect.ShardsPre.
Import ListNotations.
Local Open Scope Z_scope.

(* ---------------------------------------------------------------- MergeWith *)

Lemma tmap_triples_app fd a b : tmap_triples fd (a ++ b) = tmap_triples fd a ++ tmap_triples fd b.
Proof. unfold tmap_triples. apply flat_map_app. Qed.

Lemma tmap_append_triples fd m t s x :
  In x (tmap_triples fd (tmap_append m t s)) <->
  In x (tmap_triples fd m) \/ In x (map (fun y => (fd, t, y)) s).
Proof.
  induction m as [|[t' s'] m IH]; cbn [tmap_append].
  - unfold tmap_triples. cbn. rewrite app_nil_r. tauto.
  - destruct (beqb t' t) eqn:E.
    + apply beqb_eq in E. subst t'.
      unfold tmap_triples. cbn [flat_map fst snd]. rewrite map_app, !in_app_iff. tauto.
    + unfold tmap_triples in *. cbn [flat_map fst snd]. rewrite !in_app_iff, IH. tauto.
Qed.

Lemma tmap_merge_triples fd o : forall m x,
  In x (tmap_triples fd (tmap_merge m o)) <-> In x (tmap_triples fd m) \/ In x (tmap_triples fd o).
Proof.
  unfold tmap_merge. induction o as [|[t s] o IH]; intros m x; cbn [fold_left fst snd].
  - unfold tmap_triples at 3. cbn. tauto.
  - rewrite IH, tmap_append_triples.
    unfold tmap_triples at 4. cbn [flat_map fst snd]. rewrite in_app_iff.
    fold (tmap_triples fd o). tauto.
Qed.

Lemma fts_merge_field_triples f fd tm x :
  In x (fts_triples (fts_merge_field f fd tm)) <-> In x (fts_triples f) \/ In x (tmap_triples fd tm).
Proof.
  induction f as [|[fd' m] f IH]; cbn [fts_merge_field].
  - unfold fts_triples. cbn [flat_map fst snd]. rewrite app_nil_r, tmap_merge_triples.
    unfold tmap_triples at 1. cbn. tauto.
  - destruct (beqb fd' fd) eqn:E.
    + apply beqb_eq in E. subst fd'.
      unfold fts_triples. cbn [flat_map fst snd]. rewrite !in_app_iff, tmap_merge_triples. tauto.
    + unfold fts_triples in *. cbn [flat_map fst snd]. rewrite !in_app_iff, IH. tauto.
Qed.

(* MergeWith keeps everything: the merged map holds exactly the triples of the two maps *)
Lemma fts_merge_with_triples o : forall f x,
  In x (fts_triples (fts_merge_with f o)) <-> In x (fts_triples f) \/ In x (fts_triples o).
Proof.
  unfold fts_merge_with. induction o as [|[fd tm] o IH]; intros f x; cbn [fold_left fst snd].
  - unfold fts_triples at 3. cbn. tauto.
  - rewrite IH, fts_merge_field_triples.
    unfold fts_triples at 4. cbn [flat_map fst snd]. rewrite in_app_iff.
    fold (fts_triples o). tauto.
Qed.

(* ---------------------------------------------------------------- the synonym processor *)

Lemma syn_add_triples acc r x :
  In x (osyn_triples (syn_add acc r)) <-> In x (osyn_triples acc) \/ In x (osyn_triples (p_syn r)).
Proof.
  unfold syn_add. destruct (p_syn r) as [s|]; [|cbn; tauto].
  destruct acc as [a|]; cbn [osyn_triples].
  - apply fts_merge_with_triples.
  - cbn. tauto.
Qed.

Lemma syn_fold_triples rs : forall acc x,
  In x (osyn_triples (fold_left syn_add rs acc)) <->
  In x (osyn_triples acc) \/ exists r, In r rs /\ In x (osyn_triples (p_syn r)).
Proof.
  induction rs as [|r rs IH]; intros acc x; cbn [fold_left].
  - split; [tauto|]. intros [H|[r [[] _]]]; exact H.
  - rewrite IH, syn_add_triples. split.
    + intros [[H|H]|[r' [Hin H]]]; [left; exact H| |].
      * right. exists r. split; [left; reflexivity|exact H].
      * right. exists r'. split; [right; exact Hin|exact H].
    + intros [H|[r' [[<-|Hin] H]]]; [left; left; exact H|left; right; exact H|].
      right. exists r'. split; assumption.
Qed.

(* the merged pre-search answer holds a synonym iff some member's answer holds it — whatever the
   order in which the members' answers arrive *)
Theorem synonym_merge_complete : forall fl (rs arrived : list presult) x,
  fl_syn fl = true -> Permutation rs arrived ->
  (In x (osyn_triples (p_syn (presearch_combine fl arrived))) <->
   exists r, In r rs /\ In x (osyn_triples (p_syn r))).
Proof.
  intros fl rs arrived x Hfl Hp. unfold presearch_combine. cbn [p_syn]. rewrite Hfl.
  rewrite syn_fold_triples. cbn [osyn_triples]. split.
  - intros [[]|[r [Hin H]]]. exists r. split; [|exact H].
    eapply Permutation_in; [apply Permutation_sym; exact Hp|exact Hin].
  - intros [r [Hin H]]. right. exists r. split; [|exact H].
    eapply Permutation_in; [exact Hp|exact Hin].
Qed.

(* a satisfiable instance: two members define different synonyms for the same term *)
Example synonym_merge_example :
  let r1 := {| p_syn := Some [([116], [([99], [[97]])])]; p_bm25 := None |} in
  let r2 := {| p_syn := Some [([116], [([99], [[98]])])]; p_bm25 := None |} in
  p_syn (presearch_combine {| fl_syn := true; fl_bm25 := false |} [r1; r2])
  = Some [([116], [([99], [[97]; [98]])])].
Proof. vm_compute. reflexivity. Qed.

(* ---------------------------------------------------------------- trees *)

Section STreeInd.
  Variable Q : stree -> Prop.
  Hypothesis Hleaf : forall sl, Q (SLeaf sl).
  Hypothesis Halias : forall m cs, Forall Q cs -> Q (SAlias m cs).
  Fixpoint stree_ind' (t : stree) : Q t :=
    match t with
    | SLeaf sl => Hleaf sl
    | SAlias m cs => Halias m cs ((fix go (l : list stree) : Forall Q l :=
                                     match l with
                                     | [] => Forall_nil Q
                                     | c :: l' => Forall_cons c (stree_ind' c) (go l')
                                     end) cs)
    end.
End STreeInd.

Lemma global_triples_alias m cs x :
  In x (global_triples (SAlias m cs)) <-> exists k, In k cs /\ In x (global_triples k).
Proof.
  unfold global_triples. cbn [sleaves]. rewrite in_flat_map. split.
  - intros [sl [Hsl Hx]]. apply in_flat_map in Hsl as [k [Hk Hsl]].
    exists k. split; [exact Hk|]. apply in_flat_map. exists sl. split; assumption.
  - intros [k [Hk Hx]]. apply in_flat_map in Hx as [sl [Hsl Hx]].
    exists sl. split; [|exact Hx]. apply in_flat_map. exists k. split; assumption.
Qed.

(* a pre-search over a (nested) alias collects the synonyms of every member index below it *)
Lemma presearch_triples c : c_matchnone c = false -> forall t x,
  In x (osyn_triples (p_syn (presearch c t))) <-> In x (global_triples t).
Proof.
  intros Hmn. induction t as [sl|m cs IH] using stree_ind'; intro x.
  - unfold global_triples. cbn. rewrite app_nil_r. tauto.
  - cbn [presearch]. unfold presearch_combine. cbn [p_syn fl_syn]. rewrite Hmn. cbn [negb].
    rewrite syn_fold_triples, global_triples_alias. cbn [osyn_triples]. split.
    + intros [[]|[r [Hin H]]]. apply in_map_iff in Hin as [k [<- Hk]].
      exists k. split; [exact Hk|]. rewrite Forall_forall in IH. apply IH; assumption.
    + intros [k [Hk H]]. right. exists (presearch c k). split; [apply in_map; exact Hk|].
      rewrite Forall_forall in IH. apply IH; assumption.
Qed.

(* PreSearchData that came with the request is handed on unchanged to every member index *)
Lemma leaf_data_some c pd : forall t sl d, In (sl, d) (leaf_data c t (Some pd)) -> d = Some pd.
Proof.
  induction t as [sl0|m cs IH] using stree_ind'; intros sl d Hin.
  - cbn in Hin. destruct Hin as [E|[]]. inversion E. reflexivity.
  - cbn [leaf_data] in Hin. apply in_flat_map in Hin as [k [Hk Hin]].
    assert (E : alias_data c m cs (Some pd) = Some pd).
    { unfold alias_data. destruct cs as [|? [|? ?]]; reflexivity. }
    rewrite E in Hin. rewrite Forall_forall in IH. eapply IH; eassumption.
Qed.

Lemma sleaves_single m k : sleaves (SAlias m [k]) = sleaves k.
Proof. cbn. apply app_nil_r. Qed.

Lemma global_triples_single m k : global_triples (SAlias m [k]) = global_triples k.
Proof. unfold global_triples. rewrite sleaves_single. reflexivity. Qed.

(* the documented configuration — every alias of the tree was given the mapping — and a query on a
   synonym-enabled field: every member index is handed exactly the whole thesaurus (the union of all
   members' synonyms for the query); the only members searched without PreSearchData are those of a
   chain of single-member aliases onto ONE index, which then holds the whole corpus itself *)
Theorem presearch_reaches_every_member : forall c t,
  all_mapped t = true -> c_matchnone c = false -> c_synfield c = true ->
  forall sl d, In (sl, d) (leaf_data c t None) ->
  match d with
  | Some pd => exists s, pd_syn pd = Some s /\
                         forall x, In x (fts_triples s) <-> In x (global_triples t)
  | None => sleaves t = [sl]
  end.
Proof.
  intros c t Hmap Hmn Hsf. induction t as [sl0|m cs IH] using stree_ind'; intros sl d Hin.
  - cbn in Hin. destruct Hin as [E|[]]. inversion E. subst. reflexivity.
  - cbn [all_mapped] in Hmap. apply andb_true_iff in Hmap as [Hm Hcs]. subst m.
    rewrite forallb_forall in Hcs. rewrite Forall_forall in IH.
    cbn [leaf_data] in Hin. apply in_flat_map in Hin as [k [Hk Hin]].
    destruct cs as [|k0 [|k1 cs']]; [destruct Hk| |].
    + (* the single-member short circuit *)
      destruct Hk as [<-|[]]. cbn [alias_data] in Hin.
      specialize (IH k0 (or_introl eq_refl) (Hcs k0 (or_introl eq_refl)) sl d Hin).
      destruct d as [pd|].
      * destruct IH as [s [Es Hs]]. exists s. split; [exact Es|].
        intro x. rewrite global_triples_single. apply Hs.
      * rewrite sleaves_single. exact IH.
    + (* at least two members: the pre-search runs here *)
      remember (k0 :: k1 :: cs') as cs eqn:Ecs.
      assert (Ead : alias_data c true cs None =
                    Some (construct {| fl_syn := true; fl_bm25 := c_global c && c_bm25 c |}
                            (presearch_combine {| fl_syn := true; fl_bm25 := c_global c && c_bm25 c |}
                               (map (presearch c) cs)))).
      { subst cs. unfold alias_data, pre_required. rewrite Hmn, Hsf. cbn [negb andb orb].
        rewrite andb_true_r. reflexivity. }
      rewrite Ead in Hin. apply leaf_data_some in Hin. subst d.
      eexists. split; [cbn [construct pd_syn fl_syn]; reflexivity|].
      intro x.
      assert (Et : forall o : option fts, fts_triples (match o with Some s => s | None => [] end) = osyn_triples o)
        by (intros [s|]; reflexivity).
      rewrite Et. unfold presearch_combine. cbn [p_syn fl_syn].
      rewrite syn_fold_triples, global_triples_alias. cbn [osyn_triples]. split.
      * intros [[]|[r [Hr H]]]. apply in_map_iff in Hr as [k' [<- Hk']].
        exists k'. split; [exact Hk'|]. apply (presearch_triples c Hmn). exact H.
      * intros [k' [Hk' H]]. right. exists (presearch c k'). split; [apply in_map; exact Hk'|].
        apply (presearch_triples c Hmn). exact H.
Qed.

(* hypotheses satisfiable on a non-trivial value: a mapped alias of a mapped alias of two indexes and
   a third index, definitions of one term split over the three; every index is handed all three *)
Example presearch_reaches_example :
  let mk (s : bytes) := SLeaf {| sl_pre := {| p_syn := Some [([116], [([99], [s])])]; p_bm25 := None |};
                                 sl_used := None;
                                 sl_leaf := {| l_matches := []; l_maxscore := 0; l_facets := [] |} |} in
  let t := SAlias true [SAlias true [mk [97]; mk [98]]; mk [100]] in
  let c := {| c_matchnone := false; c_synfield := true; c_bm25 := false; c_global := false |} in
  all_mapped t = true /\
  map (fun sd => effective_triples (fst sd) (snd sd)) (leaf_data c t None)
  = [ [([116], [99], [97]); ([116], [99], [98]); ([116], [99], [100])];
      [([116], [99], [97]); ([116], [99], [98]); ([116], [99], [100])];
      [([116], [99], [97]); ([116], [99], [98]); ([116], [99], [100])] ].
Proof. vm_compute. split; reflexivity. Qed.

(* ---------------------------------------------------------------- resolve keeps the shape *)

Definition smatches (t : stree) : list hit := flat_map (fun sl => l_matches (sl_leaf sl)) (sleaves t).

Lemma sequence_some {A} (l : list (option A)) r :
  sequence l = Some r -> Forall2 (fun o x => o = Some x) l r.
Proof.
  revert r. induction l as [|[x|] l IH]; intros r H; cbn in H.
  - inversion H. constructor.
  - destruct (sequence l) as [r'|] eqn:E; [|discriminate]. inversion H. subst.
    constructor; [reflexivity|]. apply IH. reflexivity.
  - discriminate.
Qed.

Lemma resolve_shape c : forall t data t',
  resolve c t data = Some t' ->
  wf_tree t' = wf_stree t /\ leaves t' = map sl_leaf (sleaves t).
Proof.
  induction t as [sl|m cs IH] using stree_ind'; intros data t' H.
  - cbn in H. destruct (odata_eqb data (sl_used sl)); [|discriminate]. inversion H. subst.
    split; reflexivity.
  - cbn [resolve] in H.
    destruct (sequence (map (fun k => resolve c k (alias_data c m cs data)) cs)) as [ts|] eqn:E; [|discriminate].
    inversion H. subst t'. clear H.
    apply sequence_some in E. remember (alias_data c m cs data) as d eqn:Ed. clear Ed.
    assert (Hall : Forall2 (fun k t' => wf_tree t' = wf_stree k /\ leaves t' = map sl_leaf (sleaves k)) cs ts).
    { revert ts E. induction cs as [|k cs IHcs]; intros ts E; inversion E; subst; [constructor|].
      inversion IH as [|? ? Hk Hrest]; subst.
      constructor; [eapply Hk; eassumption|]. apply IHcs; assumption. }
    clear E IH.
    assert (Hw : forallb wf_tree ts = forallb wf_stree cs /\
                 flat_map leaves ts = map sl_leaf (flat_map sleaves cs) /\
                 (ts = [] <-> cs = [])).
    { induction Hall as [|k t' cs' ts' [Hw Hl] _ IHa].
      - split; [reflexivity|]. split; [reflexivity|tauto].
      - destruct IHa as (Ha & Hb & _). cbn [forallb flat_map]. rewrite Hw, Ha, Hl, Hb, map_app.
        split; [reflexivity|]. split; [reflexivity|]. split; discriminate. }
    destruct Hw as (Hwf & Hlv & Hnil). cbn [wf_tree wf_stree leaves sleaves]. split; [|exact Hlv].
    destruct ts as [|t0 ts0], cs as [|k0 cs0]; try reflexivity.
    + destruct Hnil as [Hn _]. specialize (Hn eq_refl). discriminate.
    + destruct Hnil as [_ Hn]. specialize (Hn eq_refl). discriminate.
    + exact Hwf.
Qed.

Lemma resolve_all_matches c t data t' : resolve c t data = Some t' -> all_matches t' = smatches t.
Proof.
  intro H. apply resolve_shape in H as [_ Hl]. unfold all_matches, smatches. rewrite Hl.
  rewrite flat_map_concat_map, map_map, <- flat_map_concat_map. reflexivity.
Qed.

(* the property on alias trees WITH the pre-search phase: whenever every member's listing is the one
   made under the PreSearchData that reaches it ([resolve] succeeds), the alias answers — up to
   HitNumber — what one index holding all those matches answers, for every page the trim guard lets
   through, SearchAfter and SearchBefore; Total is the number of all matches *)
Theorem alias_tree_page_presearch : forall g c st rq t,
  resolve c st None = Some t ->
  wf_stree st = true -> rq_ok g rq -> total_keys (q_desc rq) (smatches st) ->
  exists r, search_pre g c st rq = Some r /\
            map hobs (r_hits r) = map hobs (spec_hits rq (smatches st)) /\
            r_total r = zlen (smatches st).
Proof.
  intros g c st rq t Hres Hwf Hok Htot.
  pose proof (resolve_shape c st None t Hres) as [Hw _].
  pose proof (resolve_all_matches c st None t Hres) as Hm.
  rewrite <- Hm in Htot. rewrite Hwf in Hw.
  destruct (alias_tree_page g t rq Hw Hok Htot) as (r & Es & Eh & Et).
  exists r. unfold search_pre. rewrite Hres. split; [exact Es|].
  unfold spec_page, spec_total in *. rewrite Hm in *. split; assumption.
Qed.
