(* Collect engine — correspondence cases for C09 (alias over shards).

   One case = one request executed (a) through an alias tree over real member indexes and (b) on one
   real index holding all the documents.  The members' own matches (ids, sort keys as the member
   computes them under the order it executes, stored fields, HitNumber), MaxScore and facet results are
   the inputs of the alias layer, obtained by listing every member with the same query / order / facets.

   check = (alias result = the model's MultiSearch over those member data, with the trim guard read
            off the source by T1)
           AND (alias result = single-index result)            <- the property oracle of C09
   A mismatch of the second conjunct is a violation witness; [explain] additionally shows the spec
   (the slice of the globally sorted matches). *)
From Coq Require Import ZArith List Bool.
From Verif Require Import Common.Bytes Collect.Shards Collect.ShardsPre Extracted.Extracted.
Import ListNotations.
Local Open Scope Z_scope.

(* what the API returned (hits without HitNumber); MaxScore as float64 bits *)
Record oresult := { o_hits : list obs; o_total : Z; o_maxscore : Z; o_facets : facets }.

Inductive case :=
| CAlias (rq : request) (t : tree)
         (single : option oresult)      (* Index.Search on the index holding everything; None = error *)
         (alias : option oresult)       (* IndexAlias.Search on the tree; None = error *)
(* the same with the pre-search phase in play (aliases with / without SetIndexMapping, synonym
   definitions spread over the members, BM25 global scoring): every member comes with its answer to the
   pre-search request and with the PreSearchData under which its matches were listed; [spre] is the
   single index' own answer to the pre-search request (shown by [explain] only) *)
| CAliasPre (c : pcfg) (rq : request) (st : stree) (spre : presult)
            (single : option oresult) (alias : option oresult).

(* the trim guard hitsInCurrentPage currently has in /repo (T1) *)
Definition current_guard : option guard := guard_of_op XAlias.trim_guard_op.

Definition pair_eqb {A B} (ea : A -> A -> bool) (eb : B -> B -> bool) (x y : A * B) : bool :=
  ea (fst x) (fst y) && eb (snd x) (snd y).
Definition keys_eqb := list_eqb beqb.
Definition fields_eqb := list_eqb (pair_eqb beqb beqb).
Definition obs_eqb (a b : obs) : bool :=
  keys_eqb (okeys a) (okeys b) && beqb (snd (fst a)) (snd (fst b)) && fields_eqb (snd a) (snd b).
Definition obs_list_eqb := list_eqb obs_eqb.

Definition optZ_eqb := option_eqb Z.eqb.
Definition nrange_eqb (a b : nrange) : bool :=
  beqb (nr_name a) (nr_name b) && optZ_eqb (nr_min a) (nr_min b) && optZ_eqb (nr_max a) (nr_max b) &&
  (nr_count a =? nr_count b).
Definition fres_eqb (a b : fres) : bool :=
  (f_total a =? f_total b) && (f_missing a =? f_missing b) && (f_other a =? f_other b) &&
  option_eqb (list_eqb (pair_eqb beqb Z.eqb)) (f_terms a) (f_terms b) &&
  option_eqb (list_eqb nrange_eqb) (f_nranges a) (f_nranges b).
Definition facets_eqb := list_eqb (pair_eqb beqb fres_eqb).

(* the case is inside the property's family: key vectors pairwise different, one key per sort key *)
Fixpoint distinct_keys (l : list (list bytes)) : bool :=
  match l with
  | [] => true
  | k :: l' => negb (existsb (keys_eqb k) l') && distinct_keys l'
  end.
Definition total_keys_b (desc : list bool) (ms : list hit) : bool :=
  distinct_keys (map hkeys ms) &&
  forallb (fun h => Nat.eqb (length (hkeys h)) (length desc)) ms.

Definition case_wf (rq : request) (t : tree) : bool :=
  wf_tree t && negb (match q_desc rq with [] => true | _ => false end) &&
  total_keys_b (q_desc rq) (all_matches t) && (0 <=? q_from rq) && (0 <=? q_size rq).

(* "the facet size covers all buckets", decided from the members' results: no member trimmed its
   list.  A member that trims lists exactly [size] buckets, so none did when the union of the listed
   buckets is smaller than the size; or when it fits the size and no member has anything in Other
   (a prefix-filtered terms facet has the filtered-out terms in Other without trimming) *)
Fixpoint dedup (l : list bytes) : list bytes :=
  match l with
  | [] => []
  | x :: l' => if existsb (beqb x) l' then dedup l' else x :: dedup l'
  end.
Definition fres_buckets (fr : fres) : list bytes :=
  match f_terms fr with
  | Some ts => map fst ts
  | None => match f_nranges fr with Some rs => map nr_name rs | None => [] end
  end.
Definition facet_covered (t : tree) (ns : bytes * Z) : bool :=
  let frs := flat_map (fun lf => match facets_get (l_facets lf) (fst ns) with Some fr => [fr] | None => [] end) (leaves t) in
  let n := zlen (dedup (flat_map fres_buckets frs)) in
  (n <? snd ns) || (forallb (fun fr => f_other fr =? 0) frs && (n <=? snd ns)).
Definition facets_covered (rq : request) (t : tree) : bool := forallb (facet_covered t) (q_fsizes rq).

(* facet results are compared per requested facet: completely when the size covers all buckets;
   otherwise only Total and Missing (which add up whatever the size): with a size that trims a list,
   TermFacets.termLookup keeps the trimmed-off terms (TrimToTopN / Fixup cut only the slice), so counts
   merged later into such a term are dropped — that state is not observable at the API, the model
   (Shards.terms_add) does not have it, and the property does not speak about non-covering sizes *)
Definition fres_weak_eqb (a b : fres) : bool :=
  (f_total a =? f_total b) && (f_missing a =? f_missing b).
Definition facets_agree (rq : request) (t : tree) (x y : facets) : bool :=
  list_eqb beqb (map fst x) (map fst y) &&
  forallb (fun ns =>
    match facets_get x (fst ns), facets_get y (fst ns) with
    | Some fx, Some fy => if facet_covered t ns then fres_eqb fx fy else fres_weak_eqb fx fy
    | None, None => true
    | _, _ => false
    end) (q_fsizes rq).

(* [ms]: compare MaxScore too (not when members expand the query with synonyms: the real alias appends
   them in arrival order and with the multiplicity of replicated definitions, which moves the scores —
   not the matches — of the synonym disjunction; scores are outside the property) *)
Definition model_agrees_ms (ms : bool) (g : guard) (rq : request) (t : tree) (a : oresult) : bool :=
  match search g t rq with
  | Some r =>
      obs_list_eqb (map hobs (r_hits r)) (o_hits a) && (r_total r =? o_total a) &&
      (negb ms || (r_maxscore r =? o_maxscore a)) && facets_agree rq t (r_facets r) (o_facets a)
  | None => false
  end.
Definition model_agrees := model_agrees_ms true.

Definition oracle_agrees (rq : request) (t : tree) (a s : oresult) : bool :=
  obs_list_eqb (o_hits a) (o_hits s) && (o_total a =? o_total s) &&
  facets_agree rq t (o_facets a) (o_facets s).

Definition check (c : case) : bool :=
  match c with
  | CAlias rq t single alias =>
      match current_guard, single, alias with
      | Some g, Some s, Some a => case_wf rq t && model_agrees g rq t a && oracle_agrees rq t a s
      | _, _, _ => false
      end
  | CAliasPre c rq st spre single alias =>
      match current_guard, single, alias, resolve c st None with
      | Some g, Some s, Some a, Some t =>
          case_wf rq t && model_agrees_ms (no_synonyms_used c st) g rq t a &&
          (* the property oracle, whenever every member searches with the whole thesaurus *)
          (negb (whole_thesaurus c st) || oracle_agrees rq t a s)
      | _, _, _, _ => false
      end
  end.

(* for replay files: the guard in force, what the model's alias returns, and the spec *)
Record expl := {
  e_guard : option guard;
  e_case_wf : bool;
  e_model_alias : option oresult;
  e_spec_page : list obs;             (* slice of the globally sorted matches *)
  e_spec_total : Z;
  e_facets_covered : bool;
  e_model_ok : bool; e_oracle_ok : bool;
  (* pre-search cases: the PreSearchData the model hands to each member index (in leaf order), whether
     each listing was made under it, whether every member searches with the whole thesaurus (then the
     oracle applies), and whether the union of the members' synonyms is what the single index finds *)
  e_leaf_data : list (option pdata);
  e_listings_ok : bool;
  e_whole_thesaurus : bool;
  e_union_is_single : bool
}.
Definition explain_plain (rq : request) (t : tree) (single alias : option oresult) (ms : bool)
    (ld : list (option pdata)) (lok wt us : bool) : expl :=
      let m := match current_guard with
               | Some g => match search g t rq with
                           | Some r => Some {| o_hits := map hobs (r_hits r); o_total := r_total r;
                                               o_maxscore := r_maxscore r; o_facets := r_facets r |}
                           | None => None
                           end
               | None => None
               end in
      {| e_guard := current_guard; e_case_wf := case_wf rq t; e_model_alias := m;
         e_spec_page := spec_page rq t; e_spec_total := spec_total t;
         e_facets_covered := facets_covered rq t;
         e_model_ok := match current_guard, alias with
                       | Some g, Some a => model_agrees_ms ms g rq t a | _, _ => false end;
         e_oracle_ok := match single, alias with
                        | Some s, Some a => oracle_agrees rq t a s | _, _ => false end;
         e_leaf_data := ld; e_listings_ok := lok; e_whole_thesaurus := wt; e_union_is_single := us |}.

(* the tree with every listing accepted as it is (to show something when [resolve] rejects the case) *)
Fixpoint forget (st : stree) : tree :=
  match st with
  | SLeaf sl => Leaf (sl_leaf sl)
  | SAlias _ cs => Alias (map forget cs)
  end.

Definition explain (c : case) : expl :=
  match c with
  | CAlias rq t single alias => explain_plain rq t single alias true [] true true true
  | CAliasPre c rq st spre single alias =>
      let t := match resolve c st None with Some t => t | None => forget st end in
      explain_plain rq t single alias (no_synonyms_used c st)
        (map snd (leaf_data c st None))
        (match resolve c st None with Some _ => true | None => false end)
        (whole_thesaurus c st)
        (triples_equiv (global_triples st) (osyn_triples (p_syn spre)))
  end.
