(* Collect engine — proofs about the alias/shards model (Shards.v): hits and totals.
   (Facet merging is in ShardsFacetProofs.v.) *)
From Coq Require Import ZArith List Bool Lia Permutation.
From Verif Require Import Common.Bytes Collect.Shards Collect.ShardsSort.
Import ListNotations.
Local Open Scope Z_scope.

(* ---------------------------------------------------------------- small list facts *)

Lemma zlen_map {A B} (f : A -> B) l : zlen (map f l) = zlen l.
Proof. unfold zlen. rewrite map_length. reflexivity. Qed.

Lemma zlen_app {A} (a b : list A) : zlen (a ++ b) = zlen a + zlen b.
Proof. unfold zlen. rewrite app_length. lia. Qed.

Lemma flat_map_flat_map {A B C} (f : B -> list C) (g : A -> list B) l :
  flat_map f (flat_map g l) = flat_map (fun x => flat_map f (g x)) l.
Proof. induction l as [|x l IH]; cbn; [reflexivity|]. rewrite flat_map_app, IH. reflexivity. Qed.

Lemma NoDup_map_inj_in {A B} (f : A -> B) l x y :
  NoDup (map f l) -> In x l -> In y l -> f x = f y -> x = y.
Proof.
  induction l as [|a l IH]; cbn; intros Hn Hx Hy E; [contradiction|].
  inversion Hn as [|? ? Hnin Hn']; subst.
  destruct Hx as [<-|Hx], Hy as [<-|Hy]; auto.
  - exfalso. apply Hnin. rewrite E. apply in_map. exact Hy.
  - exfalso. apply Hnin. rewrite <- E. apply in_map. exact Hx.
Qed.

(* ---------------------------------------------------------------- the key order *)

Lemma keys_cmp_antisym desc a b : keys_cmp desc b a = CompOpp (keys_cmp desc a b).
Proof.
  revert a b; induction desc as [|d desc IH]; intros [|x a] [|y b]; cbn; try reflexivity.
  rewrite (bcompare_antisym x y). destruct (bcompare x y); cbn; [apply IH|destruct d; reflexivity..].
Qed.

Lemma keys_cmp_eq desc a b :
  length a = length desc -> length b = length desc -> keys_cmp desc a b = Eq -> a = b.
Proof.
  revert a b; induction desc as [|d desc IH]; intros [|x a] [|y b]; cbn; intros La Lb H;
    try discriminate; try reflexivity.
  destruct (bcompare x y) eqn:E.
  - apply bcompare_eq in E. subst y. f_equal. apply IH; auto.
  - destruct d; discriminate.
  - destruct d; discriminate.
Qed.

Lemma bcompare_trans_gt a b c : bcompare a b = Gt -> bcompare b c = Gt -> bcompare a c = Gt.
Proof.
  intros H1 H2. rewrite (bcompare_antisym c a).
  rewrite (bcompare_trans_lt c b a); [reflexivity| |].
  - rewrite (bcompare_antisym b c), H2. reflexivity.
  - rewrite (bcompare_antisym a b), H1. reflexivity.
Qed.

Lemma keys_leb_trans desc a b c :
  length a = length desc -> length b = length desc -> length c = length desc ->
  not_gt (keys_cmp desc a b) = true -> not_gt (keys_cmp desc b c) = true ->
  not_gt (keys_cmp desc a c) = true.
Proof.
  revert a b c; induction desc as [|d desc IH]; intros [|x a] [|y b] [|z c]; cbn;
    intros La Lb Lc H1 H2; try discriminate; try reflexivity.
  injection La as La; injection Lb as Lb; injection Lc as Lc.
  destruct (bcompare x y) eqn:Exy.
  - apply bcompare_eq in Exy. subst y.
    destruct (bcompare x z) eqn:Exz; [apply (IH a b c); assumption|exact H2..].
  - destruct (bcompare y z) eqn:Eyz.
    + apply bcompare_eq in Eyz. subst z. rewrite Exy. exact H1.
    + rewrite (bcompare_trans_lt _ _ _ Exy Eyz). exact H1.
    + destruct d; cbn in *; discriminate.
  - destruct (bcompare y z) eqn:Eyz.
    + apply bcompare_eq in Eyz. subst z. rewrite Exy. exact H1.
    + destruct d; cbn in *; discriminate.
    + rewrite (bcompare_trans_gt _ _ _ Exy Eyz). exact H1.
Qed.

(* ---------------------------------------------------------------- total sort orders *)

(* "a total sort order": the key vectors of the matches are pairwise different and have one
   entry per sort key (e.g. the order ends in _id) *)
Definition total_okeys (desc : list bool) (l : list obs) : Prop :=
  NoDup (map okeys l) /\ Forall (fun o => length (okeys o) = length desc) l.
Definition total_keys (desc : list bool) (l : list hit) : Prop := total_okeys desc (map hobs l).

Lemma total_okeys_submset desc l' l : submset l' l -> total_okeys desc l -> total_okeys desc l'.
Proof.
  intros Hs [Hn Hf]. split.
  - eapply submset_NoDup; [apply submset_map; exact Hs|exact Hn].
  - eapply submset_Forall; eauto.
Qed.

Lemma total_okeys_perm desc l' l : Permutation l' l -> total_okeys desc l -> total_okeys desc l'.
Proof. intro H. apply total_okeys_submset, submset_perm, H. Qed.

Lemma total_okeys_len d1 d2 l : length d1 = length d2 -> total_okeys d1 l -> total_okeys d2 l.
Proof. intros E [Hn Hf]. split; [exact Hn|]. rewrite <- E. exact Hf. Qed.

Lemma total_keys_submset desc l' l : submset l' l -> total_keys desc l -> total_keys desc l'.
Proof. intro H. apply total_okeys_submset, submset_map, H. Qed.

Lemma map_okeys_hobs l : map okeys (map hobs l) = map hkeys l.
Proof. rewrite map_map. reflexivity. Qed.

Section ObsOrder.
  Variable desc : list bool.
  Variable L : list obs.
  Hypothesis HL : total_okeys desc L.
  Let P (o : obs) : Prop := In o L.

  Lemma P_len o : P o -> length (okeys o) = length desc.
  Proof. intro H. destruct HL as [_ Hf]. eapply Forall_forall in Hf; eauto. Qed.

  Lemma obs_leb_total x y : P x -> P y -> obs_leb desc x y = false -> obs_leb desc y x = true.
  Proof.
    intros _ _. unfold obs_leb. rewrite (keys_cmp_antisym desc (okeys x) (okeys y)).
    destruct (keys_cmp desc (okeys x) (okeys y)); cbn; congruence.
  Qed.

  Lemma obs_leb_trans x y z :
    P x -> P y -> P z -> obs_leb desc x y = true -> obs_leb desc y z = true -> obs_leb desc x z = true.
  Proof. intros Px Py Pz. unfold obs_leb. apply keys_leb_trans; apply P_len; assumption. Qed.

  Lemma obs_leb_antisym x y : P x -> P y -> obs_leb desc x y = true -> obs_leb desc y x = true -> x = y.
  Proof.
    intros Px Py H1 H2. unfold obs_leb in *.
    rewrite (keys_cmp_antisym desc (okeys x) (okeys y)) in H2.
    assert (E : keys_cmp desc (okeys x) (okeys y) = Eq).
    { destruct (keys_cmp desc (okeys x) (okeys y)); cbn in *; congruence. }
    apply keys_cmp_eq in E; [|apply P_len; assumption..].
    destruct HL as [Hn _]. eapply NoDup_map_inj_in; eauto.
  Qed.

  Lemma sort_obs_perm_inv l1 l2 : incl l1 L -> Permutation l1 l2 -> sort_obs desc l1 = sort_obs desc l2.
  Proof.
    intros Hi Hp. unfold sort_obs.
    apply (isort_perm_inv (obs_leb desc) P obs_leb_total obs_leb_trans obs_leb_antisym); auto.
    apply Forall_forall. intros x Hx. apply Hi, Hx.
  Qed.

  Lemma topk_merge_obs_in k (S : list (list obs)) :
    incl (concat S) L ->
    firstn k (sort_obs desc (concat (map (fun s => firstn k (sort_obs desc s)) S)))
    = firstn k (sort_obs desc (concat S)).
  Proof.
    intro Hi. unfold sort_obs.
    apply (topk_merge_gen (obs_leb desc) P obs_leb_total obs_leb_trans obs_leb_antisym).
    apply Forall_forall. intros x Hx. apply Hi, Hx.
  Qed.
End ObsOrder.

(* ---------------------------------------------------------------- forgetting HitNumber *)

Lemma hit_leb_obs desc x y :
  keys_cmp desc (hkeys x) (hkeys y) <> Eq -> hit_leb desc x y = obs_leb desc (hobs x) (hobs y).
Proof.
  intro H. unfold hit_leb, hit_cmp, obs_leb. change (okeys (hobs x)) with (hkeys x).
  change (okeys (hobs y)) with (hkeys y).
  destruct (keys_cmp desc (hkeys x) (hkeys y)); [congruence|reflexivity..].
Qed.

Lemma insert_hobs desc x l :
  (forall y, In y l -> keys_cmp desc (hkeys x) (hkeys y) <> Eq) ->
  map hobs (insert (hit_leb desc) x l) = insert (obs_leb desc) (hobs x) (map hobs l).
Proof.
  induction l as [|y l IH]; intro H; cbn; [reflexivity|].
  rewrite hit_leb_obs by (apply H; left; reflexivity).
  destruct (obs_leb desc (hobs x) (hobs y)); cbn; [reflexivity|].
  f_equal. apply IH. intros z Hz. apply H. right. exact Hz.
Qed.

Lemma total_keys_cons desc x l : total_keys desc (x :: l) ->
  total_keys desc l /\ forall y, In y l -> keys_cmp desc (hkeys x) (hkeys y) <> Eq.
Proof.
  intros [Hn Hf]. cbn in Hn, Hf. inversion Hn as [|? ? Hnin Hn']; subst.
  inversion Hf as [|? ? Hlx Hf']; subst. split; [split; assumption|].
  intros y Hy E. apply keys_cmp_eq in E.
  - apply Hnin. change (okeys (hobs x)) with (hkeys x). rewrite E.
    rewrite map_okeys_hobs. apply in_map. exact Hy.
  - exact Hlx.
  - eapply Forall_forall in Hf'; [|apply in_map; exact Hy]. exact Hf'.
Qed.

(* on matches with a total sort order, sorting commutes with observation: HitNumber is never consulted *)
Lemma sort_hobs desc l : total_keys desc l -> map hobs (sort_hits desc l) = sort_obs desc (map hobs l).
Proof.
  induction l as [|x l IH]; intro H; [reflexivity|].
  apply total_keys_cons in H as [Hl Hx].
  unfold sort_hits, sort_obs in *. cbn [isort fold_right map].
  change (fold_right (insert (hit_leb desc)) [] l) with (isort (hit_leb desc) l).
  change (fold_right (insert (obs_leb desc)) [] (map hobs l)) with (isort (obs_leb desc) (map hobs l)).
  rewrite insert_hobs.
  - rewrite IH by exact Hl. reflexivity.
  - intros y Hy. apply Hx. eapply Permutation_in; [apply isort_perm|exact Hy].
Qed.

Lemma page_hobs g desc from size l :
  total_keys desc l ->
  map hobs (hits_in_current_page g desc from size l) = page_obs g desc from size (map hobs l).
Proof.
  intro H. unfold hits_in_current_page, page_obs.
  set (h1 := match desc with [] => l | _ => sort_hits desc l end).
  set (o1 := match desc with [] => map hobs l | _ => sort_obs desc (map hobs l) end).
  assert (E1 : map hobs h1 = o1).
  { subst h1 o1. destruct desc; [reflexivity|]. apply sort_hobs, H. }
  clearbody h1 o1. subst o1. rewrite !zlen_map.
  set (h2 := if (0 <? from) && (from <? zlen h1) then skipn (Z.to_nat from) h1 else if 0 <? from then [] else h1).
  set (o2 := if (0 <? from) && (from <? zlen h1) then skipn (Z.to_nat from) (map hobs h1)
             else if 0 <? from then [] else map hobs h1).
  assert (E2 : map hobs h2 = o2).
  { subst h2 o2. destruct ((0 <? from) && (from <? zlen h1)); [symmetry; apply skipn_map|].
    destruct (0 <? from); reflexivity. }
  clearbody h2 o2. subst o2. rewrite zlen_map.
  destruct (guard_size g size && (size <? zlen h2)); [symmetry; apply firstn_map|reflexivity].
Qed.

(* when the trim guard lets Size through, hitsInCurrentPage is "sort, then slice" *)
Lemma page_obs_slice g desc from size l :
  desc <> [] -> 0 <= from -> guard_size g size = true ->
  page_obs g desc from size l = slice from size (sort_obs desc l).
Proof.
  intros Hd Hfrom Hg. unfold page_obs, slice.
  destruct desc as [|d desc]; [congruence|].
  set (s := sort_obs (d :: desc) l). clearbody s.
  assert (E2 : (if (0 <? from) && (from <? zlen s) then skipn (Z.to_nat from) s
                else if 0 <? from then [] else s) = skipn (Z.to_nat from) s).
  { destruct (0 <? from) eqn:E0; cbn.
    - destruct (from <? zlen s) eqn:E1; [reflexivity|].
      symmetry. apply skipn_all2. apply Z.ltb_ge in E1. unfold zlen in E1. lia.
    - apply Z.ltb_ge in E0. replace from with 0 by lia. reflexivity. }
  rewrite E2. set (h2 := skipn (Z.to_nat from) s). clearbody h2.
  rewrite Hg. cbn. destruct (size <? zlen h2) eqn:E3; [reflexivity|].
  symmetry. apply firstn_all2. apply Z.ltb_ge in E3. unfold zlen in E3.
  assert (0 <= size) by (destruct g; cbn in Hg; lia). lia.
Qed.

(* ---------------------------------------------------------------- top-k merge *)

Lemma alias_page_obs g desc from size (S : list (list obs)) :
  desc <> [] -> total_okeys desc (concat S) -> 0 <= from -> guard_size g size = true ->
  page_obs g desc from size (concat (map (fun s => firstn (Z.to_nat (size + from)) (sort_obs desc s)) S))
  = slice from size (sort_obs desc (concat S)).
Proof.
  intros Hd Ht Hfrom Hg.
  assert (Hsz : 0 <= size) by (destruct g; cbn in Hg; lia).
  rewrite page_obs_slice by assumption. unfold slice.
  rewrite !slice_via_firstn.
  replace (Z.to_nat from + Z.to_nat size)%nat with (Z.to_nat (size + from)) by lia.
  f_equal. apply (topk_merge_obs_in desc (concat S) Ht). apply incl_refl.
Qed.

Lemma topk_hobs desc k (shards : list (list hit)) :
  total_keys desc (concat shards) ->
  map hobs (concat (map (fun s => firstn k (sort_hits desc s)) shards))
  = concat (map (fun s => firstn k (sort_obs desc s)) (map (map hobs) shards)).
Proof.
  induction shards as [|s shards IH]; intro H; [reflexivity|].
  cbn [map concat] in *. rewrite map_app.
  assert (Hs : total_keys desc s).
  { eapply total_keys_submset; [|exact H]. exists (concat shards). apply Permutation_refl. }
  assert (Hr : total_keys desc (concat shards)).
  { eapply total_keys_submset; [|exact H]. exists s. apply Permutation_app_comm. }
  rewrite IH by exact Hr. f_equal.
  rewrite <- firstn_map, sort_hobs by exact Hs. reflexivity.
Qed.

Lemma topk_obs_submset desc k (S : list (list obs)) :
  submset (concat (map (fun s => firstn k (sort_obs desc s)) S)) (concat S).
Proof.
  apply (submset_concat_map (fun s => firstn k (sort_obs desc s))). intro s.
  eapply submset_trans; [apply submset_firstn|]. apply submset_perm. apply isort_perm.
Qed.

(* topk_merge: for ANY partition of the matches into shards (any number, empty ones included)
   — stated up to HitNumber, which is shard-local: the shards' matches observe as a permutation of
   [all] — the alias page computed from the shards' top (from+size) equals the page of the
   globally sorted list, whenever the trim guard lets Size through *)
Theorem topk_merge_guard : forall g desc (shards : list (list hit)) (all : list hit) from size,
  desc <> [] -> total_keys desc all ->
  Permutation (map hobs (concat shards)) (map hobs all) ->
  0 <= from -> guard_size g size = true ->
  map hobs (hits_in_current_page g desc from size
              (concat (map (fun s => firstn (Z.to_nat (size + from)) (sort_hits desc s)) shards)))
  = map hobs (slice from size (sort_hits desc all)).
Proof.
  intros g desc shards all from size Hd Hall Hperm Hfrom Hg.
  assert (Hsh : total_keys desc (concat shards)).
  { unfold total_keys. eapply total_okeys_perm; [exact Hperm|exact Hall]. }
  set (k := Z.to_nat (size + from)).
  assert (Hm : map hobs (concat (map (fun s => firstn k (sort_hits desc s)) shards))
               = concat (map (fun s => firstn k (sort_obs desc s)) (map (map hobs) shards))).
  { apply topk_hobs, Hsh. }
  assert (HS : total_okeys desc (concat (map (map hobs) shards))).
  { rewrite <- concat_map. exact Hsh. }
  rewrite page_hobs.
  2:{ unfold total_keys. rewrite Hm. eapply total_okeys_submset; [apply topk_obs_submset|exact HS]. }
  rewrite Hm. subst k. rewrite alias_page_obs by assumption.
  unfold slice. rewrite <- firstn_map, <- skipn_map, sort_hobs by exact Hall.
  f_equal. f_equal. rewrite <- concat_map.
  apply (sort_obs_perm_inv desc (map hobs (concat shards)) Hsh); [apply incl_refl|exact Hperm].
Qed.

Theorem topk_merge : forall g desc (shards : list (list hit)) (all : list hit) from size,
  desc <> [] -> total_keys desc all ->
  Permutation (map hobs (concat shards)) (map hobs all) ->
  0 <= from -> 0 < size ->
  map hobs (hits_in_current_page g desc from size
              (concat (map (fun s => firstn (Z.to_nat (size + from)) (sort_hits desc s)) shards)))
  = map hobs (slice from size (sort_hits desc all)).
Proof.
  intros g desc shards all from size Hd Hall Hperm Hfrom Hsize.
  apply topk_merge_guard; auto. destruct g; cbn; lia.
Qed.

(* size_zero_page: the same statement for every size >= 0 — holds for the guard "req.Size >= 0" *)
Theorem size_zero_page : forall desc (shards : list (list hit)) (all : list hit) from size,
  desc <> [] -> total_keys desc all ->
  Permutation (map hobs (concat shards)) (map hobs all) ->
  0 <= from -> 0 <= size ->
  map hobs (hits_in_current_page GuardGe desc from size
              (concat (map (fun s => firstn (Z.to_nat (size + from)) (sort_hits desc s)) shards)))
  = map hobs (slice from size (sort_hits desc all)).
Proof.
  intros desc shards all from size Hd Hall Hperm Hfrom Hsize.
  apply topk_merge_guard; auto. cbn. lia.
Qed.

(* ... and is FALSE for the guard "req.Size > 0" when size = 0 and from > 0: two shards of two
   documents each, sorted by _id, from = 1, size = 0: every shard is asked for 1 hit, the alias
   skips one of the two merged hits and does not trim: one hit is returned, the single index
   returns none *)
Definition h_ex (id : Z) : hit := {| hkeys := [[id]]; hid := [id]; hnum := 0; hfields := [] |}.
Definition ex_shards : list (list hit) := [[h_ex 97; h_ex 99]; [h_ex 98; h_ex 100]].

Theorem size_zero_refuted : exists (shards : list (list hit)) (all : list hit) (from : Z),
  total_keys [false] all /\ Permutation (map hobs (concat shards)) (map hobs all) /\ 0 <= from /\
  map hobs (hits_in_current_page GuardGt [false] from 0
              (concat (map (fun s => firstn (Z.to_nat (0 + from)) (sort_hits [false] s)) shards)))
  <> map hobs (slice from 0 (sort_hits [false] all)).
Proof.
  exists ex_shards, (concat ex_shards), 1. split; [|split; [|split]].
  - split; [|repeat constructor]. cbn.
    repeat (constructor; [cbn; intuition discriminate|]). constructor.
  - apply Permutation_refl.
  - lia.
  - vm_compute. discriminate.
Qed.

(* hypotheses of topk_merge are satisfiable on a non-trivial value (and the conclusion computes) *)
Example topk_merge_example :
  total_keys [false] (concat ex_shards) /\
  map hobs (hits_in_current_page GuardGt [false] 1 2
              (concat (map (fun s => firstn (Z.to_nat (2 + 1)) (sort_hits [false] s)) ex_shards)))
  = [hobs (h_ex 98); hobs (h_ex 99)].
Proof.
  split; [|vm_compute; reflexivity].
  split; [|repeat constructor]. cbn.
  repeat (constructor; [cbn; intuition discriminate|]). constructor.
Qed.

(* ---------------------------------------------------------------- totals and merged hits *)

Lemma fold_merge_hits rest r0 :
  r_hits (fold_left result_merge rest r0) = r_hits r0 ++ concat (map r_hits rest).
Proof.
  revert r0; induction rest as [|r rest IH]; intro r0; cbn; [rewrite app_nil_r; reflexivity|].
  rewrite IH. cbn. rewrite app_assoc. reflexivity.
Qed.

Lemma fold_merge_total rest r0 :
  r_total (fold_left result_merge rest r0) = r_total r0 + fold_right Z.add 0 (map r_total rest).
Proof.
  revert r0; induction rest as [|r rest IH]; intro r0; cbn; [lia|].
  rewrite IH. cbn. lia.
Qed.

Lemma oks_map_Some (rs : list result) :
  flat_map (fun r => match r with Some x => [x] | None => [] end) (map Some rs) = rs.
Proof. induction rs as [|r rs IH]; cbn; [reflexivity|]. rewrite IH. reflexivity. Qed.

Lemma merge_results_hits rs : r_hits (merge_results (map Some rs)) = concat (map r_hits rs).
Proof.
  unfold merge_results. rewrite oks_map_Some. destruct rs as [|r0 rest]; [reflexivity|].
  apply fold_merge_hits.
Qed.

(* total_adds: the alias' Total is the sum of the members' totals *)
Theorem total_adds : forall rs, r_total (merge_results (map Some rs)) = fold_right Z.add 0 (map r_total rs).
Proof.
  intro rs. unfold merge_results. rewrite oks_map_Some. destruct rs as [|r0 rest]; [reflexivity|].
  apply fold_merge_total.
Qed.

(* ---------------------------------------------------------------- alias trees *)

Section TreeInd.
  Variable Q : tree -> Prop.
  Hypothesis Hleaf : forall lf, Q (Leaf lf).
  Hypothesis Halias : forall cs, Forall Q cs -> Q (Alias cs).
  Fixpoint tree_ind' (t : tree) : Q t :=
    match t with
    | Leaf lf => Hleaf lf
    | Alias cs => Halias cs ((fix go (l : list tree) : Forall Q l :=
                                match l with
                                | [] => Forall_nil Q
                                | c :: l' => Forall_cons c (tree_ind' c) (go l')
                                end) cs)
    end.
End TreeInd.

Lemma all_matches_alias cs : all_matches (Alias cs) = flat_map all_matches cs.
Proof. unfold all_matches. cbn [leaves]. apply flat_map_flat_map. Qed.

(* requests of the property's family: a sort order, a page that the trim guard lets through,
   and (SearchRequest.Validate) no From together with SearchAfter / SearchBefore *)
Definition rq_ok (g : guard) (rq : request) : Prop :=
  q_desc rq <> [] /\ 0 <= q_from rq /\ guard_size g (q_size rq) = true /\
  ((q_after rq <> None \/ q_before rq <> None) -> q_from rq = 0).

Lemma before_none_rev rq : q_before (reverse_for_before rq) = None.
Proof. unfold reverse_for_before. destruct (q_before rq) eqn:E; [reflexivity|exact E]. Qed.

Lemma rev_len rq : length (q_desc (reverse_for_before rq)) = length (q_desc rq).
Proof. unfold reverse_for_before. destruct (q_before rq); cbn; [apply map_length|reflexivity]. Qed.

Lemma rev_from rq : q_from (reverse_for_before rq) = q_from rq.
Proof. unfold reverse_for_before. destruct (q_before rq); reflexivity. Qed.

Lemma rev_size rq : q_size (reverse_for_before rq) = q_size rq.
Proof. unfold reverse_for_before. destruct (q_before rq); reflexivity. Qed.

Lemma rev_desc_nonnil rq : q_desc rq <> [] -> q_desc (reverse_for_before rq) <> [].
Proof.
  intros H E. apply H. apply length_zero_iff_nil. rewrite <- rev_len. rewrite E. reflexivity.
Qed.

Lemma rev_after_from g rq : rq_ok g rq ->
  match q_after (reverse_for_before rq) with Some _ => 0 | None => q_from (reverse_for_before rq) end = q_from rq.
Proof.
  intros (_ & _ & _ & Hv). unfold reverse_for_before.
  destruct (q_before rq) eqn:Eb; cbn.
  - symmetry. apply Hv. right. congruence.
  - destruct (q_after rq) eqn:Ea; [|reflexivity]. symmetry. apply Hv. left. congruence.
Qed.

Lemma child_rq_ok g rq : rq_ok g rq -> rq_ok g (child_request (reverse_for_before rq)).
Proof.
  intros (Hd & Hf & Hg & Hv). unfold rq_ok, child_request. cbn.
  rewrite rev_from, rev_size. repeat split.
  - apply rev_desc_nonnil, Hd.
  - lia.
  - destruct g; cbn in *; lia.
Qed.

Lemma spec_hits_child rq ms :
  spec_hits (child_request (reverse_for_before rq)) ms =
  firstn (Z.to_nat (q_size rq + q_from rq))
    (sort_hits (q_desc (reverse_for_before rq))
       (after_filter (q_desc (reverse_for_before rq)) (q_after (reverse_for_before rq)) ms)).
Proof.
  unfold spec_hits.
  assert (Eb : q_before (child_request (reverse_for_before rq)) = None) by (cbn; apply before_none_rev).
  assert (Er : reverse_for_before (child_request (reverse_for_before rq)) = child_request (reverse_for_before rq)).
  { unfold reverse_for_before at 1. rewrite Eb. reflexivity. }
  rewrite Er, Eb. cbn [child_request q_after q_from q_size q_desc].
  rewrite rev_size, rev_from. unfold slice.
  destruct (q_after (reverse_for_before rq)); reflexivity.
Qed.

Lemma after_filter_flat_map {A} desc after (f : A -> list hit) l :
  after_filter desc after (flat_map f l) = flat_map (fun x => after_filter desc after (f x)) l.
Proof.
  destruct after as [a|]; cbn; [|reflexivity].
  induction l as [|x l IH]; cbn; [reflexivity|]. rewrite filter_app, IH. reflexivity.
Qed.

Lemma after_filter_submset desc after l : submset (after_filter desc after l) l.
Proof. destruct after; cbn; [apply submset_filter|apply submset_refl]. Qed.

Lemma submset_flat_map_in {A B} (f : A -> list B) l x : In x l -> submset (f x) (flat_map f l).
Proof.
  induction l as [|y l IH]; cbn; intro H; [contradiction|]. destruct H as [<-|H].
  - exists (flat_map f l). apply Permutation_refl.
  - eapply submset_trans; [apply IH, H|]. exists (f y). apply Permutation_app_comm.
Qed.

(* what the theorem says of one (sub)tree *)
Definition tree_ok (g : guard) (t : tree) : Prop :=
  forall rq, wf_tree t = true -> rq_ok g rq -> total_keys (q_desc rq) (all_matches t) ->
  exists r, search g t rq = Some r /\
            map hobs (r_hits r) = spec_page rq t /\ r_total r = spec_total t.

Lemma multi_search_ok g cs rq :
  Forall (tree_ok g) cs -> forallb wf_tree cs = true -> rq_ok g rq ->
  total_keys (q_desc rq) (flat_map all_matches cs) ->
  let r := multi_search g rq (fun crq => map (fun c => search g c crq) cs) in
  map hobs (r_hits r) = map hobs (spec_hits rq (flat_map all_matches cs)) /\
  r_total r = zlen (flat_map all_matches cs).
Proof.
  intros Hcs Hwf Hok Htot.
  set (rq1 := reverse_for_before rq). set (crq := child_request rq1).
  set (desc1 := q_desc rq1). set (after1 := q_after rq1).
  set (k := Z.to_nat (q_size rq + q_from rq)).
  assert (Hlen1 : length desc1 = length (q_desc rq)) by apply rev_len.
  (* every member answers, with the top k of its own (filtered, sorted) matches *)
  assert (Hch : exists rs, map (fun c => search g c crq) cs = map Some rs /\
            Forall2 (fun c rc => map hobs (r_hits rc) =
                                 firstn k (sort_obs desc1 (map hobs (after_filter desc1 after1 (all_matches c))))
                                 /\ r_total rc = zlen (all_matches c)) cs rs).
  { subst crq desc1 after1 rq1. clear -Hcs Hwf Hok Htot Hlen1.
    assert (Hsub : forall c, In c cs -> submset (all_matches c) (flat_map all_matches cs))
      by (intros c Hc; apply submset_flat_map_in, Hc).
    induction cs as [|c cs IH]; [exists []; split; [reflexivity|constructor]|].
    inversion Hcs as [|? ? Hc Hcs']; subst. cbn in Hwf. apply andb_true_iff in Hwf as [Hwc Hwf].
    destruct IH as (rs & E & F); auto.
    { eapply total_keys_submset; [|exact Htot]. cbn. exists (all_matches c). apply Permutation_app_comm. }
    { intros c' Hc'. eapply submset_trans; [apply submset_flat_map_in, Hc'|].
      clear. induction cs; cbn; apply submset_refl. }
    assert (Htc : total_keys (q_desc rq) (all_matches c)).
    { eapply total_keys_submset; [|exact Htot]. cbn. exists (flat_map all_matches cs). apply Permutation_refl. }
    destruct (Hc (child_request (reverse_for_before rq)) Hwc (child_rq_ok g rq Hok)) as (rc & Es & Eh & Et).
    { cbn [child_request q_desc]. unfold total_keys. eapply total_okeys_len; [symmetry; exact Hlen1|exact Htc]. }
    exists (rc :: rs). split; [cbn; rewrite Es, E; reflexivity|].
    constructor; [|exact F]. split; [|exact Et].
    rewrite Eh. unfold spec_page. rewrite spec_hits_child.
    rewrite <- firstn_map, sort_hobs; [reflexivity|].
    eapply total_keys_submset; [apply after_filter_submset|].
    unfold total_keys. eapply total_okeys_len; [symmetry; exact Hlen1|exact Htc]. }
  destruct Hch as (rs & Ers & Hrs).
  set (S := map (fun c => map hobs (after_filter desc1 after1 (all_matches c))) cs).
  assert (HcS : concat S = map hobs (after_filter desc1 after1 (flat_map all_matches cs))).
  { subst S. rewrite after_filter_flat_map. rewrite flat_map_concat_map, concat_map, map_map. reflexivity. }
  assert (HtS : total_okeys desc1 (concat S)).
  { rewrite HcS. eapply total_keys_submset; [apply after_filter_submset|].
    unfold total_keys. eapply total_okeys_len; [symmetry; exact Hlen1|exact Htot]. }
  assert (Hmerged : map hobs (r_hits (merge_results (map Some rs)))
                    = concat (map (fun s => firstn k (sort_obs desc1 s)) S)).
  { rewrite merge_results_hits, concat_map, map_map. f_equal. subst S. rewrite map_map.
    clear -Hrs. induction Hrs as [|c rc cs rs [H _] _ IH]; cbn; [reflexivity|]. rewrite H, IH. reflexivity. }
  assert (Htotal : r_total (merge_results (map Some rs)) = zlen (flat_map all_matches cs)).
  { rewrite total_adds. clear -Hrs.
    induction Hrs as [|c rc cs rs [_ H] _ IH]; cbn; [reflexivity|]. rewrite zlen_app, H, IH. reflexivity. }
  destruct Hok as (Hd & Hf & Hg & Hv).
  assert (Hd1 : desc1 <> []) by (apply rev_desc_nonnil, Hd).
  (* the page under the executed order *)
  assert (Hpage : map hobs (hits_in_current_page g desc1 (q_from rq) (q_size rq) (r_hits (merge_results (map Some rs))))
                  = slice (q_from rq) (q_size rq) (sort_obs desc1 (concat S))).
  { rewrite page_hobs.
    2:{ unfold total_keys. rewrite Hmerged. eapply total_okeys_submset; [apply topk_obs_submset|exact HtS]. }
    rewrite Hmerged. apply alias_page_obs; assumption. }
  assert (Hspec : map hobs (slice (q_from rq) (q_size rq)
                    (sort_hits desc1 (after_filter desc1 after1 (flat_map all_matches cs))))
                  = slice (q_from rq) (q_size rq) (sort_obs desc1 (concat S))).
  { unfold slice. rewrite <- firstn_map, <- skipn_map, sort_hobs; [rewrite HcS; reflexivity|].
    unfold total_keys. rewrite <- HcS. exact HtS. }
  cbv zeta. unfold multi_search. fold rq1. fold crq. rewrite Ers.
  cbn [r_hits r_total]. split; [|exact Htotal].
  unfold spec_hits. fold rq1. fold desc1. fold after1.
  assert (Ea : match after1 with Some _ => 0 | None => q_from rq1 end = q_from rq)
    by (apply (rev_after_from g rq); repeat split; assumption).
  assert (Ef : q_from rq1 = q_from rq) by apply rev_from.
  assert (Ez : q_size rq1 = q_size rq) by apply rev_size.
  rewrite Ea, Ef, Ez.
  destruct (q_before rq) eqn:Eb.
  - (* SearchBefore: both sides re-sort lists that observe the same *)
    rewrite !sort_hobs.
    + rewrite Hpage, Hspec. reflexivity.
    + unfold total_keys. rewrite Hspec. eapply total_okeys_submset.
      * unfold slice. eapply submset_trans; [apply submset_firstn|]. eapply submset_trans; [apply submset_skipn|].
        apply submset_perm, isort_perm.
      * eapply total_okeys_len; [exact Hlen1|exact HtS].
    + unfold total_keys. rewrite Hpage. eapply total_okeys_submset.
      * unfold slice. eapply submset_trans; [apply submset_firstn|]. eapply submset_trans; [apply submset_skipn|].
        apply submset_perm, isort_perm.
      * eapply total_okeys_len; [exact Hlen1|exact HtS].
  - rewrite Hpage, Hspec. reflexivity.
Qed.

Lemma tree_ok_all g t : tree_ok g t.
Proof.
  induction t as [lf|cs IH] using tree_ind'; intros rq Hwf Hok Htot.
  - eexists. split; [reflexivity|].
    unfold spec_page, spec_total, all_matches. cbn [leaves flat_map]. rewrite app_nil_r.
    split; reflexivity.
  - destruct cs as [|c [|c' cs']]; [discriminate| |].
    + (* the single-member short circuit *)
      inversion IH as [|? ? Hc _]; subst. cbn in Hwf. rewrite andb_true_r in Hwf.
      assert (E : all_matches (Alias [c]) = all_matches c).
      { rewrite all_matches_alias. cbn. apply app_nil_r. }
      unfold spec_page, spec_total. rewrite E. rewrite E in Htot.
      destruct (Hc rq Hwf Hok Htot) as (r & Es & Eh & Et).
      exists r. split; [exact Es|]. split; assumption.
    + eexists. split; [reflexivity|].
      unfold spec_page, spec_total. rewrite all_matches_alias. rewrite all_matches_alias in Htot.
      apply multi_search_ok; auto.
Qed.

(* the property on alias trees: any tree of aliases over the shards answers, up to HitNumber,
   what one index holding all the matches answers — pages, SearchAfter, SearchBefore, Total *)
Theorem alias_tree_page : forall g t rq,
  wf_tree t = true -> rq_ok g rq -> total_keys (q_desc rq) (all_matches t) ->
  exists r, search g t rq = Some r /\
            map hobs (r_hits r) = spec_page rq t /\ r_total r = spec_total t.
Proof. intros g t rq. apply tree_ok_all. Qed.

Lemma leaves_nonempty t : wf_tree t = true -> leaves t <> [].
Proof.
  induction t as [lf|cs IH] using tree_ind'; intro H; [discriminate|].
  destruct cs as [|c cs]; [discriminate|]. cbn in H. apply andb_true_iff in H as [Hc _].
  inversion IH as [|? ? IHc _]; subst. cbn. intro E. apply app_eq_nil in E as [E _].
  apply (IHc Hc E).
Qed.

Lemma flatten_wf t : wf_tree t = true -> wf_tree (flatten t) = true.
Proof.
  intro H. apply leaves_nonempty in H. unfold flatten. cbn.
  destruct (leaves t) as [|l ls] eqn:E; [congruence|]. cbn.
  clear. induction ls; cbn; auto.
Qed.

Lemma flatten_matches t : all_matches (flatten t) = all_matches t.
Proof.
  unfold all_matches, flatten. cbn [leaves]. f_equal.
  induction (leaves t) as [|l ls IH]; cbn; [reflexivity|]. rewrite IH. reflexivity.
Qed.

(* alias_tree_flatten: nesting aliases changes nothing observable *)
Theorem alias_tree_flatten : forall g t rq,
  wf_tree t = true -> rq_ok g rq -> total_keys (q_desc rq) (all_matches t) ->
  exists r r', search g t rq = Some r /\ search g (flatten t) rq = Some r' /\
               map hobs (r_hits r) = map hobs (r_hits r') /\ r_total r = r_total r'.
Proof.
  intros g t rq Hwf Hok Htot.
  destruct (alias_tree_page g t rq Hwf Hok Htot) as (r & Es & Eh & Et).
  destruct (alias_tree_page g (flatten t) rq (flatten_wf t Hwf) Hok) as (r' & Es' & Eh' & Et').
  { rewrite flatten_matches. exact Htot. }
  exists r, r'. repeat split; auto.
  - rewrite Eh, Eh'. unfold spec_page. rewrite flatten_matches. reflexivity.
  - rewrite Et, Et'. unfold spec_total. rewrite flatten_matches. reflexivity.
Qed.

(* hypotheses satisfiable on a non-trivial value: a nested alias, SearchBefore request *)
Definition ex_leaf (ids : list Z) : tree :=
  Leaf {| l_matches := map h_ex ids; l_maxscore := 0; l_facets := [] |}.
Definition ex_tree : tree := Alias [ex_leaf [97; 101]; Alias [ex_leaf [98; 102]; ex_leaf []; ex_leaf [99; 100]]].
Definition ex_rq : request :=
  {| q_desc := [false]; q_from := 0; q_size := 2; q_after := None; q_before := Some [[101]]; q_fsizes := [] |}.

Example alias_tree_example :
  wf_tree ex_tree = true /\ rq_ok GuardGt ex_rq /\ total_keys (q_desc ex_rq) (all_matches ex_tree) /\
  option_map (fun r => map hid (r_hits r)) (search GuardGt ex_tree ex_rq) = Some [[99]; [100]].
Proof.
  split; [reflexivity|]. split; [|split; [|vm_compute; reflexivity]].
  - unfold rq_ok. cbn. repeat split; try lia; try discriminate.
  - split; [|repeat constructor]. cbn.
    repeat (constructor; [cbn; intuition discriminate|]). constructor.
Qed.

(* the refutation at the level of the API model: an alias of two shards, Size = 0, From = 1 *)
Definition ex_rq0 : request :=
  {| q_desc := [false]; q_from := 1; q_size := 0; q_after := None; q_before := None; q_fsizes := [] |}.
Definition ex_tree0 : tree := Alias [ex_leaf [97; 99]; ex_leaf [98; 100]].

Theorem size_zero_alias_refuted : exists t rq r,
  wf_tree t = true /\ q_desc rq <> [] /\ 0 <= q_from rq /\ q_size rq = 0 /\
  q_after rq = None /\ q_before rq = None /\ total_keys (q_desc rq) (all_matches t) /\
  search GuardGt t rq = Some r /\ map hobs (r_hits r) <> spec_page rq t.
Proof.
  exists ex_tree0, ex_rq0. eexists. repeat split.
  - cbn. discriminate.
  - cbn. lia.
  - cbn. repeat (constructor; [cbn; intuition discriminate|]). constructor.
  - repeat constructor.
  - vm_compute. discriminate.
Qed.

(* SearchAfter together with From (rejected by SearchRequest.Validate, which neither the index nor
   the alias calls): an index ignores From, the alias applies it — why rq_ok excludes it *)
Example after_with_from_diverges :
  let rq := {| q_desc := [false]; q_from := 1; q_size := 1; q_after := Some [[97]]; q_before := None; q_fsizes := [] |} in
  option_map (fun r => map hid (r_hits r)) (search GuardGt ex_tree0 rq) = Some [[99]] /\
  map hid (spec_hits rq (all_matches ex_tree0)) = [[98]].
Proof. split; vm_compute; reflexivity. Qed.
