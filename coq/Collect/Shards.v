(* Collect engine — executable model of searching an index alias over shards (definitions only).

   Transcribed from /repo:
     index_alias_impl.go   indexAliasImpl.SearchInContext (empty alias -> ErrorAliasEmpty, the
                           single-member short circuit, MultiSearch otherwise; the pre-search / knn /
                           synonym / score-fusion paths are NOT modelled: the request family of C09
                           never triggers them), createChildSearchRequest, MultiSearch (SearchBefore
                           executed as SearchAfter under the reversed sort and a final re-sort; child
                           results merged in arrival order; hitsInCurrentPage; facet Fixup),
                           hitsInCurrentPage (EXACTLY, including the trim guard on req.Size, which is
                           a parameter [guard] of the model read off the source by T1)
     search_no_knn.go      copySearchRequest (Size = Size+From, From = 0, Sort/SearchAfter/SearchBefore/
                           Facets/Fields copied)
     search.go             SearchResult.Merge (hits appended, Total added, max of MaxScore, facets merged)
     search/sort.go        SortOrder.Compare as used by searchHitSorter (index_impl.go): per-key compare
                           with descending flags, then DocumentMatch.HitNumber
     search/facets_builder.go  TermFacets.Add, NumericRangeFacets.Add / Same, FacetResult.Merge,
                           FacetResult.Fixup, FacetResults.Merge / Fixup
     search/facet/facet_builder_terms.go   TermsFacetBuilder.Result (only as the per-shard facet the
                           facet theorem starts from; no prefix / regexp filter)
     index_impl.go         what a member index answers to a (child) request is NOT re-modelled here: it is
                           the statement of C06 — the [Size] hits after the first [From] of the member's
                           matches sorted by the request's order (after the SearchAfter filter; with
                           SearchAfter the collector is built with skip = 0, buildTopNCollector), Total =
                           number of matches — and of C10 for its facets.  [leaf_search] is that statement.

   Sort keys are byte strings ([list Z], Go string comparison = [bcompare]).  Score-dependent sort keys
   are excluded by the property, so [SortOrder.Compare]'s cachedScoring branch is not modelled.
   [sort.Sort] (Go's pdqsort, not stable) is modelled by insertion sort: on the inputs the theorems speak
   about the order is total, so every correct sort returns the same list.
   MaxScore is a Z: the IEEE-754 bit pattern of a float64 that is +0 or positive (orders as the float).
   From / Size are Z (Go int); positions in lists are [nat] via [Z.to_nat]. *)
From Coq Require Import ZArith List Bool.
From Verif Require Import Common.Bytes.
Import ListNotations.
Local Open Scope Z_scope.

Definition zlen {A} (l : list A) : Z := Z.of_nat (length l).

(* ---------------------------------------------------------------- generic insertion sort *)

Section Isort.
  Context {A : Type} (leb : A -> A -> bool).
  Fixpoint insert (x : A) (l : list A) : list A :=
    match l with
    | [] => [x]
    | y :: l' => if leb x y then x :: l else y :: insert x l'
    end.
  Definition isort (l : list A) : list A := fold_right insert [] l.
End Isort.

(* ---------------------------------------------------------------- hits and their order *)

(* search.DocumentMatch as far as the alias looks at it / hands it on:
   Sort (keys), ID, HitNumber (numbered by the member index that produced it), stored Fields *)
Record hit := { hkeys : list bytes; hid : bytes; hnum : Z; hfields : list (bytes * bytes) }.

(* what a caller can observe of a hit (HitNumber is json:"-" and shard-local) *)
Definition obs := (list bytes * bytes * list (bytes * bytes))%type.
Definition hobs (h : hit) : obs := (hkeys h, hid h, hfields h).
Definition okeys (o : obs) : list bytes := fst (fst o).

(* SortOrder.Compare, loop over the sort keys ([desc] = CacheDescending()).  A key slot that is
   out of range would panic in Go; it reads as "equal" here — never reached: Sort has one entry
   per sort key *)
Fixpoint keys_cmp (desc : list bool) (a b : list bytes) : comparison :=
  match desc, a, b with
  | d :: desc', x :: a', y :: b' =>
      match bcompare x y with
      | Eq => keys_cmp desc' a' b'
      | c => if d then CompOpp c else c
      end
  | _, _, _ => Eq
  end.

(* SortOrder.Compare: keys, then "impose order based on index natural sort order" (HitNumber) *)
Definition hit_cmp (desc : list bool) (a b : hit) : comparison :=
  match keys_cmp desc (hkeys a) (hkeys b) with
  | Eq => hnum a ?= hnum b
  | c => c
  end.

Definition not_gt (c : comparison) : bool := match c with Gt => false | _ => true end.
Definition hit_leb (desc : list bool) (a b : hit) : bool := not_gt (hit_cmp desc a b).

(* sortFunc(newSearchHitSorter(sort, hits)) *)
Definition sort_hits (desc : list bool) (l : list hit) : list hit := isort (hit_leb desc) l.

(* the observable order: keys only *)
Definition obs_leb (desc : list bool) (a b : obs) : bool := not_gt (keys_cmp desc (okeys a) (okeys b)).
Definition sort_obs (desc : list bool) (l : list obs) : list obs := isort (obs_leb desc) l.

(* MakeTopNDocumentMatchHandler / FilterHitsBySearchAfter: a hit is kept iff it sorts strictly
   after the search-after document (whose HitNumber is set to the hit's own) *)
Definition after_keep (desc : list bool) (after : list bytes) (ks : list bytes) : bool :=
  match keys_cmp desc ks after with Gt => true | _ => false end.
Definition after_filter (desc : list bool) (after : option (list bytes)) (l : list hit) : list hit :=
  match after with
  | None => l
  | Some a => filter (fun h => after_keep desc a (hkeys h)) l
  end.

Definition slice {A} (from size : Z) (l : list A) : list A :=
  firstn (Z.to_nat size) (skipn (Z.to_nat from) l).

(* ---------------------------------------------------------------- facets *)

Record nrange := { nr_name : bytes; nr_min : option Z; nr_max : option Z; nr_count : Z }.
(* search.FacetResult (Field omitted; date ranges not modelled); [None] = Go nil *)
Record fres := {
  f_total : Z; f_missing : Z; f_other : Z;
  f_terms : option (list (bytes * Z));
  f_nranges : option (list nrange)
}.
Definition facets := list (bytes * fres).      (* search.FacetResults: name -> result *)

(* TermFacets.Add (one facet): termLookup hit -> add the count, else append.
   TermFacets keeps a slice (termFacets) and a map (termLookup); they hold the same terms until
   TrimToTopN / Fixup cut the slice (the map keeps the cut-off terms, and a count later merged into
   such a term is dropped).  The model has the slice only: it is exact as long as no list was
   trimmed, i.e. for facet sizes that cover all buckets — the case the property is about; the
   correspondence check compares only Total and Missing of facets whose size does not cover. *)
Fixpoint terms_add (l : list (bytes * Z)) (t : bytes) (c : Z) : list (bytes * Z) :=
  match l with
  | [] => [(t, c)]
  | (t', c') :: l' => if beqb t' t then (t', c' + c) :: l' else (t', c') :: terms_add l' t c
  end.
Definition terms_add_all (into from : list (bytes * Z)) : list (bytes * Z) :=
  fold_left (fun acc tc => terms_add acc (fst tc) (snd tc)) from into.

(* NumericRangeFacet.Same: Min and Max only (the name is not compared) *)
Definition nr_same (a b : nrange) : bool :=
  option_eqb Z.eqb (nr_min a) (nr_min b) && option_eqb Z.eqb (nr_max a) (nr_max b).
(* NumericRangeFacets.Add *)
Fixpoint nranges_add (l : list nrange) (r : nrange) : list nrange :=
  match l with
  | [] => [r]
  | e :: l' =>
      if nr_same r e
      then {| nr_name := nr_name e; nr_min := nr_min e; nr_max := nr_max e; nr_count := nr_count e + nr_count r |} :: l'
      else e :: nranges_add l' r
  end.

(* FacetResult.Merge (note the early returns when the receiver's list is nil) *)
Definition fres_merge (fr other : fres) : fres :=
  let tot := f_total fr + f_total other in
  let mis := f_missing fr + f_missing other in
  let oth := f_other fr + f_other other in
  let numeric (terms : option (list (bytes * Z))) : fres :=
    match f_nranges other with
    | Some onr =>
        match f_nranges fr with
        | None => {| f_total := tot; f_missing := mis; f_other := oth; f_terms := terms; f_nranges := Some onr |}
        | Some fnr =>
            {| f_total := tot; f_missing := mis; f_other := oth; f_terms := terms;
               f_nranges := Some (fold_left nranges_add onr fnr) |}
        end
    | None => {| f_total := tot; f_missing := mis; f_other := oth; f_terms := terms; f_nranges := f_nranges fr |}
    end in
  match f_terms other with
  | Some ot =>
      match f_terms fr with
      | None => {| f_total := tot; f_missing := mis; f_other := oth; f_terms := Some ot; f_nranges := f_nranges fr |}
      | Some ft => numeric (Some (terms_add_all ft ot))
      end
  | None => numeric (f_terms fr)
  end.

(* TermFacets.Less: count descending, then term ascending *)
Definition term_leb (a b : bytes * Z) : bool :=
  if snd a =? snd b then not_gt (bcompare (fst a) (fst b)) else snd b <? snd a.
(* NumericRangeFacets.Less: count descending, then name ascending *)
Definition nrange_leb (a b : nrange) : bool :=
  if nr_count a =? nr_count b then not_gt (bcompare (nr_name a) (nr_name b)) else nr_count b <? nr_count a.

Definition sum_counts (l : list (bytes * Z)) : Z := fold_left (fun s tc => s + snd tc) l 0.
Definition sum_ncounts (l : list nrange) : Z := fold_left (fun s r => s + nr_count r) l 0.

(* FacetResult.Fixup *)
Definition fres_fixup (size : Z) (fr : fres) : fres :=
  match f_terms fr with
  | Some ts =>
      let s := isort term_leb ts in
      if size <? zlen s
      then {| f_total := f_total fr; f_missing := f_missing fr;
              f_other := f_other fr + sum_counts (skipn (Z.to_nat size) s);
              f_terms := Some (firstn (Z.to_nat size) s); f_nranges := f_nranges fr |}
      else {| f_total := f_total fr; f_missing := f_missing fr; f_other := f_other fr;
              f_terms := Some s; f_nranges := f_nranges fr |}
  | None =>
      match f_nranges fr with
      | Some rs =>
          let s := isort nrange_leb rs in
          if size <? zlen s
          then {| f_total := f_total fr; f_missing := f_missing fr;
                  f_other := f_other fr + sum_ncounts (skipn (Z.to_nat size) s);
                  f_terms := None; f_nranges := Some (firstn (Z.to_nat size) s) |}
          else {| f_total := f_total fr; f_missing := f_missing fr; f_other := f_other fr;
                  f_terms := None; f_nranges := Some s |}
      | None => fr
      end
  end.

Fixpoint facets_get (fs : facets) (name : bytes) : option fres :=
  match fs with
  | [] => None
  | (n, fr) :: fs' => if beqb n name then Some fr else facets_get fs' name
  end.
Fixpoint facets_update (fs : facets) (name : bytes) (f : fres -> fres) : facets :=
  match fs with
  | [] => []
  | (n, fr) :: fs' => if beqb n name then (n, f fr) :: fs' else (n, fr) :: facets_update fs' name f
  end.
(* FacetResults.Merge: merge on a name already present, else add *)
Definition facets_merge (fr other : facets) : facets :=
  fold_left (fun acc nf =>
    match facets_get acc (fst nf) with
    | Some _ => facets_update acc (fst nf) (fun x => fres_merge x (snd nf))
    | None => acc ++ [nf]
    end) other fr.
(* FacetResults.Fixup *)
Definition facets_fixup (fs : facets) (name : bytes) (size : Z) : facets :=
  facets_update fs name (fres_fixup size).

(* TermsFacetBuilder.Result over the term lists of a shard's matching documents (one list per
   document: the terms of the facet field): counts per term, sorted, trimmed to [size],
   Other = Total - listed, Missing = documents with no term *)
Definition terms_count (docs : list (list bytes)) : list (bytes * Z) :=
  fold_left (fun acc t => terms_add acc t 1) (concat docs) [].
Definition terms_build (size : Z) (docs : list (list bytes)) : fres :=
  let s := isort term_leb (terms_count docs) in
  let listed := firstn (Z.to_nat (Z.min size (zlen s))) s in
  let total := zlen (concat docs) in
  {| f_total := total;
     f_missing := zlen (filter (fun d => match d with [] => true | _ => false end) docs);
     f_other := total - sum_counts listed;
     f_terms := Some listed; f_nranges := None |}.

(* ---------------------------------------------------------------- requests and results *)

Record request := {
  q_desc : list bool;                 (* Sort: Descending() of every key, in order *)
  q_from : Z; q_size : Z;
  q_after : option (list bytes);      (* SearchAfter (already in key encoding) *)
  q_before : option (list bytes);     (* SearchBefore *)
  q_fsizes : list (bytes * Z)         (* Facets: name -> Size *)
}.

Record result := { r_hits : list hit; r_total : Z; r_maxscore : Z; r_facets : facets }.

(* the trim guard of hitsInCurrentPage on req.Size: "req.Size > 0 &&" or "req.Size >= 0 &&" (T1) *)
Inductive guard := GuardGt | GuardGe.
Definition guard_size (g : guard) (size : Z) : bool :=
  match g with GuardGt => 0 <? size | GuardGe => 0 <=? size end.
Definition guard_of_op (op : bytes) : option guard :=
  if beqb op [62] then Some GuardGt            (* ">"  *)
  else if beqb op [62; 61] then Some GuardGe   (* ">=" *)
  else None.

(* hitsInCurrentPage *)
Definition hits_in_current_page (g : guard) (desc : list bool) (from size : Z) (hits : list hit) : list hit :=
  (* if len(req.Sort) > 0 { sort } *)
  let hits1 := match desc with [] => hits | _ => sort_hits desc hits end in
  (* if req.From > 0 && len(hits) > req.From { hits = hits[req.From:] } else if req.From > 0 { empty } *)
  let hits2 := if (0 <? from) && (from <? zlen hits1) then skipn (Z.to_nat from) hits1
               else if 0 <? from then [] else hits1 in
  (* if req.Size <guard> 0 && len(hits) > req.Size { hits = hits[0:req.Size] } *)
  if guard_size g size && (size <? zlen hits2) then firstn (Z.to_nat size) hits2 else hits2.

(* the same on observables (used by the proofs to forget HitNumber) *)
Definition page_obs (g : guard) (desc : list bool) (from size : Z) (hits : list obs) : list obs :=
  let hits1 := match desc with [] => hits | _ => sort_obs desc hits end in
  let hits2 := if (0 <? from) && (from <? zlen hits1) then skipn (Z.to_nat from) hits1
               else if 0 <? from then [] else hits1 in
  if guard_size g size && (size <? zlen hits2) then firstn (Z.to_nat size) hits2 else hits2.

(* MultiSearch / indexImpl.SearchInContext: "if req.SearchBefore != nil { req.Sort.Reverse();
   req.SearchAfter = req.SearchBefore; req.SearchBefore = nil }" *)
Definition reverse_for_before (rq : request) : request :=
  match q_before rq with
  | Some b => {| q_desc := map negb (q_desc rq); q_from := q_from rq; q_size := q_size rq;
                 q_after := Some b; q_before := None; q_fsizes := q_fsizes rq |}
  | None => rq
  end.

(* createChildSearchRequest = copySearchRequest *)
Definition child_request (rq : request) : request :=
  {| q_desc := q_desc rq; q_from := 0; q_size := q_size rq + q_from rq;
     q_after := q_after rq; q_before := q_before rq; q_fsizes := q_fsizes rq |}.

(* ---------------------------------------------------------------- a member index (C06 / C10 as given) *)

(* the matches of one index for the request's query, with the sort keys the index computes under
   the order it executes (the reversed one for a SearchBefore request), its MaxScore and its
   facet results for the request's facets *)
Record leaf := { l_matches : list hit; l_maxscore : Z; l_facets : facets }.

(* SPEC of a search on one index holding the matches [ms] (statement of C06):
   the slice [From, From+Size) of the sorted matches; SearchAfter keeps what sorts strictly after
   and ignores From (collector built with skip 0); SearchBefore = SearchAfter under the reversed
   order, re-sorted in the original order *)
Definition spec_hits (rq : request) (ms : list hit) : list hit :=
  let rq1 := reverse_for_before rq in
  let from := match q_after rq1 with Some _ => 0 | None => q_from rq1 end in
  let page := slice from (q_size rq1) (sort_hits (q_desc rq1) (after_filter (q_desc rq1) (q_after rq1) ms)) in
  match q_before rq with
  | Some _ => sort_hits (q_desc rq) page
  | None => page
  end.

Definition leaf_search (lf : leaf) (rq : request) : result :=
  {| r_hits := spec_hits rq (l_matches lf); r_total := zlen (l_matches lf);
     r_maxscore := l_maxscore lf; r_facets := l_facets lf |}.

(* ---------------------------------------------------------------- MultiSearch *)

Definition empty_result : result := {| r_hits := []; r_total := 0; r_maxscore := 0; r_facets := [] |}.

(* SearchResult.Merge *)
Definition result_merge (sr other : result) : result :=
  {| r_hits := r_hits sr ++ r_hits other;
     r_total := r_total sr + r_total other;
     r_maxscore := if r_maxscore sr <? r_maxscore other then r_maxscore other else r_maxscore sr;
     r_facets := match r_facets sr, r_facets other with
                 | [], _ :: _ => r_facets other     (* sr.Facets == nil && len(other.Facets) != 0 *)
                 | f, o => facets_merge f o
                 end |}.

(* the loop over asyncResults: the first successful result, later ones merged into it;
   failed members are skipped (their errors go to Status); none successful -> empty result *)
Definition merge_results (rs : list (option result)) : result :=
  let oks := flat_map (fun r => match r with Some x => [x] | None => [] end) rs in
  match oks with
  | [] => empty_result
  | r0 :: rest => fold_left result_merge rest r0
  end.

(* MultiSearch, given how the members answer a request *)
Definition multi_search (g : guard) (rq : request) (members : request -> list (option result)) : result :=
  let rq1 := reverse_for_before rq in
  let sr := merge_results (members (child_request rq1)) in
  let hits := hits_in_current_page g (q_desc rq1) (q_from rq1) (q_size rq1) (r_hits sr) in
  let fs := fold_left (fun acc ns => facets_fixup acc (fst ns) (snd ns)) (q_fsizes rq) (r_facets sr) in
  let hits' := match q_before rq with
               | Some _ => sort_hits (q_desc rq) hits      (* re-sort in the original order *)
               | None => hits
               end in
  {| r_hits := hits'; r_total := r_total sr; r_maxscore := r_maxscore sr; r_facets := fs |}.

(* ---------------------------------------------------------------- alias trees *)

Inductive tree := Leaf (lf : leaf) | Alias (members : list tree).

(* Index.SearchInContext on a tree of aliases; [None] = an error (ErrorAliasEmpty) *)
Fixpoint search (g : guard) (t : tree) (rq : request) {struct t} : option result :=
  match t with
  | Leaf lf => Some (leaf_search lf rq)
  | Alias cs =>
      match cs with
      | [] => None                                   (* len(i.indexes) < 1 *)
      | [c] => search g c rq                         (* short circuit the simple case *)
      | _ => Some (multi_search g rq (fun crq => map (fun c => search g c crq) cs))
      end
  end.

Fixpoint leaves (t : tree) : list leaf :=
  match t with
  | Leaf lf => [lf]
  | Alias cs => flat_map leaves cs
  end.
Definition all_matches (t : tree) : list hit := flat_map l_matches (leaves t).
(* the same members under one alias *)
Definition flatten (t : tree) : tree := Alias (map Leaf (leaves t)).

(* no alias without members anywhere in the tree *)
Fixpoint wf_tree (t : tree) : bool :=
  match t with
  | Leaf _ => true
  | Alias cs => match cs with [] => false | _ => forallb wf_tree cs end
  end.

(* ---------------------------------------------------------------- SPEC of the property *)

(* what one index holding all the matches answers *)
Definition spec_total (t : tree) : Z := zlen (all_matches t).
Definition spec_page (rq : request) (t : tree) : list obs := map hobs (spec_hits rq (all_matches t)).
