(* Collect engine — the binary heap of Collect/TopN.v (Go's container/heap up/down over
   collectStoreHeap) is a correct priority queue: Push and Pop keep the heap shape and the
   elements, Pop returns the greatest element (the match that sorts last), fuel never runs out. *)
From Coq Require Import ZArith List Bool Lia Permutation PeanoNat ZifyNat.
From Verif Require Import Common.Bytes Collect.TopN Collect.TopNSorted.
Import ListNotations.
Local Open Scope Z_scope.

Ltac Zify.zify_post_hook ::= Z.to_euclidean_division_equations.

Section Heap.
  Variable cmp : dmatch -> dmatch -> Z.
  Hypothesis cmp_anti : forall a b, cmp b a = - cmp a b.
  Hypothesis cmp_le_trans : forall a b c, cmp a b <= 0 -> cmp b c <= 0 -> cmp a c <= 0.
  Hypothesis cmp_eq_hit : forall a b, cmp a b = 0 -> hit a = hit b.
  (* every lemma of the section takes (cmp, cmp_anti, cmp_le_trans, cmp_eq_hit), used or not *)
  Set Default Proof Using "All".

  Definition d0 : dmatch := {| hit := 0; did := []; score := 0; keys := [] |}.
  Definition get (h : list dmatch) (i : nat) : dmatch := nth i h d0.
  Definition le (a b : dmatch) : Prop := cmp a b <= 0.
  Definition parent (j : nat) : nat := ((j - 1) / 2)%nat.

  Lemma le_refl a : le a a.
  Proof. unfold le. pose proof (cmp_anti a a). lia. Qed.
  Lemma le_trans a b c : le a b -> le b c -> le a c.
  Proof. unfold le. apply cmp_le_trans. Qed.

  (* the heap order on the first n cells: no cell sorts after its parent *)
  Definition heap_upto (h : list dmatch) (n : nat) : Prop :=
    forall j, (0 < j < n)%nat -> le (get h j) (get h (parent j)).
  Definition heap_ok (h : list dmatch) : Prop := heap_upto h (length h).

  (* ---------------------------------------------------------------- arrays as lists *)

  Lemma set_nth_length h i x : length (set_nth h i x) = length h.
  Proof. revert i; induction h as [|y h IH]; intros [|i]; cbn; auto. Qed.

  Lemma get_set_nth h i x k :
    (i < length h)%nat -> get (set_nth h i x) k = if (k =? i)%nat then x else get h k.
  Proof.
    unfold get. revert i k; induction h as [|y h IH]; intros i k Hi; [cbn in Hi; lia|].
    destruct i as [|i], k as [|k]; cbn; auto.
    apply IH. cbn in Hi. lia.
  Qed.

  Lemma nth_error_get h i : (i < length h)%nat -> nth_error h i = Some (get h i).
  Proof. intros H. unfold get. apply nth_error_nth'. exact H. Qed.

  Lemma swap_eq h i j :
    (i < length h)%nat -> (j < length h)%nat ->
    swap h i j = set_nth (set_nth h i (get h j)) j (get h i).
  Proof. intros Hi Hj. unfold swap. rewrite (nth_error_get h i Hi), (nth_error_get h j Hj). reflexivity. Qed.

  Lemma swap_length h i j : length (swap h i j) = length h.
  Proof.
    unfold swap. destruct (nth_error h i), (nth_error h j); auto.
    rewrite !set_nth_length. reflexivity.
  Qed.

  Lemma get_swap h i j k :
    (i < length h)%nat -> (j < length h)%nat ->
    get (swap h i j) k =
    if (k =? j)%nat then get h i else if (k =? i)%nat then get h j else get h k.
  Proof.
    intros Hi Hj. rewrite swap_eq by assumption.
    rewrite get_set_nth by (rewrite set_nth_length; exact Hj).
    destruct (k =? j)%nat; [reflexivity|]. apply get_set_nth. exact Hi.
  Qed.

  Lemma set_nth_perm1 t j b x :
    nth_error t j = Some b -> Permutation (b :: set_nth t j x) (x :: t).
  Proof.
    revert j; induction t as [|y t IH]; intros [|j] H; cbn in *; try discriminate.
    - injection H as ->. apply perm_swap.
    - rewrite perm_swap. rewrite (IH j H). apply perm_swap.
  Qed.

  Lemma swap_perm h i j : Permutation (swap h i j) h.
  Proof.
    unfold swap. destruct (nth_error h i) as [a|] eqn:Ei; [|reflexivity].
    destruct (nth_error h j) as [b|] eqn:Ej; [|reflexivity].
    revert i j Ei Ej; induction h as [|x h IH]; intros i j Ei Ej; [destruct i; discriminate|].
    destruct i as [|i], j as [|j]; cbn in *.
    - injection Ei as ->. injection Ej as ->. reflexivity.
    - injection Ei as ->. apply set_nth_perm1. exact Ej.
    - injection Ej as ->. apply set_nth_perm1. exact Ei.
    - constructor. apply IH; assumption.
  Qed.

  Lemma less_get h i j :
    (i < length h)%nat -> (j < length h)%nat -> less cmp h i j = (0 <? cmp (get h i) (get h j)).
  Proof. intros Hi Hj. unfold less. rewrite (nth_error_get h i Hi), (nth_error_get h j Hj). reflexivity. Qed.

  Lemma get_app_l h t k : (k < length h)%nat -> get (h ++ t) k = get h k.
  Proof. intros H. unfold get. apply app_nth1. exact H. Qed.

  Lemma get_firstn h n k : (k < n)%nat -> get (firstn n h) k = get h k.
  Proof.
    unfold get. revert n k; induction h as [|x h IH]; intros n k H; [destruct n, k; reflexivity|].
    destruct n as [|n]; [lia|]. destruct k as [|k]; cbn; [reflexivity|]. apply IH. lia.
  Qed.

  Lemma in_get h y : In y h -> exists k, (k < length h)%nat /\ get h k = y.
  Proof. intros H. destruct (In_nth h y d0 H) as (k & Hk & E). exists k. auto. Qed.

  Lemma get_in h k : (k < length h)%nat -> In (get h k) h.
  Proof. intros H. apply nth_In. exact H. Qed.

  (* ---------------------------------------------------------------- up *)

  (* the heap order holds everywhere except possibly between j and its parent; j's children
     are already below j's parent *)
  Definition up_inv (h : list dmatch) (j : nat) : Prop :=
    (j < length h)%nat /\
    (forall k, (0 < k < length h)%nat -> k <> j -> le (get h k) (get h (parent k))) /\
    (forall k, (0 < k < length h)%nat -> parent k = j -> (0 < j)%nat -> le (get h k) (get h (parent j))).

  Lemma up_correct fuel : forall h j,
    up_inv h j -> (j < fuel)%nat ->
    exists h', up cmp fuel h j = Some h' /\ heap_ok h' /\ Permutation h' h.
  Proof.
    induction fuel as [|f IH]; intros h j (Hj & He & Hc) Hf; [lia|].
    cbn [up]. fold (parent j).
    destruct (parent j =? j)%nat eqn:Epj.
    - (* j = 0: no parent edge *)
      apply Nat.eqb_eq in Epj. assert (j = 0)%nat as -> by (unfold parent in Epj; lia).
      cbn [orb]. exists h. repeat split; auto.
      intros k Hk. apply He; lia.
    - apply Nat.eqb_neq in Epj. assert (Hj0 : (0 < j)%nat) by (unfold parent in Epj; lia).
      assert (Hp : (parent j < j)%nat) by (unfold parent in *; lia).
      cbn [orb]. rewrite less_get by lia.
      destruct (0 <? cmp (get h j) (get h (parent j))) eqn:El; cbn [negb].
      + (* swap with the parent and continue there *)
        apply Z.ltb_lt in El.
        assert (Hlt : le (get h (parent j)) (get h j)) by (unfold le; rewrite cmp_anti; lia).
        destruct (IH (swap h (parent j) j) (parent j)) as (h' & E & Hok & P).
        * unfold up_inv. rewrite swap_length. repeat split; [lia| |].
          -- intros k Hk Hne. rewrite !get_swap by lia.
             assert (Hpk : (parent k < k)%nat) by (unfold parent in *; lia).
             destruct (k =? j)%nat eqn:E1.
             ++ apply Nat.eqb_eq in E1. subst k.
                replace (parent j =? j)%nat with false by (symmetry; apply Nat.eqb_neq; lia).
                rewrite Nat.eqb_refl. exact Hlt.
             ++ apply Nat.eqb_neq in E1.
                replace (k =? parent j)%nat with false by (symmetry; apply Nat.eqb_neq; lia).
                destruct (parent k =? j)%nat eqn:E2.
                ** apply Nat.eqb_eq in E2. apply Hc; auto.
                ** apply Nat.eqb_neq in E2. destruct (parent k =? parent j)%nat eqn:E3.
                   --- apply Nat.eqb_eq in E3. apply le_trans with (get h (parent j)); [|exact Hlt].
                       rewrite <- E3. apply He; auto.
                   --- apply He; auto.
          -- intros k Hk Epk Hpos. rewrite !get_swap by lia.
             assert (Hpp : (parent (parent j) < parent j)%nat) by (unfold parent in *; lia).
             replace (parent (parent j) =? j)%nat with false by (symmetry; apply Nat.eqb_neq; lia).
             replace (parent (parent j) =? parent j)%nat with false by (symmetry; apply Nat.eqb_neq; lia).
             assert (Hpj : le (get h (parent j)) (get h (parent (parent j)))) by (apply He; lia).
             destruct (k =? j)%nat eqn:E1; [exact Hpj|]. apply Nat.eqb_neq in E1.
             replace (k =? parent j)%nat with false by (symmetry; apply Nat.eqb_neq; unfold parent in *; lia).
             apply le_trans with (get h (parent j)); [|exact Hpj].
             rewrite <- Epk. apply He; auto.
        * lia.
        * exists h'. repeat split; auto. rewrite P. apply swap_perm.
      + (* already in order *)
        apply Z.ltb_ge in El. exists h. repeat split; auto.
        intros k Hk. destruct (Nat.eq_dec k j) as [->|Hne]; [exact El|apply He; auto].
  Qed.

  Lemma heap_push_correct d h :
    heap_ok h -> exists h', heap_push cmp d h = Some h' /\ heap_ok h' /\ Permutation h' (d :: h).
  Proof.
    intros Hok. unfold heap_push. rewrite app_length. cbn [length].
    replace (length h + 1 - 1)%nat with (length h) by lia.
    destruct (up_correct (length h + 1) (h ++ [d]) (length h)) as (h' & E & Hok' & P).
    - unfold up_inv. rewrite app_length. cbn [length]. repeat split; [lia| |].
      + intros k Hk Hne. assert (Hpk : (parent k < k)%nat) by (unfold parent in *; lia).
        rewrite !get_app_l by lia. apply Hok. lia.
      + intros k Hk Epk Hpos. unfold parent in Epk. lia.
    - lia.
    - exists h'. repeat split; auto. rewrite P. apply Permutation_sym, Permutation_cons_append.
  Qed.

  (* ---------------------------------------------------------------- down *)

  (* within the first n cells the heap order holds except possibly between i and its children;
     those children are already below i's parent *)
  Definition down_inv (h : list dmatch) (i n : nat) : Prop :=
    (n <= length h)%nat /\
    (forall k, (0 < k < n)%nat -> parent k <> i -> le (get h k) (get h (parent k))) /\
    (forall k, (0 < k < n)%nat -> parent k = i -> (0 < i)%nat -> le (get h k) (get h (parent i))).

  Lemma down_correct fuel : forall h i n,
    down_inv h i n -> (n - i < fuel)%nat ->
    exists h', down cmp fuel h i n = Some h' /\ heap_upto h' n /\ Permutation h' h /\
               (forall k, (n <= k)%nat -> get h' k = get h k).
  Proof.
    induction fuel as [|f IH]; intros h i n (Hn & He & Hc) Hf; [lia|].
    cbn [down].
    destruct (n <=? 2 * i + 1)%nat eqn:En.
    - (* no child inside the first n cells *)
      apply Nat.leb_le in En. exists h. repeat split; auto.
      intros k Hk. apply He; [exact Hk|]. unfold parent in *. lia.
    - apply Nat.leb_gt in En.
      set (j1 := (2 * i + 1)%nat) in *.
      (* the greater child *)
      set (j := if ((j1 + 1 <? n)%nat && less cmp h (j1 + 1) j1) then (j1 + 1)%nat else j1).
      assert (Hjr : (j = j1 \/ j = j1 + 1)%nat /\ (j < n)%nat /\
                    (forall c, (c = j1 \/ c = j1 + 1)%nat -> (c < n)%nat -> le (get h c) (get h j))).
      { unfold j. destruct (j1 + 1 <? n)%nat eqn:E2; cbn [andb].
        - apply Nat.ltb_lt in E2. rewrite less_get by lia.
          destruct (0 <? cmp (get h (j1 + 1)) (get h j1)) eqn:E3.
          + apply Z.ltb_lt in E3. repeat split; [right; reflexivity|lia|].
            intros c [->| ->] _; [unfold le; rewrite cmp_anti; lia|apply le_refl].
          + apply Z.ltb_ge in E3. repeat split; [left; reflexivity|lia|].
            intros c [->| ->] _; [apply le_refl|exact E3].
        - apply Nat.ltb_ge in E2. repeat split; [left; reflexivity|lia|].
          intros c [->| ->] Hc'; [apply le_refl|lia]. }
      destruct Hjr as (Hj12 & Hjn & Hjmax). clearbody j.
      assert (Hpj : parent j = i) by (unfold parent, j1 in *; lia).
      rewrite less_get by lia.
      destruct (0 <? cmp (get h j) (get h i)) eqn:El; cbn [negb].
      + (* swap with the greater child and continue there *)
        apply Z.ltb_lt in El.
        assert (Hlt : le (get h i) (get h j)) by (unfold le; rewrite cmp_anti; lia).
        destruct (IH (swap h i j) j n) as (h' & E & Hok & P & Hrest).
        * unfold down_inv. rewrite swap_length. repeat split; [exact Hn| |].
          -- intros k Hk Hne. rewrite !get_swap by lia.
             assert (Hpk : (parent k < k)%nat) by (unfold parent in *; lia).
             destruct (k =? j)%nat eqn:E1.
             ++ apply Nat.eqb_eq in E1. subst k. rewrite Hpj.
                replace (i =? j)%nat with false by (symmetry; apply Nat.eqb_neq; lia).
                rewrite Nat.eqb_refl. exact Hlt.
             ++ apply Nat.eqb_neq in E1.
                destruct (k =? i)%nat eqn:E2.
                ** (* k = i: its parent is neither i nor j *)
                   apply Nat.eqb_eq in E2. subst k.
                   replace (parent i =? j)%nat with false by (symmetry; apply Nat.eqb_neq; lia).
                   replace (parent i =? i)%nat with false by (symmetry; apply Nat.eqb_neq; lia).
                   apply Hc; lia.
                ** apply Nat.eqb_neq in E2.
                   replace (parent k =? j)%nat with false by (symmetry; apply Nat.eqb_neq; lia).
                   destruct (parent k =? i)%nat eqn:E3.
                   --- (* the other child of i *)
                       apply Nat.eqb_eq in E3. apply Hjmax; [unfold parent, j1 in *; lia|lia].
                   --- apply Nat.eqb_neq in E3. apply He; auto.
          -- intros k Hk Epk Hpos. rewrite !get_swap by lia.
             assert (k <> j /\ k <> i) as (N1 & N2) by (unfold parent, j1 in *; lia).
             replace (k =? j)%nat with false by (symmetry; apply Nat.eqb_neq; lia).
             replace (k =? i)%nat with false by (symmetry; apply Nat.eqb_neq; lia).
             rewrite Hpj.
             replace (i =? j)%nat with false by (symmetry; apply Nat.eqb_neq; lia).
             rewrite Nat.eqb_refl.
             rewrite <- Epk. apply He; [exact Hk|lia].
        * lia.
        * exists h'. repeat split; auto.
          -- rewrite P. apply swap_perm.
          -- intros k Hk. rewrite (Hrest k Hk). rewrite get_swap by lia.
             replace (k =? j)%nat with false by (symmetry; apply Nat.eqb_neq; lia).
             replace (k =? i)%nat with false by (symmetry; apply Nat.eqb_neq; lia). reflexivity.
      + (* both children are below i *)
        apply Z.ltb_ge in El. exists h. repeat split; auto.
        intros k Hk. destruct (Nat.eq_dec (parent k) i) as [Epk|Hne]; [|apply He; auto].
        rewrite Epk. apply le_trans with (get h j); [|exact El].
        apply Hjmax; [unfold parent, j1 in *; lia|lia].
  Qed.

  Lemma heap_root_max h : heap_ok h -> forall k, (k < length h)%nat -> le (get h k) (get h 0).
  Proof.
    intros Hok k. induction k as [k IH] using lt_wf_ind. intros Hk.
    destruct k as [|k]; [apply le_refl|].
    apply le_trans with (get h (parent (S k))).
    - apply Hok. lia.
    - apply IH; unfold parent; lia.
  Qed.

  Lemma firstn_snoc_get (h : list dmatch) n : length h = S n -> h = firstn n h ++ [get h n].
  Proof.
    intros H. rewrite <- (firstn_skipn n h) at 1. f_equal.
    unfold get. revert n H; induction h as [|x h IH]; intros n H; [discriminate|].
    destruct n as [|n]; cbn in *.
    - destruct h; [reflexivity|discriminate].
    - apply IH. lia.
  Qed.

  Lemma heap_pop_correct h :
    heap_ok h -> h <> [] ->
    exists x h', heap_pop cmp h = Some (x, h') /\ heap_ok h' /\ Permutation (x :: h') h /\
                 (forall y, In y h' -> le y x).
  Proof.
    intros Hok Hne. unfold heap_pop.
    destruct (length h) as [|n] eqn:Hlen; [destruct h; [contradiction|discriminate]|].
    destruct (down_correct (S n) (swap h 0 n) 0 n) as (h' & E & Hup & P & Hrest).
    - unfold down_inv. rewrite swap_length. repeat split; [lia| |intros; lia].
      intros k Hk Hpk. assert (Hpk' : (parent k < k)%nat) by (unfold parent in *; lia).
      rewrite !get_swap by lia.
      replace (k =? n)%nat with false by (symmetry; apply Nat.eqb_neq; lia).
      replace (k =? 0)%nat with false by (symmetry; apply Nat.eqb_neq; lia).
      replace (parent k =? n)%nat with false by (symmetry; apply Nat.eqb_neq; lia).
      replace (parent k =? 0)%nat with false by (symmetry; apply Nat.eqb_neq; lia).
      apply Hok. lia.
    - lia.
    - rewrite E.
      assert (Hlen' : length h' = S n).
      { rewrite (Permutation_length P), swap_length. exact Hlen. }
      rewrite (nth_error_get h' n) by lia.
      assert (Hx : get h' n = get h 0).
      { rewrite (Hrest n) by lia. rewrite get_swap by lia. rewrite Nat.eqb_refl. reflexivity. }
      exists (get h' n), (firstn n h'). repeat split.
      + unfold heap_ok, heap_upto. rewrite firstn_length, Hlen'. rewrite Nat.min_l by lia.
        intros j Hj. assert (Hpj : (parent j < j)%nat) by (unfold parent in *; lia).
        rewrite !get_firstn by lia. apply Hup. exact Hj.
      + pose proof (firstn_snoc_get h' n Hlen') as Hsn.
        transitivity (firstn n h' ++ [get h' n]); [apply Permutation_cons_append|].
        rewrite <- Hsn. rewrite P. apply swap_perm.
      + intros y Hy. rewrite Hx.
        assert (Hy' : In y h).
        { apply (Permutation_in y (l := h')); [rewrite P; apply swap_perm|].
          rewrite <- (firstn_skipn n h'). apply in_or_app. left. exact Hy. }
        destruct (in_get h y Hy') as (k & Hk & <-). apply heap_root_max; auto.
  Qed.

End Heap.
