(* Collect engine — proofs about the numeric / date range facet builders. *)
From Coq Require Import ZArith List Bool Lia Permutation Sorted.
From Verif Require Import Common.Bytes Numeric.Model Collect.Facets Collect.FacetsLemmas Collect.FacetsProofs.
Import ListNotations.
Local Open Scope Z_scope.

Lemma NoDup_map_filter {A B} (f : A -> B) (p : A -> bool) l : NoDup (map f l) -> NoDup (map f (filter p l)).
Proof.
  induction l as [|x l IH]; cbn; intros H; [constructor|].
  inversion H as [|? ? Hnin Hnd]; subst. destruct (p x); cbn; [|auto].
  constructor; [|auto]. intros Hin. apply Hnin. apply in_map_iff in Hin as (y & E & Hy).
  apply filter_In in Hy as [Hy _]. rewrite <- E. apply in_map. exact Hy.
Qed.

Section RangeProofs.
  Context {T R V : Type}.
  Variable rname : R -> bytes.
  Variable value_of : T -> option V.
  Variable inr : R -> V -> bool.

  Let hit := rfb_hit rname inr.
  Let update := rfb_update rname value_of inr.
  Let rdoc := rfb_doc rname value_of inr.
  Let rcount := range_count value_of inr.

  (* weight of a value / a term over the requested ranges *)
  Definition hitw (w : R -> Z) (ranges : list R) (v : V) : Z :=
    zsum (map (fun r => if inr r v then w r else 0) ranges).
  Definition kw (k : bytes) (r : R) : Z := if beqb (rname r) k then 1 else 0.
  Definition one (r : R) : Z := 1.

  Lemma hit_fold v ranges : forall s,
    let s' := fold_left (hit v) ranges s in
    (forall k, get k (rb_counts s') = get k (rb_counts s) + hitw (kw k) ranges v) /\
    rb_total s' = rb_total s + hitw one ranges v /\
    rb_missing s' = rb_missing s /\ rb_saw s' = rb_saw s /\
    (wf (rb_counts s) -> wf (rb_counts s')).
  Proof.
    induction ranges as [|r ranges IH]; intros s; cbn [fold_left].
    - unfold hitw. cbn. repeat apply conj; intros; auto; lia.
    - destruct (IH (hit v s r)) as (Hg & Ht & Hm & Hs & Hw). cbn zeta.
      unfold hitw in *. cbn [map zsum]. unfold hit, rfb_hit in *.
      destruct (inr r v); cbn [rb_counts rb_total rb_missing rb_saw] in *.
      + repeat apply conj; auto.
        * intros k. rewrite Hg, get_bump. unfold kw. lia.
        * rewrite Ht. unfold one. lia.
        * intros H. apply Hw. apply wf_bump. exact H.
      + repeat apply conj; auto; try lia; intros k; rewrite Hg; lia.
  Qed.

  Definition tw (w : R -> Z) (ranges : list R) (t : T) : Z :=
    match value_of t with Some v => hitw w ranges v | None => 0 end.

  Lemma update_spec ranges s t :
    let s' := update ranges s t in
    (forall k, get k (rb_counts s') = get k (rb_counts s) + tw (kw k) ranges t) /\
    rb_total s' = rb_total s + tw one ranges t /\
    rb_missing s' = rb_missing s /\ rb_saw s' = true /\
    (wf (rb_counts s) -> wf (rb_counts s')).
  Proof.
    cbn zeta. unfold update, rfb_update, tw. destruct (value_of t) as [v|].
    - match goal with |- context [fold_left _ ranges ?s1] => destruct (hit_fold v ranges s1) as (Hg & Ht & Hm & Hs & Hw) end.
      cbn zeta in *. cbn [rb_counts rb_total rb_missing rb_saw] in *. fold hit. auto.
    - cbn [rb_counts rb_total rb_missing rb_saw]. repeat apply conj; intros; auto; lia.
  Qed.

  Lemma update_fold ranges d : forall s,
    let s' := fold_left (update ranges) d s in
    (forall k, get k (rb_counts s') = get k (rb_counts s) + zsum (map (tw (kw k) ranges) d)) /\
    rb_total s' = rb_total s + zsum (map (tw one ranges) d) /\
    rb_missing s' = rb_missing s /\
    rb_saw s' = (match d with [] => rb_saw s | _ => true end) /\
    (wf (rb_counts s) -> wf (rb_counts s')).
  Proof.
    induction d as [|t d IH]; intros s; cbn [fold_left map zsum].
    - repeat apply conj; intros; auto; lia.
    - destruct (IH (update ranges s t)) as (Hg & Ht & Hm & Hs & Hw).
      destruct (update_spec ranges s t) as (Hg' & Ht' & Hm' & Hs' & Hw'). cbn zeta in *.
      repeat apply conj; auto.
      + intros k. rewrite Hg, Hg'. lia.
      + lia.
      + congruence.
      + rewrite Hs. destruct d; auto.
  Qed.

  Lemma tw_vals w ranges d : zsum (map (tw w ranges) d) = zsum (map (hitw w ranges) (doc_vals value_of d)).
  Proof.
    induction d as [|t d IH]; [reflexivity|].
    cbn [map zsum doc_vals flat_map]. fold (doc_vals value_of d). rewrite map_app, zsum_app, IH.
    unfold tw. destruct (value_of t); cbn [map zsum]; lia.
  Qed.

  Definition is_nil (d : list T) : bool := match d with [] => true | _ => false end.

  Lemma rdoc_spec ranges s d :
    let s' := rdoc ranges s d in
    (forall k, get k (rb_counts s') =
               get k (rb_counts s) + zsum (map (hitw (kw k) ranges) (doc_vals value_of d))) /\
    rb_total s' = rb_total s + zsum (map (hitw one ranges) (doc_vals value_of d)) /\
    rb_missing s' = rb_missing s + (if is_nil d then 1 else 0) /\
    (wf (rb_counts s) -> wf (rb_counts s')).
  Proof.
    cbn zeta. unfold rdoc, rfb_doc. fold update.
    destruct (update_fold ranges d (rfb_start s)) as (Hg & Ht & Hm & Hs & Hw). cbn zeta in *.
    cbn [rfb_start rb_counts rb_total rb_missing rb_saw] in *.
    unfold rfb_end. rewrite Hs.
    destruct d; cbn [is_nil rb_counts rb_total rb_missing]; repeat apply conj; auto;
      try (intros k; rewrite Hg, tw_vals; reflexivity); try (rewrite Ht, tw_vals; reflexivity); lia.
  Qed.

  (* sum over documents of a per-value weight *)
  Definition dsum (w : R -> Z) (ranges : list R) (ms : list (list T)) : Z :=
    zsum (map (fun d => zsum (map (hitw w ranges) (doc_vals value_of d))) ms).

  Lemma rrun_from ranges ms : forall s,
    let s' := fold_left (rdoc ranges) ms s in
    (forall k, get k (rb_counts s') = get k (rb_counts s) + dsum (kw k) ranges ms) /\
    rb_total s' = rb_total s + dsum one ranges ms /\
    rb_missing s' = rb_missing s + range_missing ms /\
    (wf (rb_counts s) -> wf (rb_counts s')).
  Proof.
    induction ms as [|d ms IH]; intros s; cbn [fold_left].
    - unfold dsum, range_missing. cbn. repeat apply conj; intros; auto; lia.
    - destruct (IH (rdoc ranges s d)) as (Hg & Ht & Hm & Hw).
      destruct (rdoc_spec ranges s d) as (Hg' & Ht' & Hm' & Hw'). cbn zeta in *.
      unfold dsum in *. cbn [map zsum].
      repeat apply conj; auto.
      + intros k. rewrite Hg, Hg'. lia.
      + lia.
      + rewrite Hm, Hm'. unfold range_missing. cbn [filter]. fold (is_nil d).
        destruct (is_nil d); cbn [length]; lia.
  Qed.

  (* exchanging the order of summation: per-value weights summed over documents = per-range
     weights times the number of values in the range *)
  Lemma hitw_vals w ranges vs :
    zsum (map (hitw w ranges) vs) =
    zsum (map (fun r => w r * Z.of_nat (length (filter (inr r) vs))) ranges).
  Proof.
    induction vs as [|v vs IH]; cbn [map zsum].
    - symmetry. apply zsum_map_zero. intros r _. cbn. lia.
    - rewrite IH. unfold hitw. rewrite <- zsum_map_add. apply zsum_map_ext. intros r _.
      cbn [filter]. destruct (inr r v); cbn [length]; lia.
  Qed.

  Lemma dsum_swap w ranges ms :
    dsum w ranges ms = zsum (map (fun r => w r * rcount r ms) ranges).
  Proof.
    unfold dsum, rcount, range_count, range_count_vals.
    induction ms as [|d ms IH]; cbn [map zsum].
    - symmetry. apply zsum_map_zero. intros; lia.
    - rewrite IH, hitw_vals, <- zsum_map_add. apply zsum_map_ext. intros r _. lia.
  Qed.

  (* the count the builder holds under name k *)
  Definition name_count (ranges : list R) (k : bytes) (ms : list (list T)) : Z :=
    zsum (map (fun r => kw k r * rcount r ms) ranges).

  Lemma rcount_nonneg r ms : 0 <= rcount r ms.
  Proof. unfold rcount, range_count, range_count_vals. apply zsum_map_nonneg. intros; lia. Qed.

  Lemma rrun_spec ranges ms :
    let s := rfb_run rname value_of inr ranges ms in
    wf (rb_counts s) /\
    (forall k, get k (rb_counts s) = name_count ranges k ms) /\
    rb_total s = range_total value_of inr ranges ms /\
    rb_missing s = range_missing ms.
  Proof.
    cbn zeta. unfold rfb_run. fold rdoc.
    destruct (rrun_from ranges ms rfb_init) as (Hg & Ht & Hm & Hw). cbn zeta in *.
    cbn [rfb_init rb_counts rb_total rb_missing get] in *.
    repeat apply conj.
    - apply Hw, wf_nil.
    - apply Hw, wf_nil.
    - intros k. rewrite Hg, dsum_swap. unfold name_count. lia.
    - rewrite Ht, dsum_swap. unfold range_total, one. cbn [Z.add]. apply zsum_map_ext. intros r _.
      fold (rcount r ms). lia.
    - lia.
  Qed.

  Lemma name_count_notin ranges k ms : ~ In k (map rname ranges) -> name_count ranges k ms = 0.
  Proof.
    intros H. unfold name_count. apply zsum_map_zero. intros r Hr. unfold kw.
    destruct (beqb (rname r) k) eqn:E; [|lia].
    apply beqb_eq in E. exfalso. apply H. rewrite <- E. apply in_map. exact Hr.
  Qed.

  Lemma name_count_in ranges x ms :
    NoDup (map rname ranges) -> In x ranges -> name_count ranges (rname x) ms = rcount x ms.
  Proof.
    induction ranges as [|r ranges IH]; cbn [map]; intros Hnd Hin; [destruct Hin|].
    inversion Hnd as [|? ? Hnin Hnd']; subst. unfold name_count. cbn [map zsum].
    fold (name_count ranges (rname x) ms).
    destruct Hin as [->|Hin].
    - rewrite name_count_notin by exact Hnin. unfold kw. rewrite beqb_refl. lia.
    - rewrite IH by assumption. unfold kw. destruct (beqb (rname r) (rname x)) eqn:E; [|lia].
      apply beqb_eq in E. exfalso. apply Hnin. rewrite E. apply in_map. exact Hin.
  Qed.

  Lemma name_count_pos ranges k ms :
    NoDup (map rname ranges) ->
    (0 < name_count ranges k ms <-> exists x, In x ranges /\ rname x = k /\ 0 < rcount x ms).
  Proof.
    intros Hnd. split.
    - intros Hpos. destruct (existsb (fun x => beqb (rname x) k) ranges) eqn:E.
      + apply existsb_exists in E as (x & Hx & Ex). apply beqb_eq in Ex. subst k.
        exists x. rewrite name_count_in in Hpos by assumption. auto.
      + rewrite name_count_notin in Hpos; [lia|].
        intros Hin. apply in_map_iff in Hin as (x & Ex & Hx).
        assert (existsb (fun x => beqb (rname x) k) ranges = true); [|congruence].
        apply existsb_exists. exists x. split; [exact Hx|]. apply beqb_eq. exact Ex.
    - intros (x & Hx & <- & Hpos). rewrite name_count_in; assumption.
  Qed.

  (* Total is always the sum of the per-name counts *)
  Definition bal (s : rfb) : Z := rb_total s - csum (rb_counts s).

  Lemma fold_bal {X} (step : rfb -> X -> rfb) l :
    (forall s x, bal (step s x) = bal s) -> forall s, bal (fold_left step l s) = bal s.
  Proof.
    intros Hstep. induction l as [|x l IH]; intros s; cbn [fold_left]; [reflexivity|].
    rewrite IH. apply Hstep.
  Qed.

  Lemma hit_bal v s r : bal (hit v s r) = bal s.
  Proof.
    unfold hit, rfb_hit, bal, csum. destruct (inr r v); [|reflexivity].
    cbn [rb_counts rb_total]. rewrite csum_bump. lia.
  Qed.

  Lemma update_bal ranges s t : bal (update ranges s t) = bal s.
  Proof.
    unfold update, rfb_update. destruct (value_of t) as [v|]; [|reflexivity].
    fold hit. rewrite (fold_bal (hit v) ranges (hit_bal v)). reflexivity.
  Qed.

  Lemma rdoc_bal ranges s d : bal (rdoc ranges s d) = bal s.
  Proof.
    unfold rdoc, rfb_doc. fold update.
    transitivity (bal (fold_left (update ranges) d (rfb_start s))).
    - unfold rfb_end. destruct (rb_saw _); reflexivity.
    - rewrite (fold_bal (update ranges) d (update_bal ranges)). reflexivity.
  Qed.

  Lemma rrun_bal ranges ms :
    rb_total (rfb_run rname value_of inr ranges ms) = csum (rb_counts (rfb_run rname value_of inr ranges ms)).
  Proof.
    unfold rfb_run. fold rdoc.
    pose proof (fold_bal (rdoc ranges) ms (rdoc_bal ranges) rfb_init) as Hb.
    unfold bal in Hb. cbn [rfb_init rb_total rb_counts] in Hb. unfold csum in Hb at 2. cbn [map zsum] in Hb. lia.
  Qed.

  Definition nonempty_ranges (ranges : list R) (ms : list (list T)) : list R :=
    filter (fun x => 0 <? rcount x ms) ranges.

  Lemma nonempty_names_iff ranges ms k :
    NoDup (map rname ranges) ->
    (In k (map rname (nonempty_ranges ranges ms)) <-> 0 < name_count ranges k ms).
  Proof.
    intros Hnd. rewrite (name_count_pos _ _ _ Hnd), in_map_iff. unfold nonempty_ranges. split.
    - intros (x & E & Hx). apply filter_In in Hx as [Hx Hp]. apply Z.ltb_lt in Hp. exists x. auto.
    - intros (x & Hx & E & Hp). exists x. split; [exact E|]. apply filter_In. split; [exact Hx|].
      apply Z.ltb_lt. exact Hp.
  Qed.

  (* values in non-empty ranges that are not listed *)
  Definition unlisted_ranges (ranges : list R) (ms : list (list T)) (listed : list entry) : Z :=
    zsum (map (fun x => if listed_b listed (rname x) then 0 else rcount x ms) (nonempty_ranges ranges ms)).

  Lemma range_facet_defined ranges size ms :
    0 <= size -> exists r, range_facet rname value_of inr ranges size ms = Some r.
  Proof. intros H. apply finish_defined. exact H. Qed.

  Lemma range_facet_spec ranges size ms r :
    NoDup (map rname ranges) ->
    range_facet rname value_of inr ranges size ms = Some r ->
    (* every listed entry is a requested range, with the number of values of matching documents in it *)
    (forall k c, In (k, c) (fr_entries r) ->
       exists x, In x ranges /\ rname x = k /\ c = range_count value_of inr x ms /\ 0 < c) /\
    (* order: count descending, then name ascending *)
    StronglySorted e_lt (fr_entries r) /\
    (* the listed ranges are the top-N of the non-empty ranges in that order *)
    length (fr_entries r) = Nat.min (Z.to_nat size) (length (nonempty_ranges ranges ms)) /\
    (forall x, In x ranges -> 0 < range_count value_of inr x ms -> ~ In (rname x) (map fst (fr_entries r)) ->
       forall e, In e (fr_entries r) -> e_lt e (rname x, range_count value_of inr x ms)) /\
    (* Total, Other, Missing *)
    fr_total r = range_total value_of inr ranges ms /\
    fr_other r + zsum (map snd (fr_entries r)) = fr_total r /\
    fr_other r = unlisted_ranges ranges ms (fr_entries r) /\
    fr_missing r = range_missing ms.
  Proof.
    intros Hnd Hr. unfold range_facet, rfb_result in Hr.
    destruct (rrun_spec ranges ms) as (Hwf & Hget & Htot & Hmis). cbn zeta in *.
    destruct (finish_spec _ _ _ _ _ (fun k => name_count ranges k ms) Hwf Hget Hr)
      as (H1 & H2 & H3 & H4 & H5 & H6 & H7 & H8).
    fold rcount.
    split.
    { intros k c Hin. destruct (H1 k c Hin) as [-> Hpos].
      destruct (proj1 (name_count_pos ranges k ms Hnd) Hpos) as (x & Hx & <- & Hp).
      exists x. rewrite name_count_in by assumption. auto. }
    split; [exact H2|]. split.
    { rewrite H3. f_equal.
      transitivity (length (keys (rb_counts (rfb_run rname value_of inr ranges ms)))); [symmetry; apply map_length|].
      transitivity (length (map rname (nonempty_ranges ranges ms))); [|apply map_length].
      apply Permutation_length. apply NoDup_Permutation; [apply Hwf|apply NoDup_map_filter, Hnd|].
      intros k. rewrite (wf_key_iff _ _ Hwf), Hget. symmetry. apply nonempty_names_iff, Hnd. }
    split.
    { intros x Hx Hp Hnin e He. specialize (H4 (rname x)). cbn beta in H4.
      rewrite name_count_in in H4 by assumption. apply H4; assumption. }
    split; [congruence|]. split; [exact H7|]. split; [|congruence].
    assert (Hent : fr_entries r = firstn (Z.to_nat size) (sort_entries (rb_counts (rfb_run rname value_of inr ranges ms)))).
    { apply finish_some in Hr. apply Hr. }
    rewrite H8, (rrun_bal ranges ms). unfold csum.
    rewrite (skipn_sum_unlisted _ (fun k => name_count ranges k ms) _ (map rname (nonempty_ranges ranges ms)) Hwf Hget);
      [|apply NoDup_map_filter, Hnd|intros k; apply nonempty_names_iff, Hnd].
    unfold unlisted_ranges. rewrite Hent, map_map.
    assert (E : forall l, (forall x, In x l -> In x ranges) ->
       zsum (map (fun x => if listed_b (firstn (Z.to_nat size) (sort_entries (rb_counts (rfb_run rname value_of inr ranges ms)))) (rname x)
                           then 0 else name_count ranges (rname x) ms) l) =
       zsum (map (fun x => if listed_b (firstn (Z.to_nat size) (sort_entries (rb_counts (rfb_run rname value_of inr ranges ms)))) (rname x)
                           then 0 else rcount x ms) l)).
    { intros l Hl. apply zsum_map_ext. intros x Hx. rewrite name_count_in by auto. reflexivity. }
    rewrite E; [lia|]. intros x Hx. unfold nonempty_ranges in Hx. apply filter_In in Hx. apply Hx.
  Qed.

  (* ---------- permutation invariance ---------- *)

  Lemma rcount_perm x ms ms' : Permutation ms ms' -> rcount x ms = rcount x ms'.
  Proof.
    intros HP. unfold rcount, range_count, range_count_vals. apply zsum_perm.
    rewrite !map_map. apply Permutation_map. exact HP.
  Qed.

  Lemma range_facet_perm ranges size ms ms' :
    Permutation ms ms' ->
    range_facet rname value_of inr ranges size ms = range_facet rname value_of inr ranges size ms'.
  Proof.
    intros HP. unfold range_facet, rfb_result.
    destruct (rrun_spec ranges ms) as (W1 & G1 & T1 & M1).
    destruct (rrun_spec ranges ms') as (W2 & G2 & T2 & M2). cbn zeta in *.
    rewrite T1, T2, M1, M2.
    assert (ET : range_total value_of inr ranges ms = range_total value_of inr ranges ms').
    { unfold range_total. apply zsum_map_ext. intros x _. apply (rcount_perm x _ _ HP). }
    assert (EM : range_missing ms = range_missing ms').
    { apply (count_if_perm (fun d : list T => match d with [] => true | _ => false end) _ _ HP). }
    rewrite ET, EM. apply finish_ext; [exact W1|exact W2|].
    intros k. rewrite G1, G2. unfold name_count. apply zsum_map_ext. intros x _.
    rewrite (rcount_perm x _ _ HP). reflexivity.
  Qed.

  Lemma range_facets_independent_of_paging
        {H S S' : Type} (offer : S -> H -> S) (offer' : S' -> H -> S') s0 s0'
        ranges size (ms ms' : list (H * list T)) :
    Permutation (map snd ms) (map snd ms') ->
    rfb_result size (snd (collect offer (rdoc ranges) s0 rfb_init ms)) =
    rfb_result size (snd (collect offer' (rdoc ranges) s0' rfb_init ms')).
  Proof.
    intros HP.
    rewrite !collect_facets. apply (range_facet_perm ranges size _ _ HP).
  Qed.
End RangeProofs.

(* ---------- decoding the visited terms once (used by the correspondence check) ---------- *)

Section RangeMap.
  Context {T T' R V : Type}.
  Variable rname : R -> bytes.
  Variable inr : R -> V -> bool.
  Variable g : T -> T'.
  Variable vo : T -> option V.
  Variable vo' : T' -> option V.
  Hypothesis Hvo : forall t, vo t = vo' (g t).

  Lemma rfb_update_map ranges s t :
    rfb_update rname vo' inr ranges s (g t) = rfb_update rname vo inr ranges s t.
  Proof. unfold rfb_update. rewrite Hvo. reflexivity. Qed.

  Lemma rfb_doc_map ranges s d :
    rfb_doc rname vo' inr ranges s (map g d) = rfb_doc rname vo inr ranges s d.
  Proof.
    unfold rfb_doc. f_equal. generalize (rfb_start s). induction d as [|t d IH]; intros s0; cbn [map fold_left]; [reflexivity|].
    rewrite rfb_update_map. apply IH.
  Qed.

  Lemma range_facet_map ranges size ms :
    range_facet rname vo' inr ranges size (map (map g) ms) = range_facet rname vo inr ranges size ms.
  Proof.
    unfold range_facet, rfb_run. f_equal. generalize (@rfb_init).
    induction ms as [|d ms IH]; intros s0; cbn [map fold_left]; [reflexivity|].
    rewrite rfb_doc_map. apply IH.
  Qed.

  Lemma doc_vals_map d : doc_vals vo' (map g d) = doc_vals vo d.
  Proof.
    induction d as [|t d IH]; [reflexivity|]. cbn [map doc_vals flat_map].
    fold (doc_vals vo' (map g d)). fold (doc_vals vo d). rewrite IH, Hvo. reflexivity.
  Qed.

  Lemma range_missing_map (ms : list (list T)) : range_missing (map (map g) ms) = range_missing ms.
  Proof.
    unfold range_missing. induction ms as [|d ms IH]; [reflexivity|].
    cbn [map filter]. destruct d; cbn [map length]; lia.
  Qed.
End RangeMap.

(* ---------- the two instances ---------- *)

Lemma date_inr_iff r v :
  date_inr r v = true <->
  (forall s, dr_start r = Some s -> s <= v) /\ (forall e, dr_end r = Some e -> v < e).
Proof.
  unfold date_inr. rewrite andb_true_iff. destruct (dr_start r) as [s|], (dr_end r) as [e|];
    rewrite ?Z.leb_le, ?Z.ltb_lt; split.
  all: try (intros [H1 H2]; split; intros x E; inversion E; subst; assumption).
  all: try (intros [H1 H2]; split; auto; discriminate).
  all: try (intros [H1 H2]; split; intros; try discriminate; auto).
Qed.

Lemma num_inr_iff r v :
  num_inr r v = true <->
  (forall m, nr_min r = Some m -> f_ge v m = true) /\ (forall m, nr_max r = Some m -> f_lt v m = true).
Proof.
  unfold num_inr. rewrite andb_true_iff. destruct (nr_min r) as [a|], (nr_max r) as [b|]; split.
  all: try (intros [H1 H2]; split; intros x E; inversion E; subst; assumption).
  all: try (intros [H1 H2]; split; auto; discriminate).
  all: try (intros [H1 H2]; split; intros; try discriminate; auto).
Qed.

(* on non-NaN patterns the Go comparisons are the order of the (extended) reals as given by
   Numeric.Model.f_compare (linked to Flocq in the numeric engine) *)
Lemma f_ge_nonnan a b : is_nan a = false -> is_nan b = false -> f_ge a b = f_leb b a.
Proof. intros Ha Hb. unfold f_ge. rewrite Ha, Hb. reflexivity. Qed.
Lemma f_lt_nonnan a b : is_nan a = false -> is_nan b = false -> f_lt a b = f_ltb a b.
Proof. intros Ha Hb. unfold f_lt. rewrite Ha, Hb. reflexivity. Qed.

(* hypotheses are satisfiable / the instances compute: values 1.0, 2.0 (twice), 3.5 in three
   documents, one document without the field; ranges [1,3) "lo", [2,+inf) "hi", (-inf,1) "neg" *)
Example ex_num_docs : list doc :=
  map (fun vs => flat_map (fun b => index_terms 4 (f2i b)) vs)
      [[4607182418800017408; 4611686018427387904]; [4611686018427387904]; []; [4615063718147915776]].
Example ex_num_ranges : list nrange :=
  [ {| nr_name := [108;111]; nr_min := Some 4607182418800017408; nr_max := Some 4613937818241073152 |};
    {| nr_name := [104;105]; nr_min := Some 4611686018427387904; nr_max := None |};
    {| nr_name := [110;101;103]; nr_min := None; nr_max := Some 4607182418800017408 |} ].
Example ex_numeric_facet :
  numeric_facet ex_num_ranges 1 ex_num_docs =
  Some {| fr_entries := [([104;105], 3)]; fr_total := 6; fr_missing := 1; fr_other := 3 |} /\
  NoDup (map nr_name ex_num_ranges).
Proof.
  split; [vm_compute; reflexivity|].
  repeat constructor; cbn; intuition discriminate.
Qed.

(* dates 1970-01-01T00:00:10Z (twice, in two documents), ...:20Z; ranges [10s,20s) "a", [10s,+inf) "b" *)
Example ex_date_docs : list doc :=
  map (fun vs => flat_map (fun ns => index_terms 4 ns) vs) [[10000000000]; [10000000000; 20000000000]; []].
Example ex_date_ranges : list drange :=
  [ {| dr_name := [97]; dr_start := Some 10000000000; dr_end := Some 20000000000 |};
    {| dr_name := [98]; dr_start := Some 10000000000; dr_end := None |} ].
Example ex_date_facet :
  date_facet ex_date_ranges 5 ex_date_docs =
  Some {| fr_entries := [([98], 3); ([97], 2)]; fr_total := 5; fr_missing := 1; fr_other := 0 |} /\
  NoDup (map dr_name ex_date_ranges) /\
  Permutation ex_date_docs (rev ex_date_docs).
Proof.
  split; [vm_compute; reflexivity|]. split; [|apply Permutation_rev].
  repeat constructor; cbn; intuition discriminate.
Qed.
