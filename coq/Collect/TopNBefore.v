(* Collect engine — SearchBefore (reversed sort + search-after + re-sort, index_impl.go) returns
   the page that precedes the anchor when the sort keys alone separate all matches. *)
From Coq Require Import ZArith List Bool Lia Permutation PeanoNat.
From Verif Require Import Common.Bytes Collect.TopN Collect.TopNOrder Collect.TopNSorted Collect.TopNHeap
  Collect.TopNProofs Collect.TopNPaging.
Import ListNotations.
Local Open Scope Z_scope.

Local Notation Ap so l := (l (compare so) (compare_anti so) (compare_le_trans so) (compare_eq_hit so)) (only parsing).

Lemma is_score_reverse k : is_score (reverse_key k) = is_score k.
Proof. unfold is_score, reverse_key. cbn. destruct (kind k); reflexivity. Qed.

Lemma cmp_keys_reverse so s1 s2 k1 k2 :
  cmp_keys (reverse_so so) s1 s2 k1 k2 = - cmp_keys so s1 s2 k1 k2.
Proof.
  revert k1 k2; induction so as [|k so IH]; intros k1 k2; [reflexivity|].
  cbn [reverse_so map]. rewrite !cmp_keys_unfold. cbv zeta. fold (reverse_so so).
  unfold slot. rewrite is_score_reverse.
  destruct ((if is_score k then zcmp3 s1 s2 else bcmp3 (hd [] k1) (hd [] k2)) =? 0); [apply IH|].
  cbn [reverse_key desc]. destruct (desc k); cbn; lia.
Qed.

Lemma keys_distinct_reverse so ms : keys_distinct so ms -> keys_distinct (reverse_so so) ms.
Proof.
  intros KD a b Ha Hb K. rewrite cmp_keys_reverse in K. apply KD; auto. lia.
Qed.

Lemma numbered_length ms : length (numbered ms) = length ms.
Proof. unfold numbered. generalize 0. induction ms; intros; cbn; auto. Qed.

(* reversing every key reverses the whole order when no two matches tie on the keys *)
Lemma sorted_matches_reverse so ms :
  keys_distinct so ms -> sorted_matches (reverse_so so) ms = rev (sorted_matches so ms).
Proof.
  intros KD. destruct (sorted_matches_props so ms) as (S & P & U).
  set (rso := reverse_so so). unfold sorted_matches at 1. symmetry.
  apply (Ap rso sort_unique).
  - apply (Ap rso uhits_numbered).
  - assert (Hin : forall y, In y (sorted_matches so ms) -> In y (numbered ms))
      by (intros y Hy; eapply Permutation_in; eauto).
    clear P U. induction (sorted_matches so ms) as [|x l IH]; [cbn; auto|].
    cbn in S. destruct S as (F & S). rewrite Forall_forall in F.
    cbn [rev]. apply (Ap rso ssorted_app). repeat split.
    + apply IH; [exact S|]. intros y Hy. apply Hin. right. exact Hy.
    + cbn; auto.
    + intros a b Ha [<-|[]]. apply in_rev in Ha.
      assert (Hne : x <> a).
      { intros <-. specialize (F x Ha). unfold TopNSorted.lt in F. rewrite compare_refl in F. lia. }
      pose proof (lt_keys so ms x a KD (Hin x (or_introl eq_refl)) (Hin a (or_intror Ha)) Hne (F a Ha)) as K.
      apply compare_of_keys_lt. unfold rso. rewrite cmp_keys_reverse.
      rewrite (cmp_keys_anti so (score x) (score a)). lia.
  - rewrite <- Permutation_rev. exact P.
Qed.

Lemma nth_error_rev (l : list dmatch) i x :
  nth_error l i = Some x -> nth_error (rev l) (length l - S i) = Some x.
Proof.
  intros N. pose proof (nth_error_split' l i x N) as E.
  assert (Hi : (i < length l)%nat) by (apply nth_error_Some; congruence).
  rewrite E at 1. rewrite rev_app_distr. cbn [rev]. rewrite <- app_assoc. cbn [app].
  rewrite nth_error_app2; rewrite rev_length, skipn_length; [|lia].
  replace (length l - S i - (length l - S i))%nat with 0%nat by lia. reflexivity.
Qed.

Theorem search_before_prev_page so size ms i x :
  keys_distinct so ms -> nth_error (sorted_matches so ms) i = Some x ->
  search so size (PBefore (after_of x)) ms =
  Some {| results := skipn (i - size) (firstn i (sorted_matches so ms));
          total := spec_total ms; max_score := spec_max_score ms |}.
Proof.
  intros KD N. destruct (sorted_matches_props so ms) as (HS & P & U).
  assert (Hi : (i < length (sorted_matches so ms))%nat) by (apply nth_error_Some; congruence).
  cbn [search]. rewrite topn_after_is_slice. cbn [results total max_score]. f_equal. f_equal.
  unfold spec_after.
  pose proof (nth_error_rev _ _ _ N) as N'. rewrite <- (sorted_matches_reverse so ms KD) in N'.
  rewrite (filter_after_sorted (reverse_so so) ms _ x (keys_distinct_reverse so ms KD) N').
  rewrite (sorted_matches_reverse so ms KD).
  set (L := sorted_matches so ms) in *.
  replace (S (length L - S i))%nat with (length L - i)%nat by lia.
  rewrite skipn_rev. replace (length L - (length L - i))%nat with i by lia.
  rewrite firstn_rev. rewrite firstn_length. replace (Nat.min i (length L)) with i by lia.
  set (R := skipn (i - size) (firstn i L)).
  symmetry. apply (Ap so sort_unique).
  - apply (Ap so uhits_perm) with R; [apply Permutation_rev|].
    unfold R. apply (Ap so uhits_app_r) with (firstn (i - size) (firstn i L)). rewrite firstn_skipn.
    apply (Ap so uhits_app_l) with (skipn i L). rewrite firstn_skipn. exact U.
  - unfold R. apply (Ap so ssorted_skipn), (Ap so ssorted_firstn). exact HS.
  - apply Permutation_rev.
Qed.

Example search_before_prev_page_nontrivial :
  let so := [{| kind := KScore; desc := true |}; {| kind := KId; desc := false |}] in
  let ms := map (fun s => {| rid := [s]; rscore := s mod 3; rkeys := [score_sort_value; [s]] |})
                [1;2;3;4;5;6;7;8;9;10;11;12;13] in
  exists x, nth_error (sorted_matches so ms) 6 = Some x /\
    option_map (fun r => map did (results r)) (search so 3 (PBefore (after_of x)) ms) = Some [[11];[1];[4]] /\
    map did (sorted_matches so ms) = [[2];[5];[8];[11];[1];[4];[7];[10];[13];[3];[6];[9];[12]].
Proof. eexists. vm_compute. repeat split. Qed.

(* with ties on the keys, the reversed execution breaks ties by hit number in the SAME direction, so
   the reversed order is not the reverse of the order: search-before can then return a page that is
   not contiguous with the anchor *)
Example search_before_ties :
  let so := [{| kind := KScore; desc := true |}] in
  let ms := [ {| rid := [1]; rscore := 7; rkeys := [score_sort_value] |};
              {| rid := [2]; rscore := 5; rkeys := [score_sort_value] |};
              {| rid := [3]; rscore := 5; rkeys := [score_sort_value] |};
              {| rid := [4]; rscore := 3; rkeys := [score_sort_value] |} ] in
  exists x, nth_error (sorted_matches so ms) 3 = Some x /\
            option_map (fun r => map did (results r)) (search so 1 (PBefore (after_of x)) ms) = Some [[2]] /\
            map did (skipn (3 - 1) (firstn 3 (sorted_matches so ms))) = [[3]].
Proof. eexists. vm_compute. repeat split. Qed.

(* SortField.Reverse flips Desc AND Missing, so the sort value of every document is the same in the
   reversed execution as in the original one (the keys the model is given do not depend on the
   direction the collector runs in) *)
Lemma key_value_reverse k id terms : key_value (reverse_key k) id terms = key_value k id terms.
Proof.
  unfold key_value, reverse_key. cbn [kind desc]. destruct (kind k) as [| |ty mode mf]; try reflexivity.
  unfold filter_terms_by_mode.
  destruct (filter_terms_by_type ty terms) as [|t [|t' rest]]; try reflexivity;
    destruct mf, (desc k); cbn; try reflexivity;
    destruct (mode =? 0), (mode =? 1), (mode =? 2); reflexivity.
Qed.

Lemma sort_values_reverse so id terms : sort_values (reverse_so so) id terms = sort_values so id terms.
Proof.
  revert terms; induction so as [|k so IH]; intros terms; [reflexivity|].
  cbn [reverse_so map sort_values]. fold (reverse_so so). rewrite key_value_reverse, IH. reflexivity.
Qed.
