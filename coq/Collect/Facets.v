(* Collect engine — facet builders: executable model and specification (definitions only;
   proofs live in Collect/FacetsLemmas.v, FacetsProofs.v (terms, collector), FacetsRangeProofs.v
   (numeric / date ranges) and FacetsCorrProofs.v).

   Transcribed from /repo:
     search/facet/facet_builder_terms.go     TermsFacetBuilder  UpdateVisitor / StartDoc / EndDoc / Result
     search/facet/facet_builder_numeric.go   NumericFacetBuilder UpdateVisitor / StartDoc / EndDoc / Result
     search/facet/facet_builder_datetime.go  DateTimeFacetBuilder (same shape as the numeric one)
     search/facets_builder.go                TermFacets.Less, NumericRangeFacets.Less, DateRangeFacets.Less
     search/collector/topn.go                Collect loop: prepareDocumentMatch -> visitFieldTerms
                                             (StartDoc, VisitDocValues, EndDoc) -> dmHandler (bounded store)
     index_impl.go                           SearchInContext: FacetRequest -> builder (prefix / regexp filter,
                                             AddRange per requested range)

   Input of the model: the list of MATCHING documents, each given as the list of doc-value terms of
   the facet field in the order the doc-value reader visits them.  For a text field these are the
   analysed terms; for a numeric / date field the prefix-coded terms of every shift (the builders
   keep shift 0 only).

   Conventions.  Go [int] counters are 64 bit; they count visited terms, so they cannot wrap on
   any input that fits in memory and are modelled as unbounded Z.  The Go maps (termsCount,
   ranges) are association lists; the iteration order of a Go map is unspecified, the model uses
   list order — FacetsLemmas.v / FacetsProofs.v show the result does not depend on it (the final sort is by a strict
   total order on entries with distinct keys: [sorted_unique], [finish_ext]).  [sort.Sort] is modelled by
   insertion sort for the same reason.  A negative facet size makes the Go code panic
   (slice bounds out of range in TrimToTopN / [:fb.size]); the model returns [None] there. *)
From Coq Require Import ZArith List Bool.
From Verif Require Import Common.Bytes Numeric.Model.
Import ListNotations.
Local Open Scope Z_scope.

(* one matching document = the visited doc-value terms of the facet field *)
Definition doc := list bytes.

Definition entry := (bytes * Z)%type.          (* (term or range name, count) *)

Record facet_result := {
  fr_entries : list entry;                     (* Terms / NumericRanges / DateRanges, in order *)
  fr_total : Z;
  fr_missing : Z;
  fr_other : Z
}.

Fixpoint zsum (l : list Z) : Z := match l with [] => 0 | x :: l' => x + zsum l' end.

(* ---------- the count map (Go: map[string]int, m[k] = m[k] + 1) ---------- *)

Fixpoint bump (k : bytes) (m : list entry) : list entry :=
  match m with
  | [] => [(k, 1)]
  | (k', c) :: m' => if beqb k' k then (k', c + 1) :: m' else (k', c) :: bump k m'
  end.

Fixpoint get (k : bytes) (m : list entry) : Z :=
  match m with
  | [] => 0
  | (k', c) :: m' => if beqb k' k then c else get k m'
  end.

(* ---------- order of the listed entries (TermFacets.Less etc.) ----------
   Less(i,j): if Count equal then Term_i < Term_j (Go string order = bytewise) else Count_i > Count_j *)
Definition e_ltb (a b : entry) : bool :=
  if snd a =? snd b then bltb (fst a) (fst b) else snd b <? snd a.

Fixpoint insert_entry (x : entry) (l : list entry) : list entry :=
  match l with
  | [] => [x]
  | y :: l' => if e_ltb x y then x :: l else y :: insert_entry x l'
  end.

Definition sort_entries (l : list entry) : list entry := fold_right insert_entry [] l.

(* Result(): build entries from the count map, sort, keep the first [size], Other = total - listed *)
Definition finish (size : Z) (counts : list entry) (total missing : Z) : option facet_result :=
  if size <? 0 then None
  else
    let listed := firstn (Z.to_nat size) (sort_entries counts) in
    Some {| fr_entries := listed;
            fr_total := total;
            fr_missing := missing;
            fr_other := total - zsum (map snd listed) |}.

(* ---------- term filters ---------- *)

(* bytes.HasPrefix *)
Fixpoint has_prefix (p t : bytes) : bool :=
  match p, t with
  | [], _ => true
  | _ :: _, [] => false
  | x :: p', y :: t' => (x =? y) && has_prefix p' t'
  end.

Fixpoint has_infix (l t : bytes) : bool :=
  has_prefix l t || match t with [] => false | _ :: t' => has_infix l t' end.

Definition has_suffix (l t : bytes) : bool := has_prefix (rev l) (rev t).

(* The regular expressions the correspondence harness uses, modelled exactly: an alternation
   a1|a2|...|an (n >= 1) where each ai is a non-empty literal of [a-z0-9] optionally preceded by ^
   and optionally followed by $.  regexp.Match is an unanchored search, so:
     ^lit$ : term = lit     ^lit : lit is a prefix     lit$ : lit is a suffix    lit : lit occurs in term.
   (Go's regexp engine itself is not modelled beyond this class.) *)
Record ralt := { ra_start : bool; ra_lit : bytes; ra_end : bool }.
Definition regex := list ralt.

Definition alt_match (a : ralt) (t : bytes) : bool :=
  match ra_start a, ra_end a with
  | true, true => beqb (ra_lit a) t
  | true, false => has_prefix (ra_lit a) t
  | false, true => has_suffix (ra_lit a) t
  | false, false => has_infix (ra_lit a) t
  end.

Definition regex_match (r : regex) (t : bytes) : bool := existsb (fun a => alt_match a t) r.

Record tfilter := { tf_prefix : bytes; tf_regex : option regex }.

(* the two early returns of TermsFacetBuilder.UpdateVisitor:
     if len(prefixBytes) > 0 && !bytes.HasPrefix(term, prefixBytes) { return }
     if regex != nil && !regex.Match(term) { return }                       *)
Definition accept (f : tfilter) (t : bytes) : bool :=
  (match tf_prefix f with [] => true | p => has_prefix p t end) &&
  (match tf_regex f with None => true | Some r => regex_match r t end).

(* ---------- TermsFacetBuilder ---------- *)

Record tfb := { tb_counts : list entry; tb_total : Z; tb_missing : Z; tb_saw : bool }.

Definition tfb_init : tfb := {| tb_counts := []; tb_total := 0; tb_missing := 0; tb_saw := false |}.

(* UpdateVisitor: total++ for every visited term (also the filtered ones); an accepted term sets
   sawValue and increments its count — once per visit, so a term visited twice for one document
   counts twice *)
Definition tfb_update (f : tfilter) (s : tfb) (t : bytes) : tfb :=
  if accept f t then
    {| tb_counts := bump t (tb_counts s); tb_total := tb_total s + 1;
       tb_missing := tb_missing s; tb_saw := true |}
  else
    {| tb_counts := tb_counts s; tb_total := tb_total s + 1;
       tb_missing := tb_missing s; tb_saw := tb_saw s |}.

Definition tfb_start (s : tfb) : tfb :=
  {| tb_counts := tb_counts s; tb_total := tb_total s; tb_missing := tb_missing s; tb_saw := false |}.

Definition tfb_end (s : tfb) : tfb :=
  if tb_saw s then s
  else {| tb_counts := tb_counts s; tb_total := tb_total s; tb_missing := tb_missing s + 1;
          tb_saw := tb_saw s |}.

(* visitFieldTerms for one match *)
Definition tfb_doc (f : tfilter) (s : tfb) (d : doc) : tfb :=
  tfb_end (fold_left (tfb_update f) d (tfb_start s)).

Definition tfb_run (f : tfilter) (ms : list doc) : tfb := fold_left (tfb_doc f) ms tfb_init.

(* Result() *)
Definition tfb_result (size : Z) (s : tfb) : option facet_result :=
  finish size (tb_counts s) (tb_total s) (tb_missing s).

Definition terms_facet (f : tfilter) (size : Z) (ms : list doc) : option facet_result :=
  tfb_result size (tfb_run f ms).

(* ---------- Numeric / DateTime facet builders (one shape, two instances) ---------- *)

Section RangeBuilder.
  (* T: a visited term (bytes for the real builders; abstract so that the correspondence check can
     hand in terms decoded once — [range_facet_map] in FacetsProofs.v shows that is the same);
     R: a requested range; V: a decoded value.
     [rname]: the range's name (key of fb.ranges and fb.termsCount; FacetRequest.Validate rejects
     duplicate names, so the list of ranges handed to the builder has distinct names);
     [value_of]: shift-0 filter + decoding of a visited term;  [inr]: the range test. *)
  Context {T R V : Type}.
  Variable rname : R -> bytes.
  Variable value_of : T -> option V.
  Variable inr : R -> V -> bool.

  Record rfb := { rb_counts : list entry; rb_total : Z; rb_missing : Z; rb_saw : bool }.

  Definition rfb_init : rfb := {| rb_counts := []; rb_total := 0; rb_missing := 0; rb_saw := false |}.

  (* for rangeName, r := range fb.ranges { if in range { termsCount[rangeName]++; total++ } } *)
  Definition rfb_hit (v : V) (s : rfb) (r : R) : rfb :=
    if inr r v then
      {| rb_counts := bump (rname r) (rb_counts s); rb_total := rb_total s + 1;
         rb_missing := rb_missing s; rb_saw := rb_saw s |}
    else s.

  (* UpdateVisitor: sawValue = true for EVERY visited term (any shift, decodable or not) *)
  Definition rfb_update (ranges : list R) (s : rfb) (t : T) : rfb :=
    let s1 := {| rb_counts := rb_counts s; rb_total := rb_total s; rb_missing := rb_missing s;
                 rb_saw := true |} in
    match value_of t with
    | None => s1
    | Some v => fold_left (rfb_hit v) ranges s1
    end.

  Definition rfb_start (s : rfb) : rfb :=
    {| rb_counts := rb_counts s; rb_total := rb_total s; rb_missing := rb_missing s; rb_saw := false |}.

  Definition rfb_end (s : rfb) : rfb :=
    if rb_saw s then s
    else {| rb_counts := rb_counts s; rb_total := rb_total s; rb_missing := rb_missing s + 1;
            rb_saw := rb_saw s |}.

  Definition rfb_doc (ranges : list R) (s : rfb) (d : list T) : rfb :=
    rfb_end (fold_left (rfb_update ranges) d (rfb_start s)).

  Definition rfb_run (ranges : list R) (ms : list (list T)) : rfb :=
    fold_left (rfb_doc ranges) ms rfb_init.

  (* Result(): one entry per name present in termsCount (i.e. with count > 0), sorted by
     (count desc, name asc), first [size] kept, Other = total - listed *)
  Definition rfb_result (size : Z) (s : rfb) : option facet_result :=
    finish size (rb_counts s) (rb_total s) (rb_missing s).

  Definition range_facet (ranges : list R) (size : Z) (ms : list (list T)) : option facet_result :=
    rfb_result size (rfb_run ranges ms).

  (* ----- SPEC (written from the statement, not from the algorithm) ----- *)

  (* the values of a document: decoded shift-0 terms *)
  Definition doc_vals (d : list T) : list V :=
    flat_map (fun t => match value_of t with Some v => [v] | None => [] end) d.

  (* number of values (given per matching document) falling in the range *)
  Definition range_count_vals (r : R) (vss : list (list V)) : Z :=
    zsum (map (fun vs => Z.of_nat (length (filter (inr r) vs))) vss).

  (* number of values of matching documents falling in the range *)
  Definition range_count (r : R) (ms : list (list T)) : Z :=
    range_count_vals r (map doc_vals ms).

  Definition range_total (ranges : list R) (ms : list (list T)) : Z :=
    zsum (map (fun r => range_count r ms) ranges).

  (* documents for which no term of the field was visited *)
  Definition range_missing (ms : list (list T)) : Z :=
    Z.of_nat (length (filter (fun d : list T => match d with [] => true | _ => false end) ms)).
End RangeBuilder.

(* --- numeric instance --- *)

Record nrange := { nr_name : bytes; nr_min : option Z; nr_max : option Z }.   (* float64 bit patterns *)

(* Go float comparisons: false whenever a NaN is involved; -0 = +0 *)
Definition f_ge (a b : Z) : bool := negb (is_nan a) && negb (is_nan b) && f_leb b a.
Definition f_lt (a b : Z) : bool := negb (is_nan a) && negb (is_nan b) && f_ltb a b.

(* shift, err := prefixCoded.Shift(); if err == nil && shift == 0 { i64, err := prefixCoded.Int64(); if err == nil {..} } *)
Definition shift0_int (t : bytes) : option Z :=
  match term_shift t with
  | Some s => if s =? 0 then decode t else None
  | None => None
  end.

(* f64 := numeric.Int64ToFloat64(i64), as a bit pattern *)
Definition num_value_of (t : bytes) : option Z := option_map i2f (shift0_int t).

(* (r.min == nil || f64 >= *r.min) && (r.max == nil || f64 < *r.max) *)
Definition num_inr (r : nrange) (v : Z) : bool :=
  (match nr_min r with None => true | Some m => f_ge v m end) &&
  (match nr_max r with None => true | Some m => f_lt v m end).

Definition numeric_facet : list nrange -> Z -> list doc -> option facet_result :=
  range_facet nr_name num_value_of num_inr.

(* --- date instance --- *)

(* start / end as nanoseconds since the Unix epoch (unbounded Z: time.Time covers more than int64
   nanoseconds); None = zero time.Time = unbounded *)
Record drange := { dr_name : bytes; dr_start : option Z; dr_end : option Z }.

(* t := time.Unix(0, i64) *)
Definition date_value_of (t : bytes) : option Z := shift0_int t.

(* (start.IsZero() || t.After(start) || t.Equal(start)) && (end.IsZero() || t.Before(end)) *)
Definition date_inr (r : drange) (v : Z) : bool :=
  (match dr_start r with None => true | Some s => s <=? v end) &&
  (match dr_end r with None => true | Some e => v <? e end).

Definition date_facet : list drange -> Z -> list doc -> option facet_result :=
  range_facet dr_name date_value_of date_inr.

(* ---------- the collector loop (topn.go Collect), as far as facets are concerned ----------
   for every match delivered by the searcher: prepareDocumentMatch updates the facet builders
   from the match's doc values, THEN the match is offered to the bounded store (dmHandler), which
   is where Size / From / Sort / SearchAfter act.  [H] is whatever the store keeps of a match,
   [S] the store's state and [offer] its step; the facet state [F] is threaded beside it; [D] is a
   match's visited doc values. *)
Section Collector.
  Context {H S F D : Type}.
  Variable offer : S -> H -> S.
  Variable facet_doc : F -> D -> F.

  Definition collect_step (st : S * F) (m : H * D) : S * F :=
    (offer (fst st) (fst m), facet_doc (snd st) (snd m)).

  Definition collect (s0 : S) (f0 : F) (ms : list (H * D)) : S * F :=
    fold_left collect_step ms (s0, f0).
End Collector.

(* ---------- SPEC for the terms facet (written from the statement) ---------- *)

Definition mem_term (t : bytes) (d : doc) : bool := existsb (beqb t) d.

Definition count_if {A} (p : A -> bool) (l : list A) : Z := Z.of_nat (length (filter p l)).

(* number of matching documents containing term t *)
Definition terms_count (ms : list doc) (t : bytes) : Z := count_if (mem_term t) ms.

(* number of visits of t over all matching documents, if t passes the filter (0 otherwise) *)
Definition occ (f : tfilter) (t : bytes) (ms : list doc) : Z :=
  if accept f t then zsum (map (fun d => count_if (beqb t) d) ms) else 0.

(* all visited terms *)
Definition total_spec (ms : list doc) : Z := zsum (map (fun d : doc => Z.of_nat (length d)) ms).

(* visited terms that do not pass the filter *)
Definition rejected_spec (f : tfilter) (ms : list doc) : Z :=
  zsum (map (fun d : doc => count_if (fun t => negb (accept f t)) d) ms).

(* matching documents without an accepted value *)
Definition missing_spec (f : tfilter) (ms : list doc) : Z :=
  count_if (fun d : doc => negb (existsb (accept f) d)) ms.

(* the distinct accepted terms of the matching documents (the facet's buckets) *)
Fixpoint dedup (l : list bytes) : list bytes :=
  match l with
  | [] => []
  | x :: l' => if existsb (beqb x) l' then dedup l' else x :: dedup l'
  end.
Definition buckets (f : tfilter) (ms : list doc) : list bytes :=
  dedup (filter (accept f) (concat ms)).

(* is a term / range name among the listed entries? *)
Definition listed_b (es : list entry) (t : bytes) : bool := existsb (fun e : entry => beqb (fst e) t) es.

(* visits of the buckets that are not listed *)
Definition unlisted_spec (f : tfilter) (ms : list doc) (listed : list entry) : Z :=
  zsum (map (fun t => if listed_b listed t then 0 else occ f t ms) (buckets f ms)).

(* the listed order as a relation: count descending, then term ascending *)
Definition e_lt (a b : entry) : Prop :=
  snd b < snd a \/ (snd a = snd b /\ bcompare (fst a) (fst b) = Lt).
