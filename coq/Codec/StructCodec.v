(* Codec engine — a generic model of how Go's encoding/json writes a struct through its tags and
   how bleve's hand-written `UnmarshalJSON` key switches (mapping/field.go, document.go, index.go)
   read it back, parameterised by tables that T1 regenerates from the Go source
   (coq/Extracted/Extracted.v, Module XMapping).  Definitions only.

   Go values.  A struct value is a [record]: (Go field name, value) in struct declaration order.
   A Go map is the assoc list of its entries in ascending key order (encoding/json writes maps in
   that order, so the representation is canonical).  nil and empty maps / slices are identified
   ([VMap []], [VList []]); the model refuses ([None]) to marshal one outside `omitempty`, where Go
   would distinguish them (`null` vs `{}` / `[]`).  [VAny] is an `interface{}` /
   `map[string]interface{}` holding arbitrary JSON. *)
From Coq Require Import ZArith List Bool.
From Verif Require Import Common.Bytes Codec.Json.
Import ListNotations.
Local Open Scope Z_scope.

Inductive kind :=
| KBool | KInt | KString
| KAny                      (* interface{} or map[string]interface{}: opaque JSON *)
| KPtrS (n : bytes)         (* *T for a struct type T of the environment *)
| KList (k : kind)          (* []T *)
| KMap (k : kind)           (* map[string]T *)
| KUnsupported.             (* a Go type this model does not cover *)

Inductive value :=
| VBool (b : bool)
| VInt (z : Z)
| VStr (s : bytes)
| VAny (j : json)
| VNil                                   (* nil pointer *)
| VPtr (fs : list (bytes * value))       (* pointer to a struct with these fields *)
| VList (l : list value)
| VMap (m : list (bytes * value)).

Definition record := list (bytes * value).

(* one line of a marshal table: Go field, JSON key, omitempty, kind (from the struct tag / type) *)
Record tentry := { te_field : bytes; te_key : bytes; te_omit : bool; te_kind : kind }.

Record sdef := {
  s_table : list tentry;               (* fields encoding/json writes, in struct order *)
  s_all_fields : list bytes;           (* every declared field, exported or not *)
  s_handwritten : bool;                (* has its own UnmarshalJSON (else encoding/json's struct decoder) *)
  s_switch : list (bytes * bytes);     (* case "key": -> receiver field written *)
  s_defaults : list (bytes * value);   (* fields set before the key loop *)
  s_post_assigns : list bytes;         (* fields written after the key loop *)
  s_rejects_unknown : bool;            (* unknown keys are an error under MappingJSONStrict *)
  s_required : list bytes              (* validity: fields every value of the type holds non-empty
                                          (not read off the source; stated where the tables are built) *)
}.

Definition env := list (bytes * sdef).

(* ---------------------------------------------------------------- small list utilities *)
Fixpoint lookup {A} (k : bytes) (l : list (bytes * A)) : option A :=
  match l with
  | [] => None
  | (k', v) :: l' => if beqb k k' then Some v else lookup k l'
  end.

Fixpoint memb (k : bytes) (l : list bytes) : bool :=
  match l with [] => false | x :: l' => beqb k x || memb k l' end.

Fixpoint nodupb (l : list bytes) : bool :=
  match l with [] => true | x :: l' => negb (memb x l') && nodupb l' end.

(* writes the first field named f *)
Fixpoint rset (f : bytes) (v : value) (r : record) : record :=
  match r with
  | [] => []
  | (g, x) :: r' => if beqb f g then (g, v) :: r' else (g, x) :: rset f v r'
  end.

Fixpoint find_entry (f : bytes) (tbl : list tentry) : option tentry :=
  match tbl with
  | [] => None
  | e :: t => if beqb f (te_field e) then Some e else find_entry f t
  end.

Fixpoint mapM {A B} (f : A -> option B) (l : list A) : option (list B) :=
  match l with
  | [] => Some []
  | x :: l' =>
      match f x with
      | None => None
      | Some y => match mapM f l' with None => None | Some ys => Some (y :: ys) end
      end
  end.

Definition is_nil {A} (l : list A) : bool := match l with [] => true | _ => false end.

(* strictly ascending keys (bytes.Compare order) *)
Fixpoint sortedb (ks : list bytes) : bool :=
  match ks with
  | [] => true
  | k :: t => match t with [] => true | k2 :: _ => bltb k k2 && sortedb t end
  end.

(* m[k] = v on the canonical (key-sorted) representation of a Go map *)
Fixpoint map_put (k : bytes) (v : value) (m : list (bytes * value)) : list (bytes * value) :=
  match m with
  | [] => [(k, v)]
  | (k', v') :: m' =>
      match bcompare k k' with
      | Lt => (k, v) :: (k', v') :: m'
      | Eq => (k, v) :: m'
      | Gt => (k', v') :: map_put k v m'
      end
  end.

(* a Go map built from JSON object members keeps the last value of a repeated key; this is what
   decoding into `map[string]json.RawMessage` (the `tmp` of the hand-written decoders) leaves *)
Fixpoint dedup_last {A} (kvs : list (bytes * A)) : list (bytes * A) :=
  match kvs with
  | [] => []
  | (k, v) :: rest => if memb k (map fst rest) then dedup_last rest else (k, v) :: dedup_last rest
  end.

(* ---------------------------------------------------------------- Go zero values, omitempty *)
Definition zero (k : kind) : value :=
  match k with
  | KBool => VBool false
  | KInt => VInt 0
  | KString => VStr []
  | KAny => VAny JNull
  | KPtrS _ => VNil
  | KList _ => VList []
  | KMap _ => VMap []
  | KUnsupported => VNil
  end.

(* encoding/json isEmptyValue: false, 0, "", nil pointer / interface, len 0 map / slice.
   (A struct is never empty; none is held by value here.) *)
Definition is_empty (v : value) : bool :=
  match v with
  | VBool false => true
  | VInt 0 => true
  | VStr [] => true
  | VAny JNull => true
  | VNil => true
  | VList [] => true
  | VMap [] => true
  | _ => false
  end.

Definition is_zero_of (k : kind) (v : value) : bool :=
  match k, v with
  | KBool, VBool false => true
  | KInt, VInt 0 => true
  | KString, VStr [] => true
  | KAny, VAny JNull => true
  | KPtrS _, VNil => true
  | KList _, VList [] => true
  | KMap _, VMap [] => true
  | _, _ => false
  end.

Definition in_int64 (z : Z) : bool := (-9223372036854775808 <=? z) && (z <=? 9223372036854775807).

Definition zero_record (tbl : list tentry) : record :=
  map (fun e => (te_field e, zero (te_kind e))) tbl.

(* the assignments made before the key loop *)
Definition apply_defaults (dflt : list (bytes * value)) (r : record) : record :=
  map (fun fv => match lookup (fst fv) dflt with Some d => (fst fv, d) | None => fv end) r.

(* ---------------------------------------------------------------- marshal (json.Marshal of a struct) *)
(* fields in struct order; an `omitempty` field holding an empty value is skipped *)
Fixpoint marshal_fields (mv : kind -> value -> option json) (tbl : list tentry) (fs : record)
  : option (list (bytes * json)) :=
  match tbl, fs with
  | [], [] => Some []
  | e :: tbl', (f, v) :: fs' =>
      if beqb f (te_field e) then
        match marshal_fields mv tbl' fs' with
        | None => None
        | Some rest =>
            if te_omit e && is_empty v then Some rest
            else match mv (te_kind e) v with
                 | Some j => Some ((te_key e, j) :: rest)
                 | None => None
                 end
        end
      else None
  | _, _ => None
  end.

Section Codec.
  Variable E : env.
  Variable strict : bool.     (* the package variable mapping.MappingJSONStrict *)

  (* fuel bounds the nesting depth of the value; [None] = out of fuel or kind/value mismatch *)
  Fixpoint mval (fuel : nat) (k : kind) (v : value) {struct fuel} : option json :=
    match fuel with
    | O => None
    | S f =>
        match k, v with
        | KBool, VBool b => Some (JBool b)
        | KInt, VInt z => Some (JNum (NInt z))
        | KString, VStr s => Some (JStr s)
        | KAny, VAny j => Some j
        | KPtrS _, VNil => Some JNull
        | KPtrS n, VPtr fs =>
            match lookup n E with
            | None => None
            | Some sd =>
                match marshal_fields (mval f) (s_table sd) fs with
                | Some kvs => Some (JObj kvs)
                | None => None
                end
            end
        | KList k', VList (x :: l) =>
            match mapM (mval f k') (x :: l) with Some js => Some (JArr js) | None => None end
        | KMap k', VMap (x :: m) =>
            match mapM (fun kv => match mval f k' (snd kv) with
                                  | Some j => Some (fst kv, j)
                                  | None => None
                                  end) (x :: m) with
            | Some kvs => Some (JObj kvs)
            | None => None
            end
        | _, _ => None
        end
    end.

  (* ---------------------------------------------------------------- unmarshal *)
  (* One iteration of `for k, v := range tmp { switch k { case … } }`: the case for the key decodes
     the member into the receiver field it names (on top of that field's current value). *)
  Definition dstep (dv : kind -> value -> json -> option value) (sd : sdef)
             (acc : option record) (kv : bytes * json) : option record :=
    match acc with
    | None => None
    | Some r =>
        match lookup (fst kv) (s_switch sd) with
        | None => if strict && s_rejects_unknown sd then None else Some r
        | Some f =>
            match find_entry f (s_table sd), lookup f r with
            | Some e, Some ex =>
                match dv (te_kind e) ex (snd kv) with
                | Some v => Some (rset f v r)
                | None => None
                end
            | _, _ => None
            end
        end
    end.

  (* T.UnmarshalJSON on a struct currently holding [init] *)
  Definition ustruct (dv : kind -> value -> json -> option value) (sd : sdef) (init : record) (j : json)
    : option record :=
    match j with
    | JObj kvs =>
        fold_left (dstep dv sd) (if s_handwritten sd then dedup_last kvs else kvs)
                  (Some (apply_defaults (s_defaults sd) init))
    | _ => None
    end.

  Definition mstep (dv : json -> option value) (acc : option (list (bytes * value))) (kv : bytes * json)
    : option (list (bytes * value)) :=
    match acc with
    | None => None
    | Some m => match dv (snd kv) with Some v => Some (map_put (fst kv) v m) | None => None end
    end.

  (* json.Unmarshal into a Go value of kind k currently holding [ex].
     null leaves a bool/int/string untouched and sets a pointer/map/slice to nil; a pointer that is
     already non-nil is reused (its struct's UnmarshalJSON runs on the existing pointee); map entries
     and slice elements are decoded into fresh zero values; decoding over a non-empty slice is not
     modelled ([None]). *)
  Fixpoint dval (fuel : nat) (k : kind) (ex : value) (j : json) {struct fuel} : option value :=
    match fuel with
    | O => None
    | S f =>
        match k with
        | KBool => match j with JBool b => Some (VBool b) | JNull => Some ex | _ => None end
        | KInt =>
            match j with
            | JNum (NInt z) => if in_int64 z then Some (VInt z) else None
            | JNull => Some ex
            | _ => None
            end
        | KString => match j with JStr s => Some (VStr s) | JNull => Some ex | _ => None end
        | KAny => Some (VAny j)
        | KPtrS n =>
            match j with
            | JNull => Some VNil
            | _ =>
                match lookup n E with
                | None => None
                | Some sd =>
                    let init := match ex with VPtr fs0 => fs0 | _ => zero_record (s_table sd) end in
                    match ustruct (dval f) sd init j with
                    | Some r => Some (VPtr r)
                    | None => None
                    end
                end
            end
        | KList k' =>
            match j with
            | JNull => Some (VList [])
            | JArr js =>
                match ex with
                | VList [] =>
                    match mapM (dval f k' (zero k')) js with Some l => Some (VList l) | None => None end
                | _ => None
                end
            | _ => None
            end
        | KMap k' =>
            match j with
            | JNull => Some (VMap [])
            | JObj kvs =>
                match ex with
                | VMap m0 =>
                    match fold_left (mstep (dval f k' (zero k'))) kvs (Some m0) with
                    | Some m => Some (VMap m)
                    | None => None
                    end
                | _ => None
                end
            | _ => None
            end
        | KUnsupported => None
        end
    end.

  (* ---------------------------------------------------------------- the values the model covers *)
  Fixpoint wf_fields (wv : kind -> value -> bool) (req : list bytes) (tbl : list tentry) (fs : record) : bool :=
    match tbl, fs with
    | [], [] => true
    | e :: tbl', (f, v) :: fs' =>
        beqb f (te_field e)
        && (if memb (te_field e) req then negb (is_empty v) else true)
        && (if te_omit e && is_empty v then is_zero_of (te_kind e) v else wv (te_kind e) v)
        && wf_fields wv req tbl' fs'
    | _, _ => false
    end.

  (* value v is a Go value of kind k: records carry exactly the table's fields in order, ints fit
     int64, strings and map keys are valid UTF-8, map keys strictly ascending, no empty
     map / slice sits where Go would tell nil from empty, required fields are non-empty. *)
  Fixpoint wf_value (fuel : nat) (k : kind) (v : value) {struct fuel} : bool :=
    match fuel with
    | O => false
    | S f =>
        match k, v with
        | KBool, VBool _ => true
        | KInt, VInt z => in_int64 z
        | KString, VStr s => valid_utf8 s
        | KAny, VAny _ => true
        | KPtrS _, VNil => true
        | KPtrS n, VPtr fs =>
            match lookup n E with
            | None => false
            | Some sd => wf_fields (wf_value f) (s_required sd) (s_table sd) fs
            end
        | KList k', VList (x :: l) => forallb (wf_value f k') (x :: l)
        | KMap k', VMap (x :: m) =>
            sortedb (map fst (x :: m)) && forallb (fun kv => valid_utf8 (fst kv)) (x :: m)
            && forallb (fun kv => wf_value f k' (snd kv)) (x :: m)
        | _, _ => false
        end
    end.

  (* ---------------------------------------------------------------- consistency of the tables *)
  (* [ex_okb k ex]: decoding a marshalled value over a field that currently holds [ex] yields exactly
     the marshalled value — nothing of [ex] survives: existing maps / slices are empty, an existing
     pointee (a default such as NewDocumentMapping()) is itself clean in this sense. *)
  Definition init_okb (exok : kind -> value -> bool) (sd : sdef) (init : record) : bool :=
    list_eqb beqb (map fst init) (map te_field (s_table sd))
    && forallb (fun e =>
         match lookup (te_field e) (apply_defaults (s_defaults sd) init) with
         | Some x => (if te_omit e && negb (memb (te_field e) (s_required sd))
                      then is_zero_of (te_kind e) x else true) && exok (te_kind e) x
         | None => false
         end) (s_table sd).

  Fixpoint ex_okb (fuel : nat) (k : kind) (ex : value) {struct fuel} : bool :=
    match fuel with
    | O => false
    | S f =>
        match k with
        | KList _ => match ex with VList [] => true | _ => false end
        | KMap _ => match ex with VMap [] => true | _ => false end
        | KPtrS n =>
            match ex with
            | VPtr fs0 =>
                match lookup n E with
                | Some sd => init_okb (ex_okb f) sd fs0
                | None => false
                end
            | _ => true
            end
        | _ => true
        end
    end.

  Fixpoint kind_supported (k : kind) : bool :=
    match k with
    | KUnsupported => false
    | KPtrS n => match lookup n E with Some _ => true | None => false end
    | KList k' | KMap k' => kind_supported k'
    | _ => true
    end.

  (* [stateless]: declared fields that may be absent from the JSON because they hold no state of
     their own (justified where the list is given). *)
  Definition tables_consistent (fuel : nat) (stateless : list bytes) (sd : sdef) : bool :=
    let tbl := s_table sd in
    (* no two fields share a key; fields are distinct *)
    nodupb (map te_key tbl) && nodupb (map te_field tbl)
    (* every emitted key has exactly one case, and it writes the field the key was written from
       (hence with the same Go type) *)
    && forallb (fun e => match lookup (te_key e) (s_switch sd) with
                         | Some f => beqb f (te_field e)
                         | None => false
                         end) tbl
    && nodupb (map fst (s_switch sd))
    (* every case writes a field the struct marshals *)
    && forallb (fun kf => memb (snd kf) (map te_field tbl)) (s_switch sd)
    (* every kind is modelled *)
    && forallb (fun e => kind_supported (te_kind e)) tbl
    (* decode-side defaults: a field `omitempty` can leave out (one not required to be non-empty)
       holds the zero value when its key is absent, and no default leaks into a decoded value
       (from a fresh, zeroed receiver) *)
    && init_okb (ex_okb fuel) sd (zero_record tbl)
    (* nothing is overwritten after the key loop *)
    && is_nil (s_post_assigns sd)
    (* every field that carries state is marshalled *)
    && forallb (fun f => memb f (map te_field tbl) || memb f stateless) (s_all_fields sd).

  Definition env_consistent (fuel : nat) (stateless : list bytes) : bool :=
    nodupb (map fst E) && forallb (fun nsd => tables_consistent fuel stateless (snd nsd)) E.

  (* ---------------------------------------------------------------- struct-level entry points *)
  Definition marshal_struct (fuel : nat) (sd : sdef) (r : record) : option json :=
    match marshal_fields (mval fuel) (s_table sd) r with Some kvs => Some (JObj kvs) | None => None end.

  (* json.Unmarshal(data, &fresh) *)
  Definition unmarshal_struct (fuel : nat) (sd : sdef) (j : json) : option record :=
    ustruct (dval fuel) sd (zero_record (s_table sd)) j.

  Definition wf_record (fuel : nat) (sd : sdef) (r : record) : bool :=
    wf_fields (wf_value fuel) (s_required sd) (s_table sd) r.
End Codec.

(* ---------------------------------------------------------------- equality tests (for cases) *)
Fixpoint value_eqb (a b : value) {struct a} : bool :=
  match a, b with
  | VBool x, VBool y => Bool.eqb x y
  | VInt x, VInt y => x =? y
  | VStr x, VStr y => beqb x y
  | VAny x, VAny y => json_eqb x y
  | VNil, VNil => true
  | VPtr x, VPtr y | VMap x, VMap y =>
      (fix go (x y : list (bytes * value)) {struct x} : bool :=
         match x, y with
         | [], [] => true
         | (k, p) :: x', (l, q) :: y' => beqb k l && value_eqb p q && go x' y'
         | _, _ => false
         end) x y
  | VList x, VList y =>
      (fix go (x y : list value) {struct x} : bool :=
         match x, y with
         | [], [] => true
         | p :: x', q :: y' => value_eqb p q && go x' y'
         | _, _ => false
         end) x y
  | _, _ => false
  end.

Definition record_eqb (a b : record) : bool := value_eqb (VPtr a) (VPtr b).
