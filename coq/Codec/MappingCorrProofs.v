(* Codec engine — what an accepted correspondence case states. *)
From Coq Require Import String ZArith List Bool.
From Verif Require Import Common.Bytes Codec.Json Codec.StructCodec Codec.MappingTables
  Codec.MappingCorr Codec.EqProofs.
Import ListNotations.
Local Open Scope Z_scope.

Lemma check_round_sound m j r2 vok same reop :
  check (CRound m j r2 vok same reop) = true ->
  wf_mapping case_fuel m = true
  /\ to_json case_fuel m = Some j          (* the model writes what encoding/json wrote *)
  /\ of_json case_fuel j = r2              (* the model reads what the hand-written decoders read *)
  /\ r2 = Some m                           (* and that is the original mapping *)
  /\ vok = true /\ same = true
  /\ (forall j', reop = Some j' -> j' = j).
Proof.
  cbn [check]. intro H.
  repeat (apply andb_true_iff in H as [H ?]).
  repeat split; try assumption.
  - apply option_json_eqb_sound; assumption.
  - apply option_value_eqb_sound; assumption.
  - apply option_value_eqb_sound; assumption.
  - intros j' ->. match goal with Hj : json_eqb j' j = true |- _ => apply json_eqb_sound in Hj; exact Hj end.
Qed.

Lemma check_decode_sound root j impl :
  check (CDecode root j impl) = true ->
  dval mapping_env mapping_strict case_fuel (KPtrS root) VNil j = impl.
Proof. cbn [check]. apply option_value_eqb_sound. Qed.
