(* Codec engine — the mapping round trip: the generic theorem of StructProofs.v instantiated with
   the tables regenerated from /repo/mapping, whose consistency is Obligations_C16. *)
From Coq Require Import String ZArith List Bool.
From Verif Require Import Common.Bytes Codec.Json Codec.StructCodec Codec.StructProofs
  Codec.MappingTables Extracted.Obligations_C16.
Import ListNotations.
Local Open Scope Z_scope.

Definition obind {A B} (o : option A) (f : A -> option B) : option B :=
  match o with Some x => f x | None => None end.

(* ---------------------------------------------------------------- generic statement *)
Lemma roundtrip_of_consistent_tables (E : env) (strict : bool) (tfuel : nat) (stateless : list bytes) :
  env_consistent E tfuel stateless = true ->
  forall fuel n sd r,
    lookup n E = Some sd ->
    wf_record E fuel sd r = true ->
    obind (marshal_struct E fuel sd r) (unmarshal_struct E strict fuel sd) = Some r.
Proof.
  intros Hc fuel n sd r Hl Hwf.
  destruct (struct_roundtrip_of_consistent E strict (env_consistent_sound E tfuel stateless Hc) fuel n sd r Hl Hwf)
    as [j [Hm Hu]].
  rewrite Hm. exact Hu.
Qed.

Lemma value_roundtrip_of_consistent_tables (E : env) (strict : bool) (tfuel : nat) (stateless : list bytes) :
  env_consistent E tfuel stateless = true ->
  forall fuel k v,
    wf_value E fuel k v = true ->
    obind (mval E fuel k v) (dval E strict fuel k (zero k)) = Some v.
Proof.
  intros Hc fuel k v Hwf.
  destruct (value_roundtrip E strict (env_consistent_sound E tfuel stateless Hc) fuel k v (zero k) (ex_ok_zero E k) Hwf)
    as [j [Hm Hd]].
  rewrite Hm. exact Hd.
Qed.

(* ---------------------------------------------------------------- the mapping *)
Lemma mapping_env_consistent : env_consistent_prop mapping_env.
Proof. exact (env_consistent_sound _ _ _ ob_env_consistent). Qed.

(* IndexMapping -> type map of DocumentMapping -> Properties (recursive) / Fields of FieldMapping,
   plus the custom analysis section: what Open parses is what was stored at creation. *)
Lemma mapping_roundtrip fuel m :
  wf_mapping fuel m = true -> obind (to_json fuel m) (of_json fuel) = Some m.
Proof.
  intro Hwf. unfold to_json, of_json.
  destruct (value_roundtrip mapping_env mapping_strict mapping_env_consistent fuel root_kind m VNil) as [j [Hm Hd]].
  - apply ExPtrNo. intros fs H; discriminate.
  - exact Hwf.
  - rewrite Hm. exact Hd.
Qed.

(* the same with MappingJSONStrict turned on: every key written has a case, none is rejected *)
Lemma mapping_roundtrip_strict fuel m :
  wf_mapping fuel m = true ->
  obind (to_json fuel m) (dval mapping_env true fuel root_kind VNil) = Some m.
Proof.
  intro Hwf. unfold to_json.
  destruct (value_roundtrip mapping_env true mapping_env_consistent fuel root_kind m VNil) as [j [Hm Hd]].
  - apply ExPtrNo. intros fs H; discriminate.
  - exact Hwf.
  - rewrite Hm. exact Hd.
Qed.

Lemma to_json_idempotent fuel m :
  wf_mapping fuel m = true ->
  obind (obind (to_json fuel m) (of_json fuel)) (to_json fuel) = to_json fuel m.
Proof. intro Hwf. rewrite (mapping_roundtrip fuel m Hwf). reflexivity. Qed.

(* whatever is computed from a mapping — the fields MapDocument produces for a document, the result
   of Validate — is computed equally from the reparsed mapping, because it IS the same mapping *)
Lemma map_doc_roundtrip {D O : Type} (map_doc : value -> D -> O) fuel m j m' :
  wf_mapping fuel m = true -> to_json fuel m = Some j -> of_json fuel j = Some m' ->
  forall d, map_doc m' d = map_doc m d.
Proof.
  intros Hwf Hj Hm' d. pose proof (mapping_roundtrip fuel m Hwf) as H.
  rewrite Hj in H. cbn in H. rewrite Hm' in H. inversion H. reflexivity.
Qed.

Lemma validate_roundtrip (validate : value -> bool) fuel m j m' :
  wf_mapping fuel m = true -> to_json fuel m = Some j -> of_json fuel j = Some m' ->
  validate m' = validate m /\ wf_mapping fuel m' = true.
Proof.
  intros Hwf Hj Hm'. pose proof (mapping_roundtrip fuel m Hwf) as H.
  rewrite Hj in H. cbn in H. rewrite Hm' in H. inversion H; subst. split; [reflexivity|exact Hwf].
Qed.

(* the two inner levels on their own (a DocumentMapping or FieldMapping decoded by itself) *)
Lemma struct_level_roundtrip name sd fuel r :
  lookup name mapping_env = Some sd ->
  wf_record mapping_env fuel sd r = true ->
  obind (marshal_struct mapping_env fuel sd r) (unmarshal_struct mapping_env mapping_strict fuel sd) = Some r.
Proof. intros Hl Hwf. eapply roundtrip_of_consistent_tables; [exact ob_env_consistent|exact Hl|exact Hwf]. Qed.

(* ---------------------------------------------------------------- the hypotheses are satisfiable *)
Definition fm_rec (name typ analyzer : bytes) (store index tv inall dv sfn : bool) (datefmt : bytes) : value :=
  VPtr [(s2b "Name", VStr name); (s2b "Type", VStr typ); (s2b "Analyzer", VStr analyzer);
        (s2b "Store", VBool store); (s2b "Index", VBool index);
        (s2b "IncludeTermVectors", VBool tv); (s2b "IncludeInAll", VBool inall);
        (s2b "DateFormat", VStr datefmt); (s2b "DocValues", VBool dv); (s2b "SkipFreqNorm", VBool sfn);
        (s2b "Dims", VInt 0); (s2b "Similarity", VStr []); (s2b "VectorIndexOptimizedFor", VStr []);
        (s2b "SynonymSource", VStr []); (s2b "GPU", VBool false)].

Definition dm_rec (enabled dynamic : bool) (props : list (bytes * value)) (fields : list value)
           (nested : bool) (analyzer : bytes) : value :=
  VPtr [(s2b "Enabled", VBool enabled); (s2b "Dynamic", VBool dynamic); (s2b "Properties", VMap props);
        (s2b "Fields", VList fields); (s2b "Nested", VBool nested); (s2b "DefaultAnalyzer", VStr analyzer);
        (s2b "DefaultSynonymSource", VStr []); (s2b "StructTagKey", VStr [])].

Definition example_mapping : value :=
  VPtr [(s2b "TypeMapping",
         VMap [(s2b "article",
                dm_rec true false
                  [(s2b "body", dm_rec true true [] [fm_rec [] (s2b "text") (s2b "en") false true true true false false []] false []);
                   (s2b "comments",
                    dm_rec true true
                      [(s2b "when", dm_rec true true [] [fm_rec (s2b "posted") (s2b "datetime") [] true true false false true false (s2b "dateTimeOptional")] false [])]
                      [] true (s2b "keyword"));
                   (s2b "secret", dm_rec false true [] [] false [])]
                  [] false (s2b "standard"))]);
        (s2b "DefaultMapping", dm_rec true true [] [] false []);
        (s2b "TypeField", VStr (s2b "kind")); (s2b "DefaultType", VStr (s2b "_default"));
        (s2b "DefaultAnalyzer", VStr (s2b "standard"));
        (s2b "DefaultDateTimeParser", VStr (s2b "dateTimeOptional"));
        (s2b "DefaultSynonymSource", VStr []); (s2b "ScoringModel", VStr (s2b "bm25"));
        (s2b "DefaultField", VStr (s2b "_all"));
        (s2b "StoreDynamic", VBool false); (s2b "IndexDynamic", VBool true); (s2b "DocValuesDynamic", VBool false);
        (s2b "CustomAnalysis",
         VPtr [(s2b "CharFilters", VMap []); (s2b "Tokenizers", VMap []); (s2b "TokenMaps", VMap []);
               (s2b "TokenFilters", VMap [(s2b "trunc", VAny (JObj [(s2b "length", JNum (NInt 4)); (s2b "type", JStr (s2b "truncate_token"))]))]);
               (s2b "Analyzers", VMap []); (s2b "DateTimeParsers", VMap []); (s2b "SynonymSources", VMap [])])].

Example example_mapping_wf : wf_mapping case_fuel example_mapping = true.
Proof. vm_compute. reflexivity. Qed.

Example example_mapping_roundtrip :
  obind (to_json case_fuel example_mapping) (of_json case_fuel) = Some example_mapping.
Proof. vm_compute. reflexivity. Qed.

(* without the validity condition the statement is false: with CustomAnalysis = nil the
   `analysis,omitempty` tag drops the key and the decoder's default is a non-nil empty section *)
Definition nil_analysis_mapping : value :=
  match new_index_mapping with
  | Some (VPtr fs) => VPtr (rset (s2b "CustomAnalysis") VNil fs)
  | _ => VNil
  end.

Lemma mapping_roundtrip_nil_analysis_refuted :
  obind (to_json case_fuel nil_analysis_mapping) (of_json case_fuel) = new_index_mapping
  /\ new_index_mapping <> Some nil_analysis_mapping
  /\ obind new_index_mapping (to_json case_fuel) <> to_json case_fuel nil_analysis_mapping.
Proof. repeat split; vm_compute; congruence. Qed.
