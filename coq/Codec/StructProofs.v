(* Codec engine — the round trip of the generic struct codec:
   if the tables are consistent, decoding what was marshalled gives the value back. *)
From Coq Require Import ZArith List Bool Lia.
From Verif Require Import Common.Bytes Codec.Json Codec.StructCodec.
Import ListNotations.
Local Open Scope Z_scope.

(* ---------------------------------------------------------------- bytes, lookup, rset *)
Lemma beqb_true a b : beqb a b = true -> a = b.
Proof. apply beqb_eq. Qed.

Lemma beqb_refl a : beqb a a = true.
Proof. apply beqb_eq; reflexivity. Qed.

Lemma beqb_false a b : beqb a b = false -> a <> b.
Proof. intros H E. subst. rewrite beqb_refl in H. discriminate. Qed.

Lemma beqb_neq a b : a <> b -> beqb a b = false.
Proof. intro H. destruct (beqb a b) eqn:E; [|reflexivity]. apply beqb_true in E. contradiction. Qed.

Lemma memb_In k l : memb k l = true <-> In k l.
Proof.
  induction l as [|x l IH]; cbn; [split; [discriminate|intros []]|].
  rewrite orb_true_iff, IH. split; intros [H|H]; auto.
  - left. symmetry. apply beqb_true; exact H.
  - left. subst. apply beqb_refl.
Qed.

Lemma memb_notIn k l : memb k l = false <-> ~ In k l.
Proof.
  split.
  - intros H Hin. apply memb_In in Hin. congruence.
  - intro H. destruct (memb k l) eqn:E; [|reflexivity]. apply memb_In in E. contradiction.
Qed.

Lemma nodupb_NoDup l : nodupb l = true -> NoDup l.
Proof.
  induction l as [|x l IH]; cbn; intro H; [constructor|].
  apply andb_true_iff in H as [H1 H2]. constructor; [|auto].
  apply negb_true_iff in H1. apply memb_notIn; exact H1.
Qed.

Lemma lookup_In {A} k (l : list (bytes * A)) v : lookup k l = Some v -> In (k, v) l.
Proof.
  induction l as [|[k' v'] l IH]; cbn; [discriminate|].
  destruct (beqb k k') eqn:E; intro H.
  - apply beqb_true in E. inversion H; subst. left; reflexivity.
  - right; auto.
Qed.

Lemma lookup_notIn {A} k (l : list (bytes * A)) : ~ In k (map fst l) -> lookup k l = None.
Proof.
  induction l as [|[k' v'] l IH]; cbn; intro H; [reflexivity|].
  rewrite beqb_neq by (intro; subst; apply H; left; reflexivity).
  apply IH. intro; apply H; right; assumption.
Qed.

Lemma lookup_rset_same f v r x : lookup f r = Some x -> lookup f (rset f v r) = Some v.
Proof.
  induction r as [|[g y] r IH]; cbn; [discriminate|].
  destruct (beqb f g) eqn:E; cbn; rewrite E; auto.
Qed.

Lemma lookup_rset_other f g v r : f <> g -> lookup g (rset f v r) = lookup g r.
Proof.
  intro Hne. induction r as [|[h y] r IH]; cbn; [reflexivity|].
  destruct (beqb f h) eqn:E; cbn.
  - apply beqb_true in E; subst h. rewrite (beqb_neq g f) by congruence. reflexivity.
  - destruct (beqb g h); auto.
Qed.

Lemma rset_same f v r : lookup f r = Some v -> rset f v r = r.
Proof.
  induction r as [|[g y] r IH]; cbn; [reflexivity|].
  destruct (beqb f g) eqn:E; intro H.
  - inversion H; reflexivity.
  - rewrite IH by exact H. reflexivity.
Qed.

Lemma map_fst_rset f v r : map fst (rset f v r) = map fst r.
Proof.
  induction r as [|[g y] r IH]; cbn; [reflexivity|].
  destruct (beqb f g); cbn; [reflexivity|]. rewrite IH. reflexivity.
Qed.

(* writing every field of fs into r, in order *)
Definition overlay (r fs : record) : record :=
  fold_left (fun r fv => rset (fst fv) (snd fv) r) fs r.

Lemma overlay_cons_other f v r fs :
  ~ In f (map fst fs) -> overlay ((f, v) :: r) fs = (f, v) :: overlay r fs.
Proof.
  revert r. induction fs as [|[g w] fs IH]; intros r Hn; cbn; [reflexivity|].
  cbn in Hn. rewrite (beqb_neq g f) by (intro; subst; apply Hn; left; reflexivity).
  apply IH. intro; apply Hn; right; assumption.
Qed.

Lemma overlay_all r fs : NoDup (map fst fs) -> map fst r = map fst fs -> overlay r fs = fs.
Proof.
  revert r. induction fs as [|[f v] fs IH]; intros r Hnd Hm.
  - destruct r; [reflexivity|discriminate].
  - destruct r as [|[g x] r]; [discriminate|]. cbn in Hm. inversion Hm; subst g.
    inversion Hnd; subst.
    unfold overlay; cbn. rewrite beqb_refl.
    change (overlay ((f, v) :: r) fs = (f, v) :: fs).
    rewrite overlay_cons_other by assumption. f_equal. apply IH; assumption.
Qed.

Lemma dedup_last_nodup {A} (kvs : list (bytes * A)) : NoDup (map fst kvs) -> dedup_last kvs = kvs.
Proof.
  induction kvs as [|[k v] kvs IH]; cbn; intro H; [reflexivity|].
  inversion H; subst. rewrite (proj2 (memb_notIn _ _)) by assumption. rewrite IH by assumption. reflexivity.
Qed.

Lemma find_entry_nodup e tbl :
  NoDup (map te_field tbl) -> In e tbl -> find_entry (te_field e) tbl = Some e.
Proof.
  induction tbl as [|e' tbl IH]; cbn; intros Hnd Hin; [destruct Hin|].
  inversion Hnd; subst. destruct Hin as [->|Hin]; [rewrite beqb_refl; reflexivity|].
  rewrite beqb_neq; [auto|]. intro Heq. apply H1. rewrite <- Heq. apply in_map; exact Hin.
Qed.

(* ---------------------------------------------------------------- sorted maps *)
Lemma sortedb_tail k ks : sortedb (k :: ks) = true -> sortedb ks = true.
Proof. cbn. destruct ks; [reflexivity|]. intro H. apply andb_true_iff in H as [_ H]. exact H. Qed.

Lemma sortedb_head_lt k ks : sortedb (k :: ks) = true -> forall k', In k' ks -> bcompare k k' = Lt.
Proof.
  revert k. induction ks as [|k2 ks IH]; intros k H k' Hin; [destruct Hin|].
  pose proof (sortedb_tail _ _ H) as Ht.
  cbn in H. apply andb_true_iff in H as [H1 _].
  unfold bltb in H1. destruct (bcompare k k2) eqn:E; try discriminate.
  destruct Hin as [<-|Hin]; [exact E|].
  eapply bcompare_trans_lt; [exact E|]. apply IH; assumption.
Qed.

Lemma map_put_last k v m :
  (forall a, In a (map fst m) -> bcompare a k = Lt) -> map_put k v m = m ++ [(k, v)].
Proof.
  induction m as [|[k' v'] m IH]; cbn; intro H; [reflexivity|].
  rewrite (bcompare_antisym k' k). rewrite (H k') by (left; reflexivity). cbn.
  rewrite IH; [reflexivity|]. intros a Ha. apply H. right; exact Ha.
Qed.

(* ---------------------------------------------------------------- zero values *)
Lemma is_zero_of_zero k v : is_zero_of k v = true -> v = zero k.
Proof.
  destruct k, v; cbn; try discriminate; try reflexivity.
  - destruct b; [discriminate|reflexivity].
  - destruct z; [reflexivity|discriminate|discriminate].
  - destruct s; [reflexivity|discriminate].
  - destruct j; try discriminate; reflexivity.
  - destruct l; [reflexivity|discriminate].
  - destruct m; [reflexivity|discriminate].
Qed.

Section Proofs.
  Variable E : env.
  Variable strict : bool.

  Notation mval := (mval E).
  Notation dval := (dval E strict).
  Notation wf_value := (wf_value E).

  (* ---------------------------------------------------------------- consistency as a proposition *)
  (* fuel-free reading of [ex_okb] *)
  Inductive ex_ok : kind -> value -> Prop :=
  | ExBool ex : ex_ok KBool ex
  | ExInt ex : ex_ok KInt ex
  | ExString ex : ex_ok KString ex
  | ExAny ex : ex_ok KAny ex
  | ExUnsup ex : ex_ok KUnsupported ex
  | ExList k : ex_ok (KList k) (VList [])
  | ExMap k : ex_ok (KMap k) (VMap [])
  | ExPtrNo n ex : (forall fs, ex <> VPtr fs) -> ex_ok (KPtrS n) ex
  | ExPtr n sd fs0 :
      lookup n E = Some sd ->
      map fst fs0 = map te_field (s_table sd) ->
      Forall (fun e => exists x,
                  lookup (te_field e) (apply_defaults (s_defaults sd) fs0) = Some x
                  /\ (te_omit e = true -> memb (te_field e) (s_required sd) = false -> is_zero_of (te_kind e) x = true)
                  /\ ex_ok (te_kind e) x) (s_table sd) ->
      ex_ok (KPtrS n) (VPtr fs0).

  Definition init_ok (sd : sdef) (init : record) : Prop :=
    map fst init = map te_field (s_table sd)
    /\ Forall (fun e => exists x,
                  lookup (te_field e) (apply_defaults (s_defaults sd) init) = Some x
                  /\ (te_omit e = true -> memb (te_field e) (s_required sd) = false -> is_zero_of (te_kind e) x = true)
                  /\ ex_ok (te_kind e) x) (s_table sd).

  Record sd_consistent (sd : sdef) : Prop := {
    sc_keys : NoDup (map te_key (s_table sd));
    sc_fields : NoDup (map te_field (s_table sd));
    sc_cases : forall e, In e (s_table sd) -> lookup (te_key e) (s_switch sd) = Some (te_field e);
    sc_init : init_ok sd (zero_record (s_table sd))
  }.

  Definition env_consistent_prop : Prop :=
    forall n sd, lookup n E = Some sd -> sd_consistent sd.

  Lemma ex_ok_zero k : ex_ok k (zero k).
  Proof. destruct k; cbn; try constructor. intros fs H; discriminate. Qed.

  Lemma init_okb_sound (exok : kind -> value -> bool) sd init :
    (forall k x, exok k x = true -> ex_ok k x) ->
    init_okb exok sd init = true -> init_ok sd init.
  Proof.
    intros Hex H. unfold init_okb in H. apply andb_true_iff in H as [H1 H2].
    split.
    - apply (list_eqb_eq beqb beqb_eq). exact H1.
    - rewrite forallb_forall in H2. apply Forall_forall. intros e He.
      specialize (H2 e He).
      destruct (lookup (te_field e) (apply_defaults (s_defaults sd) init)) as [x|]; [|discriminate].
      apply andb_true_iff in H2 as [Ha Hb]. exists x. split; [reflexivity|]. split.
      + intros Ho Hr. rewrite Ho, Hr in Ha. exact Ha.
      + apply Hex. exact Hb.
  Qed.

  Lemma ex_okb_sound fuel : forall k ex, ex_okb E fuel k ex = true -> ex_ok k ex.
  Proof.
    induction fuel as [|f IH]; intros k ex H; [discriminate|].
    cbn in H. destruct k; try (constructor; fail).
    - destruct ex; try (apply ExPtrNo; intros fs0 Hc; discriminate).
      destruct (lookup n E) as [sd|] eqn:El; [|discriminate].
      destruct (init_okb_sound _ _ _ IH H) as [Ha Hb].
      eapply ExPtr; eauto.
    - destruct ex; try discriminate. destruct l; [constructor|discriminate].
    - destruct ex; try discriminate. destruct m; [constructor|discriminate].
  Qed.

  Lemma tables_consistent_sound fuel stateless sd :
    tables_consistent E fuel stateless sd = true -> sd_consistent sd.
  Proof.
    unfold tables_consistent. intro H.
    repeat (apply andb_true_iff in H as [H ?]).
    constructor.
    - apply nodupb_NoDup; assumption.
    - apply nodupb_NoDup; assumption.
    - intros e He. match goal with Hc : forallb (fun e => match lookup (te_key e) _ with _ => _ end) _ = true |- _ =>
        rewrite forallb_forall in Hc; specialize (Hc e He) end.
      destruct (lookup (te_key e) (s_switch sd)) as [f|]; [|discriminate].
      match goal with Hc : beqb f _ = true |- _ => apply beqb_true in Hc; subst f end. reflexivity.
    - eapply init_okb_sound; [apply ex_okb_sound|eassumption].
  Qed.

  Lemma env_consistent_sound fuel stateless :
    env_consistent E fuel stateless = true -> env_consistent_prop.
  Proof.
    unfold env_consistent. intro H. apply andb_true_iff in H as [_ H].
    rewrite forallb_forall in H. intros n sd Hl.
    apply lookup_In in Hl. specialize (H _ Hl). cbn in H.
    eapply tables_consistent_sound; exact H.
  Qed.

  (* ---------------------------------------------------------------- lists and maps *)
  Lemma mapM_roundtrip {A B} (mv : A -> option B) (dv : B -> option A) (ok : A -> bool) l :
    (forall v, ok v = true -> exists j, mv v = Some j /\ dv j = Some v) ->
    forallb ok l = true ->
    exists js, mapM mv l = Some js /\ mapM dv js = Some l.
  Proof.
    intro H. induction l as [|v l IH]; cbn; intro Hf; [exists []; split; reflexivity|].
    apply andb_true_iff in Hf as [Hv Hl].
    destruct (H v Hv) as [j [Hm Hd]]. destruct (IH Hl) as [js [Hms Hds]].
    exists (j :: js). rewrite Hm, Hms. cbn. rewrite Hd, Hds. split; reflexivity.
  Qed.

  Lemma map_fold_roundtrip (mv : value -> option json) (dv : json -> option value) (ok : value -> bool) :
    (forall v, ok v = true -> exists j, mv v = Some j /\ dv j = Some v) ->
    forall m acc,
      forallb (fun kv => ok (snd kv)) m = true ->
      sortedb (map fst m) = true ->
      (forall a b, In a (map fst acc) -> In b (map fst m) -> bcompare a b = Lt) ->
      exists kvs,
        mapM (fun kv => match mv (snd kv) with Some j => Some (fst kv, j) | None => None end) m = Some kvs
        /\ fold_left (mstep dv) kvs (Some acc) = Some (acc ++ m).
  Proof.
    intro H. induction m as [|[k v] m IH]; intros acc Hf Hs Hlt.
    - exists []. cbn. rewrite app_nil_r. split; reflexivity.
    - cbn in Hf. apply andb_true_iff in Hf as [Hv Hm].
      destruct (H v Hv) as [j [Hmv Hdv]].
      assert (Hput : map_put k v acc = acc ++ [(k, v)]).
      { apply map_put_last. intros a Ha. apply Hlt; [exact Ha|left; reflexivity]. }
      destruct (IH (acc ++ [(k, v)]) Hm (sortedb_tail _ _ Hs)) as [kvs [Hms Hfold]].
      { intros a b Ha Hb. rewrite map_app in Ha. apply in_app_or in Ha as [Ha|Ha].
        - apply Hlt; [exact Ha|right; exact Hb].
        - cbn in Ha. destruct Ha as [<-|[]]. cbn in Hs. eapply sortedb_head_lt; [exact Hs|exact Hb]. }
      exists ((k, j) :: kvs). cbn [mapM snd fst]. rewrite Hmv, Hms. split; [reflexivity|].
      cbn [fold_left mstep snd fst]. rewrite Hdv, Hput, Hfold. rewrite <- app_assoc. reflexivity.
  Qed.

  (* ---------------------------------------------------------------- one struct level *)
  Lemma wf_fields_names wv req tbl fs : wf_fields wv req tbl fs = true -> map fst fs = map te_field tbl.
  Proof.
    revert fs. induction tbl as [|e tbl IH]; intros [|[f v] fs]; cbn; intro H; try discriminate; [reflexivity|].
    apply andb_true_iff in H as [H H3]. apply andb_true_iff in H as [H _]. apply andb_true_iff in H as [H1 _].
    apply beqb_true in H1. subst f. f_equal. apply IH; exact H3.
  Qed.

  Section Level.
    Variable f : nat.
    Variable sd : sdef.
    Hypothesis Hcons : sd_consistent sd.
    Hypothesis IH : forall k v ex, ex_ok k ex -> wf_value f k v = true ->
                                   exists j, mval f k v = Some j /\ dval f k ex j = Some v.

    Lemma fields_roundtrip : forall tbl' fs' r,
      incl tbl' (s_table sd) ->
      NoDup (map te_field tbl') -> NoDup (map te_key tbl') ->
      (forall e, In e tbl' -> exists x, lookup (te_field e) r = Some x
                                        /\ (te_omit e = true -> memb (te_field e) (s_required sd) = false -> is_zero_of (te_kind e) x = true)
                                        /\ ex_ok (te_kind e) x) ->
      wf_fields (wf_value f) (s_required sd) tbl' fs' = true ->
      exists kvs,
        marshal_fields (mval f) tbl' fs' = Some kvs
        /\ fold_left (dstep strict (dval f) sd) kvs (Some r) = Some (overlay r fs')
        /\ NoDup (map fst kvs)
        /\ (forall k, In k (map fst kvs) -> In k (map te_key tbl')).
    Proof.
      induction tbl' as [|e tbl' IHt]; intros [|[g v] fs'] r Hincl Hndf Hndk Hex Hwf; cbn in Hwf; try discriminate.
      - exists []. cbn. repeat split; [constructor|intros k []].
      - apply andb_true_iff in Hwf as [Hwf Hwf3]. apply andb_true_iff in Hwf as [Hwf Hwf2].
        apply andb_true_iff in Hwf as [Hwf1 Hreq].
        apply beqb_true in Hwf1. subst g.
        inversion Hndf as [|? ? Hnf Hndf']; subst. inversion Hndk as [|? ? Hnk Hndk']; subst.
        assert (Hin : In e (s_table sd)) by (apply Hincl; left; reflexivity).
        assert (Hincl' : incl tbl' (s_table sd)) by (intros a Ha; apply Hincl; right; exact Ha).
        destruct (Hex e (or_introl eq_refl)) as [x [Hlx [Hzx Hexx]]].
        cbn [marshal_fields]. rewrite beqb_refl.
        destruct (te_omit e && is_empty v) eqn:Eom.
        + (* omitted: the field keeps its default, which is the zero value the record holds *)
          apply andb_true_iff in Eom as [Eo Eem].
          assert (Hnr : memb (te_field e) (s_required sd) = false).
          { destruct (memb (te_field e) (s_required sd)); [|reflexivity]. rewrite Eem in Hreq. discriminate. }
          apply is_zero_of_zero in Hwf2. specialize (Hzx Eo Hnr). apply is_zero_of_zero in Hzx.
          assert (Hrs : rset (te_field e) v r = r) by (apply rset_same; congruence).
          destruct (IHt fs' r Hincl' Hndf' Hndk') as [kvs [Hm [Hf [Hnd Hk]]]]; [|exact Hwf3|].
          { intros e' He'. apply Hex. right; exact He'. }
          exists kvs. rewrite Hm. split; [reflexivity|]. split; [|split; [exact Hnd|]].
          * unfold overlay. cbn [fold_left fst snd]. rewrite Hrs. exact Hf.
          * intros k Hkin. right. apply Hk; exact Hkin.
        + (* written: the case for its key decodes it back into the same field *)
          destruct (IH _ _ x Hexx Hwf2) as [j [Hmv Hdv]].
          destruct (IHt fs' (rset (te_field e) v r) Hincl' Hndf' Hndk') as [kvs [Hm [Hf [Hnd Hk]]]]; [|exact Hwf3|].
          { intros e' He'. destruct (Hex e' (or_intror He')) as [x' [Hl' Hr']].
            exists x'. split; [|exact Hr'].
            rewrite lookup_rset_other; [exact Hl'|].
            intro Heq. apply Hnf. rewrite Heq. apply in_map; exact He'. }
          exists ((te_key e, j) :: kvs). rewrite Hm, Hmv. split; [reflexivity|]. split; [|split].
          * cbn [fold_left]. unfold dstep at 2. cbn [fst snd].
            rewrite (sc_cases _ Hcons e Hin).
            rewrite (find_entry_nodup e _ (sc_fields _ Hcons) Hin). rewrite Hlx, Hdv.
            exact Hf.
          * cbn. constructor; [|exact Hnd]. intro Hc. apply Hnk. apply Hk; exact Hc.
          * cbn. intros k [<-|Hkin]; [left; reflexivity|right; apply Hk; exact Hkin].
    Qed.

    Lemma struct_roundtrip init fs :
      init_ok sd init ->
      wf_fields (wf_value f) (s_required sd) (s_table sd) fs = true ->
      exists kvs,
        marshal_fields (mval f) (s_table sd) fs = Some kvs
        /\ ustruct strict (dval f) sd init (JObj kvs) = Some fs.
    Proof.
      intros [Hnames Hall] Hwf.
      destruct (fields_roundtrip (s_table sd) fs (apply_defaults (s_defaults sd) init))
        as [kvs [Hm [Hf [Hnd _]]]].
      - apply incl_refl.
      - apply (sc_fields _ Hcons).
      - apply (sc_keys _ Hcons).
      - rewrite Forall_forall in Hall. exact Hall.
      - exact Hwf.
      - exists kvs. split; [exact Hm|]. unfold ustruct.
        assert (Hd : (if s_handwritten sd then dedup_last kvs else kvs) = kvs).
        { destruct (s_handwritten sd); [apply dedup_last_nodup; exact Hnd|reflexivity]. }
        rewrite Hd. etransitivity; [exact Hf|]. f_equal. apply overlay_all.
        + rewrite (wf_fields_names _ _ _ _ Hwf). apply (sc_fields _ Hcons).
        + rewrite (wf_fields_names _ _ _ _ Hwf). unfold apply_defaults. rewrite map_map.
          rewrite <- Hnames. clear. induction init as [|[g y] init IHi]; cbn; [reflexivity|].
          rewrite IHi. destruct (lookup g (s_defaults sd)); reflexivity.
    Qed.
  End Level.

  (* ---------------------------------------------------------------- every value *)
  Hypothesis Henv : env_consistent_prop.

  Theorem value_roundtrip : forall fuel k v ex,
    ex_ok k ex -> wf_value fuel k v = true ->
    exists j, mval fuel k v = Some j /\ dval fuel k ex j = Some v.
  Proof.
    induction fuel as [|f IH]; intros k v ex Hex Hwf; [discriminate|].
    destruct k, v; cbn in Hwf; try discriminate.
    - exists (JBool b). split; reflexivity.
    - exists (JNum (NInt z)). cbn. rewrite Hwf. split; reflexivity.
    - exists (JStr s). split; reflexivity.
    - exists j. split; reflexivity.
    - exists JNull. split; reflexivity.
    - (* pointer to a struct *)
      destruct (lookup n E) as [sd|] eqn:El; [|discriminate].
      pose proof (Henv _ _ El) as Hc.
      assert (Hinit : init_ok sd (match ex with VPtr fs0 => fs0 | _ => zero_record (s_table sd) end)).
      { inversion Hex as [| | | | | | |n' ex' Hno|n' sd' fs0 Hl Hn Hall]; subst.
        - destruct ex; try apply (sc_init _ Hc). exfalso. eapply Hno; reflexivity.
        - rewrite El in Hl. inversion Hl; subst sd'. split; assumption. }
      destruct (struct_roundtrip f sd Hc (IH) _ fs Hinit Hwf) as [kvs [Hm Hu]].
      exists (JObj kvs). cbn [StructCodec.mval StructCodec.dval]. rewrite El, Hm. split; [reflexivity|].
      rewrite Hu. reflexivity.
    - (* slice *)
      destruct l as [|x l]; [discriminate|].
      destruct (mapM_roundtrip (mval f k) (dval f k (zero k)) (wf_value f k) (x :: l)) as [js [Hm Hd]].
      { intros v Hv. apply IH; [apply ex_ok_zero|exact Hv]. }
      { exact Hwf. }
      exists (JArr js). cbn [StructCodec.mval StructCodec.dval]. rewrite Hm. split; [reflexivity|].
      inversion Hex; subst. rewrite Hd. reflexivity.
    - (* map *)
      destruct m as [|x m]; [discriminate|].
      apply andb_true_iff in Hwf as [Hwf Hvals]. apply andb_true_iff in Hwf as [Hsorted _].
      destruct (map_fold_roundtrip (mval f k) (dval f k (zero k)) (wf_value f k)) with (m := x :: m) (acc := @nil (bytes * value))
        as [kvs [Hm Hd]].
      { intros v Hv. apply IH; [apply ex_ok_zero|exact Hv]. }
      { exact Hvals. }
      { exact Hsorted. }
      { intros a b []. }
      exists (JObj kvs). cbn [StructCodec.mval StructCodec.dval]. rewrite Hm. split; [reflexivity|].
      inversion Hex; subst. rewrite Hd. reflexivity.
  Qed.

  (* the statement of DESIGN.md: consistent tables give the round trip at every struct level *)
  Theorem struct_roundtrip_of_consistent fuel n sd r :
    lookup n E = Some sd ->
    wf_record E fuel sd r = true ->
    exists j, marshal_struct E fuel sd r = Some j /\ unmarshal_struct E strict fuel sd j = Some r.
  Proof.
    intros Hl Hwf. pose proof (Henv _ _ Hl) as Hc.
    destruct (struct_roundtrip fuel sd Hc (value_roundtrip fuel) _ r (sc_init _ Hc) Hwf) as [kvs [Hm Hu]].
    exists (JObj kvs). unfold marshal_struct, unmarshal_struct. rewrite Hm. split; [reflexivity|exact Hu].
  Qed.
End Proofs.
