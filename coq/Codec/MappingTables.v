(* Codec engine — the mapping codec tables: the facts T1 regenerates from /repo/mapping
   (Extracted.XMapping: struct tags, `case "key":` lists, decode-side defaults) turned into the
   environment the generic codec of StructCodec.v runs on.  Definitions only. *)
From Coq Require Import String ZArith List Bool.
From Verif Require Import Common.Bytes Codec.Json Codec.StructCodec Extracted.Extracted.
Import ListNotations.
Local Open Scope Z_scope.

Fixpoint conv_kind (k : XMapping.xkind) : kind :=
  match k with
  | XMapping.XBool => KBool
  | XMapping.XInt => KInt
  | XMapping.XString => KString
  | XMapping.XAny => KAny
  | XMapping.XPtr n => KPtrS n
  | XMapping.XList k' => KList (conv_kind k')
  | XMapping.XMap k' => KMap (conv_kind k')
  | XMapping.XUnsupported _ => KUnsupported
  end.

Definition conv_table (x : XMapping.xstruct) : list tentry :=
  map (fun q => match q with (f, key, omit, k) =>
         {| te_field := f; te_key := key; te_omit := omit; te_kind := conv_kind k |} end)
      (XMapping.x_marshal x).

Definition raw_tables : list (bytes * list tentry) :=
  map (fun x => (XMapping.x_name x, conv_table x)) XMapping.structs.

(* A default expression as a value of the field's kind. `&T{F: e, …}` (what NewDocumentMapping() or
   newCustomAnalysis() return) becomes a pointer to a T whose other fields are zero.  [None]: the
   expression could not be resolved to a literal by T1, or does not fit the kind. *)
Fixpoint conv_dflt (fuel : nat) (k : kind) (d : XMapping.xdflt) {struct fuel} : option value :=
  match fuel with
  | O => None
  | S f =>
      match d, k with
      | XMapping.XDBool b, KBool => Some (VBool b)
      | XMapping.XDInt z, KInt => Some (VInt z)
      | XMapping.XDStr s, KString => Some (VStr s)
      | XMapping.XDEmpty, KMap _ => Some (VMap [])
      | XMapping.XDEmpty, KList _ => Some (VList [])
      | XMapping.XDNil, (KPtrS _ | KMap _ | KList _ | KAny) => Some (zero k)
      | XMapping.XDNew n fs, KPtrS n' =>
          if beqb n n' then
            match lookup n raw_tables with
            | None => None
            | Some tbl =>
                (* fields of the literal the struct does not marshal (the cache) are not part of the
                   value; that they carry no state is the stateless-fields obligation *)
                match mapM (fun e => match lookup (te_field e) fs with
                                     | None => Some (te_field e, zero (te_kind e))
                                     | Some d' => match conv_dflt f (te_kind e) d' with
                                                  | Some v => Some (te_field e, v)
                                                  | None => None
                                                  end
                                     end) tbl with
                | Some r => Some (VPtr r)
                | None => None
                end
            end
          else None
      | _, _ => None
      end
  end.

Definition dflt_fuel : nat := 8.

(* defaults of fields the struct marshals; a default of any other field (the registry cache) is
   outside the codec and answered for by the stateless list of the obligations *)
Definition conv_defaults (x : XMapping.xstruct) : list (bytes * option value) :=
  flat_map (fun fd =>
      match find_entry (fst fd) (conv_table x) with
      | None => []
      | Some e => [(fst fd, conv_dflt dflt_fuel (te_kind e) (snd fd))]
      end) (XMapping.x_defaults x).

(* Validity of a mapping beyond its Go type.  IndexMappingImpl.CustomAnalysis is never nil in a
   mapping built through the API: NewIndexMapping() and UnmarshalJSON both allocate it, the
   AddCustom* methods dereference it.  (Because the tag says `analysis,omitempty` while the decoder's
   default is newCustomAnalysis(), a mapping whose CustomAnalysis was explicitly set to nil comes
   back with an empty non-nil one and then serialises with an extra "analysis":{} — the one
   place where the tables are not consistent for arbitrary field values.) *)
Definition required_fields : list (bytes * list bytes) :=
  [(s2b "IndexMappingImpl", [s2b "CustomAnalysis"])].

Definition conv_struct (x : XMapping.xstruct) : sdef :=
  {| s_table := conv_table x;
     s_all_fields := XMapping.x_all_fields x;
     s_handwritten := XMapping.x_handwritten x;
     s_switch := XMapping.x_switch x;
     s_defaults := flat_map (fun fo => match snd fo with Some v => [(fst fo, v)] | None => [] end)
                            (conv_defaults x);
     s_post_assigns := XMapping.x_post_assigns x;
     s_rejects_unknown := XMapping.x_strict_rejects_unknown x;
     s_required := match lookup (XMapping.x_name x) required_fields with Some l => l | None => [] end |}.

Definition mapping_env : env := map (fun x => (XMapping.x_name x, conv_struct x)) XMapping.structs.

(* what T1 could not read as plain data: unresolved default expressions, tag options other than
   omitempty, embedded fields *)
Definition mapping_problems : list bytes :=
  flat_map (fun x =>
      XMapping.x_tag_problems x
      ++ flat_map (fun fo => match snd fo with None => [fst fo] | Some _ => [] end) (conv_defaults x))
    XMapping.structs.

Definition mapping_root : bytes := XMapping.root.
Definition root_kind : kind := KPtrS mapping_root.

(* mapping.MappingJSONStrict as the package initialises it *)
Definition mapping_strict : bool :=
  match XMapping.mapping_json_strict_default with XMapping.XDBool b => b | _ => true end.

(* the value NewIndexMapping() returns *)
Definition new_index_mapping : option value :=
  conv_dflt dflt_fuel root_kind XMapping.new_index_mapping.

(* the value NewDocumentMapping() returns *)
Definition new_document_mapping : option value :=
  conv_dflt dflt_fuel (KPtrS (s2b "DocumentMapping")) XMapping.new_document_mapping.

(* Fields that may be missing from the JSON.  `cache` (IndexMappingImpl) is the registry of built
   analysis components: UnmarshalJSON replaces it by a new cache and refills it from CustomAnalysis
   (registerAll), and NewIndexMapping / AddCustom* keep it in step with CustomAnalysis, so it holds
   no state of its own.  (Its behaviour is exercised by the harness: analysed terms of both
   mappings are compared.) *)
Definition stateless_fields : list bytes := [s2b "cache"].

(* nesting depth available to the default pointees when the tables are checked *)
Definition table_fuel : nat := 8.

(* fuel for marshalling / decoding a mapping in cases files: every struct, map and slice level
   takes one unit; mappings the harness builds nest < 20 deep *)
Definition case_fuel : nat := 40.

Definition to_json (fuel : nat) (m : value) : option json := mval mapping_env fuel root_kind m.
Definition of_json (fuel : nat) (j : json) : option value :=
  dval mapping_env mapping_strict fuel root_kind VNil j.
Definition wf_mapping (fuel : nat) (m : value) : bool := wf_value mapping_env fuel root_kind m.
