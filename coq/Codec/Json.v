(* Codec engine — JSON values as the mapping / query codecs see them.
   This is the tree encoding/json produces or consumes; the text layer (lexing, string escapes,
   number formatting) is not modelled: the harness parses real JSON text into this tree (object
   members in document order, integers as Z, every other number as its decimal text). *)
From Coq Require Import ZArith List Bool String Ascii.
From Verif Require Import Common.Bytes.
Import ListNotations.
Local Open Scope Z_scope.

Inductive jnum :=
| NInt (z : Z)          (* an integer literal: -?digits *)
| NDec (s : bytes).     (* any other JSON number, as its text *)

Inductive json :=
| JNull
| JBool (b : bool)
| JNum (n : jnum)
| JStr (s : bytes)
| JArr (l : list json)
| JObj (kvs : list (bytes * json)).   (* members in document order; duplicate keys possible *)

Definition jnum_eqb (a b : jnum) : bool :=
  match a, b with
  | NInt x, NInt y => x =? y
  | NDec x, NDec y => beqb x y
  | _, _ => false
  end.

Fixpoint json_eqb (a b : json) {struct a} : bool :=
  match a, b with
  | JNull, JNull => true
  | JBool x, JBool y => Bool.eqb x y
  | JNum x, JNum y => jnum_eqb x y
  | JStr x, JStr y => beqb x y
  | JArr x, JArr y =>
      (fix go (x y : list json) {struct x} : bool :=
         match x, y with
         | [], [] => true
         | p :: x', q :: y' => json_eqb p q && go x' y'
         | _, _ => false
         end) x y
  | JObj x, JObj y =>
      (fix go (x y : list (bytes * json)) {struct x} : bool :=
         match x, y with
         | [], [] => true
         | (k, p) :: x', (l, q) :: y' => beqb k l && json_eqb p q && go x' y'
         | _, _ => false
         end) x y
  | _, _ => false
  end.

(* Coq string literal -> byte string (cases files print printable-ASCII names this way). *)
Definition s2b (s : string) : bytes :=
  List.map (fun a => Z.of_N (N_of_ascii a)) (list_ascii_of_string s).
Arguments s2b s%string_scope.

(* Well-formed UTF-8 (Go's utf8.Valid): json.Marshal replaces every invalid byte of a string by
   U+FFFD, so only valid strings keep their identity in JSON. [need] continuation bytes are still
   expected, the next one within [lo,hi]. *)
Fixpoint utf8_from (need : nat) (lo hi : Z) (s : bytes) : bool :=
  match s with
  | [] => match need with O => true | _ => false end
  | b :: s' =>
      match need with
      | O =>
          if (0 <=? b) && (b <? 0x80) then utf8_from 0 0x80 0xBF s'
          else if (0xC2 <=? b) && (b <=? 0xDF) then utf8_from 1 0x80 0xBF s'
          else if b =? 0xE0 then utf8_from 2 0xA0 0xBF s'
          else if b =? 0xED then utf8_from 2 0x80 0x9F s'
          else if (0xE1 <=? b) && (b <=? 0xEF) then utf8_from 2 0x80 0xBF s'
          else if b =? 0xF0 then utf8_from 3 0x90 0xBF s'
          else if (0xF1 <=? b) && (b <=? 0xF3) then utf8_from 3 0x80 0xBF s'
          else if b =? 0xF4 then utf8_from 3 0x80 0x8F s'
          else false
      | S n => (lo <=? b) && (b <=? hi) && utf8_from n 0x80 0xBF s'
      end
  end.
Definition valid_utf8 (s : bytes) : bool := utf8_from 0 0x80 0xBF s.
