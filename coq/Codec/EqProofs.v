(* Codec engine — the boolean equality tests the cases are checked with decide Leibniz equality, so
   a case accepted by [MappingCorr.check] really states "reparsed = original". *)
From Coq Require Import ZArith List Bool.
From Verif Require Import Common.Bytes Codec.Json Codec.StructCodec.
Import ListNotations.
Local Open Scope Z_scope.

Lemma jnum_eqb_sound a b : jnum_eqb a b = true -> a = b.
Proof.
  destruct a, b; cbn; try discriminate; intro H.
  - apply Z.eqb_eq in H. congruence.
  - apply beqb_eq in H. congruence.
Qed.

Lemma json_eqb_sound : forall a b, json_eqb a b = true -> a = b.
Proof.
  fix IH 1. intros a b; destruct a, b; cbn; try discriminate; intro H.
  - reflexivity.
  - apply eqb_prop in H. congruence.
  - apply jnum_eqb_sound in H. congruence.
  - apply beqb_eq in H. congruence.
  - f_equal. revert l0 H. induction l as [|x l IHl]; intros [|y l0] H; try discriminate; [reflexivity|].
    apply andb_true_iff in H as [H1 H2]. f_equal; [apply IH; exact H1|apply IHl; exact H2].
  - f_equal. revert kvs0 H. induction kvs as [|[k x] l IHl]; intros [|[k' y] l0] H; try discriminate; [reflexivity|].
    apply andb_true_iff in H as [H1 H3]. apply andb_true_iff in H1 as [H1 H2].
    apply beqb_eq in H1. subst k'. f_equal; [f_equal; apply IH; exact H2|apply IHl; exact H3].
Qed.

Lemma json_eqb_refl : forall a, json_eqb a a = true.
Proof.
  fix IH 1. intros a; destruct a; cbn.
  - reflexivity.
  - apply eqb_reflx.
  - destruct n; cbn; [apply Z.eqb_refl|apply beqb_eq; reflexivity].
  - apply beqb_eq; reflexivity.
  - induction l as [|x l IHl]; [reflexivity|]. rewrite IH. exact IHl.
  - induction kvs as [|[k x] l IHl]; [reflexivity|]. rewrite IH, (proj2 (beqb_eq k k) eq_refl). exact IHl.
Qed.

Lemma value_eqb_sound : forall a b, value_eqb a b = true -> a = b.
Proof.
  fix IH 1. intros a b; destruct a, b; cbn; try discriminate; intro H.
  - apply eqb_prop in H. congruence.
  - apply Z.eqb_eq in H. congruence.
  - apply beqb_eq in H. congruence.
  - apply json_eqb_sound in H. congruence.
  - reflexivity.
  - f_equal. revert fs0 H. induction fs as [|[k x] l IHl]; intros [|[k' y] l0] H; try discriminate; [reflexivity|].
    apply andb_true_iff in H as [H1 H3]. apply andb_true_iff in H1 as [H1 H2].
    apply beqb_eq in H1. subst k'. f_equal; [f_equal; apply IH; exact H2|apply IHl; exact H3].
  - f_equal. revert l0 H. induction l as [|x l IHl]; intros [|y l0] H; try discriminate; [reflexivity|].
    apply andb_true_iff in H as [H1 H2]. f_equal; [apply IH; exact H1|apply IHl; exact H2].
  - f_equal. revert m0 H. induction m as [|[k x] l IHl]; intros [|[k' y] l0] H; try discriminate; [reflexivity|].
    apply andb_true_iff in H as [H1 H3]. apply andb_true_iff in H1 as [H1 H2].
    apply beqb_eq in H1. subst k'. f_equal; [f_equal; apply IH; exact H2|apply IHl; exact H3].
Qed.

Lemma option_value_eqb_sound a b : option_eqb value_eqb a b = true -> a = b.
Proof.
  destruct a, b; cbn; try discriminate; [|reflexivity]. intro H. apply value_eqb_sound in H. congruence.
Qed.

Lemma option_json_eqb_sound a b : option_eqb json_eqb a b = true -> a = b.
Proof.
  destruct a, b; cbn; try discriminate; [|reflexivity]. intro H. apply json_eqb_sound in H. congruence.
Qed.
