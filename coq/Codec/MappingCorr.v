(* Codec engine — correspondence cases for the mapping codec (C16): what json.Marshal /
   json.Unmarshal / Validate / a scorch index reopen did with a real mapping.IndexMappingImpl,
   checked against the generic codec run on the T1 tables. *)
From Coq Require Import String ZArith List Bool.
From Verif Require Import Common.Bytes Codec.Json Codec.StructCodec Codec.MappingTables.
Import ListNotations.
Local Open Scope Z_scope.

Inductive case :=
(* [orig]: the mapping the harness built, dumped field by field (reflection over the Go structs);
   [impl_json]: json.Marshal of it, parsed to a tree; [reparsed]: json.Unmarshal of that text into a
   fresh mapping, dumped the same way (None = Unmarshal failed); [validates]: Validate() of the
   reparsed mapping returned nil; [same_bytes]: marshalling the reparsed mapping gave the same
   bytes; [reopened]: JSON of Index.Mapping() after create / close / Open (when the case did that) *)
| CRound (orig : value) (impl_json : json) (reparsed : option value)
         (validates same_bytes : bool) (reopened : option json)
(* json.Unmarshal of an arbitrary JSON text (nulls, repeated / unknown / reordered keys) into a nil
   *T for a struct T of the environment; None = it returned an error *)
| CDecode (root : bytes) (j : json) (impl : option value)
(* what the constructor of T builds (NewIndexMapping(), NewDocumentMapping(), &FieldMapping{}) and
   what decoding "{}" into a nil *T gives: an absent key must mean the constructor's default *)
| CDefault (root : bytes) (ctor decoded : option value).

Definition check (c : case) : bool :=
  match c with
  | CRound m j r2 vok same reop =>
      (* the case lies in the domain of the theorem *)
      wf_mapping case_fuel m
      (* tables + generic codec = real encoding/json on the real struct tags *)
      && option_eqb json_eqb (to_json case_fuel m) (Some j)
      (* generic decoder over the extracted case lists and defaults = the hand-written decoders *)
      && option_eqb value_eqb (of_json case_fuel j) r2
      (* the property: the reparsed mapping is the original one, field for field, … *)
      && option_eqb value_eqb r2 (Some m)
      (* … it validates and serialises to the same bytes, … *)
      && vok && same
      (* … and this is what an index hands back after a reopen *)
      && match reop with None => true | Some j' => json_eqb j' j end
  | CDecode root j impl =>
      option_eqb value_eqb (dval mapping_env mapping_strict case_fuel (KPtrS root) VNil j) impl
  | CDefault root ctor decoded =>
      option_eqb value_eqb ctor decoded
      && option_eqb value_eqb (dval mapping_env mapping_strict case_fuel (KPtrS root) VNil (JObj [])) decoded
  end.

(* ---------------------------------------------------------------- wire format of cases files
   The harness prints cases with the monomorphic constructors below (no implicit arguments, Coq
   string literals for printable names), which Coq elaborates an order of magnitude faster than
   nested polymorphic list / pair literals; [case_of_wire] turns them into the [case] above. *)
Inductive wstr := WS (s : string) | WB (l : list Z).

Inductive wjson :=
| WNull | WBool (b : bool) | WInt (z : Z) | WDec (s : wstr) | WStr (s : wstr)
| WArr (l : wjlist) | WObj (m : wjmembers)
with wjlist := WJNil | WJCons (x : wjson) (l : wjlist)
with wjmembers := WMNil | WMCons (k : wstr) (x : wjson) (m : wjmembers).

Inductive wvalue :=
| WVBool (b : bool) | WVInt (z : Z) | WVStr (s : wstr) | WVAny (j : wjson) | WVNil
| WVPtr (fs : wfields) | WVList (l : wvlist) | WVMap (m : wfields)
with wfields := WFNil | WFCons (k : wstr) (v : wvalue) (rest : wfields)
with wvlist := WLNil | WLCons (v : wvalue) (l : wvlist).

Inductive wopt_value := WVNone | WVSome (v : wvalue).
Inductive wopt_json := WJNone | WJSome (j : wjson).

Inductive wcase :=
| WRound (orig : wvalue) (impl_json : wjson) (reparsed : wopt_value)
         (validates same_bytes : bool) (reopened : wopt_json)
| WDecode (root : wstr) (j : wjson) (impl : wopt_value)
| WDefault (root : wstr) (ctor decoded : wopt_value).

Definition str_of (w : wstr) : bytes := match w with WS s => s2b s | WB l => l end.

Fixpoint json_of (w : wjson) : json :=
  match w with
  | WNull => JNull
  | WBool b => JBool b
  | WInt z => JNum (NInt z)
  | WDec s => JNum (NDec (str_of s))
  | WStr s => JStr (str_of s)
  | WArr l => JArr (jlist_of l)
  | WObj m => JObj (jmembers_of m)
  end
with jlist_of (l : wjlist) : list json :=
  match l with WJNil => [] | WJCons x l' => json_of x :: jlist_of l' end
with jmembers_of (m : wjmembers) : list (bytes * json) :=
  match m with WMNil => [] | WMCons k x m' => (str_of k, json_of x) :: jmembers_of m' end.

Fixpoint value_of (w : wvalue) : value :=
  match w with
  | WVBool b => VBool b
  | WVInt z => VInt z
  | WVStr s => VStr (str_of s)
  | WVAny j => VAny (json_of j)
  | WVNil => VNil
  | WVPtr fs => VPtr (fields_of fs)
  | WVList l => VList (vlist_of l)
  | WVMap m => VMap (fields_of m)
  end
with fields_of (fs : wfields) : list (bytes * value) :=
  match fs with WFNil => [] | WFCons k v r => (str_of k, value_of v) :: fields_of r end
with vlist_of (l : wvlist) : list value :=
  match l with WLNil => [] | WLCons v l' => value_of v :: vlist_of l' end.

Definition opt_value_of (o : wopt_value) : option value :=
  match o with WVNone => None | WVSome v => Some (value_of v) end.
Definition opt_json_of (o : wopt_json) : option json :=
  match o with WJNone => None | WJSome j => Some (json_of j) end.

Definition case_of_wire (w : wcase) : case :=
  match w with
  | WRound m j r2 vok same reop =>
      CRound (value_of m) (json_of j) (opt_value_of r2) vok same (opt_json_of reop)
  | WDecode root j impl => CDecode (str_of root) (json_of j) (opt_value_of impl)
  | WDefault root c d => CDefault (str_of root) (opt_value_of c) (opt_value_of d)
  end.

Definition wcheck (w : wcase) : bool := check (case_of_wire w).

Inductive expl :=
| ERound (in_domain : bool) (model_json : option json) (model_decode : option value)
| EDecode (model_decode : option value).

Definition explain (c : case) : expl :=
  match c with
  | CRound m j _ _ _ _ => ERound (wf_mapping case_fuel m) (to_json case_fuel m) (of_json case_fuel j)
  | CDecode root j _ => EDecode (dval mapping_env mapping_strict case_fuel (KPtrS root) VNil j)
  | CDefault root _ _ => EDecode (dval mapping_env mapping_strict case_fuel (KPtrS root) VNil (JObj []))
  end.

Definition wexplain (w : wcase) : expl := explain (case_of_wire w).
