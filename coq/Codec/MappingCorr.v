(* Codec engine — correspondence cases for the mapping codec (C16): what json.Marshal /
   json.Unmarshal / Validate / a scorch index reopen did with a real mapping.IndexMappingImpl,
   checked against the generic codec run on the T1 tables. *)
From Coq Require Import String ZArith List Bool.
From Verif Require Import Common.Bytes Codec.Json Codec.StructCodec Codec.MappingTables.
Import ListNotations.
Local Open Scope Z_scope.

Inductive case :=
(* [orig]: the mapping the harness built, dumped field by field (reflection over the Go structs);
   [impl_json]: json.Marshal of it, parsed to a tree; [reparsed]: json.Unmarshal of that text into a
   fresh mapping, dumped the same way (None = Unmarshal failed); [validates]: Validate() of the
   reparsed mapping returned nil; [same_bytes]: marshalling the reparsed mapping gave the same
   bytes; [reopened]: JSON of Index.Mapping() after create / close / Open (when the case did that) *)
| CRound (orig : value) (impl_json : json) (reparsed : option value)
         (validates same_bytes : bool) (reopened : option json)
(* json.Unmarshal of an arbitrary JSON text (nulls, repeated / unknown / reordered keys) into a nil
   *T for a struct T of the environment; None = it returned an error *)
| CDecode (root : bytes) (j : json) (impl : option value).

Definition check (c : case) : bool :=
  match c with
  | CRound m j r2 vok same reop =>
      (* the case lies in the domain of the theorem *)
      wf_mapping case_fuel m
      (* tables + generic codec = real encoding/json on the real struct tags *)
      && option_eqb json_eqb (to_json case_fuel m) (Some j)
      (* generic decoder over the extracted case lists and defaults = the hand-written decoders *)
      && option_eqb value_eqb (of_json case_fuel j) r2
      (* the property: the reparsed mapping is the original one, field for field, … *)
      && option_eqb value_eqb r2 (Some m)
      (* … it validates and serialises to the same bytes, … *)
      && vok && same
      (* … and this is what an index hands back after a reopen *)
      && match reop with None => true | Some j' => json_eqb j' j end
  | CDecode root j impl =>
      option_eqb value_eqb (dval mapping_env mapping_strict case_fuel (KPtrS root) VNil j) impl
  end.

Inductive expl :=
| ERound (in_domain : bool) (model_json : option json) (model_decode : option value)
| EDecode (model_decode : option value).

Definition explain (c : case) : expl :=
  match c with
  | CRound m j _ _ _ _ => ERound (wf_mapping case_fuel m) (to_json case_fuel m) (of_json case_fuel j)
  | CDecode root j _ => EDecode (dval mapping_env mapping_strict case_fuel (KPtrS root) VNil j)
  end.
