(* Codec engine — fuel only bounds nesting depth: a value well formed (marshalled) with some fuel is
   well formed (marshalled to the same JSON) with any larger fuel, so the theorems, stated for every
   fuel, cover values of every size. *)
From Coq Require Import ZArith List Bool Lia.
From Verif Require Import Common.Bytes Codec.Json Codec.StructCodec.
Import ListNotations.
Local Open Scope Z_scope.

Section Fuel.
  Variable E : env.

  Lemma forallb_impl {A} (p q : A -> bool) l :
    (forall x, p x = true -> q x = true) -> forallb p l = true -> forallb q l = true.
  Proof.
    intro H. induction l as [|x l IH]; cbn; [reflexivity|]. intro Hp.
    apply andb_true_iff in Hp as [H1 H2]. rewrite (H _ H1), (IH H2). reflexivity.
  Qed.

  Lemma wf_fields_impl (wv wv' : kind -> value -> bool) req tbl fs :
    (forall k v, wv k v = true -> wv' k v = true) ->
    wf_fields wv req tbl fs = true -> wf_fields wv' req tbl fs = true.
  Proof.
    intro H. revert fs. induction tbl as [|e tbl IH]; intros [|[f v] fs]; cbn; try discriminate; [reflexivity|].
    intro Hw. apply andb_true_iff in Hw as [Hw H3]. apply andb_true_iff in Hw as [Hw H2].
    rewrite Hw, (IH _ H3). cbn. rewrite andb_true_r.
    destruct (te_omit e && is_empty v); [exact H2|apply H; exact H2].
  Qed.

  Lemma wf_value_S : forall fuel k v, wf_value E fuel k v = true -> wf_value E (S fuel) k v = true.
  Proof.
    induction fuel as [|f IH]; intros k v H; [discriminate|].
    change (wf_value E (S f) k v) with
      (match k, v with
       | KBool, VBool _ => true
       | KInt, VInt z => in_int64 z
       | KString, VStr s => valid_utf8 s
       | KAny, VAny _ => true
       | KPtrS _, VNil => true
       | KPtrS n, VPtr fs =>
           match lookup n E with
           | None => false
           | Some sd => wf_fields (wf_value E f) (s_required sd) (s_table sd) fs
           end
       | KList k', VList (x :: l) => forallb (wf_value E f k') (x :: l)
       | KMap k', VMap (x :: m) =>
           sortedb (map fst (x :: m)) && forallb (fun kv => valid_utf8 (fst kv)) (x :: m)
           && forallb (fun kv => wf_value E f k' (snd kv)) (x :: m)
       | _, _ => false
       end) in H.
    change (wf_value E (S (S f)) k v) with
      (match k, v with
       | KBool, VBool _ => true
       | KInt, VInt z => in_int64 z
       | KString, VStr s => valid_utf8 s
       | KAny, VAny _ => true
       | KPtrS _, VNil => true
       | KPtrS n, VPtr fs =>
           match lookup n E with
           | None => false
           | Some sd => wf_fields (wf_value E (S f)) (s_required sd) (s_table sd) fs
           end
       | KList k', VList (x :: l) => forallb (wf_value E (S f) k') (x :: l)
       | KMap k', VMap (x :: m) =>
           sortedb (map fst (x :: m)) && forallb (fun kv => valid_utf8 (fst kv)) (x :: m)
           && forallb (fun kv => wf_value E (S f) k' (snd kv)) (x :: m)
       | _, _ => false
       end).
    destruct k, v; try exact H; try discriminate.
    - destruct (lookup n E) as [sd|]; [|discriminate].
      eapply wf_fields_impl; [|exact H]. intros k v. apply IH.
    - destruct l as [|x l]; [discriminate|].
      eapply forallb_impl; [|exact H]. intro y. apply IH.
    - destruct m as [|x m]; [discriminate|].
      apply andb_true_iff in H as [H1 H2]. rewrite H1. cbn [andb].
      eapply forallb_impl; [|exact H2]. intro y. apply IH.
  Qed.

  Theorem wf_value_mono fuel fuel' k v :
    (fuel <= fuel')%nat -> wf_value E fuel k v = true -> wf_value E fuel' k v = true.
  Proof.
    intro Hle. induction Hle as [|m Hle IH]; [auto|]. intro H. apply wf_value_S. apply IH; exact H.
  Qed.
End Fuel.
