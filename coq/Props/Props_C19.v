(* C19 — property theorems only (each closed by [exact]) + Print Assumptions.
   Part 1: tokenizers, token filters, analyzer pipeline, the reverse filter.
   Part 2 (below): MergeOverlapping, fragmenter, formatters, highlighting. *)
From Coq Require Import ZArith List.
From Verif Require Import Common.Bytes Text.Model Text.Proofs Text.ProofsHL.
Import ListNotations.
Local Open Scope Z_scope.

(* ---- the character-class tokenizer (letter, whitespace, any predicate) and single *)

Theorem C19_tokenizer_valid : forall (isTok : Z -> bool) (input : bytes),
  valid_stream (zlen input) (char_tokenize isTok input) = true.
Proof. exact tokenizer_valid. Qed.
Print Assumptions C19_tokenizer_valid.

Theorem C19_tokenizer_terms : forall isTok input t,
  In t (char_tokenize isTok input) -> t_term t = sub input (t_start t) (t_end t).
Proof. exact tokenizer_terms. Qed.
Print Assumptions C19_tokenizer_terms.

Theorem C19_letter_valid : forall letters input,
  valid_stream (zlen input) (letter_tokenize letters input) = true.
Proof. exact letter_valid. Qed.
Print Assumptions C19_letter_valid.

Theorem C19_whitespace_valid : forall spaces input,
  valid_stream (zlen input) (whitespace_tokenize spaces input) = true.
Proof. exact whitespace_valid. Qed.
Print Assumptions C19_whitespace_valid.

Theorem C19_single_valid : forall input, valid_stream (zlen input) (single_tokenize input) = true.
Proof. exact single_valid. Qed.
Print Assumptions C19_single_valid.

(* ---- filter_preserves_valid, one per transcribed filter *)

Theorem C19_lowercase_preserves : forall lower len ts,
  valid_stream len ts = true -> valid_stream len (lowercase_filter lower ts) = true.
Proof. exact lowercase_preserves. Qed.
Print Assumptions C19_lowercase_preserves.

Theorem C19_length_preserves : forall mn mx len ts,
  valid_stream len ts = true -> valid_stream len (length_filter mn mx ts) = true.
Proof. exact length_preserves. Qed.
Print Assumptions C19_length_preserves.

Theorem C19_truncate_preserves : forall n len ts ts',
  valid_stream len ts = true -> truncate_filter n ts = Some ts' -> valid_stream len ts' = true.
Proof. exact truncate_preserves. Qed.
Print Assumptions C19_truncate_preserves.

Theorem C19_truncate_total : forall n ts, 0 <= n -> truncate_filter n ts <> None.
Proof. exact truncate_total. Qed.
Print Assumptions C19_truncate_total.

Theorem C19_stop_preserves : forall words len ts,
  valid_stream len ts = true -> valid_stream len (stop_filter words ts) = true.
Proof. exact stop_preserves. Qed.
Print Assumptions C19_stop_preserves.

Theorem C19_unique_preserves : forall len ts,
  valid_stream len ts = true -> valid_stream len (unique_filter ts) = true.
Proof. exact unique_preserves. Qed.
Print Assumptions C19_unique_preserves.

Theorem C19_ngram_preserves : forall mn mx len ts,
  valid_stream len ts = true -> valid_stream len (ngram_filter mn mx ts) = true.
Proof. exact ngram_preserves. Qed.
Print Assumptions C19_ngram_preserves.

Theorem C19_edge_ngram_preserves : forall back mn mx len ts,
  valid_stream len ts = true -> valid_stream len (edge_filter back mn mx ts) = true.
Proof. exact edge_preserves. Qed.
Print Assumptions C19_edge_ngram_preserves.

Theorem C19_keyword_preserves : forall words len ts,
  valid_stream len ts = true -> valid_stream len (keyword_filter words ts) = true.
Proof. exact keyword_preserves. Qed.
Print Assumptions C19_keyword_preserves.

Theorem C19_apostrophe_preserves : forall len ts,
  valid_stream len ts = true -> valid_stream len (apostrophe_filter ts) = true.
Proof. exact apostrophe_preserves. Qed.
Print Assumptions C19_apostrophe_preserves.

Theorem C19_elision_preserves : forall articles len ts,
  valid_stream len ts = true -> valid_stream len (elision_filter articles ts) = true.
Proof. exact elision_preserves. Qed.
Print Assumptions C19_elision_preserves.

Theorem C19_reverse_preserves : forall rv len ts ts',
  valid_stream len ts = true -> reverse_filter rv ts = Some ts' -> valid_stream len ts' = true.
Proof. exact reverse_preserves. Qed.
Print Assumptions C19_reverse_preserves.

(* shingle keeps every span inside the text but NOT the tokenizer contract (filler-only
   shingles have position 0; with output_original a token precedes shingles that start earlier) *)
Theorem C19_shingle_offsets : forall c len ts,
  1 <= sh_min c -> valid_stream len ts = true -> valid_offsets len (shingle_filter c ts) = true.
Proof. exact shingle_offsets. Qed.
Print Assumptions C19_shingle_offsets.

Theorem C19_shingle_not_valid_refuted : exists c ts len,
  valid_stream len ts = true /\ valid_stream len (shingle_filter c ts) = false.
Proof. exact shingle_not_valid_refuted. Qed.
Print Assumptions C19_shingle_not_valid_refuted.

(* ---- pipeline_valid: a valid tokenizer followed by preserving filters is a valid analyzer *)

Theorem C19_pipeline_valid :
  forall len (tok : bytes -> list token) (fs : list (list token -> list token)) input,
  valid_stream len (tok input) = true ->
  Forall (fun f => forall ts, valid_stream len ts = true -> valid_stream len (f ts) = true) fs ->
  valid_stream len (analyze tok fs input) = true.
Proof. exact pipeline_valid. Qed.
Print Assumptions C19_pipeline_valid.

Theorem C19_pipeline_valid_offsets :
  forall len (tok : bytes -> list token) (fs : list (list token -> list token))
         (g : list token -> list token) input,
  valid_stream len (tok input) = true ->
  Forall (fun f => forall ts, valid_stream len ts = true -> valid_stream len (f ts) = true) fs ->
  (forall ts, valid_stream len ts = true -> valid_offsets len (g ts) = true) ->
  valid_offsets len (analyze tok (fs ++ [g]) input) = true.
Proof. exact pipeline_valid_offsets. Qed.
Print Assumptions C19_pipeline_valid_offsets.

(* ---- reverse_total.  FALSE of the faithful model of the code as found (variant 1): the
   statement [forall s, reverse_cur is_mark s <> None] is refuted by the bytes C3 C3 (two
   invalid bytes, each converted to U+FFFD of RuneLen 3: output[cursorOut-3:...] with
   cursorOut = 2).  TRUE of the repaired variant 2.  Which variant is in the tree is the T1
   fact XText.reverse_variant (Extracted/Obligations_C19.v). *)

Theorem C19_reverse_refuted : forall is_mark, reverse_cur is_mark [195; 195] = None.
Proof. exact reverse_refuted. Qed.
Print Assumptions C19_reverse_refuted.

Theorem C19_reverse_total_refuted : forall is_mark, exists s, reverse_cur is_mark s = None.
Proof. exact reverse_cur_refuted. Qed.
Print Assumptions C19_reverse_total_refuted.

Theorem C19_reverse_total_fixed : forall is_mark s,
  exists out, reverse_fixed is_mark s = Some out /\ length out = length s.
Proof. exact reverse_fixed_total. Qed.
Print Assumptions C19_reverse_total_fixed.

(* on valid UTF-8 (every decoded width = RuneLen of the rune) the two variants coincide, so the
   code as found is total exactly there *)
Theorem C19_reverse_cur_agrees : forall is_mark s,
  Forall (fun rw => rune_len (fst rw) = snd rw) (runes_w s) ->
  reverse_cur is_mark s = reverse_fixed is_mark s.
Proof. exact reverse_cur_agrees. Qed.
Print Assumptions C19_reverse_cur_agrees.

(* ================================================================== Part 2: highlighting
   [wf_loc l] = l_start l <= l_end l;  [nonneg_loc l] = 0 <= l_start l /\ 0 <= l_end l
   (Text/ProofsHL.v).  Locations may otherwise be out of range, overlapping, unsorted,
   duplicated; formatter entries may be nil. *)

(* ---- format_in_bounds: the formatters never slice outside Orig *)
Theorem C19_format_in_bounds : forall orig f locs,
  in_range (zlen orig) (f_start f) (f_end f) = true ->
  Forall (fun ol => match ol with Some l => wf_loc l | None => True end) locs ->
  format_segs orig f locs <> None.
Proof. exact format_in_bounds. Qed.
Print Assumptions C19_format_in_bounds.

(* Start <= End is necessary: an inverted location makes Orig[Start:End] panic *)
Theorem C19_format_inverted_refuted : exists orig f locs,
  in_range (zlen orig) (f_start f) (f_end f) = true /\ format_segs orig f locs = None.
Proof. exact format_inverted_refuted. Qed.
Print Assumptions C19_format_inverted_refuted.

(* ---- fragment_faithful (formatter level): markup removed = Orig[f.Start:f.End], every marked
   span is the text at one of the locations handed to Format *)
Theorem C19_fragment_faithful : forall orig f locs segs,
  in_range (zlen orig) (f_start f) (f_end f) = true ->
  format_segs orig f locs = Some segs ->
  plain_of segs = sub orig (f_start f) (f_end f) /\
  Forall (fun sg => fst sg = true ->
            exists l, In (Some l) locs /\ slice orig (l_start l) (l_end l) = Some (snd sg)) segs.
Proof. exact fragment_faithful. Qed.
Print Assumptions C19_fragment_faithful.

(* ---- MergeOverlapping as transcribed keeps Start <= End, the list length, and only ever pairs a
   Start of an input location with an End of an input location *)
Theorem C19_merge_wf : forall t,
  Forall (fun ol => match ol with Some l => wf_loc l | None => True end) t ->
  Forall (fun ol => match ol with Some l => wf_loc l | None => True end) (merge_overlapping t).
Proof. exact merge_wf. Qed.
Print Assumptions C19_merge_wf.

Theorem C19_merge_ends : forall t l, In (Some l) (merge_overlapping t) ->
  (exists a, In (Some a) t /\ l_start a = l_start l) /\ (exists b, In (Some b) t /\ l_end b = l_end l).
Proof. exact merge_ends. Qed.
Print Assumptions C19_merge_ends.

(* ---- fragment_in_bounds: the fragmenter never slices outside Orig (and its loops terminate
   within the fuel) for any non-negative locations and any fragment size >= 1 *)
Theorem C19_fragment_in_bounds : forall size orig ot,
  0 < size -> Forall nonneg_loc ot -> fragment size orig ot <> None.
Proof. exact fragment_in_bounds. Qed.
Print Assumptions C19_fragment_in_bounds.

(* fragment size >= 1 is necessary: with size 0 a location beyond the value is sliced *)
Theorem C19_fragment_size0_refuted : exists orig ot, Forall nonneg_loc ot /\ fragment 0 orig ot = None.
Proof. exact fragment_size0_refuted. Qed.
Print Assumptions C19_fragment_size0_refuted.

(* every fragment produced satisfies 0 <= Start <= End <= len(Orig) *)
Theorem C19_fragment_wf : forall size orig ot fs,
  0 < size -> Forall nonneg_loc ot -> fragment size orig ot = Some fs ->
  Forall (fun f => in_range (zlen orig) (f_start f) (f_end f) = true) fs.
Proof. exact fragment_wf. Qed.
Print Assumptions C19_fragment_wf.

(* ---- the composition BestFragmentsInField performs: fragment, merge, format *)
Theorem C19_highlight_in_bounds : forall size orig ot,
  0 < size -> Forall (fun l => 0 <= l_start l /\ wf_loc l) ot ->
  exists fs, fragment size orig ot = Some fs /\
    Forall (fun f => format_segs orig f (merge_overlapping (map Some ot)) <> None) fs.
Proof. exact highlight_in_bounds. Qed.
Print Assumptions C19_highlight_in_bounds.

Theorem C19_highlight_faithful : forall size orig ot fs f segs,
  0 < size -> Forall (fun l => 0 <= l_start l /\ wf_loc l) ot ->
  fragment size orig ot = Some fs -> In f fs ->
  format_segs orig f (merge_overlapping (map Some ot)) = Some segs ->
  plain_of segs = sub orig (f_start f) (f_end f) /\
  Forall (fun sg => fst sg = true ->
            exists a b, In a ot /\ In b ot /\ slice orig (l_start a) (l_end b) = Some (snd sg)) segs.
Proof. exact highlight_faithful. Qed.
Print Assumptions C19_highlight_faithful.
