(* C19 — property theorems only (each closed by [exact]) + Print Assumptions. *)
From Coq Require Import ZArith List.
From Verif Require Import Common.Bytes Text.Model.
Import ListNotations.
Local Open Scope Z_scope.
