(* C06 — property theorems only (each closed by [exact]) + Print Assumptions. *)
From Coq Require Import ZArith List.
From Verif Require Import Common.Bytes Collect.TopN Collect.TopNProofs.
Import ListNotations.
Local Open Scope Z_scope.

Theorem C06_spec_total_length : forall ms, spec_total ms = Z.of_nat (length ms).
Proof. exact spec_total_length. Qed.
Print Assumptions C06_spec_total_length.
