(* C06 — property theorems only (each closed by [exact]) + Print Assumptions. *)
From Coq Require Import ZArith List.
From Verif Require Import Common.Bytes Collect.TopN Collect.TopNHeap Collect.TopNPaging Collect.TopNBefore
  Collect.TopNAliasModel Collect.TopNAlias.
Import ListNotations.
Local Open Scope Z_scope.

(* the comparison (sort keys with descending flags, then hit number) is a strict total order on
   matches with different hit numbers, and the specialised score-descending comparison is the same *)
Theorem C06_cmp_total_order : forall so,
  (forall a, compare so a a = 0) /\
  (forall a b, compare so b a = - compare so a b) /\
  (forall a b c, compare so a b < 0 -> compare so b c < 0 -> compare so a c < 0) /\
  (forall a b, hit a <> hit b -> compare so a b < 0 \/ compare so b a < 0) /\
  (forall a b, compare so a b = 0 -> hit a = hit b) /\
  (forall a b, collector_cmp so a b = compare so a b).
Proof. exact cmp_total_order. Qed.
Print Assumptions C06_cmp_total_order.

(* for every match stream, sort order, size and skip — either store, shortcut included — the
   collector returns positions skip..skip+size of the fully sorted match list, Total = number of
   matches, MaxScore = their maximum score *)
Theorem C06_topn_is_slice : forall so size skip ms,
  collect so size skip None ms =
  Some {| results := spec_page so size skip ms; total := spec_total ms; max_score := spec_max_score ms |}.
Proof. exact topn_is_slice. Qed.
Print Assumptions C06_topn_is_slice.

(* with a search-after sentinel: the first size of the sorted matches that sort strictly after it *)
Theorem C06_topn_after_is_slice : forall so size a ms,
  collect so size 0 (Some a) ms =
  Some {| results := spec_after so size a ms; total := spec_total ms; max_score := spec_max_score ms |}.
Proof. exact topn_after_is_slice. Qed.
Print Assumptions C06_topn_after_is_slice.

(* pages From = 0, size, 2*size, ... concatenate to the fully sorted list: no gap, no duplicate *)
Theorem C06_pages_tile : forall so size n ms,
  (length ms <= n * size)%nat ->
  concat (map (fun k => page_results so size (k * size) ms) (seq 0 n)) = sorted_matches so ms.
Proof. exact pages_tile. Qed.
Print Assumptions C06_pages_tile.

(* when the sort keys alone separate all matches, SearchAfter from hit i returns hits i+1..i+size *)
Theorem C06_search_after_next_page : forall so size ms i x,
  keys_distinct so ms -> nth_error (sorted_matches so ms) i = Some x ->
  search so size (PAfter (after_of x)) ms =
  Some {| results := firstn size (skipn (S i) (sorted_matches so ms));
          total := spec_total ms; max_score := spec_max_score ms |}.
Proof. exact search_after_next_page. Qed.
Print Assumptions C06_search_after_next_page.

(* ... and SearchBefore from hit i (reversed sort + search-after + re-sort) returns hits i-size..i-1
   in the original order *)
Theorem C06_search_before_prev_page : forall so size ms i x,
  keys_distinct so ms -> nth_error (sorted_matches so ms) i = Some x ->
  search so size (PBefore (after_of x)) ms =
  Some {| results := skipn (i - size) (firstn i (sorted_matches so ms));
          total := spec_total ms; max_score := spec_max_score ms |}.
Proof. exact search_before_prev_page. Qed.
Print Assumptions C06_search_before_prev_page.

(* the sort values of a document are the same under the reversed sort order (Reverse flips both the
   direction and the missing-value placement) *)
Theorem C06_sort_values_reverse : forall so id terms,
  sort_values (reverse_so so) id terms = sort_values so id terms.
Proof. exact sort_values_reverse. Qed.
Print Assumptions C06_sort_values_reverse.

(* the heap store (container/heap's up/down written out on an array) is a priority queue *)
Theorem C06_heap_store_is_pq : forall so,
  (forall d h, TopNHeap.heap_ok (collector_cmp so) h ->
     exists h', heap_push (collector_cmp so) d h = Some h' /\ TopNHeap.heap_ok (collector_cmp so) h' /\
                Permutation.Permutation h' (d :: h)) /\
  (forall h, TopNHeap.heap_ok (collector_cmp so) h -> h <> [] ->
     exists x h', heap_pop (collector_cmp so) h = Some (x, h') /\ TopNHeap.heap_ok (collector_cmp so) h' /\
                  Permutation.Permutation (x :: h') h /\ forall y, In y h' -> collector_cmp so y x <= 0).
Proof. exact heap_store_is_pq. Qed.
Print Assumptions C06_heap_store_is_pq.

(* ---------- paging through an IndexAlias (Collect/TopNAliasModel.v: MultiSearch as transcribed) ----------
   whenever the sort keys separate all the matches of all members, an alias over any number of
   member indexes returns — ids in order, Total, MaxScore — exactly what ONE index holding all the
   members' matches returns, for From/Size, SearchAfter and SearchBefore *)
Theorem C06_alias_is_one_index : forall so size p cs,
  keys_distinct so (concat cs) ->
  view (alias_search so size p cs) = view (search so size p (concat cs)).
Proof. exact alias_is_one_index. Qed.
Print Assumptions C06_alias_is_one_index.

(* ... hence every alias page is the requested slice of all matches in the requested order *)
Theorem C06_alias_from_is_slice : forall so size from cs,
  keys_distinct so (concat cs) ->
  view (alias_search so size (PFrom from) cs) =
  Some (map did (spec_page so size from (concat cs)), spec_total (concat cs), spec_max_score (concat cs)).
Proof. exact alias_from_is_slice. Qed.
Print Assumptions C06_alias_from_is_slice.

Theorem C06_alias_after_next_page : forall so size cs i x,
  keys_distinct so (concat cs) -> nth_error (sorted_matches so (concat cs)) i = Some x ->
  view (alias_search so size (PAfter (after_of x)) cs) =
  Some (map did (firstn size (skipn (S i) (sorted_matches so (concat cs)))),
        spec_total (concat cs), spec_max_score (concat cs)).
Proof. exact alias_after_next_page. Qed.
Print Assumptions C06_alias_after_next_page.

Theorem C06_alias_before_prev_page : forall so size cs i x,
  keys_distinct so (concat cs) -> nth_error (sorted_matches so (concat cs)) i = Some x ->
  view (alias_search so size (PBefore (after_of x)) cs) =
  Some (map did (skipn (i - size) (firstn i (sorted_matches so (concat cs)))),
        spec_total (concat cs), spec_max_score (concat cs)).
Proof. exact alias_before_prev_page. Qed.
Print Assumptions C06_alias_before_prev_page.

(* the first K of the sorted concatenation of every part's first K are the first K of everything
   sorted (any comparison that is a strict total order on hits with different hit numbers) *)
Theorem C06_merge_topK : forall cmp,
  (forall a b, cmp b a = - cmp a b) ->
  (forall a b c, cmp a b <= 0 -> cmp b c <= 0 -> cmp a c <= 0) ->
  (forall a b, cmp a b = 0 -> hit a = hit b) ->
  forall K Fs, TopNSorted.uhits (concat Fs) ->
  top cmp K (concat (map (top cmp K) Fs)) = top cmp K (concat Fs).
Proof. exact merge_topK. Qed.
Print Assumptions C06_merge_topK.
