(* C12 — property theorems only (each closed by [exact]) + Print Assumptions.
   Over Scorch/Disk.v, for every event list accepted by [drun] from [dinit]. *)
From Coq Require Import ZArith List.
From Verif Require Import Scorch.Model Scorch.Disk
  Scorch.ProofsDisk1 Scorch.ProofsDisk4 Scorch.ProofsDisk5 Scorch.ProofsDisk6.
Import ListNotations.
Local Open Scope Z_scope.

(* every file named by a committed record, and (while the process runs) every file-backed
   segment of the root, is a complete file *)
Theorem C12_named_files_exist : forall evs d,
  drun dinit evs = Some d ->
  (forall r id, In r (d_bolt d) -> In id (named_by r) -> In id (d_files d))
  /\ (d_up d = true -> forall id, In id (file_segs (root (d_core d))) -> In id (d_files d)).
Proof. exact named_files_exist. Qed.
Print Assumptions C12_named_files_exist.

(* a file named by a committed record or by the open transaction, backing a root segment,
   produced by an in-flight merge or scheduled for a copy is never removed by any step of a
   running (or crashing) process *)
Theorem C12_protected_file_survives_step : forall d ev d' id,
  dstep d ev = Some d' -> is_recover ev = false ->
  protected d id -> In id (d_files d) -> In id (d_files d').
Proof. exact protected_file_survives_step. Qed.
Print Assumptions C12_protected_file_survives_step.

Theorem C12_remove_zap_refuses_protected : forall d id,
  protected d id -> dstep d (DRemoveZap id) = None.
Proof. exact remove_zap_refuses_protected. Qed.
Print Assumptions C12_remove_zap_refuses_protected.

(* after the clean-up at open the directory holds exactly the files committed records name *)
Theorem C12_quiescent_dir_minimal : forall evs d d',
  drun dinit evs = Some d -> dstep d DRecover = Some d' ->
  d_files d' = named_files d
  /\ forall f, In f (d_files d') <-> exists b, In b (d_bolt d') /\ In f (named_by b).
Proof. exact quiescent_dir_minimal. Qed.
Print Assumptions C12_quiescent_dir_minimal.
