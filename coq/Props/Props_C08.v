(* C08 — property theorems only (each closed by [exact]) + Print Assumptions.

   Vocabulary (coq/Cursor): [call] = Next | Advance t; [run_spec L prog] = the reference cursor over
   the strictly ascending list L (next = head/tail, advance t = drop-while (< t) then head/tail);
   [stree] = a tree of searchers (leaves = posting-list cursors, Conj, DisjS / DisjH with min,
   Bool guard must should must-not, Filter child filter); [build t] = the machine transcribed from
   /repo/search/searcher for that tree; [denote t] = its set expression; [run fuel s prog] = the
   machine's results (None = out of fuel); [wf t] = leaves ascending and every Bool node built by
   the guarded BooleanSearcher.Advance (T1 obligation ob_boolean_should_guard). *)
From Coq Require Import ZArith List.
From Verif Require Import Cursor.Cursor Cursor.Machines Cursor.MachProofsBase
  Cursor.MachProofsKids Cursor.MachProofsConj Cursor.MachProofsDisj Cursor.MachProofsHeap
  Cursor.MachProofsBool Cursor.MachProofsFilter Cursor.MachProofsTree Cursor.MachProofsProps.
Import ListNotations.
Local Open Scope Z_scope.

(* ---------- the contract checker used on traces of unmodelled searchers ---------- *)
Theorem C08_check_cursor_trace_sound : forall prog rs,
  check_cursor_trace prog rs = true <-> exists L, ascending L /\ run_spec L prog = rs.
Proof. exact check_cursor_trace_sound. Qed.
Print Assumptions C08_check_cursor_trace_sound.

Theorem C08_check_cursor_trace_facts : forall prog rs,
  check_cursor_trace prog rs = true ->
  ascending (somes rs) /\
  (forall i t x, nth_error prog i = Some (Advance t) -> nth_error rs i = Some (Some x) -> t <= x) /\
  (forall i j, nth_error rs i = Some None -> (i <= j)%nat -> (j < length rs)%nat -> nth_error rs j = Some None).
Proof. exact check_cursor_trace_facts. Qed.
Print Assumptions C08_check_cursor_trace_facts.

(* ---------- one lemma per combinator: children are cursors => the combinator is a cursor ---------- *)
Theorem C08_filter_cursor : forall C cnext cadv R,
  asc_ok C R -> next_ok C cnext R -> adv_ok C cadv R ->
  cursor_ok (filt_st C) (fun f => filt_next C (cnext f) (cadv f) f)
            (fun f => filt_adv C (cnext f) (cadv f) f) (RFilt C R).
Proof. exact filter_cursor. Qed.
Print Assumptions C08_filter_cursor.

Theorem C08_conj_cursor : forall C cnext cadv R,
  asc_ok C R -> next_ok C cnext R -> adv_ok C cadv R ->
  cursor_ok (conj_st C) (fun f => conj_next C (cnext f) (cadv f) f)
            (fun f => conj_adv C (cnext f) (cadv f) f) (RConj C R).
Proof. exact conj_cursor. Qed.
Print Assumptions C08_conj_cursor.

Theorem C08_disj_slice_cursor : forall C cnext cadv R,
  asc_ok C R -> next_ok C cnext R -> adv_ok C cadv R ->
  cursor_ok (dslice_st C) (fun f => dslice_next C (cnext f) f)
            (fun f => dslice_adv C (cnext f) (cadv f) f) (RDisjS C R).
Proof. exact disj_slice_cursor. Qed.
Print Assumptions C08_disj_slice_cursor.

Theorem C08_disj_heap_cursor : forall C cnext cadv R,
  asc_ok C R -> next_ok C cnext R -> adv_ok C cadv R ->
  cursor_ok (dheap_st C) (fun f => dheap_next C (cnext f) f)
            (fun f => dheap_adv C (cnext f) (cadv f) f) (RDisjH C R).
Proof. exact disj_heap_cursor. Qed.
Print Assumptions C08_disj_heap_cursor.

Theorem C08_boolean_cursor : forall C cnext cadv cmin R,
  asc_ok C R -> next_ok C cnext R -> adv_ok C cadv R ->
  (forall f k r k', cnext f k = Some (r, k') -> cmin k' = cmin k) ->
  (forall f k t r k', cadv f k t = Some (r, k') -> cmin k' = cmin k) ->
  cursor_ok (bool_st C) (fun f => bool_next C (cnext f) (cadv f) cmin f)
            (fun f => bool_adv C (cnext f) (cadv f) cmin f) (RBool C cmin R).
Proof. exact boolean_cursor. Qed.
Print Assumptions C08_boolean_cursor.

(* without the should-cursor guard in BooleanSearcher.Advance the machine loses a match *)
Theorem C08_boolean_cursor_refuted :
  let t := refuting_tree false in
  denote t = [3] /\
  forward (denote t) [Advance 1] = true /\
  run (default_fuel t) (build t) [Advance 1] = Some [None] /\
  run_spec (denote t) [Advance 1] = [Some 3] /\
  run (default_fuel t) (build t) [Next; Next] = Some [Some 3; None] /\
  run (default_fuel t) (build (refuting_tree true)) [Advance 1] = Some [Some 3].
Proof. exact boolean_cursor_refuted. Qed.
Print Assumptions C08_boolean_cursor_refuted.

Theorem C08_program_subsequence_unguarded_refuted :
  exists t prog, forward (denote t) prog = true /\
    forall fuel, run fuel (build t) prog <> Some (run_spec (denote t) prog).
Proof. exact program_subsequence_unguarded_refuted. Qed.
Print Assumptions C08_program_subsequence_unguarded_refuted.

(* ---------- the tree theorem ---------- *)
Theorem C08_program_subsequence : forall t, wf t -> forall prog,
  exists N, forall fuel, (N <= fuel)%nat ->
    run fuel (build t) prog = Some (run_spec (denote t) prog).
Proof. exact program_subsequence. Qed.
Print Assumptions C08_program_subsequence.

Theorem C08_program_subsequence_facts : forall t, wf t -> forall prog,
  exists N, forall fuel, (N <= fuel)%nat ->
    exists rs, run fuel (build t) prog = Some rs /\
      rs = run_spec (denote t) prog /\
      ascending (somes rs) /\
      subseq (somes rs) (denote t) /\
      check_cursor_trace prog rs = true.
Proof. exact program_subsequence_facts. Qed.
Print Assumptions C08_program_subsequence_facts.

Theorem C08_next_only_enumeration : forall t, wf t ->
  exists N, forall fuel, (N <= fuel)%nat ->
    run fuel (build t) (repeat Next (length (denote t)) ++ [Next]) = Some (map Some (denote t) ++ [None]).
Proof. exact next_only_enumeration. Qed.
Print Assumptions C08_next_only_enumeration.

Theorem C08_pending_after_In : forall L prog x, ascending L ->
  (In x (pending_after L prog) <->
   In x L /\ Forall (fun r => r < x) (somes (run_spec L prog)) /\
   Forall (fun c => match c with Advance t => t <= x | Next => True end) prog).
Proof. exact pending_after_In. Qed.
Print Assumptions C08_pending_after_In.

Theorem C08_advance_least : forall t, wf t -> forall prog1 tgt prog2,
  exists N, forall fuel, (N <= fuel)%nat ->
    exists rs1 r rs2,
      run fuel (build t) (prog1 ++ Advance tgt :: prog2) = Some (rs1 ++ r :: rs2) /\
      length rs1 = length prog1 /\
      let p := pending_after (denote t) prog1 in
      match r with
      | Some x => In x p /\ tgt <= x /\ forall y, In y p -> tgt <= y -> x <= y
      | None => forall y, In y p -> y < tgt
      end.
Proof. exact advance_least. Qed.
Print Assumptions C08_advance_least.

Theorem C08_exhausted_stays_exhausted : forall t, wf t -> forall prog1 c prog2,
  fst (spec_step (pending_after (denote t) prog1) c) = None ->
  exists N, forall fuel, (N <= fuel)%nat ->
    run fuel (build t) (prog1 ++ c :: prog2) =
    Some (run_spec (denote t) prog1 ++ None :: map (fun _ => None) prog2).
Proof. exact exhausted_stays_exhausted. Qed.
Print Assumptions C08_exhausted_stays_exhausted.

Theorem C08_advance_first_call : forall t, wf t -> forall tgt prog,
  exists N, forall fuel, (N <= fuel)%nat ->
    match run fuel (build t) (Advance tgt :: prog) with
    | Some (Some x :: _) => In x (denote t) /\ tgt <= x /\ forall y, In y (denote t) -> tgt <= y -> x <= y
    | Some (None :: _) => forall y, In y (denote t) -> y < tgt
    | _ => False
    end.
Proof. exact advance_first_call. Qed.
Print Assumptions C08_advance_first_call.

Theorem C08_advance_past_end : forall t, wf t -> forall tgt prog,
  (forall y, In y (denote t) -> y < tgt) ->
  exists N, forall fuel, (N <= fuel)%nat ->
    run fuel (build t) (Advance tgt :: prog) = Some (None :: map (fun _ => None) prog).
Proof. exact advance_past_end. Qed.
Print Assumptions C08_advance_past_end.

(* ---------- scorch readers and the unadorned replacements (Cursor/MachProofsTfr.v) ---------- *)
From Verif Require Import Cursor.MachReaders Cursor.MachProofsTfr.

Theorem C08_docid_cursor : forall segs offs prog, length offs = length segs ->
  did_run (did_init segs offs) prog = Some (run_spec (tfr_global segs offs) prog).
Proof. exact docid_cursor. Qed.
Print Assumptions C08_docid_cursor.

Theorem C08_hit1_cursor : forall st t,
  hit1_at_or_after st t =
  (fst (spec_advance t (hit1_pending st)),
   match snd (spec_advance t (hit1_pending st)) with [] => None | d :: _ => Some d end).
Proof. exact hit1_cursor. Qed.
Print Assumptions C08_hit1_cursor.

Theorem C08_unadorned_conj_eq : forall its x, its <> [] ->
  (In x (una_elems (una_and its)) <-> Forall (fun it => In x (it_elems it)) its).
Proof. exact unadorned_conj_eq. Qed.
Print Assumptions C08_unadorned_conj_eq.

Theorem C08_unadorned_disj_eq : forall its x,
  In x (una_elems (una_or its)) <-> Exists (fun it => In x (it_elems it)) its.
Proof. exact unadorned_disj_eq. Qed.
Print Assumptions C08_unadorned_disj_eq.

Theorem C08_unadorned_conj_list : forall its, its <> [] -> Forall (fun it => ascending (it_elems it)) its ->
  una_elems (una_and its) = inter_all (map it_elems its).
Proof. exact unadorned_conj_list. Qed.
Print Assumptions C08_unadorned_conj_list.

Theorem C08_unadorned_disj_list : forall its, Forall (fun it => ascending (it_elems it)) its ->
  una_elems (una_or its) = at_least 1 (map it_elems its).
Proof. exact unadorned_disj_list. Qed.
Print Assumptions C08_unadorned_disj_list.

(* the scorch term field reader (also the unadorned one) over a well-formed snapshot: every
   forward program with non-negative targets *)
Theorem C08_tfr_cursor : forall unadorned segs offs prog,
  wf_segs segs offs -> (forall o, nth_error offs O = Some o -> o = 0) ->
  Forall (fun c => match c with Advance t => 0 <= t | Next => True end) prog ->
  forward (tfr_global segs offs) prog = true ->
  tfr_run (tfr_init unadorned segs offs) prog = Some (run_spec (tfr_global segs offs) prog).
Proof. exact tfr_cursor. Qed.
Print Assumptions C08_tfr_cursor.

(* ... and the same with the hypotheses in the boolean form that the correspondence check
   evaluates on every real snapshot (MachCorr.snapshot_ok) *)
From Verif Require Import Cursor.MachCorr.
Theorem C08_tfr_cursor_checked : forall unadorned segs offs prog,
  snapshot_ok segs offs = true -> nonneg_targets prog = true ->
  forward (tfr_global segs offs) prog = true ->
  tfr_run (tfr_init unadorned segs offs) prog = Some (run_spec (tfr_global segs offs) prog).
Proof. exact tfr_cursor_checked. Qed.
Print Assumptions C08_tfr_cursor_checked.

(* ---------- indexes whose internal ids are byte strings (upsidedown): the key table of a
   MachCorr.CKeyed case (Cursor/MachProofsKeyed.v) ---------- *)
From Verif Require Import Common.Bytes Cursor.MachProofsKeyed.

(* naming ids by their index in a table that passes [keys_ascb] preserves the order of
   bytes.Compare (= index.IndexInternalID.Compare) and is injective, so every statement above about
   numeric ids is a statement about the byte-string ids of such an index *)
Theorem C08_keyed_order : forall ks, keys_ascb ks = true ->
  forall i j a b, nth_error ks i = Some a -> nth_error ks j = Some b ->
  ((i < j)%nat <-> bcompare a b = Lt) /\ (i = j <-> a = b).
Proof. exact keys_ascb_order. Qed.
Print Assumptions C08_keyed_order.

(* the table is written one number per key; reading it back inverts the writer *)
Theorem C08_keyed_key_roundtrip : forall bs, valid_bytes bs = true -> (length bs < 64)%nat ->
  key_bytes (key_num bs) = Some bs.
Proof. exact key_bytes_num. Qed.
Print Assumptions C08_keyed_key_roundtrip.

Theorem C08_keyed_check : forall keys c, check (CKeyed keys c) = true ->
  exists tbl, decode_keys keys = Some tbl /\ length tbl = length keys /\
    keys_ascb tbl = true /\ forallb valid_bytes tbl = true /\
    Forall (fun x => 0 <= x < Z.of_nat (length tbl)) (case_ids c) /\ check c = true.
Proof. exact check_keyed. Qed.
Print Assumptions C08_keyed_check.
