(* C08 — property theorems only (each closed by [exact]) + Print Assumptions. *)
From Coq Require Import ZArith List.
From Verif Require Import Cursor.Cursor.
Import ListNotations.
Local Open Scope Z_scope.

(* ---------- the contract checker used on traces of unmodelled searchers ---------- *)
Theorem C08_check_cursor_trace_sound : forall prog rs,
  check_cursor_trace prog rs = true <-> exists L, ascending L /\ run_spec L prog = rs.
Proof. exact check_cursor_trace_sound. Qed.
Print Assumptions C08_check_cursor_trace_sound.

Theorem C08_check_cursor_trace_facts : forall prog rs,
  check_cursor_trace prog rs = true ->
  ascending (somes rs) /\
  (forall i t x, nth_error prog i = Some (Advance t) -> nth_error rs i = Some (Some x) -> t <= x) /\
  (forall i j, nth_error rs i = Some None -> (i <= j)%nat -> (j < length rs)%nat -> nth_error rs j = Some None).
Proof. exact check_cursor_trace_facts. Qed.
Print Assumptions C08_check_cursor_trace_facts.
