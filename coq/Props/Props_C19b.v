(* C19 — property theorems only (each closed by [exact]) + Print Assumptions.
   Part 3: the batch case kinds of the correspondence (systematic word enumeration of every
   registered filter / analyzer; highlight calls overlapping in time) hold every item to the
   same contract / faithfulness checker as the single case kinds. *)
From Coq Require Import ZArith List.
From Verif Require Import Common.Bytes Text.Model Text.Corr Text.ProofsBatch.
Import ListNotations.
Local Open Scope Z_scope.

Theorem C19_enumeration_batch_itemwise : forall kind items,
  check (CContractMany kind items) = true <->
  (forall len ts, In (CI len ts) items -> check (CContract kind len ts) = true).
Proof. exact contract_many_itemwise. Qed.
Print Assumptions C19_enumeration_batch_itemwise.

Theorem C19_enumeration_batch_contract : forall kind items len ts,
  check (CContractMany kind items) = true ->
  In (CI len ts) items ->
  (if kind =? 0 then valid_stream len ts else ordered_offsets ts) = true.
Proof. exact contract_many_contract. Qed.
Print Assumptions C19_enumeration_batch_contract.

Theorem C19_concurrent_batch_itemwise : forall items,
  check (CHighlightMany items) = true <->
  (forall style size orig locs impl, In (HLI style size orig locs impl) items ->
     check (CHighlight style size orig locs impl) = true).
Proof. exact highlight_many_itemwise. Qed.
Print Assumptions C19_concurrent_batch_itemwise.

Theorem C19_concurrent_batch_faithful : forall items style size orig locs out,
  check (CHighlightMany items) = true ->
  In (HLI style size orig locs (Some out)) items ->
  fragment_faithful style orig locs out = true.
Proof. exact highlight_many_faithful. Qed.
Print Assumptions C19_concurrent_batch_faithful.
