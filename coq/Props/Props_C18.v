(* C18 — property theorems only (each closed by [exact]) + Print Assumptions.

   Claim: proof, PARTIAL.  The theorems are about the integer-grid logic of Geo/Model.v with the
   exact rational scaling maps; there is NO theorem about: trigonometry (geo.Haversin,
   RectFromPointDistance — in particular the design's [pole_rect] is not stated because the
   rectangle of a circle is not modelled), the float64 rounding of scaleLon/scaleLat/unscale, the
   float evaluation of the polygon ray casting, the s2 tokeniser.  Those are margin-tested by the
   C18 harness only.  Polygons: the planar crossing-parity definition (Geo/Polygon.v) IS the oracle
   of the polygon cases (evaluated exactly in Coq on every engine); proved of it below: the polygon
   lies inside its bounding rectangle (so the plain candidate stage loses nothing), it is the
   half-open box on axis-parallel rectangles, it does not depend on edge direction or on the scale
   of the integer domain, and a passing case means clearly-inside points were returned and
   clearly-outside ones were not.  NOT proved: that parity is stable between the indexed and the
   decoded point away from the boundary (ProofsPoly.poly_stable_statement; both are evaluated).

   [filter_any_value] at full strength ("the filter accepts a document iff SOME value passes") is
   FALSE of the faithful model of the filters in /repo when their doc-value visitor starts with
   `if found { return }`: C18_filter_any_value_refuted.  It holds of the visitor without the
   early return: C18_filter_any_value.  Which variant is in force is read off the source by T1
   (Extracted.XGeo.*_filter_early_return, Extracted/Obligations_C18.v). *)
From Coq Require Import ZArith List Bool.
From Verif Require Import Common.Bytes Numeric.Model Geo.Model Geo.ProofsBits Geo.Proofs Geo.ProofsSort
  Geo.Corr Geo.ProofsWalk Geo.Polygon Geo.ProofsPoly Geo.ProofsPolyQ Geo.ProofsPolyCorr.
Import ListNotations.
Local Open Scope Z_scope.

(* ---- Morton code: the magic-mask implementation is the bitwise specification and round-trips ---- *)

Theorem C18_interleave_is_spec : forall x y, 0 <= x < 2 ^ 32 -> 0 <= y < 2 ^ 32 ->
  interleave x y = interleave_spec x y.
Proof. exact interleave_eq_spec. Qed.
Print Assumptions C18_interleave_is_spec.

Theorem C18_interleave_spec_bits : forall x y i, 0 <= x < 2 ^ 32 -> 0 <= y < 2 ^ 32 -> 0 <= i < 32 ->
  Z.testbit (interleave_spec x y) (2 * i) = Z.testbit x i /\
  Z.testbit (interleave_spec x y) (2 * i + 1) = Z.testbit y i.
Proof. exact interleave_spec_testbit. Qed.
Print Assumptions C18_interleave_spec_bits.

Theorem C18_deinterleave_is_spec : forall h, 0 <= h < 2 ^ 64 -> deinterleave h = deinterleave_spec h.
Proof. exact deinterleave_eq_spec. Qed.
Print Assumptions C18_deinterleave_is_spec.

Theorem C18_morton_roundtrip_grid : forall x y, 0 <= x < 2 ^ 32 -> 0 <= y < 2 ^ 32 ->
  morton_x (interleave x y) = x /\ morton_y (interleave x y) = y.
Proof. exact deinterleave_interleave. Qed.
Print Assumptions C18_morton_roundtrip_grid.

Theorem C18_morton_roundtrip_code : forall h, 0 <= h < 2 ^ 64 -> interleave (morton_x h) (morton_y h) = h.
Proof. exact interleave_deinterleave. Qed.
Print Assumptions C18_morton_roundtrip_code.

(* a Morton prefix cell is the grid rectangle spanned by the decodes of its first and last code *)
Theorem C18_cell_is_rectangle : forall s r h, 0 <= r <= 64 -> 0 <= s -> s mod 2 ^ r = 0 -> s + 2 ^ r <= 2 ^ 64 ->
  s <= h < s + 2 ^ r ->
  (morton_x s <= morton_x h <= morton_x (s + 2 ^ r - 1)) /\
  (morton_y s <= morton_y h <= morton_y (s + 2 ^ r - 1)).
Proof. exact (fun s r h H1 H2 H3 H4 H5 => conj (cell_corners_x s r h H1 H2 H3 H4 H5) (cell_corners_y s r h H1 H2 H3 H4 H5)). Qed.
Print Assumptions C18_cell_is_rectangle.

(* the encoding round-trips within one grid step (exact scaling maps; S_k domain) *)
Theorem C18_unhash_hash_within : forall k lon lat, 0 <= k ->
  - c180_S k <= lon <= c180_S k -> - c90_S k <= lat <= c90_S k ->
  let h := morton (scale_lon_exact k lon) (scale_lat_exact k lat) in
  0 <= h < 2 ^ 64 /\
  unhash_lon_S k h <= lon < unhash_lon_S k h + res_lon_S k /\
  unhash_lat_S k h <= lat < unhash_lat_S k h + res_lat_S k.
Proof. exact unhash_hash_within. Qed.
Print Assumptions C18_unhash_hash_within.

(* ---- the cell recursion, for ANY monotone decoders ---- *)

(* termination: the recursion started by ComputeGeoRange never runs out of fuel / never reaches
   the uint wrap-around of res-1 *)
Theorem C18_compute_fuel_sufficient : forall dlon dlat q cb,
  exists cs, compute_geo_range_top dlon dlat q cb = Some cs.
Proof. exact compute_fuel_sufficient. Qed.
Print Assumptions C18_compute_fuel_sufficient.

(* (a) no candidate is lost: a code whose decoded position is inside the rectangle lies in an
   emitted cell whose shift is one the field is indexed at *)
Theorem C18_cell_cover_complete : forall dlon dlat q cb,
  (forall x y, x <= y -> dlon x <= dlon y) -> (forall x y, x <= y -> dlat x <= dlat y) ->
  forall cs h, compute_geo_range_top dlon dlat q cb = Some cs -> 0 <= h < 2 ^ 64 ->
  inside dlon dlat q h = true ->
  exists c, In c cs /\ covers c h = true /\ In (c_res c) geo_index_shifts.
Proof. exact cover_complete. Qed.
Print Assumptions C18_cell_cover_complete.

(* (a) in terms of the index: a document holding the point holds one of the emitted terms, and that
   term passes the isIndexed probe *)
Theorem C18_cell_cover_complete_terms : forall dlon dlat q cb,
  (forall x y, x <= y -> dlon x <= dlon y) -> (forall x y, x <= y -> dlat x <= dlat y) ->
  forall cs h (is_indexed : bytes -> bool),
  compute_geo_range_top dlon dlat q cb = Some cs -> 0 <= h < 2 ^ 64 -> inside dlon dlat q h = true ->
  (forall t, In t (geo_index_terms h) -> is_indexed t = true) ->
  exists t, In t (geo_index_terms h) /\
            (In t (on_boundary_terms is_indexed cs) \/ In t (not_on_boundary_terms is_indexed cs)).
Proof. exact cover_complete_terms. Qed.
Print Assumptions C18_cell_cover_complete_terms.

(* (b) no false positive without a filter: a not-on-boundary cell lies entirely inside *)
Theorem C18_cell_cover_sound : forall dlon dlat q cb,
  (forall x y, x <= y -> dlon x <= dlon y) -> (forall x y, x <= y -> dlat x <= dlat y) ->
  forall cs c h, cb = true -> compute_geo_range_top dlon dlat q cb = Some cs -> In c cs ->
  c_on_boundary c = false -> covers c h = true -> inside dlon dlat q h = true.
Proof. exact not_on_boundary_inside. Qed.
Print Assumptions C18_cell_cover_sound.

(* the monotonicity hypotheses hold of the exact rational decoders *)
Theorem C18_decoders_monotone : forall k, 0 <= k ->
  (forall x y, x <= y -> lon_S k x <= lon_S k y) /\ (forall x y, x <= y -> lat_S k x <= lat_S k y).
Proof. exact (fun k Hk => conj (fun x y => lon_S_mono k x y Hk) (fun x y => lat_S_mono k x y Hk)). Qed.
Print Assumptions C18_decoders_monotone.

(* the per-point walk (used by the correspondence check) is the path of the recursion *)
Theorem C18_point_walk_spec : forall dlon dlat q cb cs h,
  compute_geo_range_top dlon dlat q cb = Some cs -> 0 <= h < 2 ^ 64 ->
  exists o, point_walk_top dlon dlat q cb h = Some o /\
            (forall c, o = Some c <-> In c cs /\ covers c h = true).
Proof. exact point_walk_spec. Qed.
Print Assumptions C18_point_walk_spec.

(* ---- (c) box_query_exact on the grid: every-value filter, checkBoundaries = true ---- *)

Theorem C18_box_query_complete : forall k tol q, 0 <= k -> 0 <= tol -> forall cs vals,
  compute_geo_range_top (lon_S k) (lat_S k) q true = Some cs ->
  (exists h, In h vals /\ 0 <= h < 2 ^ 64 /\ inside (lon_S k) (lat_S k) q h = true) ->
  box_doc_match cs (doc_filter false (rect_point_pred k tol q) vals) vals = true.
Proof. exact box_query_complete. Qed.
Print Assumptions C18_box_query_complete.

Theorem C18_box_query_sound : forall k tol q, 0 <= k -> 0 <= tol -> forall cs vals,
  compute_geo_range_top (lon_S k) (lat_S k) q true = Some cs ->
  box_doc_match cs (doc_filter false (rect_point_pred k tol q) vals) vals = true ->
  exists h, In h vals /\ rect_point_pred k tol q h = true.
Proof. exact box_query_sound. Qed.
Print Assumptions C18_box_query_sound.

(* ---- date-line split ---- *)

Theorem C18_dateline_split : forall k (b : qbox) lon lat, - c180_S k <= lon <= c180_S k ->
  existsb (rect_contains lon lat) (split_dateline k b) = qbox_contains b lon lat.
Proof. exact dateline_split. Qed.
Print Assumptions C18_dateline_split.

(* ---- the post-filters ---- *)

(* the visitor WITHOUT the early return: the filter accepts iff some value passes *)
Theorem C18_filter_any_value : forall (P : Z -> bool) vals, doc_filter false P vals = doc_filter_spec P vals.
Proof. exact filter_every_value. Qed.
Print Assumptions C18_filter_any_value.

(* the visitor WITH `if found { return }`: only the first visited value is tested ... *)
Theorem C18_filter_first_only : forall (P : Z -> bool) vals,
  doc_filter true P vals = match vals with [] => false | v :: _ => P v end.
Proof. exact filter_first_only. Qed.
Print Assumptions C18_filter_first_only.

(* ... so the any-value statement is false of it *)
Theorem C18_filter_any_value_refuted : exists vals k q,
  doc_filter true (rect_point_pred k (tol_S k) q) vals <> doc_filter_spec (rect_point_pred k (tol_S k) q) vals.
Proof. exact filter_any_value_refuted. Qed.
Print Assumptions C18_filter_any_value_refuted.

(* ---- what the correspondence check predicts is what the model computes ---- *)

Theorem C18_safe_walk_sound : forall k q cb h o,
  safe_walk k q cb h = Some o -> point_walk_top (lon_S k) (lat_S k) q cb h = Some o.
Proof. exact safe_walk_sound. Qed.
Print Assumptions C18_safe_walk_sound.

Theorem C18_safe_range_sound : forall k q cb cs,
  safe_range k q cb = Some cs -> compute_geo_range_top (lon_S k) (lat_S k) q cb = Some cs.
Proof. exact safe_range_sound. Qed.
Print Assumptions C18_safe_range_sound.

Theorem C18_box_doc_match_walk_eq : forall k q cb filt cs,
  compute_geo_range_top (lon_S k) (lat_S k) q cb = Some cs ->
  forall vals, Forall (fun h => 0 <= h < 2 ^ 64) vals ->
  box_doc_match_walk k q cb filt vals = Some (box_doc_match cs filt vals).
Proof. exact box_doc_match_walk_eq. Qed.
Print Assumptions C18_box_doc_match_walk_eq.

(* ---- distance sort: keys order as the computed distances (C07) ---- *)

Theorem C18_distance_sort_monotone : forall a b ta tb,
  0 <= a < 2 ^ 63 -> 0 <= b < 2 ^ 63 -> is_nan a = false -> is_nan b = false ->
  distance_sort_key a = Some ta -> distance_sort_key b = Some tb ->
  bcompare ta tb = f_compare a b.
Proof. exact distance_sort_monotone. Qed.
Print Assumptions C18_distance_sort_monotone.

(* ---- polygons: planar crossing parity (the oracle of the polygon cases) ---- *)

(* the polygon lies inside BoundingRectangleForPolygon: the plain index's candidate stage (box
   searcher on that rectangle, complete by C18_box_query_complete) loses no point of the polygon *)
Theorem C18_polygon_in_bounding_rect : forall poly bb px py,
  bounding_rect poly = Some bb -> pip poly px py = true ->
  rminx bb <= px < rmaxx bb /\ rminy bb <= py < rmaxy bb.
Proof. exact pip_in_bounding_rect. Qed.
Print Assumptions C18_polygon_in_bounding_rect.

Theorem C18_polygon_in_bounding_rect_contains : forall poly bb px py,
  bounding_rect poly = Some bb -> pip poly px py = true -> rect_contains px py bb = true.
Proof. exact pip_rect_contains. Qed.
Print Assumptions C18_polygon_in_bounding_rect_contains.

(* a closed ring is straddled an even number of times by every latitude *)
Theorem C18_polygon_even_straddles : forall py poly,
  fold_left (fun a e => xorb a (straddles py e)) (edges poly) false = false.
Proof. exact straddles_even. Qed.
Print Assumptions C18_polygon_even_straddles.

(* on axis-parallel rectangles, either orientation, the polygon query denotes the half-open box *)
Theorem C18_polygon_rectangle_is_box : forall x0 y0 x1 y1 px py, x0 < x1 -> y0 < y1 ->
  pip [(x0, y0); (x1, y0); (x1, y1); (x0, y1)] px py =
  (x0 <=? px) && (px <? x1) && (y0 <=? py) && (py <? y1).
Proof. exact pip_rectangle. Qed.
Print Assumptions C18_polygon_rectangle_is_box.

Theorem C18_polygon_rectangle_is_box_cw : forall x0 y0 x1 y1 px py, x0 < x1 -> y0 < y1 ->
  pip [(x0, y1); (x1, y1); (x1, y0); (x0, y0)] px py =
  (x0 <=? px) && (px <? x1) && (y0 <=? py) && (py <? y1).
Proof. exact pip_rectangle_cw. Qed.
Print Assumptions C18_polygon_rectangle_is_box_cw.

(* the integer crossing test is the comparison of rayIntersectsSegment read over the rationals *)
Theorem C18_polygon_ray_is_go_formula : forall px py ax ay bx by_,
  ray_crosses px py ((ax, ay), (bx, by_)) = true <->
  ((py <? ay) <> (py <? by_)) /\ go_crossing_Q px py ax ay bx by_.
Proof. exact ray_crosses_spec. Qed.
Print Assumptions C18_polygon_ray_is_go_formula.

Theorem C18_polygon_edge_symmetric : forall px py a b, ray_crosses px py (a, b) = ray_crosses px py (b, a).
Proof. exact ray_crosses_sym. Qed.
Print Assumptions C18_polygon_edge_symmetric.

(* the verdict does not depend on the scale k chosen for the integer domain S_k *)
Theorem C18_polygon_scale_invariant : forall c poly px py, 0 < c ->
  pip (map (scale_v c) poly) (c * px) (c * py) = pip poly px py.
Proof. exact pip_scale. Qed.
Print Assumptions C18_polygon_scale_invariant.

Theorem C18_polygon_margin_exclusive : forall m poly px py,
  clearly_in_poly m poly px py = true -> clearly_out_poly m poly px py = false.
Proof. exact clearly_in_out_exclusive. Qed.
Print Assumptions C18_polygon_margin_exclusive.

Theorem C18_polygon_margin_monotone : forall m m' poly px py, 0 <= m <= m' ->
  far_from_boundary m' poly px py = true -> far_from_boundary m poly px py = true.
Proof. exact far_from_boundary_mono. Qed.
Print Assumptions C18_polygon_margin_monotone.

(* what a passing polygon case establishes, on every engine (plain, s2 plugin, upsidedown) *)
Theorem C18_polygon_case_sound : forall e poly docs hits v,
  check_poly e poly docs hits = true -> poly_view_of poly docs = Some v ->
  forall d hit, In (d, hit) (combine (pv_docs v) hits) ->
    ((exists p, In p d /\ clearly_in_poly (poly_margin_S (pv_k v)) (pv_poly v) (s_lon p) (s_lat p) = true) -> hit = true) /\
    ((forall p, In p d -> clearly_out_poly (poly_margin_S (pv_k v)) (pv_poly v) (s_lon p) (s_lat p) = true) -> hit = false).
Proof. exact check_poly_sound. Qed.
Print Assumptions C18_polygon_case_sound.
