(* C14 — property theorems only (each closed by [exact]) + Print Assumptions.
   Over Scorch/Disk.v. *)
From Coq Require Import ZArith List.
From Verif Require Import Scorch.Model Scorch.Disk
  Scorch.ProofsDisk1 Scorch.ProofsDisk4 Scorch.ProofsDisk5 Scorch.ProofsDisk6.
Import ListNotations.
Local Open Scope Z_scope.

Theorem C14_source_unaffected : forall d d',
  (dstep d DCopyStart = Some d' \/ exists sids, dstep d (DCopyEnd sids) = Some d') ->
  d_core d' = d_core d /\ d_bolt d' = d_bolt d /\ d_files d' = d_files d /\ d_tx d' = d_tx d
  /\ d_pub d' = d_pub d /\ d_nb d' = d_nb d /\ d_segdocs d' = d_segdocs d /\ d_acked d' = d_acked d.
Proof. exact source_unaffected. Qed.
Print Assumptions C14_source_unaffected.

(* from DCopyStart until the next DCopyEnd (or the death of the process) every segment of the
   copied snapshot stays scheduled, its file is never removed, DRemoveZap of it is not enabled *)
Theorem C14_copy_sources_survive : forall d d0 evs d',
  dstep d DCopyStart = Some d0 -> drun d0 evs = Some d' -> forallb keeps_copy evs = true ->
  forall s, In s (root (d_core d)) ->
    In (sid s) (d_copy d')
    /\ (In (sid s) (d_files d) -> In (sid s) (d_files d'))
    /\ dstep d' (DRemoveZap (sid s)) = None.
Proof. exact copy_sources_survive. Qed.
Print Assumptions C14_copy_sources_survive.

(* with other copies ending meanwhile: as long as they released no more references than were held
   when this copy started (i.e. until this copy's own DCopyEnd) *)
Theorem C14_copy_sources_survive_overlapping : forall d d0 evs d',
  dstep d DCopyStart = Some d0 -> drun d0 evs = Some d' -> forallb no_death evs = true ->
  forall s, In s (root (d_core d)) ->
    (released (sid s) evs <= count_occ Z.eq_dec (d_copy d) (sid s))%nat ->
    In (sid s) (d_copy d')
    /\ (In (sid s) (d_files d) -> In (sid s) (d_files d'))
    /\ dstep d' (DRemoveZap (sid s)) = None.
Proof. exact copy_sources_survive_overlapping. Qed.
Print Assumptions C14_copy_sources_survive_overlapping.

(* the file-backed segments of the snapshot exist during the whole copy *)
Theorem C14_copy_snapshot_files_exist : forall pre d d0 evs d',
  drun dinit pre = Some d ->
  dstep d DCopyStart = Some d0 -> drun d0 evs = Some d' -> forallb keeps_copy evs = true ->
  forall id, In id (file_segs (root (d_core d))) -> In id (d_files d').
Proof. exact copy_snapshot_files_exist. Qed.
Print Assumptions C14_copy_snapshot_files_exist.
