(* C15 — property theorems only (each closed by [exact]) + Print Assumptions.
   KV store adapters are ordered maps with atomic batches and snapshot readers.
   Model: Kv/Adapter.v (transcription of /repo/index/upsidedown/store/{boltdb,goleveldb,gtreap,moss,metrics}
   and of upsidedown's merge operator); the engines are ordered maps. *)
From Coq Require Import ZArith List Sorted.
From Verif Require Import Common.Bytes Kv.Adapter Kv.AdapterProofs Kv.AdapterIterProofs Kv.AdapterIterFinal.
Import ListNotations.
Local Open Scope Z_scope.

(* Any sequence of batches of set / delete / merge leaves the store a map sorted by key without duplicate
   keys whose contents are the batches applied one after the other, each as a whole: per key the last
   set/delete of the batch, merges folded by the configured operator over the pre-batch value — for each of
   the three ways the adapters order merges against set/delete of the same key. *)
Theorem C15_batch_atomic_refines :
  forall (pol : policy) (mo : merge_op) (bs : list (list bop)) (m m' : kvmap),
    msorted m -> exec_batches pol mo m bs = Some m' ->
    msorted m' /\ NoDup (map fst m') /\
    forall k, m_get m' k = spec_batches pol mo (m_get m) bs k.
Proof. exact batch_atomic_refines. Qed.
Print Assumptions C15_batch_atomic_refines.

(* ... and a sorted map is determined by its contents: the store EQUALS that ordered map *)
Theorem C15_store_determined_by_contents :
  forall m1 m2, msorted m1 -> msorted m2 -> (forall k, m_get m1 k = m_get m2 k) -> m1 = m2.
Proof. exact msorted_ext. Qed.
Print Assumptions C15_store_determined_by_contents.

(* A reader keeps the map it was opened on whatever happens afterwards (batches, other readers opened or
   closed, the lower-level store of a persisting configuration catching up = OpSync) as long as the store
   itself stays open; every answer it gives is a function of that map. *)
Theorem C15_reader_isolated :
  forall (pol : policy) (mo : merge_op) (os : list sop) (st st' : sstate) (rid : Z) (snap : kvmap),
    reader_view st rid = Some snap ->
    Forall (fun o => o <> OpOpen rid /\ o <> OpClose rid /\ o <> OpReopen) os ->
    store_run pol mo st os = Some st' ->
    reader_view st' rid = Some snap.
Proof. exact reader_isolated. Qed.
Print Assumptions C15_reader_isolated.

(* Persistence is not an operation of the map: with readers opened / closed, flushes to the lower-level
   store (OpSync) and close + reopen over the same lower-level store (OpReopen) interleaved at will, the
   store's map is the batches applied in order (to which C15_batch_atomic_refines applies), and a reader
   opened after any of it sees exactly that. *)
Theorem C15_store_map_is_batches :
  forall (pol : policy) (mo : merge_op) (os : list sop) (st st' : sstate),
    store_run pol mo st os = Some st' ->
    exec_batches pol mo (st_map st) (batches_of os) = Some (st_map st').
Proof. exact store_map_is_batches. Qed.
Print Assumptions C15_store_map_is_batches.

Theorem C15_reader_after_persist :
  forall (pol : policy) (mo : merge_op) (os : list sop) (st st1 st2 : sstate) (rid : Z),
    store_run pol mo st os = Some st1 ->
    store_step pol mo st1 (OpOpen rid) = Some st2 ->
    exists m, exec_batches pol mo (st_map st) (batches_of os) = Some m /\ reader_view st2 rid = Some m.
Proof. exact reader_after_persist. Qed.
Print Assumptions C15_reader_after_persist.

Theorem C15_reader_sees_map_at_creation :
  forall (pol : policy) (mo : merge_op) (st : sstate) (rid : Z) (st' : sstate),
    store_step pol mo st (OpOpen rid) = Some st' -> reader_view st' rid = Some (st_map st).
Proof. exact reader_open_sees_current. Qed.
Print Assumptions C15_reader_sees_map_at_creation.

(* Prefix iteration: for gtreap, boltdb, goleveldb (and metrics over any of them), and for moss with a
   correct prefix successor, under any program of Seek / Next (Next issued only while the iterator is valid),
   what Current() shows after construction and after every operation is exactly what the spec iterator over
   prefix_entries shows: the entries having the prefix, in byte order, from the last seek key on. *)
Theorem C15_prefix_iter_exact :
  forall (v : variant) (m : kvmap) (p : option bytes) (prog : list iop),
    variant_repaired v -> msorted m -> valid_keys m -> valid_opt p -> valid_prog prog ->
    iter_run (prefix_iterator v m p) prog = spec_run (prefix_entries m (ob p)) prog.
Proof. exact prefix_iter_exact. Qed.
Print Assumptions C15_prefix_iter_exact.

(* the repaired incrementBytes (strip trailing 0xff, bump the last remaining byte) is such a successor *)
Theorem C15_moss_repaired_successor : variant_repaired (VMoss incr_strip).
Proof. exact variant_repaired_strip. Qed.
Print Assumptions C15_moss_repaired_successor.

(* with TODAY's incrementBytes (increment with carry) the statement is false: prefix 61 ff, key 62 *)
Theorem C15_moss_prefix_refuted :
  exists m p prog,
    msorted m /\ valid_keys m /\ valid_opt p /\ valid_prog prog /\
    iter_run (prefix_iterator (VMoss incr_carry) m p) prog <> spec_run (prefix_entries m (ob p)) prog.
Proof. exact moss_prefix_refuted. Qed.
Print Assumptions C15_moss_prefix_refuted.

(* Range iteration over [s, e) (nil e = unbounded): every variant, today's moss included. *)
Theorem C15_range_iter_exact :
  forall (v : variant) (m : kvmap) (s e : option bytes) (prog : list iop),
    msorted m -> valid_opt s -> valid_prog prog ->
    iter_run (range_iterator v m s e) prog = spec_run (range_entries m (ob s) e) prog.
Proof. exact range_iter_exact. Qed.
Print Assumptions C15_range_iter_exact.

(* Seek: whatever was done before, Seek k followed by n Next shows the n-th (from 0) of the spec entries
   that are at or after k, nothing once they are exhausted. *)
Theorem C15_seek_exact_prefix :
  forall (v : variant) (m : kvmap) (p : option bytes) (prog : list iop) (k : bytes) (n : nat),
    variant_repaired v -> msorted m -> valid_keys m -> valid_opt p -> valid_prog prog -> valid_bytes k = true ->
    last (iter_run (prefix_iterator v m p) (prog ++ ISeek k :: repeat INext n)) None =
    nth_error (seek_entries (prefix_entries m (ob p)) k) n.
Proof. exact seek_exact_prefix. Qed.
Print Assumptions C15_seek_exact_prefix.

Theorem C15_seek_exact_range :
  forall (v : variant) (m : kvmap) (s e : option bytes) (prog : list iop) (k : bytes) (n : nat),
    msorted m -> valid_opt s -> valid_prog prog -> valid_bytes k = true ->
    last (iter_run (range_iterator v m s e) (prog ++ ISeek k :: repeat INext n)) None =
    nth_error (seek_entries (range_entries m (ob s) e) k) n.
Proof. exact seek_exact_range. Qed.
Print Assumptions C15_seek_exact_range.

(* ... and those entries are in byte order without duplicates *)
Theorem C15_iteration_in_byte_order :
  forall (m : kvmap) (p s : bytes) (e : option bytes) (k : bytes),
    msorted m ->
    msorted (seek_entries (prefix_entries m p) k) /\ msorted (seek_entries (range_entries m s e) k).
Proof. exact seek_entries_sorted. Qed.
Print Assumptions C15_iteration_in_byte_order.

(* upsidedown's dictionary merge operator: FullMerge on an existing count c (absent / empty = 0) and
   little-endian int64 deltas returns the Uvarint of c with the deltas added in order, each addition
   saturating at 0 and wrapping modulo 2^64. *)
Theorem C15_merge_counter_spec :
  forall (key : bytes) (existing : option bytes) (c : Z) (ds : list Z),
    3 <= Z.of_nat (length key) ->
    match existing with
    | Some (b :: e) => exists n, uvarint (b :: e) = (c, n) /\ 0 < n
    | _ => c = 0
    end ->
    0 <= c < two64 ->
    Forall (fun d => - two63 <= d < two63) ds ->
    udc_full key existing (map i64_bytes ds) = put_uvarint (fold_left counter_add ds c).
Proof. exact merge_counter_spec. Qed.
Print Assumptions C15_merge_counter_spec.
