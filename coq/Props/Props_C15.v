(* C15 — property theorems only (each closed by [exact]) + Print Assumptions. *)
From Coq Require Import ZArith List.
From Verif Require Import Common.Bytes Kv.Adapter.
Import ListNotations.
Local Open Scope Z_scope.
