(* C17 — property theorems only (each closed by [exact]) + Print Assumptions.
   Queries and requests keep their meaning across JSON and the query-string syntax.

   What is a theorem here: totality of the transcribed lexer and parser, parse-of-print = documented
   denotation for the query-string grammar (side condition: the strings avoid the reserved characters,
   so escapes are NOT covered by the theorem, only by the correspondence cases), and the
   unambiguity of ParseQuery's key dispatch over the regenerated tables.
   What is NOT a theorem (DESIGN.md names them query_roundtrip_sem, request_roundtrip, qs_sem): "the
   round-tripped query / request / parsed string returns the same results on any index".  There is no
   executable semantics of searching in this engine; these three are established by execution only
   (harness cmd/c17: both engines, random corpora; differences are reported as direct violations
   json-exec-differs / request-exec-differs / qs-exec-differs). *)
From Coq Require Import ZArith List.
From Verif Require Import Common.Bytes QueryCodec.Lexer QueryCodec.Scalars QueryCodec.Grammar
  QueryCodec.Dispatch QueryCodec.LexProofs QueryCodec.QsLex QueryCodec.QsProofs.
Import ListNotations.
Local Open Scope Z_scope.

(* The transcribed query-string lexer yields, on EVERY rune list, a token list or an error located at
   a rune offset (the unterminated quote, detected at the end of input): it has no other outcome. *)
Theorem C17_lex_total : forall inp : list Z,
  (exists ts, lex inp = LexOk ts) \/ lex inp = LexErr (Z.of_nat (length inp)).
Proof. exact lex_total. Qed.
Print Assumptions C17_lex_total.

(* The transcribed parser (lexer + grammar + semantic actions) accepts or rejects every rune list:
   match-none for the empty string, a boolean query, an error, or "well-formed up to a scalar text
   outside the modelled number/date sublanguage". *)
Theorem C17_parse_total : forall s : list Z,
  parse_qs s = PNone \/ (exists q, parse_qs s = POk q) \/ parse_qs s = PErr \/ parse_qs s = PUnm.
Proof. exact parse_qs_total. Qed.
Print Assumptions C17_parse_total.

(* For every non-empty clause list of the documented grammar (required / optional / excluded clauses,
   field scoping, words, phrases, regexps, wildcards, fuzziness, numbers, numeric and date
   comparisons, boosts) whose strings avoid the reserved characters ([clauses_ok]) and whose literals
   have a value ([denote] is defined): parsing its printed form gives exactly the boolean query the
   syntax documents.   Example: QsProofs.qs_parse_print_example. *)
Theorem C17_qs_parse_print : forall (cs : list sclause) (q : bq),
  cs <> [] -> clauses_ok cs = true -> denote cs = Some q ->
  parse_qs (print cs) = POk q.
Proof. exact qs_parse_print. Qed.
Print Assumptions C17_qs_parse_print.

(* ParseQuery's ordered key tests: if the tables pass [dispatch_unambiguous] (Obligations_C17 proves
   it for the tables regenerated from the source), then on every top-level key set K a query type T
   can marshal to, on which T's own test holds, the FIRST test that holds is T's: the JSON is decoded
   as the type that produced it (a DateRangeQuery as a DateRangeStringQuery). *)
Theorem C17_query_dispatch_roundtrip :
  forall (tests : list keytest) (emits : emit_table) (T : qtype) (ks : list emitkey) (K : list jkey),
  dispatch_unambiguous tests emits = true ->
  In (T, ks) emits ->
  In K (keysets ks) ->
  selects tests (expected T) K = true ->
  dispatch tests K = Some (expected T).
Proof. exact dispatch_roundtrip. Qed.
Print Assumptions C17_query_dispatch_roundtrip.

(* ... and a type with an always-present key needs no side condition *)
Theorem C17_query_dispatch_roundtrip_required :
  forall (tests : list keytest) (emits : emit_table) (T : qtype) (ks : list emitkey) (K : list jkey),
  dispatch_unambiguous tests emits = true ->
  In (T, ks) emits ->
  has_test tests (expected T) = true ->
  has_required ks = true ->
  In K (keysets ks) ->
  dispatch tests K = Some (expected T).
Proof. exact dispatch_roundtrip_required. Qed.
Print Assumptions C17_query_dispatch_roundtrip_required.
