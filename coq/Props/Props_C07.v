(* C07 — property theorems only (each closed by [exact]) + Print Assumptions. *)
From Coq Require Import ZArith List.
From Verif Require Import Common.Bytes Numeric.Model Numeric.Proofs.
Import ListNotations.
Local Open Scope Z_scope.

Theorem C07_split_empty : forall lo hi step, hi < lo -> split_range lo hi step = Some [].
Proof. exact split_empty. Qed.
Print Assumptions C07_split_empty.

(* ---------- encoding half (Numeric/ProofsEnc.v) ---------- *)
From Verif Require Import Numeric.ProofsEnc.

Theorem C07_f2i_range : forall b, in_u64 b = true -> in_int64 (f2i b) = true.
Proof. exact f2i_range. Qed.
Print Assumptions C07_f2i_range.

Theorem C07_i2f_range : forall i, in_int64 i = true -> in_u64 (i2f i) = true.
Proof. exact i2f_range. Qed.
Print Assumptions C07_i2f_range.

Theorem C07_i2f_f2i : forall b, in_u64 b = true -> i2f (f2i b) = b.
Proof. exact i2f_f2i. Qed.
Print Assumptions C07_i2f_f2i.

Theorem C07_f2i_i2f : forall i, in_int64 i = true -> f2i (i2f i) = i.
Proof. exact f2i_i2f. Qed.
Print Assumptions C07_f2i_i2f.

Theorem C07_f2i_order : forall a b,
  in_u64 a = true -> in_u64 b = true -> is_nan a = false -> is_nan b = false ->
  is_neg_zero a = false -> is_neg_zero b = false ->
  (f2i a ?= f2i b) = f_compare a b.
Proof. exact f2i_order. Qed.
Print Assumptions C07_f2i_order.

Theorem C07_f2i_order_exact : forall a b, in_u64 a = true -> in_u64 b = true ->
  ((f2i a ?= f2i b) = f_compare a b <-> ~ ((a = 0 /\ b = two63) \/ (a = two63 /\ b = 0))).
Proof. exact f2i_order_exact. Qed.
Print Assumptions C07_f2i_order_exact.

Theorem C07_f2i_neg_zero : f2i two63 = -1 /\ f2i 0 = 0 /\ f2i two63 = f2i 0 - 1
  /\ f_compare two63 0 = Eq /\ (f2i two63 ?= f2i 0) = Lt.
Proof. exact f2i_neg_zero. Qed.
Print Assumptions C07_f2i_neg_zero.

Theorem C07_encode_valid : forall x s t, encode x s = Some t ->
  0 <= s <= 63 /\
  valid_term t = Some s /\
  Z.of_nat (length t) = nchars s + 1 /\
  hd 0 t = shift_start + s /\
  Forall (fun b => 0 <= b < 128) (tl t) /\
  valid_bytes t = true.
Proof. exact encode_valid. Qed.
Print Assumptions C07_encode_valid.

Theorem C07_encode_order : forall x y tx ty,
  in_int64 x = true -> in_int64 y = true ->
  encode x 0 = Some tx -> encode y 0 = Some ty ->
  bcompare tx ty = (x ?= y).
Proof. exact encode_order. Qed.
Print Assumptions C07_encode_order.

Theorem C07_encode_order_shift : forall x y s tx ty,
  in_int64 x = true -> in_int64 y = true ->
  encode x s = Some tx -> encode y s = Some ty ->
  bcompare tx ty = (Z.shiftr x s ?= Z.shiftr y s).
Proof. exact encode_order_shift. Qed.
Print Assumptions C07_encode_order_shift.

Theorem C07_decode_encode : forall x s t, in_int64 x = true -> 0 <= s < 63 ->
  encode x s = Some t -> decode t = Some (Z.shiftl (Z.shiftr x s) s).
Proof. exact decode_encode. Qed.
Print Assumptions C07_decode_encode.

Theorem C07_decode_encode_mod : forall x s t, in_int64 x = true -> 0 <= s < 63 ->
  encode x s = Some t -> decode t = Some (x - x mod 2 ^ s).
Proof. exact decode_encode_mod. Qed.
Print Assumptions C07_decode_encode_mod.

Theorem C07_decode_shift63 : forall x t,
  encode x 63 = Some t -> decode t = None /\ valid_term t = Some 63.
Proof. exact decode_shift63. Qed.
Print Assumptions C07_decode_shift63.

Theorem C07_numeric_sort_correct : forall a b ta tb,
  in_u64 a = true -> in_u64 b = true -> is_nan a = false -> is_nan b = false ->
  is_neg_zero a = false -> is_neg_zero b = false ->
  encode (f2i a) 0 = Some ta -> encode (f2i b) 0 = Some tb ->
  bcompare ta tb = f_compare a b.
Proof. exact numeric_sort_correct. Qed.
Print Assumptions C07_numeric_sort_correct.

Theorem C07_numeric_sort_neg_zero :
  exists tn tp, encode (f2i two63) 0 = Some tn /\ encode (f2i 0) 0 = Some tp /\
                bcompare tn tp = Lt /\ f_compare two63 0 = Eq.
Proof. exact numeric_sort_neg_zero. Qed.
Print Assumptions C07_numeric_sort_neg_zero.

(* ---------- link to Flocq's IEEE-754 semantics (Numeric/FlocqLink.v) ----------
   Required without Import so that [is_nan] etc. keep meaning the Model's definitions below.
   The real-number axioms reported here come only from Flocq's own validity proof inside
   [b64_of_bits]; C07_f_compare_Bcompare_FF is the same fact over arbitrary validity proofs and
   is closed under the global context. *)
From Flocq Require IEEE754.Binary IEEE754.Bits.
From Verif Require Numeric.FlocqLink.

Theorem C07_f_compare_Bcompare_FF : forall a b Ha Hb,
  in_u64 a = true -> in_u64 b = true -> Model.is_nan a = false -> Model.is_nan b = false ->
  Binary.Bcompare 53 1024
    (Binary.FF2B 53 1024 (Bits.binary_float_of_bits_aux 52 11 a) Ha)
    (Binary.FF2B 53 1024 (Bits.binary_float_of_bits_aux 52 11 b) Hb)
  = Some (f_compare a b).
Proof. exact FlocqLink.f_compare_Bcompare_FF. Qed.
Print Assumptions C07_f_compare_Bcompare_FF.

Theorem C07_f_compare_Bcompare : forall a b,
  in_u64 a = true -> in_u64 b = true -> Model.is_nan a = false -> Model.is_nan b = false ->
  Binary.Bcompare 53 1024 (Bits.b64_of_bits a) (Bits.b64_of_bits b) = Some (f_compare a b).
Proof. exact FlocqLink.f_compare_Bcompare. Qed.
Print Assumptions C07_f_compare_Bcompare.

Theorem C07_is_nan_b64 : forall a, in_u64 a = true ->
  Binary.is_nan 53 1024 (Bits.b64_of_bits a) = Model.is_nan a.
Proof. exact FlocqLink.is_nan_b64. Qed.
Print Assumptions C07_is_nan_b64.

Theorem C07_f2i_order_flocq : forall a b,
  in_u64 a = true -> in_u64 b = true -> Model.is_nan a = false -> Model.is_nan b = false ->
  is_neg_zero a = false -> is_neg_zero b = false ->
  Binary.Bcompare 53 1024 (Bits.b64_of_bits a) (Bits.b64_of_bits b) = Some (f2i a ?= f2i b).
Proof. exact FlocqLink.f2i_order_flocq. Qed.
Print Assumptions C07_f2i_order_flocq.

Theorem C07_numeric_sort_flocq : forall a b ta tb,
  in_u64 a = true -> in_u64 b = true -> Model.is_nan a = false -> Model.is_nan b = false ->
  is_neg_zero a = false -> is_neg_zero b = false ->
  encode (f2i a) 0 = Some ta -> encode (f2i b) 0 = Some tb ->
  Binary.Bcompare 53 1024 (Bits.b64_of_bits a) (Bits.b64_of_bits b) = Some (bcompare ta tb).
Proof. exact FlocqLink.numeric_sort_flocq. Qed.
Print Assumptions C07_numeric_sort_flocq.

Theorem C07_f_compare_Rcompare : forall a b,
  in_u64 a = true -> in_u64 b = true ->
  Binary.is_finite 53 1024 (Bits.b64_of_bits a) = true ->
  Binary.is_finite 53 1024 (Bits.b64_of_bits b) = true ->
  Raux.Rcompare (Binary.B2R 53 1024 (Bits.b64_of_bits a)) (Binary.B2R 53 1024 (Bits.b64_of_bits b))
  = f_compare a b.
Proof. exact FlocqLink.f_compare_Rcompare. Qed.
Print Assumptions C07_f_compare_Rcompare.
