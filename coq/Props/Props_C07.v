(* C07 — property theorems only (each closed by [exact]) + Print Assumptions. *)
From Coq Require Import ZArith List.
From Verif Require Import Common.Bytes Numeric.Model Numeric.Proofs.
Import ListNotations.
Local Open Scope Z_scope.

Theorem C07_split_empty : forall lo hi step, hi < lo -> split_range lo hi step = Some [].
Proof. exact split_empty. Qed.
Print Assumptions C07_split_empty.

(* ---------- encoding half (Numeric/ProofsEnc.v) ---------- *)
From Verif Require Import Numeric.ProofsEnc.

Theorem C07_f2i_range : forall b, in_u64 b = true -> in_int64 (f2i b) = true.
Proof. exact f2i_range. Qed.
Print Assumptions C07_f2i_range.

Theorem C07_i2f_range : forall i, in_int64 i = true -> in_u64 (i2f i) = true.
Proof. exact i2f_range. Qed.
Print Assumptions C07_i2f_range.

Theorem C07_i2f_f2i : forall b, in_u64 b = true -> i2f (f2i b) = b.
Proof. exact i2f_f2i. Qed.
Print Assumptions C07_i2f_f2i.

Theorem C07_f2i_i2f : forall i, in_int64 i = true -> f2i (i2f i) = i.
Proof. exact f2i_i2f. Qed.
Print Assumptions C07_f2i_i2f.

Theorem C07_f2i_order : forall a b,
  in_u64 a = true -> in_u64 b = true -> is_nan a = false -> is_nan b = false ->
  is_neg_zero a = false -> is_neg_zero b = false ->
  (f2i a ?= f2i b) = f_compare a b.
Proof. exact f2i_order. Qed.
Print Assumptions C07_f2i_order.

Theorem C07_f2i_order_exact : forall a b, in_u64 a = true -> in_u64 b = true ->
  ((f2i a ?= f2i b) = f_compare a b <-> ~ ((a = 0 /\ b = two63) \/ (a = two63 /\ b = 0))).
Proof. exact f2i_order_exact. Qed.
Print Assumptions C07_f2i_order_exact.

Theorem C07_f2i_neg_zero : f2i two63 = -1 /\ f2i 0 = 0 /\ f2i two63 = f2i 0 - 1
  /\ f_compare two63 0 = Eq /\ (f2i two63 ?= f2i 0) = Lt.
Proof. exact f2i_neg_zero. Qed.
Print Assumptions C07_f2i_neg_zero.

Theorem C07_encode_valid : forall x s t, encode x s = Some t ->
  0 <= s <= 63 /\
  valid_term t = Some s /\
  Z.of_nat (length t) = nchars s + 1 /\
  hd 0 t = shift_start + s /\
  Forall (fun b => 0 <= b < 128) (tl t) /\
  valid_bytes t = true.
Proof. exact encode_valid. Qed.
Print Assumptions C07_encode_valid.

Theorem C07_encode_order : forall x y tx ty,
  in_int64 x = true -> in_int64 y = true ->
  encode x 0 = Some tx -> encode y 0 = Some ty ->
  bcompare tx ty = (x ?= y).
Proof. exact encode_order. Qed.
Print Assumptions C07_encode_order.

Theorem C07_encode_order_shift : forall x y s tx ty,
  in_int64 x = true -> in_int64 y = true ->
  encode x s = Some tx -> encode y s = Some ty ->
  bcompare tx ty = (Z.shiftr x s ?= Z.shiftr y s).
Proof. exact encode_order_shift. Qed.
Print Assumptions C07_encode_order_shift.

Theorem C07_decode_encode : forall x s t, in_int64 x = true -> 0 <= s < 63 ->
  encode x s = Some t -> decode t = Some (Z.shiftl (Z.shiftr x s) s).
Proof. exact decode_encode. Qed.
Print Assumptions C07_decode_encode.

Theorem C07_decode_encode_mod : forall x s t, in_int64 x = true -> 0 <= s < 63 ->
  encode x s = Some t -> decode t = Some (x - x mod 2 ^ s).
Proof. exact decode_encode_mod. Qed.
Print Assumptions C07_decode_encode_mod.

Theorem C07_decode_shift63 : forall x t,
  encode x 63 = Some t -> decode t = None /\ valid_term t = Some 63.
Proof. exact decode_shift63. Qed.
Print Assumptions C07_decode_shift63.

Theorem C07_numeric_sort_correct : forall a b ta tb,
  in_u64 a = true -> in_u64 b = true -> is_nan a = false -> is_nan b = false ->
  is_neg_zero a = false -> is_neg_zero b = false ->
  encode (f2i a) 0 = Some ta -> encode (f2i b) 0 = Some tb ->
  bcompare ta tb = f_compare a b.
Proof. exact numeric_sort_correct. Qed.
Print Assumptions C07_numeric_sort_correct.

Theorem C07_numeric_sort_neg_zero :
  exists tn tp, encode (f2i two63) 0 = Some tn /\ encode (f2i 0) 0 = Some tp /\
                bcompare tn tp = Lt /\ f_compare two63 0 = Eq.
Proof. exact numeric_sort_neg_zero. Qed.
Print Assumptions C07_numeric_sort_neg_zero.

(* ---------- sorting by a multi-valued field, SortField.Mode min / max (Numeric/ProofsSortMode.v) ----------
   [filter_terms_by_mode] is the transcription of search/sort.go filterTermsByMode in Collect/TopN.v;
   [enc0 x] is the shift-0 term of the sortable int64 x. Whatever order the document's terms are
   visited in, mode min / max yields the term of the numerically least / greatest value. *)
From Coq Require Permutation.
From Verif Require Collect.TopN Numeric.ProofsSortMode.

Theorem C07_sort_mode_key : forall x l mf d,
  Forall (fun y => in_int64 y = true) (x :: l) ->
  Collect.TopN.filter_terms_by_mode 1 mf d (map ProofsSortMode.enc0 (x :: l)) = ProofsSortMode.enc0 (fold_left Z.min l x) /\
  Collect.TopN.filter_terms_by_mode 2 mf d (map ProofsSortMode.enc0 (x :: l)) = ProofsSortMode.enc0 (fold_left Z.max l x).
Proof. exact ProofsSortMode.sort_mode_key. Qed.
Print Assumptions C07_sort_mode_key.

Theorem C07_sort_mode_key_order_independent : forall vs vs' mf d mode,
  mode = 1 \/ mode = 2 ->
  Forall (fun y => in_int64 y = true) vs -> Permutation.Permutation vs vs' ->
  Collect.TopN.filter_terms_by_mode mode mf d (map ProofsSortMode.enc0 vs) =
  Collect.TopN.filter_terms_by_mode mode mf d (map ProofsSortMode.enc0 vs').
Proof. exact ProofsSortMode.sort_mode_key_order_independent. Qed.
Print Assumptions C07_sort_mode_key_order_independent.

(* ---------- link to Flocq's IEEE-754 semantics (Numeric/FlocqLink.v) ----------
   Required without Import so that [is_nan] etc. keep meaning the Model's definitions below.
   The real-number axioms reported here come only from Flocq's own validity proof inside
   [b64_of_bits]; C07_f_compare_Bcompare_FF is the same fact over arbitrary validity proofs and
   is closed under the global context. *)
From Flocq Require IEEE754.Binary IEEE754.Bits.
From Verif Require Numeric.FlocqLink.

Theorem C07_f_compare_Bcompare_FF : forall a b Ha Hb,
  in_u64 a = true -> in_u64 b = true -> Model.is_nan a = false -> Model.is_nan b = false ->
  Binary.Bcompare 53 1024
    (Binary.FF2B 53 1024 (Bits.binary_float_of_bits_aux 52 11 a) Ha)
    (Binary.FF2B 53 1024 (Bits.binary_float_of_bits_aux 52 11 b) Hb)
  = Some (f_compare a b).
Proof. exact FlocqLink.f_compare_Bcompare_FF. Qed.
Print Assumptions C07_f_compare_Bcompare_FF.

Theorem C07_f_compare_Bcompare : forall a b,
  in_u64 a = true -> in_u64 b = true -> Model.is_nan a = false -> Model.is_nan b = false ->
  Binary.Bcompare 53 1024 (Bits.b64_of_bits a) (Bits.b64_of_bits b) = Some (f_compare a b).
Proof. exact FlocqLink.f_compare_Bcompare. Qed.
Print Assumptions C07_f_compare_Bcompare.

Theorem C07_is_nan_b64 : forall a, in_u64 a = true ->
  Binary.is_nan 53 1024 (Bits.b64_of_bits a) = Model.is_nan a.
Proof. exact FlocqLink.is_nan_b64. Qed.
Print Assumptions C07_is_nan_b64.

Theorem C07_f2i_order_flocq : forall a b,
  in_u64 a = true -> in_u64 b = true -> Model.is_nan a = false -> Model.is_nan b = false ->
  is_neg_zero a = false -> is_neg_zero b = false ->
  Binary.Bcompare 53 1024 (Bits.b64_of_bits a) (Bits.b64_of_bits b) = Some (f2i a ?= f2i b).
Proof. exact FlocqLink.f2i_order_flocq. Qed.
Print Assumptions C07_f2i_order_flocq.

Theorem C07_numeric_sort_flocq : forall a b ta tb,
  in_u64 a = true -> in_u64 b = true -> Model.is_nan a = false -> Model.is_nan b = false ->
  is_neg_zero a = false -> is_neg_zero b = false ->
  encode (f2i a) 0 = Some ta -> encode (f2i b) 0 = Some tb ->
  Binary.Bcompare 53 1024 (Bits.b64_of_bits a) (Bits.b64_of_bits b) = Some (bcompare ta tb).
Proof. exact FlocqLink.numeric_sort_flocq. Qed.
Print Assumptions C07_numeric_sort_flocq.

Theorem C07_f_compare_Rcompare : forall a b,
  in_u64 a = true -> in_u64 b = true ->
  Binary.is_finite 53 1024 (Bits.b64_of_bits a) = true ->
  Binary.is_finite 53 1024 (Bits.b64_of_bits b) = true ->
  Raux.Rcompare (Binary.B2R 53 1024 (Bits.b64_of_bits a)) (Binary.B2R 53 1024 (Bits.b64_of_bits b))
  = f_compare a b.
Proof. exact FlocqLink.f_compare_Rcompare. Qed.
Print Assumptions C07_f_compare_Rcompare.

(* ---------- range splitting and enumeration half (Numeric/ProofsSplit1.v, ProofsSplit2.v,
   ProofsSplit.v) ----------
   All statements are for ALL int64 bounds and precision step 4 (the literal the searcher passes).
   Vocabulary defined in ProofsSplit1.v:
     vr_count v  := (vr_hi v - vr_lo v + 1) / 2 ^ vr_shift v       (number of prefixes spanned)
     vr_wf v     := 0 <= vr_shift v <= 63 /\ vr_lo v mod 2 ^ vr_shift v = 0 /\
                    (vr_hi v + 1) mod 2 ^ vr_shift v = 0 /\
                    min_int64 <= vr_lo v /\ vr_lo v <= vr_hi v /\ vr_hi v <= max_int64
     sum_count l := sum of vr_count over l
   and in ProofsSplit.v:
     ok_bits b   := in_u64 b = true /\ is_nan b = false /\ is_neg_zero b = false
     ok_opt o    := match o with Some b => ok_bits b | None => True end *)
From Verif Require Import Numeric.ProofsSplit1 Numeric.ProofsSplit2 Numeric.ProofsSplit.

Theorem C07_split_fuel_ok : forall lo hi,
  in_int64 lo = true -> in_int64 hi = true -> lo <= hi ->
  exists vrs, split_range lo hi 4 = Some vrs.
Proof. exact split_fuel_ok. Qed.
Print Assumptions C07_split_fuel_ok.

Theorem C07_split_rounds_le_16 : forall lo hi,
  in_int64 lo = true -> in_int64 hi = true -> lo <= hi ->
  exists vrs, split_loop 16 lo hi 0 4 = Some vrs.
Proof. exact split_rounds_le_16. Qed.
Print Assumptions C07_split_rounds_le_16.

Theorem C07_split_cover : forall lo hi vrs,
  in_int64 lo = true -> in_int64 hi = true -> split_range lo hi 4 = Some vrs ->
  forall x, lo <= x <= hi <-> exists vr, In vr vrs /\ vr_lo vr <= x <= vr_hi vr.
Proof. exact split_cover. Qed.
Print Assumptions C07_split_cover.

Theorem C07_split_disjoint : forall lo hi vrs,
  in_int64 lo = true -> in_int64 hi = true -> split_range lo hi 4 = Some vrs ->
  forall i j vi vj, i <> j -> nth_error vrs i = Some vi -> nth_error vrs j = Some vj ->
    vr_hi vi < vr_lo vj \/ vr_hi vj < vr_lo vi.
Proof. exact split_disjoint. Qed.
Print Assumptions C07_split_disjoint.

Theorem C07_split_ranges_wf : forall lo hi vrs,
  in_int64 lo = true -> in_int64 hi = true -> split_range lo hi 4 = Some vrs ->
  forall vr, In vr vrs ->
    (exists k, 0 <= k <= 15 /\ vr_shift vr = 4 * k) /\
    vr_lo vr mod 2 ^ vr_shift vr = 0 /\ (vr_hi vr + 1) mod 2 ^ vr_shift vr = 0 /\
    Z.lor (vr_hi vr) (2 ^ vr_shift vr - 1) = vr_hi vr /\
    lo <= vr_lo vr /\ vr_lo vr <= vr_hi vr /\ vr_hi vr <= hi /\
    1 <= vr_count vr <= 30.
Proof. exact split_ranges_wf. Qed.
Print Assumptions C07_split_ranges_wf.

Theorem C07_range_span : forall lo hi vrs,
  in_int64 lo = true -> in_int64 hi = true -> lo <= hi -> split_range lo hi 4 = Some vrs ->
  exists init last, vrs = init ++ [last] /\
    Forall (fun v => vr_count v <= 15) init /\ vr_count last <= 30 /\
    sum_count vrs <= 464 /\ (length vrs <= 31)%nat.
Proof. exact range_span. Qed.
Print Assumptions C07_range_span.

Theorem C07_enum7_total : forall v, vr_wf v -> vr_count v <= 64 ->
  exists tr l, vrange_terms v = Some tr /\ enum7 64 tr = Some l.
Proof. exact enum7_total. Qed.
Print Assumptions C07_enum7_total.

Theorem C07_enum7_spec : forall v tr l, vr_wf v -> vr_count v <= 64 ->
  vrange_terms v = Some tr -> enum7 64 tr = Some l ->
  map Some l = map (fun j => encode (vr_lo v + Z.of_nat j * 2 ^ vr_shift v) (vr_shift v))
                   (seq 0 (Z.to_nat (vr_count v))) /\
  Z.of_nat (length l) = vr_count v.
Proof. exact enum7_spec. Qed.
Print Assumptions C07_enum7_spec.

Theorem C07_range_candidates_total : forall lo hi,
  in_int64 lo = true -> in_int64 hi = true ->
  exists cands, range_candidates lo hi 4 = Some cands /\ (length cands <= 464)%nat.
Proof. exact range_candidates_total. Qed.
Print Assumptions C07_range_candidates_total.

Theorem C07_candidates_match_iff : forall lo hi x cands,
  in_int64 lo = true -> in_int64 hi = true -> in_int64 x = true ->
  range_candidates lo hi 4 = Some cands ->
  (existsb (fun c => mem_bytes c (index_terms 4 x)) cands = true <-> lo <= x <= hi).
Proof. exact candidates_match_iff. Qed.
Print Assumptions C07_candidates_match_iff.

Theorem C07_numeric_range_correct : forall mn mx imin imax v,
  ok_opt mn -> ok_opt mx -> ok_bits v ->
  range_matches_model 4 mn mx imin imax v = Some (range_matches_spec mn mx imin imax v).
Proof. exact numeric_range_correct. Qed.
Print Assumptions C07_numeric_range_correct.

(* the step bound of the legacy base-256 termRange.Enumerate is refuted on the faithful model *)
Theorem C07_enum256_refuted :
  exists lo hi vrs v tr, in_int64 lo = true /\ in_int64 hi = true /\ lo <= hi /\
    split_range lo hi 4 = Some vrs /\ In v vrs /\ vrange_terms v = Some tr /\
    2 ^ 56 < enum256_steps tr /\ enum7_steps tr = 2.
Proof. exact enum256_refuted. Qed.
Print Assumptions C07_enum256_refuted.
