(* C07 — property theorems only (each closed by [exact]) + Print Assumptions. *)
From Coq Require Import ZArith List.
From Verif Require Import Common.Bytes Numeric.Model Numeric.Proofs.
Import ListNotations.
Local Open Scope Z_scope.

Theorem C07_split_empty : forall lo hi step, hi < lo -> split_range lo hi step = Some [].
Proof. exact split_empty. Qed.
Print Assumptions C07_split_empty.
