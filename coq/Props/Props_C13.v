(* C13 — property theorems only (each closed by [exact]) + Print Assumptions.
   Over Scorch/Disk.v, for every event list accepted by [drun] from [dinit]. *)
From Coq Require Import ZArith List.
From Verif Require Import Scorch.Model Scorch.Disk
  Scorch.ProofsDisk1 Scorch.ProofsDisk4 Scorch.ProofsDisk5 Scorch.ProofsDisk6.
Import ListNotations.
Local Open Scope Z_scope.

(* rolling back to the record of epoch e and reopening gives exactly the state after the first
   k batches (k = batches introduced up to epoch e): later batches are gone entirely, records
   newer than e are gone, older ones untouched, and all invariants hold again *)
Theorem C13_rollback_restores : forall evs d e d1 d2 k,
  drun dinit evs = Some d ->
  dstep d (DRollback e) = Some d1 -> dstep d1 DRecover = Some d2 ->
  assocZ e (d_nb d) = Some k ->
  (forall id, root_lookup (root (d_core d2)) id = replay (firstn k (eff evs)) id)
  /\ d_bolt d2 = filter (fun b => br_epoch b <=? e) (d_bolt d)
  /\ epoch (d_core d2) = e
  /\ DInv (firstn k (eff evs)) d2.
Proof. exact rollback_restores. Qed.
Print Assumptions C13_rollback_restores.

(* every rollback point is a state the index really had *)
Theorem C13_rollback_points_are_states : forall evs d,
  drun dinit evs = Some d ->
  forall r, In r (d_bolt d) ->
  exists rr k, rec_root (d_segdocs d) (br_segs r) = Some rr
     /\ assocZ (br_epoch r) (d_nb d) = Some k /\ (k <= length (eff evs))%nat
     /\ forall id, root_lookup rr id = replay (firstn k (eff evs)) id.
Proof. exact rollback_points_are_states. Qed.
Print Assumptions C13_rollback_points_are_states.

Theorem C13_newest_never_purged : forall d eps d',
  dstep d (DPurgeBolt eps) = Some d' -> newest (d_bolt d') = newest (d_bolt d) /\ d_bolt d <> [].
Proof. exact newest_never_purged. Qed.
Print Assumptions C13_newest_never_purged.

(* once the first commit happened the list of rollback points is never empty again *)
Theorem C13_rollback_points_nonempty : forall evs d d',
  drun d evs = Some d' -> d_bolt d <> [] -> d_bolt d' <> [].
Proof. exact rollback_points_nonempty. Qed.
Print Assumptions C13_rollback_points_nonempty.
