(* C13 — property theorems only (each closed by [exact]) + Print Assumptions.
   Over Scorch/Disk.v, for every event list accepted by [drun] from [dinit]. *)
From Coq Require Import NArith ZArith List Permutation Sorted.
From Verif Require Import Scorch.Model Scorch.Disk
  Scorch.ProofsDisk1 Scorch.ProofsDisk4 Scorch.ProofsDisk5 Scorch.ProofsDisk6 Scorch.ProofsDisk10
  Scorch.Retention Scorch.RetentionProofs Scorch.RetentionProofs2
  Scorch.EpochCodec Scorch.EpochCodecProofs.
Import ListNotations.
Local Open Scope Z_scope.

(* rolling back to the record of epoch e and reopening gives exactly the state after the first
   k batches (k = batches introduced up to epoch e): later batches are gone entirely, records
   newer than e are gone, older ones untouched, and all invariants hold again *)
Theorem C13_rollback_restores : forall evs d e d1 d2 k,
  drun dinit evs = Some d ->
  dstep d (DRollback e) = Some d1 -> dstep d1 DRecover = Some d2 ->
  assocZ e (d_nb d) = Some k ->
  (forall id, root_lookup (root (d_core d2)) id = replay (firstn k (eff evs)) id)
  /\ d_bolt d2 = filter (fun b => br_epoch b <=? e) (d_bolt d)
  /\ epoch (d_core d2) = e
  /\ DInv (firstn k (eff evs)) d2.
Proof. exact rollback_restores. Qed.
Print Assumptions C13_rollback_restores.

(* every rollback point is a state the index really had *)
Theorem C13_rollback_points_are_states : forall evs d,
  drun dinit evs = Some d ->
  forall r, In r (d_bolt d) ->
  exists rr k, rec_root (d_segdocs d) (br_segs r) = Some rr
     /\ assocZ (br_epoch r) (d_nb d) = Some k /\ (k <= length (eff evs))%nat
     /\ forall id, root_lookup rr id = replay (firstn k (eff evs)) id.
Proof. exact rollback_points_are_states. Qed.
Print Assumptions C13_rollback_points_are_states.

(* ... identified by the internal values stored with it: the internal values of a rollback point
   are the SetInternal/DeleteInternal calls of exactly the batches its state consists of, replayed
   one call at a time ([ieff evs] = the internal calls of the batches in effect, one list per
   batch, parallel to [eff evs]); so each point carries the values of ITS state (e.g. the sequence
   number of its last batch), not those of any other point *)
Theorem C13_rollback_point_internals : forall evs d,
  drun dinit evs = Some d ->
  forall r, In r (d_bolt d) ->
  exists k, assocZ (br_epoch r) (d_nb d) = Some k /\ (k <= length (ieff evs))%nat
    /\ forall key, assoc_first key (br_int r) = spec_internal (concat (firstn k (ieff evs))) key.
Proof. exact rollback_point_internals. Qed.
Print Assumptions C13_rollback_point_internals.

(* after Rollback to the record of epoch e and reopening, the internal values are the ones that
   point announced: those of the first k batches *)
Theorem C13_rollback_restores_internals : forall evs d e d1 d2 k,
  drun dinit evs = Some d ->
  dstep d (DRollback e) = Some d1 -> dstep d1 DRecover = Some d2 ->
  assocZ e (d_nb d) = Some k ->
  exists r, In r (d_bolt d) /\ br_epoch r = e /\ internal (d_core d2) = br_int r
    /\ forall key, assoc_first key (internal (d_core d2)) = spec_internal (concat (firstn k (ieff evs))) key.
Proof. exact rollback_restores_internals. Qed.
Print Assumptions C13_rollback_restores_internals.

Theorem C13_newest_never_purged : forall d eps d',
  dstep d (DPurgeBolt eps) = Some d' -> newest (d_bolt d') = newest (d_bolt d) /\ d_bolt d <> [].
Proof. exact newest_never_purged. Qed.
Print Assumptions C13_newest_never_purged.

(* once the first commit happened the list of rollback points is never empty again *)
Theorem C13_rollback_points_nonempty : forall evs d d',
  drun d evs = Some d' -> d_bolt d <> [] -> d_bolt d' <> [].
Proof. exact rollback_points_nonempty. Qed.
Print Assumptions C13_rollback_points_nonempty.

(* ------------------------------------------------------------------------------------------
   Retention arithmetic (Scorch/Retention.v: getLiveSnapshots, getTimeSeriesSnapshots,
   getProtectedSnapshots, newCheckPoints, getBoundaryCheckPoint, removeOldBoltSnapshots):
   "the list always includes the most recent persisted state and honours the configured number
   of snapshots to keep".  Snapshot lists are newest first; [get_protected] is [None] only on an
   empty live list (where Go would panic and which its caller excludes). *)

(* the newest live snapshot is always protected — for every N, so in particular for N >= 1 *)
Theorem C13_latest_protected : forall N interval latest rest p,
  get_protected N interval (latest :: rest) = Some p ->
  In (s_epoch latest) (map s_epoch p).
Proof. exact latest_protected. Qed.
Print Assumptions C13_latest_protected.

Theorem C13_latest_protected_entry : forall N interval latest rest p,
  NoDup (map s_epoch (latest :: rest)) ->
  get_protected N interval (latest :: rest) = Some p -> In latest p.
Proof. exact latest_protected_entry. Qed.
Print Assumptions C13_latest_protected_entry.

(* sampling interval 0: the protected set is exactly the newest min(N, available) live
   snapshots (the latest one when N <= 0), in order *)
Theorem C13_interval0_keeps_latest_n : forall N live,
  live <> [] -> NoDup (map s_epoch live) ->
  get_protected N 0 live = Some (firstn (Z.to_nat (Z.max 1 N)) live).
Proof. exact interval0_keeps_latest_n. Qed.
Print Assumptions C13_interval0_keeps_latest_n.

(* ... and with interval <= 0 the live list itself is the newest N persisted snapshots *)
Theorem C13_live_interval0 : forall N interval fbits cps now meta,
  interval <= 0 -> 0 <= N ->
  get_live N interval fbits cps now meta = Some (firstn (Z.to_nat N) meta).
Proof. exact get_live_interval0. Qed.
Print Assumptions C13_live_interval0.

Theorem C13_protected_subset_live : forall N interval live p,
  get_protected N interval live = Some p -> incl p live.
Proof. exact protected_subset_live. Qed.
Print Assumptions C13_protected_subset_live.

(* never more than N protected (exactly one, the latest, when N <= 0) *)
Theorem C13_protected_card_le : forall N interval live p,
  get_protected N interval live = Some p -> Z.of_nat (length p) <= Z.max 1 N.
Proof. exact protected_card_le. Qed.
Print Assumptions C13_protected_card_le.

(* and never fewer: exactly min (max 1 N) |live| of them, for every sampling interval *)
Theorem C13_protected_card_eq : forall N interval live p,
  NoDup (map s_epoch live) ->
  get_protected N interval live = Some p ->
  length p = Nat.min (Z.to_nat (Z.max 1 N)) (length live).
Proof. exact protected_card_eq. Qed.
Print Assumptions C13_protected_card_eq.

(* removeOldBoltSnapshots' choice: epochsToRemove = eligible \ protected and
   newEligible = eligible /\ protected, both in the order of s.eligibleForRemoval *)
Theorem C13_purge_only_unprotected_eligible : forall prot eligible,
  partition_eligible prot eligible =
  (filter (fun e => negb (in_Z e (map s_epoch prot))) eligible,
   filter (fun e => in_Z e (map s_epoch prot)) eligible).
Proof. exact purge_only_unprotected_eligible. Qed.
Print Assumptions C13_purge_only_unprotected_eligible.

(* one whole purge (getLiveSnapshots at time [now], getProtectedSnapshots, the partition, the
   bucket deletions): the most recent persisted state is never removed *)
Theorem C13_purge_keeps_newest : forall N interval fbits now st st' n m0 rest,
  remove_old N interval fbits now st = Some (st', n) ->
  r_bolt st = m0 :: rest -> In m0 (r_bolt st').
Proof. exact purge_keeps_newest. Qed.
Print Assumptions C13_purge_keeps_newest.

Theorem C13_purge_removes_only_eligible : forall N interval fbits now st st' n s,
  remove_old N interval fbits now st = Some (st', n) ->
  In s (r_bolt st) -> ~ In s (r_bolt st') -> In (s_epoch s) (r_eligible st).
Proof. exact purge_removes_only_eligible. Qed.
Print Assumptions C13_purge_removes_only_eligible.

(* honours numSnapshotsToKeep: at least min (max 1 N) |live| rollback points survive a purge *)
Theorem C13_purge_keeps_wanted : forall N interval fbits now st st' n,
  NoDup (map s_epoch (r_bolt st)) ->
  remove_old N interval fbits now st = Some (st', n) ->
  exists live, get_live N interval fbits (r_cps st) now (r_bolt st) = Some live /\
    (live = [] \/ (Nat.min (Z.to_nat (Z.max 1 N)) (length live) <= length (r_bolt st'))%nat).
Proof. exact purge_keeps_wanted. Qed.
Print Assumptions C13_purge_keeps_wanted.

(* newCheckPoints leaves the order of equal time stamps to Go's map iteration; the only reader
   of s.checkPoints cannot tell the difference *)
Theorem C13_checkpoints_order_irrelevant : forall fbits p c ts,
  Permutation c p -> StronglySorted ts_desc c ->
  get_boundary fbits c ts = get_boundary fbits (new_checkpoints p) ts.
Proof. exact checkpoints_order_irrelevant. Qed.
Print Assumptions C13_checkpoints_order_irrelevant.

(* monotonicity of the time-series sampling.
   (1) it walks from the oldest snapshot towards the newest and never goes back *)
Theorem C13_time_series_oldest_to_newest : forall maxp interval snaps,
  exists idxs, time_series maxp interval snaps = map (nth_snap snaps) idxs /\ decreasing idxs /\
               Forall (fun i => (i < length snaps)%nat) idxs.
Proof. exact time_series_oldest_to_newest. Qed.
Print Assumptions C13_time_series_oldest_to_newest.

(* (2) one more data point extends the series at its end, by at most one snapshot *)
Theorem C13_time_series_mono_points : forall m interval snaps,
  exists ext, time_series (m + 1) interval snaps = time_series m interval snaps ++ ext
              /\ (length ext <= 1)%nat.
Proof. exact time_series_mono_points. Qed.
Print Assumptions C13_time_series_mono_points.

(* (3) raising numSnapshotsToKeep never drops a rollback point that was protected before *)
Theorem C13_protected_mono_N : forall N interval live p p',
  get_protected N interval live = Some p -> get_protected (N + 1) interval live = Some p' ->
  incl (map s_epoch p) (map s_epoch p').
Proof. exact protected_mono_N. Qed.
Print Assumptions C13_protected_mono_N.

(* (4) REFUTED: sampled points need not be a sampling interval apart (the older neighbour of an
   overshoot lies inside the interval) — witness: interval 10, stamps 20, 8, 0 *)
Theorem C13_sampling_spacing_refuted : exists maxp interval snaps,
  0 < interval /\ ts_sorted snaps /\ NoDup (map s_epoch snaps) /\
  ~ spaced interval (time_series maxp interval snaps).
Proof. exact sampling_spacing_refuted. Qed.
Print Assumptions C13_sampling_spacing_refuted.

(* ------------------------------------------------------------------------------------------
   Snapshot-epoch bucket keys (Scorch/EpochCodec.v: encodeUvarintAscending /
   decodeUvarintAscending of index/scorch/int.go).  "Every rollback point ... identified by the
   internal values stored with it, and the list always includes the most recent persisted
   state": RollbackPoints, Rollback, reopen and the purger find a snapshot by the encoding of
   its epoch and take "newest" to be the last key in bolt's byte order.  Epochs are uint64
   values (< two64 = 2^64); bytes are numbers below 256. *)

(* an epoch's key reads back as that epoch, whatever follows it *)
Theorem C13_epoch_decode_encode : forall v rest,
  (v < two64)%N -> decode (encode v ++ rest) = Some (rest, v).
Proof. exact decode_encode. Qed.
Print Assumptions C13_epoch_decode_encode.

(* bytes.Compare order of keys (bolt's cursor order) = numeric order of epochs *)
Theorem C13_epoch_encode_order : forall a b,
  (a < two64)%N -> (b < two64)%N -> ((a < b)%N <-> lex_lt (encode a) (encode b)).
Proof. exact encode_order. Qed.
Print Assumptions C13_epoch_encode_order.

Theorem C13_epoch_encode_injective : forall a b,
  (a < two64)%N -> (b < two64)%N -> encode a = encode b -> a = b.
Proof. exact encode_injective. Qed.
Print Assumptions C13_epoch_encode_injective.

(* no key is a prefix of another key *)
Theorem C13_epoch_encode_prefix_free : forall a b x,
  (a < two64)%N -> (b < two64)%N -> encode b = encode a ++ x -> a = b /\ x = [].
Proof. exact encode_prefix_free. Qed.
Print Assumptions C13_epoch_encode_prefix_free.

(* on arbitrary bytes the decoder fails or returns the value and remainder of exactly one of
   the three forms it accepts ([accepted]: the one-byte form of 0..109; a tag 246..253 with 1..8
   big-endian payload bytes, minimal or zero-padded; a tag below 136, which it does not reject
   but reads as 2^64-136+tag) — and it accepts every such form *)
Theorem C13_epoch_decode_total : forall bs rest v,
  bytes_ok bs -> decode bs = Some (rest, v) -> accepted bs rest v /\ (v < two64)%N.
Proof. exact decode_total. Qed.
Print Assumptions C13_epoch_decode_total.

Theorem C13_epoch_decode_accepts : forall bs rest v,
  accepted bs rest v -> decode bs = Some (rest, v).
Proof. exact decode_accepts. Qed.
Print Assumptions C13_epoch_decode_accepts.

(* a decoded value that did not come from the encoder's own form used a non-minimal
   length prefix or a tag below 136 *)
Theorem C13_epoch_decode_canonical : forall bs rest v,
  bytes_ok bs -> decode bs = Some (rest, v) ->
  bs = encode v ++ rest \/
  (exists n, (1 <= n <= 8)%nat /\ n <> width v /\ bs = encode_w n v ++ rest) \/
  (exists b0, (b0 < intZero)%N /\ bs = b0 :: rest).
Proof. exact decode_canonical. Qed.
Print Assumptions C13_epoch_decode_canonical.

(* the newest snapshot: the last key in byte order is the key of the largest epoch and
   decodes to it *)
Theorem C13_epoch_max_key_is_max_epoch : forall e es,
  (e < two64)%N -> Forall (fun x => (x < two64)%N) es ->
  max_key (encode e) (map encode es) = encode (max_epoch e es) /\
  decode (max_key (encode e) (map encode es)) = Some ([], max_epoch e es).
Proof. exact max_key_is_max_epoch. Qed.
Print Assumptions C13_epoch_max_key_is_max_epoch.

(* a cursor walk over the keys visits the epochs in numeric order *)
Theorem C13_epoch_keys_sorted_iff : forall es,
  Forall (fun x => (x < two64)%N) es ->
  (StronglySorted lex_lt (map encode es) <-> StronglySorted N.lt es).
Proof. exact keys_sorted_iff_epochs_sorted. Qed.
Print Assumptions C13_epoch_keys_sorted_iff.
