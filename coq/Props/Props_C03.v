(* C03 — property theorems only (each closed by [exact]) + Print Assumptions.
   The crash/recovery theorems over Scorch/Disk.v are added by Scorch/ProofsDisk*.v. *)
From Coq Require Import ZArith List.
From Verif Require Import Scorch.Model Scorch.ProofsCore.
Import ListNotations.
Local Open Scope Z_scope.

(* every root ever published is the replay of a whole-batch prefix: the persister can only ever
   write down such a state *)
Theorem C03_published_roots_are_prefixes :
  forall evs pub, published evs = Some pub ->
  forall r k, In (r, k) pub -> forall d, root_lookup r d = replay (firstn k (batches_of evs)) d.
Proof. exact reader_view_is_prefix. Qed.
Print Assumptions C03_published_roots_are_prefixes.
