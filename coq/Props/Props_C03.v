(* C03 — property theorems only (each closed by [exact]) + Print Assumptions.
   The crash/recovery theorems are about Scorch/Disk.v ([dstate], [dstep], [drun]) and hold for
   EVERY event list accepted by [drun] from [dinit]: any interleaving of core events, file
   writes, prepares, commits, acks, purges, zap removals, copies, crashes, recoveries, rollbacks.
   [eff evs] = the batches in effect after [evs]: appended at every EIntroduce, truncated at every
   DRecover to the batches the newest committed record covers (mirrors DiskCorr.x_eff). *)
From Coq Require Import ZArith List.
From Verif Require Import Scorch.Model Scorch.ProofsCore Scorch.Disk
  Scorch.ProofsDisk1 Scorch.ProofsDisk4 Scorch.ProofsDisk5 Scorch.ProofsDisk8 Scorch.ProofsDisk9
  Scorch.ProofsDisk10.
Import ListNotations.
Local Open Scope Z_scope.

(* every root ever published is the replay of a whole-batch prefix: the persister can only ever
   write down such a state *)
Theorem C03_published_roots_are_prefixes :
  forall evs pub, published evs = Some pub ->
  forall r k, In (r, k) pub -> forall d, root_lookup r d = replay (firstn k (batches_of evs)) d.
Proof. exact reader_view_is_prefix. Qed.
Print Assumptions C03_published_roots_are_prefixes.

(* I4: every committed record is the replay of a whole-batch prefix of the batches in effect,
   and every file it names is complete *)
Theorem C03_record_is_prefix : forall evs d,
  drun dinit evs = Some d ->
  forall r, In r (d_bolt d) ->
  (exists rr k, rec_root (d_segdocs d) (br_segs r) = Some rr
     /\ assocZ (br_epoch r) (d_nb d) = Some k
     /\ (k <= length (eff evs))%nat
     /\ forall id, root_lookup rr id = replay (firstn k (eff evs)) id)
  /\ (forall id, In id (named_by r) -> In id (d_files d)).
Proof. exact record_is_prefix. Qed.
Print Assumptions C03_record_is_prefix.

Theorem C03_records_monotone : forall evs d,
  drun dinit evs = Some d ->
  bsorted (d_bolt d)
  /\ forall r1 r2 k1 k2, In r1 (d_bolt d) -> In r2 (d_bolt d) -> br_epoch r1 <= br_epoch r2 ->
       assocZ (br_epoch r1) (d_nb d) = Some k1 -> assocZ (br_epoch r2) (d_nb d) = Some k2 ->
       (k1 <= k2)%nat.
Proof. exact records_monotone. Qed.
Print Assumptions C03_records_monotone.

(* a crash at any point followed by recovery yields a whole-batch prefix: never part of a batch *)
Theorem C03_crash_recovers_prefix : forall evs d,
  drun dinit evs = Some d ->
  forall d1 d2, dstep d DCrash = Some d1 -> dstep d1 DRecover = Some d2 ->
  forall id, root_lookup (root (d_core d2)) id = replay (firstn (covered d) (eff evs)) id.
Proof. exact crash_recovers_prefix. Qed.
Print Assumptions C03_crash_recovers_prefix.

(* ... and so are the internal values: exactly the SetInternal/DeleteInternal calls of that prefix
   ([ieff evs]: the internal calls of the batches in effect, one list per batch) *)
Theorem C03_crash_recovers_internals : forall evs d,
  drun dinit evs = Some d ->
  forall d1 d2, dstep d DCrash = Some d1 -> dstep d1 DRecover = Some d2 ->
  forall key, assoc_first key (internal (d_core d2))
              = spec_internal (concat (firstn (covered d) (ieff evs))) key.
Proof. exact crash_recovers_internals. Qed.
Print Assumptions C03_crash_recovers_internals.

(* recovery never fails once something was committed and never falls back past the newest
   committed record *)
Theorem C03_recover_succeeds : forall evs d,
  drun dinit evs = Some d -> d_bolt d <> [] ->
  forall d1, dstep d DCrash = Some d1 ->
  exists n rr d2, newest (d_bolt d) = Some n
    /\ rec_root (d_segdocs d) (sort_segs (br_segs n)) = Some rr
    /\ dstep d1 DRecover = Some d2
    /\ root (d_core d2) = rr /\ internal (d_core d2) = br_int n /\ epoch (d_core d2) = br_epoch n
    /\ d_bolt d2 = d_bolt d.
Proof. exact recover_succeeds. Qed.
Print Assumptions C03_recover_succeeds.

(* every acknowledged batch is covered by the newest committed record, in every reachable state
   (up or down); a rollback discards the batches after the rollback point together with their
   acknowledgements *)
Theorem C03_acked_survive : forall evs d,
  drun dinit evs = Some d ->
  forall k, In k (d_acked d) -> (k <= covered d)%nat.
Proof. exact acked_survive. Qed.
Print Assumptions C03_acked_survive.

Theorem C03_acked_in_recovered_prefix : forall evs d d1 d2,
  drun dinit evs = Some d ->
  dstep d DCrash = Some d1 -> dstep d1 DRecover = Some d2 ->
  exists n, (forall k, In k (d_acked d) -> (k <= n)%nat) /\ (n <= length (eff evs))%nat
    /\ forall id, root_lookup (root (d_core d2)) id = replay (firstn n (eff evs)) id.
Proof. exact acked_in_recovered_prefix. Qed.
Print Assumptions C03_acked_in_recovered_prefix.

(* files no committed record names may be present, absent or garbage at recovery *)
Theorem C03_garbage_tolerant : forall evs d d1 d2 fs,
  drun dinit evs = Some d ->
  dstep d DCrash = Some d1 -> dstep d1 DRecover = Some d2 ->
  (forall id, (exists b, In b (d_bolt d1) /\ In id (named_by b)) -> (In id fs <-> In id (d_files d1))) ->
  exists d2', dstep (with_files d1 fs) DRecover = Some d2'
    /\ root (d_core d2') = root (d_core d2)
    /\ (forall id, root_lookup (root (d_core d2')) id = replay (firstn (covered d) (eff evs)) id)
    /\ (forall f, In f (d_files d2') <-> In f (d_files d2)).
Proof. exact garbage_tolerant. Qed.
Print Assumptions C03_garbage_tolerant.

(* after any history — including any number of crashes, recoveries and rollbacks — the running
   index is the replay of the batches in effect, each document live at most once (C01 again) *)
Theorem C03_recover_then_continue : forall evs d,
  drun dinit evs = Some d -> d_up d = true ->
  Inv (d_core d)
  /\ (forall id, root_lookup (root (d_core d)) id = replay (eff evs) id)
  /\ (forall id, (root_live_copies (root (d_core d)) id <= 1)%nat)
  /\ d_batches d = length (eff evs).
Proof. exact recover_then_continue. Qed.
Print Assumptions C03_recover_then_continue.

Theorem C03_invariant_reachable : forall evs d,
  drun dinit evs = Some d -> DInv (eff evs) d.
Proof. exact reachable_DInv. Qed.
Print Assumptions C03_invariant_reachable.

Theorem C03_recovered_state_invariant : forall evs d d1,
  drun dinit evs = Some d -> dstep d DRecover = Some d1 ->
  DInv (firstn (covered d) (eff evs)) d1.
Proof. exact recovered_state_DInv. Qed.
Print Assumptions C03_recovered_state_invariant.

(* between rollbacks what is covered only grows and acknowledgements are only added (only a
   rollback can discard an acknowledged batch) *)
Theorem C03_acked_since_rollback_survive : forall pre post d0 d,
  drun dinit pre = Some d0 -> no_rollback post = true -> drun d0 post = Some d ->
  (covered d0 <= covered d)%nat
  /\ exists new, d_acked d = new ++ d_acked d0 /\ forall k, In k new -> (k <= covered d)%nat.
Proof. exact acked_since_rollback_survive. Qed.
Print Assumptions C03_acked_since_rollback_survive.

(* the segment registry agrees with every segment of the root *)
Theorem C03_segdocs_consistent : forall evs d,
  drun dinit evs = Some d ->
  forall s, In s (root (d_core d)) -> assocZ (sid s) (d_segdocs d) = Some (sdocs s).
Proof. exact segdocs_consistent. Qed.
Print Assumptions C03_segdocs_consistent.

(* no_name_reuse (I6): a freshly allocated segment id is not the name of a file on disk, not
   registered, not named by a committed record or the open transaction, not in the root, not a
   merge output *)
Theorem C03_no_name_reuse : forall evs d newsid b io d',
  drun dinit evs = Some d ->
  dstep d (DCore (EIntroduce newsid b io)) = Some d' -> batch_updates b <> [] ->
  ~ In newsid (d_files d)
  /\ ~ In newsid (map fst (d_segdocs d))
  /\ (forall r, In r (d_bolt d) -> ~ In newsid (named_by r))
  /\ (forall r, d_tx d = Some r -> ~ In newsid (named_by r))
  /\ ~ In newsid (map sid (root (d_core d)))
  /\ ~ In newsid (inflight_news (d_core d)).
Proof. exact no_name_reuse. Qed.
Print Assumptions C03_no_name_reuse.

(* the enabling conditions of DPrepare are satisfiable in every running state without an open
   transaction: the persister can always write down the current root *)
Theorem C03_prepare_current_root_enabled : forall evs d,
  drun dinit evs = Some d -> d_up d = true -> d_tx d = None ->
  dstep d (DPrepare (mkBrec (epoch (d_core d))
                            (map (fun s => (sid s, sdel s)) (root (d_core d)))
                            (internal (d_core d)))) <> None.
Proof. exact prepare_current_root_enabled. Qed.
Print Assumptions C03_prepare_current_root_enabled.

(* clean_close: when the persister has caught up, reopening shows exactly what the index had *)
Theorem C03_clean_close : forall evs d d1 d2,
  drun dinit evs = Some d -> d_up d = true -> covered d = d_batches d ->
  dstep d DCrash = Some d1 -> dstep d1 DRecover = Some d2 ->
  forall id, root_lookup (root (d_core d2)) id = root_lookup (root (d_core d)) id.
Proof. exact clean_close. Qed.
Print Assumptions C03_clean_close.

Theorem C03_recovery_idempotent : forall evs d d1,
  drun dinit evs = Some d -> dstep d DRecover = Some d1 ->
  d_up d1 = true /\ covered d1 = d_batches d1
  /\ forall d2 d3, dstep d1 DCrash = Some d2 -> dstep d2 DRecover = Some d3 ->
       forall id, root_lookup (root (d_core d3)) id = root_lookup (root (d_core d1)) id.
Proof. exact recovery_idempotent. Qed.
Print Assumptions C03_recovery_idempotent.
