(* C16 — property theorems only (each closed by [exact]) + Print Assumptions. *)
From Coq Require Import ZArith List Bool.
From Verif Require Import Common.Bytes Codec.Json Codec.StructCodec Codec.StructProofs
  Codec.MappingTables Codec.MappingProofs Codec.FuelProofs.
Import ListNotations.
Local Open Scope Z_scope.

(* generic: for ANY struct environment whose tables pass the boolean consistency check, decoding
   what was marshalled returns the record, at every struct level and nesting depth *)
Theorem C16_roundtrip_of_consistent_tables :
  forall (E : env) (strict : bool) (tfuel : nat) (stateless : list bytes),
    env_consistent E tfuel stateless = true ->
    forall fuel n sd r,
      lookup n E = Some sd ->
      wf_record E fuel sd r = true ->
      obind (marshal_struct E fuel sd r) (unmarshal_struct E strict fuel sd) = Some r.
Proof. exact roundtrip_of_consistent_tables. Qed.
Print Assumptions C16_roundtrip_of_consistent_tables.

Theorem C16_value_roundtrip_of_consistent_tables :
  forall (E : env) (strict : bool) (tfuel : nat) (stateless : list bytes),
    env_consistent E tfuel stateless = true ->
    forall fuel k v,
      wf_value E fuel k v = true ->
      obind (mval E fuel k v) (dval E strict fuel k (zero k)) = Some v.
Proof. exact value_roundtrip_of_consistent_tables. Qed.
Print Assumptions C16_value_roundtrip_of_consistent_tables.

(* the mapping tables regenerated from /repo (their consistency is Obligations_C16) *)
Theorem C16_mapping_roundtrip :
  forall fuel m, wf_mapping fuel m = true -> obind (to_json fuel m) (of_json fuel) = Some m.
Proof. exact mapping_roundtrip. Qed.
Print Assumptions C16_mapping_roundtrip.

Theorem C16_mapping_roundtrip_strict :
  forall fuel m, wf_mapping fuel m = true ->
    obind (to_json fuel m) (dval mapping_env true fuel root_kind VNil) = Some m.
Proof. exact mapping_roundtrip_strict. Qed.
Print Assumptions C16_mapping_roundtrip_strict.

Theorem C16_to_json_idempotent :
  forall fuel m, wf_mapping fuel m = true ->
    obind (obind (to_json fuel m) (of_json fuel)) (to_json fuel) = to_json fuel m.
Proof. exact to_json_idempotent. Qed.
Print Assumptions C16_to_json_idempotent.

Theorem C16_map_doc_roundtrip :
  forall (D O : Type) (map_doc : value -> D -> O) fuel m j m',
    wf_mapping fuel m = true -> to_json fuel m = Some j -> of_json fuel j = Some m' ->
    forall d, map_doc m' d = map_doc m d.
Proof. exact @map_doc_roundtrip. Qed.
Print Assumptions C16_map_doc_roundtrip.

Theorem C16_validate_roundtrip :
  forall (validate : value -> bool) fuel m j m',
    wf_mapping fuel m = true -> to_json fuel m = Some j -> of_json fuel j = Some m' ->
    validate m' = validate m /\ wf_mapping fuel m' = true.
Proof. exact validate_roundtrip. Qed.
Print Assumptions C16_validate_roundtrip.

Theorem C16_struct_level_roundtrip :
  forall name sd fuel r,
    lookup name mapping_env = Some sd ->
    wf_record mapping_env fuel sd r = true ->
    obind (marshal_struct mapping_env fuel sd r) (unmarshal_struct mapping_env mapping_strict fuel sd) = Some r.
Proof. exact struct_level_roundtrip. Qed.
Print Assumptions C16_struct_level_roundtrip.

(* fuel only bounds nesting depth: the domain of the theorems grows with it *)
Theorem C16_wf_fuel_monotone :
  forall (E : env) fuel fuel' k v,
    (fuel <= fuel')%nat -> wf_value E fuel k v = true -> wf_value E fuel' k v = true.
Proof. exact wf_value_mono. Qed.
Print Assumptions C16_wf_fuel_monotone.

(* the validity hypothesis "CustomAnalysis is not nil" cannot be dropped *)
Theorem C16_mapping_roundtrip_nil_analysis_refuted :
  obind (to_json case_fuel nil_analysis_mapping) (of_json case_fuel) = new_index_mapping
  /\ new_index_mapping <> Some nil_analysis_mapping
  /\ obind new_index_mapping (to_json case_fuel) <> to_json case_fuel nil_analysis_mapping.
Proof. exact mapping_roundtrip_nil_analysis_refuted. Qed.
Print Assumptions C16_mapping_roundtrip_nil_analysis_refuted.
