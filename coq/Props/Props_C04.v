(* C04 — property theorems only (each closed by [exact]) + Print Assumptions.
   [published evs] = the initial root and every root swapped in while running [evs], each with
   the number of EIntroduce events that preceded its publication; a reader holds one of them.
   [serialisable nids ws clients] (Scorch/Ser.v) = some serial order of all the batches of the
   writers [ws], respecting each writer's own order, explains every client's observations (each the
   state after a prefix that contains what had been acknowledged and nothing not yet submitted, the
   prefixes of one client never going backwards); [ser_check] is the search the harness's
   writers-on-the-same-documents cases are judged by, on every index type. *)
From Coq Require Import ZArith List.
From Verif Require Import Scorch.Model Scorch.ProofsCore Scorch.Ser Scorch.ProofsSer.
Import ListNotations.
Local Open Scope Z_scope.

Theorem C04_reader_view_is_prefix : forall evs pub,
  published evs = Some pub ->
  forall r k, In (r, k) pub ->
    forall d, root_lookup r d = replay (firstn k (batches_of evs)) d.
Proof. exact reader_view_is_prefix. Qed.
Print Assumptions C04_reader_view_is_prefix.

Theorem C04_monotone : forall evs pub,
  published evs = Some pub ->
  forall i j r1 k1 r2 k2, (i <= j)%nat ->
    nth_error pub i = Some (r1, k1) -> nth_error pub j = Some (r2, k2) -> (k1 <= k2)%nat.
Proof. exact trace_monotone. Qed.
Print Assumptions C04_monotone.

Theorem C04_ser_check_sound : forall nids ws clients,
  ser_check nids ws clients = true -> serialisable nids ws clients.
Proof. exact ser_check_sound. Qed.
Print Assumptions C04_ser_check_sound.

Theorem C04_ser_check_complete : forall nids ws clients,
  serialisable nids ws clients -> ser_check nids ws clients = true.
Proof. exact ser_check_complete. Qed.
Print Assumptions C04_ser_check_complete.
