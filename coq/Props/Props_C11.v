(* C11 — property theorems only (each closed by [exact]) + Print Assumptions.
   All statements are about the protocol model of Protocol/Model.v under the guard table the source
   has today ([default_guards], tied to /repo by Extracted/Obligations_C11.v), for ANY list of
   callers and ANY number of ForceMerge callers.  Freedom from data races and goroutine leaks is
   NOT a theorem here: it is searched by the harness (race detector, goroutine dump). *)
From Coq Require Import List Bool Arith.
From Verif Require Import Protocol.Model Protocol.ProofsInv Protocol.ProofsInv3 Protocol.ProofsProgress
     Protocol.ProofsClose Protocol.ProofsMisc.
Import ListNotations.

(* invariants of every reachable state (Protocol/ProofsInv.v [Inv]: reader count = callers inside;
   the write lock excludes readers; open = false implies nobody is past the open test; a caller
   waits for "applied" iff the introducer holds exactly its introduction; the persister / merger
   wait for a reply iff the introducer holds their request; unpicked persisted-waiters imply a newer
   root; exited loops imply closeCh closed; watcher and queue bookkeeping) *)
Theorem C11_invariants : forall s, reachable default_guards s -> Inv s.
Proof. exact inv_reachable. Qed.
Print Assumptions C11_invariants.

(* deadlock freedom, any number of callers *)
Theorem C11_no_stuck_state : forall s,
  reachable default_guards s -> terminated s = false -> enabled default_guards s <> [].
Proof. exact no_stuck_state. Qed.
Print Assumptions C11_no_stuck_state.

(* stronger: progress never depends on Close being issued *)
Theorem C11_callers_never_stuck : forall s,
  reachable default_guards s -> disk s = true \/ fms s = [] -> busy s = true ->
  exists l s', step default_guards s l = Some s' /\ l <> LKStart.
Proof. exact callers_never_stuck. Qed.
Print Assumptions C11_callers_never_stuck.

(* why the hypothesis above: ForceMerge on an in-memory scorch index waits until Close *)
Theorem C11_mem_forcemerge_waits_for_close :
  exists s, reachable default_guards s /\ disk s = false /\ nth_error (fms s) 0 = Some FWaitDone /\
            enabled default_guards s = [LKStart].
Proof. exact mem_forcemerge_waits_for_close. Qed.
Print Assumptions C11_mem_forcemerge_waits_for_close.

(* Close completes on every run that is weakly fair to the closer goroutine *)
Theorem C11_close_completes : forall r,
  reachable default_guards (r 0) -> is_run r -> closer_fair r -> holds_lock (kpc (r 0)) = true ->
  exists n, kpc (r n) = KDone /\ loops_exited (r n) = true.
Proof. exact close_completes. Qed.
Print Assumptions C11_close_completes.

(* the ranking: once closeCh is closed every step of every process strictly decreases [mu] *)
Theorem C11_close_ranking : forall s l s',
  reachable default_guards s -> closed s = true -> kpc s <> KDone ->
  step default_guards s l = Some s' -> mu s' < mu s.
Proof. exact close_ranking. Qed.
Print Assumptions C11_close_ranking.

(* calls after Close: the state they are in, and the only path they can take *)
Theorem C11_after_close_errors : forall s i c,
  reachable default_guards s -> nth_error (callers s) i = Some c ->
  match c with
  | CLocked _ true => open_ s = false
  | CUnlock r true | CDone r true => r = RClosed
  | _ => True
  end.
Proof. exact after_close_state. Qed.
Print Assumptions C11_after_close_errors.

Theorem C11_after_close_flag : forall s i s',
  step default_guards s (LRLock i) = Some s' ->
  exists k, nth_error (callers s') i = Some (CLocked k (match kpc s with KDone => true | _ => false end)).
Proof. exact after_flag_set. Qed.
Print Assumptions C11_after_close_flag.

Theorem C11_after_close_touches_no_channel : forall s l s' i c,
  reachable default_guards s -> step default_guards s l = Some s' ->
  nth_error (callers s) i = Some c -> afterc c = true ->
  exists c', nth_error (callers s') i = Some c' /\ afterc c' = true.
Proof. exact after_close_path. Qed.
Print Assumptions C11_after_close_touches_no_channel.

(* the guard facts are load-bearing: without the closeCh arm of "s.persists <- persist" Close hangs *)
Theorem C11_unguarded_persists_send_stuck :
  exists s, reachable guards_without_persists_arm s /\
            kpc s = KWaitTasks /\ ppc s = PSendPersist /\ terminated s = false /\
            enabled guards_without_persists_arm s = [].
Proof. exact unguarded_persists_send_stuck. Qed.
Print Assumptions C11_unguarded_persists_send_stuck.

(* collector: a cancelled context is observed within CheckDoneEvery (= E) matches *)
Theorem C11_cancel_prompt : forall E done n c b k,
  E > 0 ->
  (forall x y, x <= y -> done x = true -> done y = true) ->
  done c = true ->
  collect E done n = (b, k) ->
  k < c + E /\ k <= n /\ (b = true \/ k = n) /\ (b = true -> done k = true).
Proof. exact cancel_prompt. Qed.
Print Assumptions C11_cancel_prompt.
