(* C10 — facet counts describe all matching documents, not only the returned page.
   Property theorems only (each closed by [exact]) + Print Assumptions.
   Model and spec: Collect/Facets.v; proofs: Collect/Facets{Lemmas,Proofs,RangeProofs,CorrProofs}.v. *)
From Coq Require Import ZArith List Bool Permutation Sorted.
From Verif Require Import Common.Bytes Numeric.Model Collect.Facets Collect.FacetsLemmas
     Collect.FacetsProofs Collect.FacetsRangeProofs Collect.FacetsCorr Collect.FacetsCorrProofs.
Import ListNotations.
Local Open Scope Z_scope.

(* ---- terms facet ---- *)

Theorem C10_terms_facet_defined : forall f size ms,
  0 <= size -> exists r, terms_facet f size ms = Some r.
Proof. exact terms_facet_defined. Qed.
Print Assumptions C10_terms_facet_defined.

Theorem C10_terms_facet_spec : forall f size ms r,
  terms_facet f size ms = Some r ->
  (forall t c, In (t, c) (fr_entries r) -> accept f t = true /\ c = occ f t ms /\ 0 < c) /\
  ((forall d, In d ms -> NoDup d) -> forall t c, In (t, c) (fr_entries r) -> c = terms_count ms t) /\
  StronglySorted e_lt (fr_entries r) /\
  length (fr_entries r) = Nat.min (Z.to_nat size) (length (buckets f ms)) /\
  (forall t, In t (buckets f ms) -> ~ In t (map fst (fr_entries r)) ->
     forall e, In e (fr_entries r) -> e_lt e (t, occ f t ms)) /\
  fr_total r = total_spec ms /\
  fr_other r + zsum (map snd (fr_entries r)) = fr_total r /\
  fr_other r = rejected_spec f ms + unlisted_spec f ms (fr_entries r) /\
  fr_missing r = missing_spec f ms.
Proof. exact terms_facet_spec. Qed.
Print Assumptions C10_terms_facet_spec.

(* the buckets are exactly the accepted terms visited at least once *)
Theorem C10_buckets : forall f ms k,
  In k (buckets f ms) <-> accept f k = true /\ In k (concat ms).
Proof. exact buckets_meaning. Qed.
Print Assumptions C10_buckets.

(* the filters of the modelled class mean what their names say *)
Theorem C10_prefix_filter : forall p t, has_prefix p t = true <-> exists s, t = p ++ s.
Proof. exact has_prefix_iff. Qed.
Print Assumptions C10_prefix_filter.
Theorem C10_infix_filter : forall l t, has_infix l t = true <-> exists a b, t = a ++ l ++ b.
Proof. exact has_infix_iff. Qed.
Print Assumptions C10_infix_filter.
Theorem C10_suffix_filter : forall l t, has_suffix l t = true <-> exists a, t = a ++ l.
Proof. exact has_suffix_iff. Qed.
Print Assumptions C10_suffix_filter.

(* ---- numeric and date range facets (one builder shape, two instances) ---- *)

Theorem C10_range_facet_spec :
  forall (T R V : Type) (rname : R -> bytes) (value_of : T -> option V) (inr : R -> V -> bool)
         ranges size ms r,
  NoDup (map rname ranges) ->
  range_facet rname value_of inr ranges size ms = Some r ->
  (forall k c, In (k, c) (fr_entries r) ->
     exists x, In x ranges /\ rname x = k /\ c = range_count value_of inr x ms /\ 0 < c) /\
  StronglySorted e_lt (fr_entries r) /\
  length (fr_entries r) = Nat.min (Z.to_nat size) (length (nonempty_ranges value_of inr ranges ms)) /\
  (forall x, In x ranges -> 0 < range_count value_of inr x ms -> ~ In (rname x) (map fst (fr_entries r)) ->
     forall e, In e (fr_entries r) -> e_lt e (rname x, range_count value_of inr x ms)) /\
  fr_total r = range_total value_of inr ranges ms /\
  fr_other r + zsum (map snd (fr_entries r)) = fr_total r /\
  fr_other r = unlisted_ranges rname value_of inr ranges ms (fr_entries r) /\
  fr_missing r = range_missing ms.
Proof. exact @range_facet_spec. Qed.
Print Assumptions C10_range_facet_spec.

Theorem C10_numeric_facet_spec : forall ranges size (ms : list doc) r,
  NoDup (map nr_name ranges) ->
  numeric_facet ranges size ms = Some r ->
  (forall k c, In (k, c) (fr_entries r) ->
     exists x, In x ranges /\ nr_name x = k /\ c = range_count num_value_of num_inr x ms /\ 0 < c) /\
  StronglySorted e_lt (fr_entries r) /\
  length (fr_entries r) = Nat.min (Z.to_nat size) (length (nonempty_ranges num_value_of num_inr ranges ms)) /\
  (forall x, In x ranges -> 0 < range_count num_value_of num_inr x ms -> ~ In (nr_name x) (map fst (fr_entries r)) ->
     forall e, In e (fr_entries r) -> e_lt e (nr_name x, range_count num_value_of num_inr x ms)) /\
  fr_total r = range_total num_value_of num_inr ranges ms /\
  fr_other r + zsum (map snd (fr_entries r)) = fr_total r /\
  fr_other r = unlisted_ranges nr_name num_value_of num_inr ranges ms (fr_entries r) /\
  fr_missing r = range_missing ms.
Proof. exact (range_facet_spec nr_name num_value_of num_inr). Qed.
Print Assumptions C10_numeric_facet_spec.

Theorem C10_date_facet_spec : forall ranges size (ms : list doc) r,
  NoDup (map dr_name ranges) ->
  date_facet ranges size ms = Some r ->
  (forall k c, In (k, c) (fr_entries r) ->
     exists x, In x ranges /\ dr_name x = k /\ c = range_count date_value_of date_inr x ms /\ 0 < c) /\
  StronglySorted e_lt (fr_entries r) /\
  length (fr_entries r) = Nat.min (Z.to_nat size) (length (nonempty_ranges date_value_of date_inr ranges ms)) /\
  (forall x, In x ranges -> 0 < range_count date_value_of date_inr x ms -> ~ In (dr_name x) (map fst (fr_entries r)) ->
     forall e, In e (fr_entries r) -> e_lt e (dr_name x, range_count date_value_of date_inr x ms)) /\
  fr_total r = range_total date_value_of date_inr ranges ms /\
  fr_other r + zsum (map snd (fr_entries r)) = fr_total r /\
  fr_other r = unlisted_ranges dr_name date_value_of date_inr ranges ms (fr_entries r) /\
  fr_missing r = range_missing ms.
Proof. exact (range_facet_spec dr_name date_value_of date_inr). Qed.
Print Assumptions C10_date_facet_spec.

(* what "falls in the range" means: [min, max) with unbounded ends *)
Theorem C10_date_in_range : forall r v,
  date_inr r v = true <->
  (forall s, dr_start r = Some s -> s <= v) /\ (forall e, dr_end r = Some e -> v < e).
Proof. exact date_inr_iff. Qed.
Print Assumptions C10_date_in_range.

Theorem C10_num_in_range : forall r v,
  num_inr r v = true <->
  (forall m, nr_min r = Some m -> f_ge v m = true) /\ (forall m, nr_max r = Some m -> f_lt v m = true).
Proof. exact num_inr_iff. Qed.
Print Assumptions C10_num_in_range.

Theorem C10_float_ge_is_real_order : forall a b,
  is_nan a = false -> is_nan b = false -> f_ge a b = f_leb b a.
Proof. exact f_ge_nonnan. Qed.
Print Assumptions C10_float_ge_is_real_order.
Theorem C10_float_lt_is_real_order : forall a b,
  is_nan a = false -> is_nan b = false -> f_lt a b = f_ltb a b.
Proof. exact f_lt_nonnan. Qed.
Print Assumptions C10_float_lt_is_real_order.

(* ---- independence from the order of matches, of terms inside a match, and from paging ---- *)

Theorem C10_facet_perm : forall f size ms ms',
  Permutation ms ms' -> terms_facet f size ms = terms_facet f size ms'.
Proof. exact terms_facet_perm. Qed.
Print Assumptions C10_facet_perm.

Theorem C10_facet_perm_inner : forall f size ms ms',
  Forall2 (@Permutation bytes) ms ms' -> terms_facet f size ms = terms_facet f size ms'.
Proof. exact terms_facet_perm_inner. Qed.
Print Assumptions C10_facet_perm_inner.

Theorem C10_range_facet_perm :
  forall (T R V : Type) (rname : R -> bytes) (value_of : T -> option V) (inr : R -> V -> bool)
         ranges size ms ms',
  Permutation ms ms' ->
  range_facet rname value_of inr ranges size ms = range_facet rname value_of inr ranges size ms'.
Proof. exact @range_facet_perm. Qed.
Print Assumptions C10_range_facet_perm.

(* the collector loop updates the facet builders for every match, beside whatever the bounded
   store (Size / From / Sort / SearchAfter) does with it *)
Theorem C10_facets_see_every_match :
  forall (H S F D : Type) (offer : S -> H -> S) (facet_doc : F -> D -> F) s0 f0 (ms : list (H * D)),
  snd (collect offer facet_doc s0 f0 ms) = fold_left facet_doc (map snd ms) f0.
Proof. exact @collect_facets. Qed.
Print Assumptions C10_facets_see_every_match.

Theorem C10_facets_independent_of_paging :
  forall (H S S' : Type) (offer : S -> H -> S) (offer' : S' -> H -> S') s0 s0'
         f size (ms ms' : list (H * doc)),
  Permutation (map snd ms) (map snd ms') ->
  tfb_result size (snd (collect offer (tfb_doc f) s0 tfb_init ms)) =
  tfb_result size (snd (collect offer' (tfb_doc f) s0' tfb_init ms')).
Proof. exact @terms_facets_independent_of_paging. Qed.
Print Assumptions C10_facets_independent_of_paging.

Theorem C10_range_facets_independent_of_paging :
  forall (T R V : Type) (rname : R -> bytes) (value_of : T -> option V) (inr : R -> V -> bool)
         (H S S' : Type) (offer : S -> H -> S) (offer' : S' -> H -> S') s0 s0'
         ranges size (ms ms' : list (H * list T)),
  Permutation (map snd ms) (map snd ms') ->
  rfb_result size (snd (collect offer (rfb_doc rname value_of inr ranges) s0 rfb_init ms)) =
  rfb_result size (snd (collect offer' (rfb_doc rname value_of inr ranges) s0' rfb_init ms')).
Proof. exact @range_facets_independent_of_paging. Qed.
Print Assumptions C10_range_facets_independent_of_paging.

(* ---- modelling sort.Sort over a randomly ordered Go map by one deterministic sort is sound:
        a strictly sorted list is determined by its elements, and count maps with equal contents
        give equal results ---- *)

Theorem C10_sorted_unique : forall l1 l2,
  StronglySorted e_lt l1 -> StronglySorted e_lt l2 -> (forall e, In e l1 <-> In e l2) -> l1 = l2.
Proof. exact sorted_unique. Qed.
Print Assumptions C10_sorted_unique.

Theorem C10_result_independent_of_map_order : forall size c1 c2 total missing,
  wf c1 -> wf c2 -> (forall k, get k c1 = get k c2) ->
  finish size c1 total missing = finish size c2 total missing.
Proof. exact finish_ext. Qed.
Print Assumptions C10_result_independent_of_map_order.

(* ---- the correspondence check evaluated on the cases is the check as defined ---- *)

Theorem C10_check_is_direct : forall c, check c = check_direct c.
Proof. exact check_is_direct. Qed.
Print Assumptions C10_check_is_direct.

Theorem C10_checked_docs_nodup : forall tv d, In d (map dv_text tv) -> NoDup d.
Proof. exact checked_docs_nodup. Qed.
Print Assumptions C10_checked_docs_nodup.
