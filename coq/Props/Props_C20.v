(* C20 — property theorems only (each closed by [exact]) + Print Assumptions. *)
From Coq Require Import ZArith List Sorted.
From Verif Require Import Common.Bytes Nested.Model Nested.ProofsSpec.
Import ListNotations.
Local Open Scope Z_scope.

(* hits are parent documents, strictly ascending (given the documents in id order), each once *)
Theorem C20_sem_nested_roots : forall docs q,
  (forall i, In i (sem_nested docs q) -> In i (map did docs)) /\
  (StronglySorted Z.lt (map did docs) ->
     StronglySorted Z.lt (sem_nested docs q) /\ NoDup (sem_nested docs q)).
Proof. exact sem_nested_roots. Qed.
Print Assumptions C20_sem_nested_roots.

(* flat mapping: a leaf holds iff some element chain carries the term; a conjunction iff every
   conjunct holds (each possibly through a different element) *)
Theorem C20_flat_sem_spec : forall docs,
  (forall arrs f t i,
      In i (sem_flat docs (QTerm arrs f t)) <->
      exists d e, In d docs /\ did d = i /\ reaches (dtree d) arrs e /\ has_term e f t = true) /\
  (forall qs i,
      In i (sem_flat docs (QConj qs)) <->
      exists d, In d docs /\ did d = i /\ qs <> [] /\ forall q, In q qs -> satf q (dtree d) = true).
Proof. exact flat_sem_spec. Qed.
Print Assumptions C20_flat_sem_spec.

(* single-element satisfaction implies some-element satisfaction *)
Theorem C20_nested_le_flat : forall docs qs,
  forallb is_term qs = true ->
  forall i, In i (sem_nested docs (QConj qs)) -> In i (sem_flat docs (QConj qs)).
Proof. exact nested_le_flat. Qed.
Print Assumptions C20_nested_le_flat.
