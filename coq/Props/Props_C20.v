(* C20 — property theorems only (each closed by [exact]) + Print Assumptions. *)
From Coq Require Import ZArith List Sorted.
From Verif Require Import Common.Bytes Nested.Model Nested.ProofsSpec.
Import ListNotations.
Local Open Scope Z_scope.

(* hits are parent documents, strictly ascending (given the documents in id order), each once *)
Theorem C20_sem_nested_roots : forall docs q,
  (forall i, In i (sem_nested docs q) -> In i (map did docs)) /\
  (StronglySorted Z.lt (map did docs) ->
     StronglySorted Z.lt (sem_nested docs q) /\ NoDup (sem_nested docs q)).
Proof. exact sem_nested_roots. Qed.
Print Assumptions C20_sem_nested_roots.

(* flat mapping: a leaf holds iff some element chain carries the term; a conjunction iff every
   conjunct holds (each possibly through a different element) *)
Theorem C20_flat_sem_spec : forall docs,
  (forall arrs f t i,
      In i (sem_flat docs (QTerm arrs f t)) <->
      exists d e, In d docs /\ did d = i /\ reaches (dtree d) arrs e /\ has_term e f t = true) /\
  (forall qs i,
      In i (sem_flat docs (QConj qs)) <->
      exists d, In d docs /\ did d = i /\ qs <> [] /\ forall q, In q qs -> satf q (dtree d) = true).
Proof. exact flat_sem_spec. Qed.
Print Assumptions C20_flat_sem_spec.

(* single-element satisfaction implies some-element satisfaction *)
Theorem C20_nested_le_flat : forall docs qs,
  forallb is_term qs = true ->
  forall i, In i (sem_nested docs (QConj qs)) -> In i (sem_flat docs (QConj qs)).
Proof. exact nested_le_flat. Qed.
Print Assumptions C20_nested_le_flat.

(* ---------- mechanism (Nested/ProofsForest.v, ProofsJoin.v, ProofsFlatten.v, Proofs.v) ---------- *)
From Verif Require Import Nested.ProofsForest Nested.ProofsJoin Nested.ProofsFlatten Nested.Proofs.

(* [flatten] lays documents out as the theorems below need: ascending numbers, ancestors are
   earlier documents with the corresponding chains, level-j ancestors are monotone *)
Theorem C20_flatten_wf : forall docs, forest_wf (flatten docs).
Proof. exact flatten_wf. Qed.
Print Assumptions C20_flatten_wf.

(* collector: for ANY strictly ascending match stream over a flattened forest the folded output
   is exactly the distinct roots of the matches, each once, ascending *)
Theorem C20_nested_store_roots_once : forall docs stream,
  StronglySorted Z.lt stream ->
  (forall id, In id stream -> exists x, In x (flatten docs) /\ fn_id x = id) ->
  let out := fold_roots (flatten docs) stream in
  StronglySorted Z.lt out /\ NoDup out /\
  (forall r, In r out <-> exists m, In m stream /\ root_in (flatten docs) m = Some r).
Proof. exact nested_store_roots_once. Qed.
Print Assumptions C20_nested_store_roots_once.

(* NestedConjunctionSearcher: the transcribed join over child lists returns, ascending and once
   each, the child matches whose ancestor at joinIdx has a match from every child *)
Theorem C20_nested_conj_correct : forall F j cs,
  forest_wf F -> cs <> [] ->
  (forall c, In c cs -> StronglySorted Z.lt c /\ forall x, In x c -> exists k, key_at F j x = Some k) ->
  exists out, nested_join F j cs = Some out /\ StronglySorted Z.lt out /\
    forall x, In x out <->
      (In x (concat cs) /\ forall c, In c cs -> exists y, In y c /\ key_at F j y = key_at F j x).
Proof. exact nested_conj_correct. Qed.
Print Assumptions C20_nested_conj_correct.

(* DocCount = number of parents; after deleting parents (AddNestedDocuments) the rest *)
Theorem C20_count_roots : forall docs,
  count_root (flatten docs) [] = zlen docs /\
  forall drops, NoDup drops ->
    (forall r, In r drops -> exists x, In x (flatten docs) /\ is_root x = true /\ fn_id x = r) ->
    count_root (flatten docs) (add_nested (flatten docs) drops) = zlen docs - zlen drops.
Proof. exact count_roots. Qed.
Print Assumptions C20_count_roots.

(* a delete/update of parents obsoletes exactly the documents under those parents *)
Theorem C20_delete_closed : forall docs drops x,
  In x (flatten docs) ->
  (In (fn_id x) (add_nested (flatten docs) drops) <->
   exists r, root_of_anc (fn_anc x) = Some r /\ In r drops).
Proof. exact delete_closed. Qed.
Print Assumptions C20_delete_closed.

(* ---------- known findings: the full-strength statements are FALSE of today's searchers ----------
   nested_bool_correct_stmt := forall must should mustnot min docs,
        model_search docs (QBool must should mustnot min) = Some (sem_nested docs (QBool ...))
   nested_disj_correct_stmt := forall min qs docs,
        model_search docs (QDisj min qs) = Some (sem_nested docs (QDisj min qs)) *)
Theorem C20_nested_bool_correct_false : ~ nested_bool_correct_stmt.
Proof. exact nested_bool_correct_false. Qed.
Print Assumptions C20_nested_bool_correct_false.

Theorem C20_nested_bool_refuted :
  exists docs must mustnot,
    model_search docs (QBool must [] mustnot 0) = Some [1; 2] /\
    sem_nested docs (QBool must [] mustnot 0) = [] /\
    must = [QTerm [] w_top w_x] /\ mustnot = [QTerm [w_items] w_color w_red].
Proof. exact nested_bool_refuted. Qed.
Print Assumptions C20_nested_bool_refuted.

Theorem C20_nested_bool_sibling_refuted :
  exists docs must mustnot,
    model_search docs (QBool must [] mustnot 0) = Some [1; 2] /\
    sem_nested docs (QBool must [] mustnot 0) = [2] /\
    must = [QTerm [w_items] w_color w_red] /\ mustnot = [QTerm [w_parts] w_name w_n1].
Proof. exact nested_bool_sibling_refuted. Qed.
Print Assumptions C20_nested_bool_sibling_refuted.

Theorem C20_nested_bool_mustnot_only_refuted :
  exists docs,
    model_search docs (QBool [] [] [QTerm [] w_top w_x] 0) = Some [-1; -1; -1; -1; 4] /\
    sem_nested docs (QBool [] [] [QTerm [] w_top w_x] 0) = [4] /\
    model_search docs (QBool [] [] [QTerm [w_items] w_color w_red] 0) = Some [1; 2; 4] /\
    sem_nested docs (QBool [] [] [QTerm [w_items] w_color w_red] 0) = [4].
Proof. exact nested_bool_mustnot_only_refuted. Qed.
Print Assumptions C20_nested_bool_mustnot_only_refuted.

Theorem C20_nested_disj_correct_false : ~ nested_disj_correct_stmt.
Proof. exact nested_disj_correct_false. Qed.
Print Assumptions C20_nested_disj_correct_false.

Theorem C20_nested_disj_min_refuted :
  exists docs qs,
    model_search docs (QDisj 2 qs) = Some [] /\ sem_nested docs (QDisj 2 qs) = [1; 2] /\
    model_search docs (QBool [] qs [] 2) = Some [] /\ sem_nested docs (QBool [] qs [] 2) = [1; 2] /\
    qs = [QTerm [w_items] w_color w_red; QTerm [] w_top w_x].
Proof. exact nested_disj_min_refuted. Qed.
Print Assumptions C20_nested_disj_min_refuted.

(* ---------- mechanism = spec (Nested/ProofsCorr.v, ProofsSearch.v) ---------- *)
From Verif Require Import Nested.ProofsCorr Nested.ProofsSearch.

(* the same-array reading of the spec, spelled out: a conjunction of term leaves that all address
   fields of the array chain P holds for a parent iff ONE element chain along P carries every term *)
Theorem C20_same_array_conj_spec : forall P (leaves : list (bytes * bytes)) n,
  leaves <> [] ->
  (sat (QConj (map (fun l => QTerm P (fst l) (snd l)) leaves)) n 0 = true <->
   exists e, reaches n P e /\ forall l, In l leaves -> has_term e (fst l) (snd l) = true).
Proof. exact same_array_conj_spec. Qed.
Print Assumptions C20_same_array_conj_spec.

(* via flatten: for EVERY conjunction of term leaves (same array, several depths of one array,
   sibling arrays, top-level fields) the term searchers, joined as ConjunctionQuery.Searcher joins
   them (plain conjunction iff common depth = max depth, NestedConjunctionSearcher at the common
   depth otherwise), folded by the nested collector and mapped to external ids, return exactly
   sem_nested.  This is the proved part of the full statement
   [nested_search_correct_wellscoped_stmt] (ProofsSearch.v; not proved for disjunction / boolean /
   compound conjuncts, where T2 carries it). *)
Theorem C20_nested_search_correct_partial : forall docs leaves,
  leaves <> [] ->
  wellscoped (QConj (map leafq leaves)) = true /\
  model_search docs (QConj (map leafq leaves)) = Some (sem_nested docs (QConj (map leafq leaves))).
Proof. exact nested_search_correct_partial. Qed.
Print Assumptions C20_nested_search_correct_partial.
