(* C05 — property theorems only (each closed by [exact]) + Print Assumptions.
   Model level: what a reader can observe of a root (per-id lookup, live count) is a function
   of the replayed batches only, not of the segment layout produced by merges/persists. *)
From Coq Require Import ZArith List.
From Verif Require Import Scorch.Model Scorch.ProofsCore.
Import ListNotations.
Local Open Scope Z_scope.

Theorem C05_layout_irrelevant : forall evs1 evs2 s1 s2,
  run init evs1 = Some s1 -> run init evs2 = Some s2 ->
  (forall d, replay (batches_of evs1) d = replay (batches_of evs2) d) ->
  (forall d, root_lookup (root s1) d = root_lookup (root s2) d)
  /\ root_live_count (root s1) = root_live_count (root s2).
Proof. exact layout_irrelevant. Qed.
Print Assumptions C05_layout_irrelevant.

Theorem C05_merge_persist_invisible : forall evs s evs' s',
  run init evs = Some s -> run s evs' = Some s' -> batches_of evs' = [] ->
  (forall d, root_lookup (root s') d = root_lookup (root s) d)
  /\ root_live_count (root s') = root_live_count (root s).
Proof. exact merge_persist_invisible. Qed.
Print Assumptions C05_merge_persist_invisible.
