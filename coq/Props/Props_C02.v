(* C02 — "a search returns exactly the live documents that satisfy the query":
   property theorems only (each closed by [exact]) + Print Assumptions.

   [sem tr c q] (Cursor/Sem.v) is the specification: the numbers of the documents of corpus [c]
   that satisfy query [q] ([matches tr d q], the documented meaning evaluated on the analysed
   field values of ONE document; [tr] is the engine's fuzzy metric).  The correspondence check
   (Cursor/SemCorr.v + harness/cmd/c02) compares Index.Search with [sem] directly, under all 8
   request-option combinations; the theorems below say what kind of object [sem] is and tie its
   compound rules down.  Request options do not occur in [sem] at all; independence of the answer
   from them is a property of the correspondence for the leaf searchers, and a theorem for the
   compound searchers (C02_search_options_independent).

   THE LINK to the searcher machines of property C08 (last section of this file; definitions in
   Cursor/Link.v, proofs in Cursor/LinkProofs.v): [tree_of tr o c q] is the transcription of the
   Searcher() methods of ConjunctionQuery / DisjunctionQuery / BooleanQuery — the tree of searchers
   bleve builds for q under the request options o (leaf queries are cursors over their own meaning,
   which is what C08's reader theorems and the correspondence establish) — and for every
   [linkable] query the machine built for that tree enumerates exactly [sem tr c q], whatever the
   options.  [linkable] excludes one shape for which bleve and [sem] genuinely differ
   (C02_link_single_min_refuted); negative minimums, excluded until /repo 895ea25 made
   BooleanSearcher test Min() <= 0, are covered (C02_link_negative_min_values). *)
From Coq Require Import ZArith List Bool Sorted.
From Verif Require Import Common.Bytes Numeric.Model Cursor.Sem Cursor.SemProofsStr Cursor.SemProofs.
Import ListNotations.
Local Open Scope Z_scope.

(* ---------- what kind of object the answer is ---------- *)

(* no document twice: the answer is strictly ascending (hypothesis inhabited: SemProofs.ex_corpus_wf) *)
Theorem C02_sem_sorted_nodup : forall tr c q,
  corpus_wf c -> StronglySorted Z.lt (sem tr c q) /\ NoDup (sem tr c q).
Proof. exact sem_sorted_nodup. Qed.
Print Assumptions C02_sem_sorted_nodup.

(* only documents of the (live) corpus: never a deleted or unknown one *)
Theorem C02_sem_subset_corpus : forall tr c q n, In n (sem tr c q) -> In n (ids c).
Proof. exact sem_subset_corpus. Qed.
Print Assumptions C02_sem_subset_corpus.

(* exactly the satisfying documents *)
Theorem C02_sem_in : forall tr c q n,
  In n (sem tr c q) <-> exists d, In d c /\ d_num d = n /\ matches tr d q = true.
Proof. exact sem_in. Qed.
Print Assumptions C02_sem_in.

(* locality: whether document d is returned depends only on d's own field values *)
Theorem C02_sem_local : forall tr c q d,
  corpus_wf c -> In d c -> (In (d_num d) (sem tr c q) <-> matches tr d q = true).
Proof. exact sem_local. Qed.
Print Assumptions C02_sem_local.

Theorem C02_sem_local2 : forall tr c1 c2 q d,
  corpus_wf c1 -> corpus_wf c2 -> In d c1 -> In d c2 ->
  (In (d_num d) (sem tr c1 q) <-> In (d_num d) (sem tr c2 q)).
Proof. exact sem_local2. Qed.
Print Assumptions C02_sem_local2.

(* adding or removing one document does not change the verdict on any other document *)
Theorem C02_sem_insert : forall tr c1 c2 d0 q n,
  n <> d_num d0 -> (In n (sem tr (c1 ++ d0 :: c2) q) <-> In n (sem tr (c1 ++ c2) q)).
Proof. exact sem_insert. Qed.
Print Assumptions C02_sem_insert.

(* layout independence (what C05 needs): the corpus can be cut into segments anywhere *)
Theorem C02_sem_app : forall tr c1 c2 q, sem tr (c1 ++ c2) q = sem tr c1 q ++ sem tr c2 q.
Proof. exact sem_app. Qed.
Print Assumptions C02_sem_app.

Theorem C02_sem_concat : forall tr cs q, sem tr (concat cs) q = concat (map (fun c => sem tr c q) cs).
Proof. exact sem_concat. Qed.
Print Assumptions C02_sem_concat.

(* ---------- leaves with a set meaning ---------- *)

Theorem C02_sem_all : forall tr c, sem tr c QAll = ids c.
Proof. exact sem_all. Qed.
Print Assumptions C02_sem_all.

Theorem C02_sem_none : forall tr c, sem tr c QNone = [].
Proof. exact sem_none. Qed.
Print Assumptions C02_sem_none.

Theorem C02_sem_docids : forall tr c ns, sem tr c (QDocIds ns) = inter (ids c) ns.
Proof. exact sem_docids. Qed.
Print Assumptions C02_sem_docids.

(* ---------- conjunction = fold of intersection ---------- *)

Theorem C02_sem_conj_nil : forall tr c, sem tr c (QConj []) = [].
Proof. exact sem_conj_nil. Qed.
Print Assumptions C02_sem_conj_nil.

Theorem C02_sem_conj_inter : forall tr c k ks, corpus_wf c ->
  sem tr c (QConj (k :: ks)) = fold_left inter (map (sem tr c) ks) (sem tr c k).
Proof. exact sem_conj_inter. Qed.
Print Assumptions C02_sem_conj_inter.

Theorem C02_sem_conj_in : forall tr c ks n, corpus_wf c ->
  (In n (sem tr c (QConj ks)) <-> ks <> [] /\ In n (ids c) /\ forall k, In k ks -> In n (sem tr c k)).
Proof. exact sem_conj_in. Qed.
Print Assumptions C02_sem_conj_in.

(* ---------- disjunction with minimum ---------- *)

Theorem C02_sem_disj_count : forall tr c min2 ks, corpus_wf c ->
  sem tr c (QDisj min2 ks)
  = filter (fun n => Z.max 1 (floor_min min2) <=? countb (memZ n) (map (sem tr c) ks)) (ids c).
Proof. exact sem_disj_count. Qed.
Print Assumptions C02_sem_disj_count.

(* min <= 1: union *)
Theorem C02_sem_disj_union : forall tr c min2 ks, corpus_wf c -> floor_min min2 <= 1 ->
  sem tr c (QDisj min2 ks) = filter (fun n => existsb (memZ n) (map (sem tr c) ks)) (ids c).
Proof. exact sem_disj_union. Qed.
Print Assumptions C02_sem_disj_union.

Theorem C02_sem_disj_in : forall tr c min2 ks n, corpus_wf c -> floor_min min2 <= 1 ->
  (In n (sem tr c (QDisj min2 ks)) <-> exists k, In k ks /\ In n (sem tr c k)).
Proof. exact sem_disj_in. Qed.
Print Assumptions C02_sem_disj_in.

Theorem C02_sem_disj_nil : forall tr c min2, sem tr c (QDisj min2 []) = [].
Proof. exact sem_disj_nil. Qed.
Print Assumptions C02_sem_disj_nil.

Theorem C02_sem_disj_min_mono : forall tr c m1 m2 ks n,
  floor_min m1 <= floor_min m2 -> In n (sem tr c (QDisj m2 ks)) -> In n (sem tr c (QDisj m1 ks)).
Proof. exact sem_disj_min_mono. Qed.
Print Assumptions C02_sem_disj_min_mono.

(* ---------- boolean must / should / must-not / filter ---------- *)

Theorem C02_bool_empty : forall tr c min2, sem tr c (QBool [] [] min2 [] None) = [].
Proof. exact bool_empty. Qed.
Print Assumptions C02_bool_empty.

Theorem C02_bool_must_only : forall tr c must min2,
  sem tr c (QBool must [] min2 [] None) = sem tr c (QConj must).
Proof. exact bool_must_only. Qed.
Print Assumptions C02_bool_must_only.

Theorem C02_bool_should_only : forall tr c should min2,
  sem tr c (QBool [] should min2 [] None) = sem tr c (QDisj min2 should).
Proof. exact bool_should_only. Qed.
Print Assumptions C02_bool_should_only.

(* with a must clause, should is optional for floor min = 0 and required min times otherwise
   (the rule that score:"none" breaks in the implementation: DESIGN.md section 8 item 5) *)
Theorem C02_bool_must_should : forall tr c must should min2,
  corpus_wf c -> must <> [] -> should <> [] ->
  sem tr c (QBool must should min2 [] None)
  = if floor_min min2 <=? 0 then sem tr c (QConj must)
    else inter (sem tr c (QConj must)) (sem tr c (QDisj min2 should)).
Proof. exact bool_must_should. Qed.
Print Assumptions C02_bool_must_should.

(* must-not removes exactly the must-not matches *)
Theorem C02_bool_mustnot : forall tr c must should min2 mustnot filter,
  corpus_wf c -> (must <> [] \/ should <> [] \/ filter <> None) ->
  sem tr c (QBool must should min2 mustnot filter)
  = diff (sem tr c (QBool must should min2 [] filter)) (sem tr c (QDisj 2 mustnot)).
Proof. exact bool_mustnot. Qed.
Print Assumptions C02_bool_mustnot.

(* must-not only starts from all documents (De Morgan) *)
Theorem C02_bool_mustnot_spec : forall tr c min2 mustnot, corpus_wf c -> mustnot <> [] ->
  sem tr c (QBool [] [] min2 mustnot None) = diff (ids c) (sem tr c (QDisj 2 mustnot)).
Proof. exact bool_mustnot_spec. Qed.
Print Assumptions C02_bool_mustnot_spec.

Theorem C02_bool_mustnot_in : forall tr c min2 mustnot n, corpus_wf c -> mustnot <> [] ->
  (In n (sem tr c (QBool [] [] min2 mustnot None))
   <-> In n (ids c) /\ forall k, In k mustnot -> ~ In n (sem tr c k)).
Proof. exact bool_mustnot_in. Qed.
Print Assumptions C02_bool_mustnot_in.

(* filter is a plain restriction *)
Theorem C02_bool_filter : forall tr c must should min2 mustnot fq, corpus_wf c ->
  sem tr c (QBool must should min2 mustnot (Some fq))
  = inter (if nonempty must || nonempty should || nonempty mustnot
           then sem tr c (QBool must should min2 mustnot None) else ids c)
          (sem tr c fq).
Proof. exact bool_filter. Qed.
Print Assumptions C02_bool_filter.

(* the whole boolean rule in terms of the clauses' own answers *)
Theorem C02_bool_in : forall tr c must should min2 mustnot filter n, corpus_wf c ->
  (In n (sem tr c (QBool must should min2 mustnot filter)) <->
     In n (ids c)
     /\ (must <> [] \/ should <> [] \/ mustnot <> [] \/ filter <> None)
     /\ (forall k, In k must -> In n (sem tr c k))
     /\ (forall k, In k mustnot -> ~ In n (sem tr c k))
     /\ (should <> [] ->
         (if nonempty must then floor_min min2 else Z.max 1 (floor_min min2))
         <= countb (memZ n) (map (sem tr c) should))
     /\ (forall fq, filter = Some fq -> In n (sem tr c fq))).
Proof. exact bool_in. Qed.
Print Assumptions C02_bool_in.

(* ---------- match / phrase reduce to terms ---------- *)

Theorem C02_match_or_terms : forall tr c f ts pre,
  sem tr c (QMatch f ts false (Some 0) pre) = sem tr c (QDisj 2 (map (QTerm f) ts)).
Proof. exact match_or_terms. Qed.
Print Assumptions C02_match_or_terms.

Theorem C02_match_and_terms : forall tr c f ts pre,
  sem tr c (QMatch f ts true (Some 0) pre) = sem tr c (QConj (map (QTerm f) ts)).
Proof. exact match_and_terms. Qed.
Print Assumptions C02_match_and_terms.

Theorem C02_phrase_single_term : forall tr c f t, t <> [] ->
  sem tr c (QPhrase f [[t]] (Some 0)) = sem tr c (QTerm f t).
Proof. exact phrase_single_term. Qed.
Print Assumptions C02_phrase_single_term.

(* ---------- the string matchers of the spec are correct ---------- *)

(* regexp: the executable matcher decides the inductive matching relation (whole term) *)
Theorem C02_rmatch_correct : forall r w, rmatch r w = true <-> rmatches r w.
Proof. exact rmatch_correct. Qed.
Print Assumptions C02_rmatch_correct.

(* wildcard: '?' one character, '*' any sequence *)
Theorem C02_wildcard_correct : forall p w, rmatch (wild_regex p) w = true <-> wmatches p w.
Proof. exact wildcard_correct. Qed.
Print Assumptions C02_wildcard_correct.

Theorem C02_is_prefix_spec : forall p w, is_prefix p w = true <-> exists s, w = p ++ s.
Proof. exact is_prefix_spec. Qed.
Print Assumptions C02_is_prefix_spec.

(* fuzzy: the executable test decides "reachable by an alignment with at most k unit edits"
   (with adjacent transpositions iff tr) *)
Theorem C02_edit_distance_spec : forall tr k a b,
  within tr k a b = true <-> exists n, (n <= k)%nat /\ edits tr n a b.
Proof. exact within_spec. Qed.
Print Assumptions C02_edit_distance_spec.

Theorem C02_edit_distance_refl : forall tr k a, within tr k a a = true.
Proof. exact within_refl. Qed.
Print Assumptions C02_edit_distance_refl.

Theorem C02_edit_distance_sym : forall tr k a b, within tr k a b = within tr k b a.
Proof. exact within_sym. Qed.
Print Assumptions C02_edit_distance_sym.

Theorem C02_edit_distance_zero : forall tr a b, within tr 0 a b = true <-> a = b.
Proof. exact within_zero. Qed.
Print Assumptions C02_edit_distance_zero.

Theorem C02_edit_distance_mono : forall tr k k' a b,
  (k <= k')%nat -> within tr k a b = true -> within tr k' a b = true.
Proof. exact within_mono. Qed.
Print Assumptions C02_edit_distance_mono.

Theorem C02_edits_length : forall tr n a b,
  edits tr n a b -> (length a <= length b + n /\ length b <= length a + n)%nat.
Proof. exact edits_length. Qed.
Print Assumptions C02_edits_length.

(* the check function of the correspondence accepts only well-formed corpora *)
Theorem C02_corpus_wfb_spec : forall c, corpus_wfb c = true <-> corpus_wf c.
Proof. exact corpus_wfb_spec. Qed.
Print Assumptions C02_corpus_wfb_spec.

(* ---------- THE LINK: the searcher tree built for a query enumerates exactly sem ----------
   Vocabulary (Cursor/Link.v): [options] = the request settings that steer the construction
   (score "none", term vectors, which leaf searchers are Optimizable, DisjunctionHeapTakeover,
   DisjunctionMaxClauseCount); [tree_of tr o c q] = the searcher tree of BooleanQuery /
   ConjunctionQuery / DisjunctionQuery.Searcher (None = the clause-count error); [linkable q] =
   no disjunction / should list with exactly one clause has int(min) >= 2 (negative minimums
   are linkable).  From Cursor/Machines.v (C08):
   [build t] = the searcher state machine of tree t, [run fuel s prog] = its results on a program
   of Next / Advance calls, [denote t] = the tree's set expression, [wf t] = C08's hypothesis. *)
From Verif Require Import Cursor.Cursor Cursor.Machines Cursor.MachProofsTree Cursor.Link
  Cursor.LinkProofs Cursor.LinkExamples.

(* the set expression of the tree IS the documented meaning (hypotheses inhabited:
   LinkExamples.link_example, LinkProofs.tree_of_total) *)
Theorem C02_denote_tree_of : forall tr o c q t,
  tree_of tr o c q = Some t -> corpus_wf c -> linkable q = true -> denote t = sem tr c q.
Proof. exact denote_tree_of. Qed.
Print Assumptions C02_denote_tree_of.

(* ... and the tree satisfies the hypothesis of C08's tree theorem *)
Theorem C02_tree_of_wf : forall tr o c q t,
  tree_of tr o c q = Some t -> corpus_wf c -> linkable q = true -> wf t.
Proof. exact tree_of_wf. Qed.
Print Assumptions C02_tree_of_wf.

(* search_correct: the Next-only enumeration of the built searcher returns exactly sem tr c q, in
   ascending order, and then nil *)
Theorem C02_search_correct : forall tr o c q t,
  tree_of tr o c q = Some t -> corpus_wf c -> linkable q = true ->
  exists N, forall fuel, (N <= fuel)%nat ->
    run fuel (build t) (repeat Next (S (length (sem tr c q)))) = Some (map Some (sem tr c q) ++ [None]).
Proof. exact search_correct. Qed.
Print Assumptions C02_search_correct.

(* ... and stays exhausted however often Next is called again *)
Theorem C02_search_exhausted : forall tr o c q t,
  tree_of tr o c q = Some t -> corpus_wf c -> linkable q = true ->
  forall k, exists N, forall fuel, (N <= fuel)%nat ->
    run fuel (build t) (repeat Next (length (sem tr c q)) ++ Next :: repeat Next k)
    = Some (map Some (sem tr c q) ++ None :: repeat None k).
Proof. exact search_exhausted. Qed.
Print Assumptions C02_search_exhausted.

(* on EVERY program of Next / Advance calls the built searcher is the reference cursor over sem *)
Theorem C02_search_cursor : forall tr o c q t,
  tree_of tr o c q = Some t -> corpus_wf c -> linkable q = true ->
  forall prog, exists N, forall fuel, (N <= fuel)%nat ->
    run fuel (build t) prog = Some (run_spec (sem tr c q) prog).
Proof. exact search_cursor. Qed.
Print Assumptions C02_search_cursor.

(* what a caller sees: no duplicate, no non-matching document, no matching document missing *)
Theorem C02_search_sound_complete : forall tr o c q t,
  tree_of tr o c q = Some t -> corpus_wf c -> linkable q = true ->
  exists N, forall fuel, (N <= fuel)%nat ->
    exists rs, run fuel (build t) (repeat Next (S (length (sem tr c q)))) = Some rs /\
      StronglySorted Z.lt (somes rs) /\ NoDup (somes rs) /\
      (forall n, In n (somes rs) <-> exists d, In d c /\ d_num d = n /\ matches tr d q = true).
Proof. exact search_sound_complete. Qed.
Print Assumptions C02_search_sound_complete.

(* the answer is the same whether or not scoring (or anything else in the options) is requested *)
Theorem C02_search_options_independent : forall tr c q o1 o2 t1 t2,
  corpus_wf c -> linkable q = true ->
  tree_of tr o1 c q = Some t1 -> tree_of tr o2 c q = Some t2 ->
  denote t1 = denote t2 /\
  forall prog, exists N, forall fuel, (N <= fuel)%nat ->
    run fuel (build t1) prog = run fuel (build t2) prog /\
    run fuel (build t1) prog = Some (run_spec (sem tr c q) prog).
Proof. exact search_options_independent. Qed.
Print Assumptions C02_search_options_independent.

(* Searcher() fails only through DisjunctionMaxClauseCount (0 = unlimited in the source): the
   hypothesis [tree_of ... = Some t] holds for every query, corpus and option setting *)
Theorem C02_tree_of_total : forall tr c q o, max_clauses o = 0%nat -> exists t, tree_of tr o c q = Some t.
Proof. exact tree_of_total. Qed.
Print Assumptions C02_tree_of_total.

(* the "conjunction" push-down that narrows term leaves inside a scoring conjunction (not part
   of tree_of) cannot change a conjunction's answer *)
Theorem C02_conj_pushdown_invariant : forall (B : Z -> Prop) ls ls',
  Forall ascending ls -> Forall ascending ls' ->
  (forall x, Forall (In x) ls -> B x) ->
  Forall2 (fun l' l => l' = l \/ forall x, In x l' <-> In x l /\ B x) ls' ls ->
  inter_all ls' = inter_all ls.
Proof. exact conj_pushdown_invariant. Qed.
Print Assumptions C02_conj_pushdown_invariant.

(* formerly outside [linkable]: must + should with min_should <= -1.  int(min) is a negative Min();
   since /repo 895ea25 BooleanSearcher tests Min() <= 0, as Machines.v does, and the tree denotes
   what the documented reading says (should optional) under every option setting *)
Theorem C02_link_negative_min_values :
  (forall o min2, In o [opts_scoring; opts_score_none; opts_upsidedown false; opts_upsidedown true] ->
     In min2 [-2; -4; -1; -2000000; 0; 1] ->
     linkable (neg_query min2) = true /\
     match tree_of true o neg_corpus (neg_query min2) with Some t => denote t = [1; 2] | None => False end) /\
  (forall min2, In min2 [-2; -4; -1; -2000000; 0; 1] -> sem true neg_corpus (neg_query min2) = [1; 2]) /\
  (match tree_of true opts_scoring neg_corpus (neg_query 2) with Some t => denote t = [2] | None => False end) /\
  sem true neg_corpus (neg_query 2) = [2].
Proof. exact link_negative_min_values. Qed.
Print Assumptions C02_link_negative_min_values.

(* outside [linkable]: a one-clause disjunction with int(min) >= 2 inside an optimisable
   compound — right with scoring, wrong (and different) under score "none" *)
Theorem C02_link_single_min_refuted :
  exists c q t1 t2, corpus_wf c /\ linkable q = false /\
    tree_of true opts_scoring c q = Some t1 /\ tree_of true opts_score_none c q = Some t2 /\
    wf t1 /\ wf t2 /\
    denote t1 = sem true c q /\ denote t2 <> sem true c q.
Proof. exact link_single_min_refuted. Qed.
Print Assumptions C02_link_single_min_refuted.
