(* C09 — searching an alias over shards equals searching one index with all documents.
   Property theorems only (each closed by [exact]) + Print Assumptions.
   Model: Collect/Shards.v, Collect/ShardsPre.v (pre-search); proofs: Collect/ShardsSort.v, ShardsProofs.v,
   ShardsFacetProofs.v, ShardsFacetTree.v, ShardsPreProofs.v;
   T1 facts: Extracted.XAlias, obligations Extracted/Obligations_C09.v. *)
From Coq Require Import ZArith List Permutation.
From Verif Require Import Common.Bytes Collect.Shards Collect.ShardsSort Collect.ShardsProofs
  Collect.ShardsFacetProofs Collect.ShardsFacetTree Collect.ShardsPre Collect.ShardsPreProofs
  Extracted.Extracted Extracted.Obligations_C09.
Import ListNotations.
Local Open Scope Z_scope.

(* topk_merge — for ANY partition of the matches into shards (any number, empty ones included; the
   shards' matches observe — ids, keys, stored fields; HitNumber is shard-local — as a permutation of
   the matches [all] of the single index), any total sort order, any from >= 0, any size > 0, and
   either trim guard: the page hitsInCurrentPage cuts out of the members' top (from+size) is the
   slice [from, from+size) of the globally sorted matches *)
Theorem C09_topk_merge : forall g desc (shards : list (list hit)) (all : list hit) from size,
  desc <> [] -> total_keys desc all ->
  Permutation (map hobs (concat shards)) (map hobs all) ->
  0 <= from -> 0 < size ->
  map hobs (hits_in_current_page g desc from size
              (concat (map (fun s => firstn (Z.to_nat (size + from)) (sort_hits desc s)) shards)))
  = map hobs (slice from size (sort_hits desc all)).
Proof. exact topk_merge. Qed.
Print Assumptions C09_topk_merge.

(* total_adds — the alias' Total is the sum of the members' totals *)
Theorem C09_total_adds : forall rs,
  r_total (merge_results (map Some rs)) = fold_right Z.add 0 (map r_total rs).
Proof. exact total_adds. Qed.
Print Assumptions C09_total_adds.

(* the property on alias trees (nested aliases, single-member short circuit, SearchAfter,
   SearchBefore, every page the trim guard lets through): the alias answers — up to HitNumber —
   what one index holding all the matches answers, and Total is the number of all matches *)
Theorem C09_alias_tree_page : forall g t rq,
  wf_tree t = true -> rq_ok g rq -> total_keys (q_desc rq) (all_matches t) ->
  exists r, search g t rq = Some r /\
            map hobs (r_hits r) = spec_page rq t /\ r_total r = spec_total t.
Proof. exact alias_tree_page. Qed.
Print Assumptions C09_alias_tree_page.

(* alias_tree_flatten — a tree of aliases answers as the flat alias of its leaves *)
Theorem C09_alias_tree_flatten : forall g t rq,
  wf_tree t = true -> rq_ok g rq -> total_keys (q_desc rq) (all_matches t) ->
  exists r r', search g t rq = Some r /\ search g (flatten t) rq = Some r' /\
               map hobs (r_hits r) = map hobs (r_hits r') /\ r_total r = r_total r'.
Proof. exact alias_tree_flatten. Qed.
Print Assumptions C09_alias_tree_flatten.

(* facet_merge_exact — terms facets: when the facet size covers all the terms of the union, merging
   the members' facet results (FacetResult.Merge in any member order, then Fixup) gives exactly the
   facet result of the union of the members' documents: same Total / Missing / Other, same terms with
   the same counts, count descending then term ascending *)
Theorem C09_facet_merge_exact : forall size (s0 : list (list bytes)) (shards : list (list (list bytes))),
  zlen (terms_count (concat (s0 :: shards))) <= size ->
  fres_fixup size (fold_left fres_merge (map (terms_build size) shards) (terms_build size s0))
  = terms_build size (concat (s0 :: shards)).
Proof. exact facet_merge_exact. Qed.
Print Assumptions C09_facet_merge_exact.

(* ... and through any tree of aliases (every alias level merges and calls Fixup): if every member's
   facet result is the terms facet of its own matches ([D lf] = the term lists of the documents member
   [lf] matched) and the size covers the terms of the union, the alias returns the terms facet of the union *)
Theorem C09_alias_tree_facets : forall g name size (D : leaf -> list (list bytes)) t rq r,
  wf_tree t = true -> q_fsizes rq = [(name, size)] ->
  Forall (fun lf => l_facets lf = [(name, terms_build size (D lf))]) (leaves t) ->
  zlen (terms_count (flat_map D (leaves t))) <= size ->
  search g t rq = Some r ->
  r_facets r = [(name, terms_build size (flat_map D (leaves t)))].
Proof. exact alias_tree_facets. Qed.
Print Assumptions C09_alias_tree_facets.

(* size_zero_page — the statement of topk_merge for EVERY size >= 0:

     forall desc shards all from size, desc <> [] -> total_keys desc all ->
       Permutation (map hobs (concat shards)) (map hobs all) -> 0 <= from -> 0 <= size ->
       map hobs (hits_in_current_page <guard of the source> desc from size
                   (concat (map (fun s => firstn (Z.to_nat (size + from)) (sort_hits desc s)) shards)))
       = map hobs (slice from size (sort_hits desc all))

   It holds for the guard "req.Size >= 0" (C09_size_zero_page_ge) and is FALSE for the guard
   "req.Size > 0" at size = 0, from > 0 (C09_size_zero_refuted_gt: two shards, from = 1: the alias
   returns a hit, the single index none).  C09_size_zero_current_source states whichever of the two
   applies to the guard T1 reads off hitsInCurrentPage in /repo now. *)
Theorem C09_size_zero_page_ge : forall desc (shards : list (list hit)) (all : list hit) from size,
  desc <> [] -> total_keys desc all ->
  Permutation (map hobs (concat shards)) (map hobs all) ->
  0 <= from -> 0 <= size ->
  map hobs (hits_in_current_page GuardGe desc from size
              (concat (map (fun s => firstn (Z.to_nat (size + from)) (sort_hits desc s)) shards)))
  = map hobs (slice from size (sort_hits desc all)).
Proof. exact size_zero_page. Qed.
Print Assumptions C09_size_zero_page_ge.

Theorem C09_size_zero_refuted_gt : exists (shards : list (list hit)) (all : list hit) (from : Z),
  total_keys [false] all /\ Permutation (map hobs (concat shards)) (map hobs all) /\ 0 <= from /\
  map hobs (hits_in_current_page GuardGt [false] from 0
              (concat (map (fun s => firstn (Z.to_nat (0 + from)) (sort_hits [false] s)) shards)))
  <> map hobs (slice from 0 (sort_hits [false] all)).
Proof. exact size_zero_refuted. Qed.
Print Assumptions C09_size_zero_refuted_gt.

Theorem C09_size_zero_current_source :
  match guard_of_op XAlias.trim_guard_op with
  | Some GuardGe =>
      forall desc (shards : list (list hit)) (all : list hit) from size,
        desc <> [] -> total_keys desc all ->
        Permutation (map hobs (concat shards)) (map hobs all) ->
        0 <= from -> 0 <= size ->
        map hobs (hits_in_current_page GuardGe desc from size
                    (concat (map (fun s => firstn (Z.to_nat (size + from)) (sort_hits desc s)) shards)))
        = map hobs (slice from size (sort_hits desc all))
  | Some GuardGt =>
      exists (shards : list (list hit)) (all : list hit) (from : Z),
        total_keys [false] all /\
        Permutation (map hobs (concat shards)) (map hobs all) /\ 0 <= from /\
        map hobs (hits_in_current_page GuardGt [false] from 0
                    (concat (map (fun s => firstn (Z.to_nat (0 + from)) (sort_hits [false] s)) shards)))
        <> map hobs (slice from 0 (sort_hits [false] all))
  | None => False
  end.
Proof. exact ob_size_zero_current. Qed.
Print Assumptions C09_size_zero_current_source.

(* ---------------------------------------------------------------- the pre-search phase (pre_search.go) *)

(* synonym_merge_complete — the synonym pre-search loses nothing: whatever the order in which the
   members' pre-search answers arrive, the merged FieldTermSynonymMap holds a (field, term, synonym)
   triple iff some member's answer holds it (definitions of one term spread over several members
   are all kept) *)
Theorem C09_synonym_merge_complete : forall fl (rs arrived : list presult) x,
  fl_syn fl = true -> Permutation rs arrived ->
  (In x (osyn_triples (p_syn (presearch_combine fl arrived))) <->
   exists r, In r rs /\ In x (osyn_triples (p_syn r))).
Proof. exact synonym_merge_complete. Qed.
Print Assumptions C09_synonym_merge_complete.

(* presearch_reaches_every_member — when every alias of the tree was given the mapping
   (SetIndexMapping) and the query searches a synonym-enabled field, every member index is handed
   exactly the whole thesaurus: the union of all members' synonyms for the query, i.e. what one
   index holding every definition knows.  The only members searched without PreSearchData sit under
   a chain of single-member aliases onto one index, which then is the whole corpus *)
Theorem C09_presearch_reaches_every_member : forall c t,
  all_mapped t = true -> c_matchnone c = false -> c_synfield c = true ->
  forall sl d, In (sl, d) (leaf_data c t None) ->
  match d with
  | Some pd => exists s, pd_syn pd = Some s /\
                         forall x, In x (fts_triples s) <-> In x (global_triples t)
  | None => sleaves t = [sl]
  end.
Proof. exact presearch_reaches_every_member. Qed.
Print Assumptions C09_presearch_reaches_every_member.

(* alias_tree_page_presearch — the property with the pre-search phase in play: whenever every
   member's matches are those it has under the PreSearchData that reaches it, the alias answers — up
   to HitNumber — what one index holding all those matches answers (pages, SearchAfter, SearchBefore,
   Total) *)
Theorem C09_alias_tree_page_presearch : forall g c st rq t,
  resolve c st None = Some t ->
  wf_stree st = true -> rq_ok g rq -> total_keys (q_desc rq) (smatches st) ->
  exists r, search_pre g c st rq = Some r /\
            map hobs (r_hits r) = map hobs (spec_hits rq (smatches st)) /\
            r_total r = zlen (smatches st).
Proof. exact alias_tree_page_presearch. Qed.
Print Assumptions C09_alias_tree_page_presearch.
