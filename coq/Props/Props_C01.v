(* C01 — property theorems only (each closed by [exact]) + Print Assumptions.
   Scorch side: index contents = last-write-wins replay of the introduced batches, for every
   interleaving of introductions, merge starts, merge finishes and persists accepted by [step]. *)
From Coq Require Import ZArith List.
From Verif Require Import Scorch.Model Scorch.ProofsCore.
Import ListNotations.
Local Open Scope Z_scope.

Theorem C01_scorch_refines_replay : forall evs s,
  run init evs = Some s ->
  (forall d, root_lookup (root s) d = replay (batches_of evs) d)
  /\ (forall d, (root_live_copies (root s) d <= 1)%nat)
  /\ (forall k, assoc_first k (internal s) = spec_internal (iops_of evs) k).
Proof. exact scorch_refines_replay. Qed.
Print Assumptions C01_scorch_refines_replay.

Theorem C01_doc_count_spec : forall evs s,
  run init evs = Some s ->
  exists l, NoDup l /\ (forall d, In d l <-> replay (batches_of evs) d <> None)
            /\ length l = root_live_count (root s).
Proof. exact doc_count_spec. Qed.
Print Assumptions C01_doc_count_spec.

Theorem C01_batch_partition_irrelevant : forall (parts : list (list (Z * option Z))) d,
  replay (map collapse parts) d = spec_apply_ops (concat parts) (fun _ => None) d.
Proof. exact batch_partition_irrelevant. Qed.
Print Assumptions C01_batch_partition_irrelevant.

Theorem C01_batch_collapse : forall ops,
  (forall d, assoc_first d (collapse ops) = assoc_first d (rev ops))
  /\ nodupZ (map fst (collapse ops)) = true
  /\ (forall m d, spec_apply_batch (collapse ops) m d = spec_apply_ops ops m d).
Proof. exact batch_collapse. Qed.
Print Assumptions C01_batch_collapse.

(* the introduceMerge lemma behind I3 (DESIGN.md: merge_reapplies_deletes): in every reachable
   state, finishing any in-flight merge changes neither the contents nor the live count *)
Theorem C01_merge_reapplies_deletes : forall evs s k m,
  run init evs = Some s -> nth_error (inflight s) k = Some m ->
  (forall d, root_lookup (introduce_merge_root m (root s)) d = root_lookup (root s) d)
  /\ root_live_count (introduce_merge_root m (root s)) = root_live_count (root s).
Proof. exact merge_reapplies_deletes. Qed.
Print Assumptions C01_merge_reapplies_deletes.

(* Upsidedown side (Kv/Upsidedown.v transcribes UpsideDownCouch.Batch / mergeOldAndNew / deleteSingle /
   batchRows): for every history of batches run from the empty store the row store is exactly the
   rows of the last-write-wins replay — back index rows, term-frequency rows, stored rows (with
   array positions), dictionary counts, docCount, internal rows. *)
From Verif Require Import Kv.Adapter Kv.Upsidedown Kv.UpsidedownProofs.

Theorem C01_udc_refines_replay : forall (docof : Z -> Z -> udoc) (h : list hstep),
  Forall step_ok h -> docs_ok docof h -> hist_small h ->
  let s := udc_run docof h in
  let live := replay (map fst h) in
  (forall id, rget (u_rows s) (KBack id) = option_map (fun v => doc_back_val (docof id v)) (live id))
  /\ (forall f t id, rget (u_rows s) (KTerm f t id) =
        match live id with Some v => option_map VTerm (term_freq (docof id v) f t) | None => None end)
  /\ (forall id f p, rget (u_rows s) (KStored id f p) =
        match live id with Some v => option_map VStored (stored_val (docof id v) f p) | None => None end)
  /\ (forall l, NoDup l -> (forall d, In d l <-> live d <> None) ->
        (forall f t, dict_count (u_rows s) f t = Z.of_nat (length (filter (live_has docof live f t) l)))
        /\ u_count s = Z.of_nat (length l))
  /\ (forall key, rget (u_rows s) (KInternal key) = option_map VInternal (spec_internal (flat_map snd h) key))
  /\ NoDup (map fst (u_rows s)).
Proof. exact udc_refines_replay. Qed.
Print Assumptions C01_udc_refines_replay.

Theorem C01_udc_live_ids_exist : forall (docof : Z -> Z -> udoc) (h : list hstep),
  Forall step_ok h -> docs_ok docof h -> hist_small h ->
  exists l, NoDup l /\ (forall d, In d l <-> replay (map fst h) d <> None).
Proof. exact udc_live_ids_exist. Qed.
Print Assumptions C01_udc_live_ids_exist.

Theorem C01_udc_collapse_step_ok : forall (raw : list (list (Z * option Z) * list (Z * option Z))),
  Forall step_ok (map (fun st => (collapse (fst st), collapse (snd st))) raw).
Proof. exact collapse_step_ok. Qed.
Print Assumptions C01_udc_collapse_step_ok.

Theorem C01_udc_doc_ids_spec : forall (docof : Z -> Z -> udoc) (h : list hstep),
  Forall step_ok h -> docs_ok docof h -> hist_small h ->
  NoDup (udc_doc_ids (udc_run docof h))
  /\ (forall id, In id (udc_doc_ids (udc_run docof h)) <-> replay (map fst h) id <> None).
Proof. exact udc_doc_ids_spec. Qed.
Print Assumptions C01_udc_doc_ids_spec.

Theorem C01_udc_document_spec : forall (docof : Z -> Z -> udoc) (h : list hstep) id,
  Forall step_ok h -> docs_ok docof h -> hist_small h ->
  match replay (map fst h) id with
  | None => udc_document (udc_run docof h) id = None
  | Some v => exists l, udc_document (udc_run docof h) id = Some l
                        /\ NoDup (map fst l)
                        /\ (forall f p x, In (f, p, x) l <-> In (f, p, x) (d_stored (docof id v)))
  end.
Proof. exact udc_document_spec. Qed.
Print Assumptions C01_udc_document_spec.

Theorem C01_udc_doc_count_spec : forall (docof : Z -> Z -> udoc) (h : list hstep) l,
  Forall step_ok h -> docs_ok docof h -> hist_small h ->
  NoDup l -> (forall d, In d l <-> replay (map fst h) d <> None) ->
  udc_doc_count (udc_run docof h) = Z.of_nat (length l).
Proof. exact udc_doc_count_spec. Qed.
Print Assumptions C01_udc_doc_count_spec.

Theorem C01_udc_get_internal_spec : forall (docof : Z -> Z -> udoc) (h : list hstep) key,
  Forall step_ok h -> docs_ok docof h -> hist_small h ->
  udc_get_internal (udc_run docof h) key = spec_internal (flat_map snd h) key.
Proof. exact udc_get_internal_spec. Qed.
Print Assumptions C01_udc_get_internal_spec.

(* Index / Delete / SetInternal / DeleteInternal outside a batch = one-operation batches *)
Theorem C01_udc_single_ops : forall s,
  0 <= u_count s < two64 ->
  (forall id d, udc_update s id d = udc_batch s [(id, Some d)] [])
  /\ (forall id, udc_delete s id = udc_batch s [(id, None)] [])
  /\ (forall k v, udc_set_internal s k v = udc_batch s [] [(k, Some v)])
  /\ (forall k, udc_delete_internal s k = udc_batch s [] [(k, None)]).
Proof. exact udc_single_ops. Qed.
Print Assumptions C01_udc_single_ops.
