(* C01 — property theorems only (each closed by [exact]) + Print Assumptions.
   The refinement theorems over Scorch/Model.v are added here by Scorch/ProofsCore.v. *)
From Coq Require Import ZArith List.
From Verif Require Import Common.Corr.
Import ListNotations.
Local Open Scope Z_scope.

(* an empty mismatch list means every case passed its check *)
Theorem C01_corr_sound : forall (A : Type) (chk : A -> bool) start cs,
  mismatches chk start cs = [] -> forall c, In c cs -> chk c = true.
Proof. exact @mismatches_nil_all. Qed.
Print Assumptions C01_corr_sound.
