(* C01 — property theorems only (each closed by [exact]) + Print Assumptions.
   Scorch side: index contents = last-write-wins replay of the introduced batches, for every
   interleaving of introductions, merge starts, merge finishes and persists accepted by [step]. *)
From Coq Require Import ZArith List.
From Verif Require Import Scorch.Model Scorch.ProofsCore.
Import ListNotations.
Local Open Scope Z_scope.

Theorem C01_scorch_refines_replay : forall evs s,
  run init evs = Some s ->
  (forall d, root_lookup (root s) d = replay (batches_of evs) d)
  /\ (forall d, (root_live_copies (root s) d <= 1)%nat)
  /\ (forall k, assoc_first k (internal s) = spec_internal (iops_of evs) k).
Proof. exact scorch_refines_replay. Qed.
Print Assumptions C01_scorch_refines_replay.

Theorem C01_doc_count_spec : forall evs s,
  run init evs = Some s ->
  exists l, NoDup l /\ (forall d, In d l <-> replay (batches_of evs) d <> None)
            /\ length l = root_live_count (root s).
Proof. exact doc_count_spec. Qed.
Print Assumptions C01_doc_count_spec.

Theorem C01_batch_partition_irrelevant : forall (parts : list (list (Z * option Z))) d,
  replay (map collapse parts) d = spec_apply_ops (concat parts) (fun _ => None) d.
Proof. exact batch_partition_irrelevant. Qed.
Print Assumptions C01_batch_partition_irrelevant.

Theorem C01_batch_collapse : forall ops,
  (forall d, assoc_first d (collapse ops) = assoc_first d (rev ops))
  /\ nodupZ (map fst (collapse ops)) = true
  /\ (forall m d, spec_apply_batch (collapse ops) m d = spec_apply_ops ops m d).
Proof. exact batch_collapse. Qed.
Print Assumptions C01_batch_collapse.

(* the introduceMerge lemma behind I3 (DESIGN.md: merge_reapplies_deletes): in every reachable
   state, finishing any in-flight merge changes neither the contents nor the live count *)
Theorem C01_merge_reapplies_deletes : forall evs s k m,
  run init evs = Some s -> nth_error (inflight s) k = Some m ->
  (forall d, root_lookup (introduce_merge_root m (root s)) d = root_lookup (root s) d)
  /\ root_live_count (introduce_merge_root m (root s)) = root_live_count (root s).
Proof. exact merge_reapplies_deletes. Qed.
Print Assumptions C01_merge_reapplies_deletes.
