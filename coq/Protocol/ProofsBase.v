(* Protocol engine — list/update lemmas and the default guard table in closed form. *)
From Coq Require Import List Bool Arith Lia.
From Verif Require Import Protocol.Model.
Import ListNotations.

(* ---------- upd ---------- *)
Lemma length_upd {A} (l : list A) i x : length (upd l i x) = length l.
Proof. revert i; induction l; intros [|i]; simpl; auto. Qed.

Lemma nth_upd_eq {A} (l : list A) i x a : nth_error l i = Some a -> nth_error (upd l i x) i = Some x.
Proof. revert i; induction l; intros [|i]; simpl; try discriminate; auto. Qed.

Lemma nth_upd_neq {A} (l : list A) i k x : k <> i -> nth_error (upd l i x) k = nth_error l k.
Proof.
  revert i k; induction l; intros [|i] [|k] H; simpl; auto; try congruence.
Qed.

Lemma nth_upd {A} (l : list A) i k x a :
  nth_error l i = Some a ->
  nth_error (upd l i x) k = if Nat.eqb k i then Some x else nth_error l k.
Proof.
  intros H. destruct (Nat.eqb_spec k i).
  - subst. eapply nth_upd_eq; eauto.
  - apply nth_upd_neq; auto.
Qed.

Lemma forallb_upd {A} (f : A -> bool) l i x :
  forallb f l = true -> f x = true -> forallb f (upd l i x) = true.
Proof.
  revert i; induction l; intros [|i] H Hx; simpl in *; auto;
    apply andb_true_iff in H; destruct H as [H1 H2]; rewrite ?Hx, ?H1; simpl; auto.
Qed.

Lemma forallb_nth {A} (f : A -> bool) l i a :
  forallb f l = true -> nth_error l i = Some a -> f a = true.
Proof.
  intros H Hn. rewrite forallb_forall in H. apply H. eapply nth_error_In; eauto.
Qed.

Lemma forallb_map_imp {A} (f f' : A -> bool) (m : A -> A) l :
  (forall c, f c = true -> f' (m c) = true) -> forallb f l = true -> forallb f' (map m l) = true.
Proof.
  intros Hm; induction l; simpl; auto. intros H. apply andb_true_iff in H. destruct H.
  rewrite Hm, IHl; auto.
Qed.

Lemma forallb_imp {A} (f f' : A -> bool) l :
  (forall c, f c = true -> f' c = true) -> forallb f l = true -> forallb f' l = true.
Proof.
  intros Hm; induction l; simpl; auto. intros H. apply andb_true_iff in H. destruct H.
  rewrite Hm, IHl; auto.
Qed.

Lemma forallb_all_map {A} (f : A -> bool) (m : A -> A) l :
  (forall c, f (m c) = true) -> forallb f (map m l) = true.
Proof. intros Hm; induction l; simpl; auto. rewrite Hm, IHl; auto. Qed.

Lemma forallb_false_ex {A} (f : A -> bool) l :
  forallb f l = false -> exists i a, nth_error l i = Some a /\ f a = false.
Proof.
  induction l; simpl; try discriminate. intros H.
  destruct (f a) eqn:Ha.
  - simpl in H. destruct (IHl H) as (i & b & Hn & Hb). exists (S i), b; auto.
  - exists 0, a; auto.
Qed.

(* ---------- counting ---------- *)
Definition count {A} (f : A -> bool) (l : list A) : nat := length (filter f l).
Definition b2nat (b : bool) : nat := if b then 1 else 0.

Lemma count_cons {A} (f : A -> bool) a l : count f (a :: l) = b2nat (f a) + count f l.
Proof. unfold count; simpl. destruct (f a); auto. Qed.

Lemma count_upd {A} (f : A -> bool) l i x a :
  nth_error l i = Some a -> count f (upd l i x) + b2nat (f a) = count f l + b2nat (f x).
Proof.
  revert i; induction l; intros [|i] H; simpl in *; try discriminate.
  - inversion H; subst. rewrite !count_cons. lia.
  - rewrite !count_cons. specialize (IHl _ H). lia.
Qed.

Lemma count_map {A} (f : A -> bool) (m : A -> A) l :
  (forall c, f (m c) = f c) -> count f (map m l) = count f l.
Proof. intros Hm; induction l; simpl; auto. rewrite !count_cons, Hm, IHl; auto. Qed.

Lemma count_zero_nth {A} (f : A -> bool) l i a :
  count f l = 0 -> nth_error l i = Some a -> f a = false.
Proof.
  revert i; induction l; intros [|i] H Hn; simpl in *; try discriminate; rewrite count_cons in H.
  - inversion Hn; subst. destruct (f a); simpl in H; auto; lia.
  - eapply IHl; eauto. lia.
Qed.

Lemma count_pos_ex {A} (f : A -> bool) l :
  count f l > 0 -> exists i a, nth_error l i = Some a /\ f a = true.
Proof.
  induction l; simpl; intros H.
  - unfold count in H; simpl in H; lia.
  - rewrite count_cons in H. destruct (f a) eqn:Ha.
    + exists 0, a; auto.
    + simpl in H. destruct (IHl H) as (i & b & Hn & Hb). exists (S i), b; auto.
Qed.

Lemma count_map_CStart ks : count holding (map CStart ks) = 0.
Proof. induction ks; simpl; auto. Qed.

Lemma nth_map_some {A B} (m : A -> B) l i b :
  nth_error (map m l) i = Some b -> exists a, nth_error l i = Some a /\ m a = b.
Proof.
  rewrite nth_error_map. destruct (nth_error l i); simpl; intros H; inversion H; eauto.
Qed.

Lemma nth_repeat {A} (x : A) n i y : nth_error (repeat x n) i = Some y -> y = x.
Proof.
  intros H. apply nth_error_In in H. apply repeat_spec in H. auto.
Qed.

(* ---------- the default table in closed form ---------- *)
Definition dflt (p : gpoint) : bool :=
  match p with
  | GIMergeReply | GPWaitMergeReply | GPWaitPApplied | GMWaitReply
  | GBatchSend | GBatchApplied | GBatchPersisted => false
  | _ => true
  end.

Lemma guarded_default p : guarded default_guards p = dflt p.
Proof. destruct p; reflexivity. Qed.

Lemma carm_default s p : carm default_guards s p = closed s && dflt p.
Proof. unfold carm. rewrite guarded_default. reflexivity. Qed.

(* ---------- enabled ---------- *)
Lemma in_all_labels_caller n m i :
  i < n -> forall l, In l [LRLock i; LTest i; LReadDone i; LRUnlock i; LIntroRecv i] -> In l (all_labels n m).
Proof.
  intros Hi l Hl. unfold all_labels. apply in_or_app. left.
  apply in_flat_map. exists i. split; auto. apply in_seq. lia.
Qed.

Lemma in_all_labels_fm n m j :
  j < m -> forall l, In l [LFMSend j; LFMSendClose j; LFMWaitClose j; LFMDone j] -> In l (all_labels n m).
Proof.
  intros Hj l Hl. unfold all_labels. apply in_or_app. right. apply in_or_app. left.
  apply in_flat_map. exists j. split; auto. apply in_seq. lia.
Qed.

Lemma nth_some_lt {A} (l : list A) i a : nth_error l i = Some a -> i < length l.
Proof. intros H. apply nth_error_Some. congruence. Qed.

Lemma step_in_all_labels g s l s' :
  step g s l = Some s' -> In l (all_labels (length (callers s)) (length (fms s))).
Proof.
  intros H.
  destruct l;
    try (unfold all_labels; apply in_or_app; right; apply in_or_app; right;
         repeat (try (left; reflexivity); right); fail);
    try (destruct nf); try (destruct again); try (destruct seg); try (destruct plan); try (destruct src);
    try (unfold all_labels; apply in_or_app; right; apply in_or_app; right; simpl; tauto).
  all: simpl in H.
  all: try (destruct (nth_error (callers s) i) eqn:Hn; try discriminate;
            apply nth_some_lt in Hn; eapply in_all_labels_caller; eauto; simpl; tauto).
  all: try (destruct (nth_error (fms s) j) eqn:Hn; try discriminate;
            apply nth_some_lt in Hn; eapply in_all_labels_fm; eauto; simpl; tauto).
  - destruct (ipc s); try discriminate.
    destruct (nth_error (callers s) i) eqn:Hn; try discriminate.
    apply nth_some_lt in Hn; eapply in_all_labels_caller; eauto; simpl; tauto.
Qed.

Lemma enabled_spec g s l : In l (enabled g s) <-> exists s', step g s l = Some s'.
Proof.
  unfold enabled. rewrite filter_In. split.
  - intros [_ H]. destruct (step g s l); simpl in H; try discriminate. eauto.
  - intros [s' H]. split. eapply step_in_all_labels; eauto. rewrite H; auto.
Qed.
