(* Protocol engine — deadlock freedom for any number of callers (default guard table). *)
From Coq Require Import List Bool Arith Lia.
From Verif Require Import Protocol.Model Protocol.ProofsBase Protocol.ProofsInv Protocol.ProofsInv2 Protocol.ProofsInv3.
Import ListNotations.

Notation dg := default_guards.

(* some step other than "Close is issued" is enabled *)
Definition can (s : state) : Prop := exists l s', step dg s l = Some s' /\ l <> LKStart.

Ltac stp L :=
  exists L; eexists; split;
  [ unfold step, recv_pnq; rewrite ?carm_default; cbn [dflt]; rewrite ?andb_true_r, ?andb_false_r | discriminate ].

Ltac rw H := rewrite ?H; cbn.

Section P.
  Variable s : state.
  Hypothesis HI : Inv s.

  Lemma closed_no_holder i c : closed s = true -> nth_error (callers s) i = Some c -> holding c = true ->
                               exists k a, c = CLocked k a \/ exists a, c = CUnlock RClosed a.
  Proof.
    intros Hc Hn Hh. pose proof (i_cl s HI) as Hcl. pose proof (i_op s HI) as Hop.
    assert (Ho : open_ s = false) by (rewrite Hop; rewrite Hc in Hcl; destruct (kpc s); simpl in *; congruence).
    pose proof (forallb_nth _ _ _ _ (i_cold s HI Ho) Hn) as Hcold.
    destruct c; simpl in *; try discriminate.
    - exists k, after. left; reflexivity.
    - destruct r; try discriminate. exists KRead, after. right. exists after. reflexivity.
  Qed.

  Lemma intro_prog : ipc s <> ILoop -> ipc s <> IExit -> can s.
  Proof.
    intros H1 H2. destruct (ipc s) eqn:Ei; try congruence.
    - pose proof (proj2 (i_apply s HI i) Ei) as Hn.
      stp LIntroApplied. rewrite Ei, Hn. reflexivity.
    - stp LIPersistApplied. rewrite Ei. reflexivity.
    - destruct src.
      + pose proof (proj2 (i_pm s HI) Ei) as Hp. stp LIMergeReply. rewrite Ei, Hp. reflexivity.
      + pose proof (proj2 (i_mm s HI) Ei) as Hp. stp LIMergeReply. rewrite Ei, Hp. reflexivity.
  Qed.

  (* the merger, when it is not parked at one of its two waits, can move (or the introducer can) *)
  Lemma merger_run_prog : m_idle (mpc s) = false -> mpc s <> MExit -> can s.
  Proof.
    intros Hidle Hx. destruct (mpc s) eqn:Em; simpl in Hidle; try discriminate; try congruence.
    - (* MTop *) destruct (closed s) eqn:Ec.
      + stp LMTopClose. rewrite Em, Ec. reflexivity.
      + destruct (mctrl s) eqn:Emc.
        * stp (LMTopGo false). rewrite Em, Ec, Emc. reflexivity.
        * stp (LMTopGo false). rewrite Em, Ec, Emc. reflexivity.
        * stp (LMTopGo false). rewrite Em, Ec, Emc. reflexivity.
    - stp LMPlanNone. rewrite Em. reflexivity.
    - (* MSendMerge *) destruct (ipc s) eqn:Ei.
      + stp (LIRecvMerge SrcM). rewrite Ei, Em. reflexivity.
      + apply intro_prog; congruence.
      + apply intro_prog; congruence.
      + apply intro_prog; congruence.
      + pose proof (i_ix s HI Ei) as Hc. stp LMSendMergeClose. rewrite Em, Hc. reflexivity.
    - pose proof (proj1 (i_mm s HI) Em) as Hi. apply intro_prog; congruence.
    - destruct (mctrl s) eqn:Emc; stp LMPlanDone; rewrite Em, Emc; reflexivity.
  Qed.

  (* the persister, when not parked at its final wait, can move (or its partner can) *)
  Lemma persister_prog : disk s = true -> ppc s <> PWaitNotify -> ppc s <> PExit -> can s.
  Proof.
    intros Hd Hw Hx. destruct (ppc s) eqn:Ep; try congruence.
    - (* PTop *) destruct (pnq s) as [|b rest] eqn:Eq.
      + destruct (closed s) eqn:Ec.
        * stp LPTopClose. rewrite Ep, Ec. reflexivity.
        * stp LPTopDefault. rewrite Ep, Eq, Ec. reflexivity.
      + stp LPTopRecv. rewrite Ep. cbn. rewrite Eq. reflexivity.
    - stp (LPPauseGo false). rewrite Ep. reflexivity.
    - (* PPauseWait *) destruct (pnq s) as [|b rest] eqn:Eq.
      + destruct (closed s) eqn:Ec.
        * stp LPPauseWClose. rewrite Ep, Ec. reflexivity.
        * (* the merger is not waiting on an open watcher *)
          pose proof (i_mwh s HI Ep) as Hh.
          destruct (m_idle (mpc s)) eqn:Eidle.
          -- destruct (mpc s) eqn:Em; simpl in Eidle; try discriminate.
             ++ stp LMSendWatchSend. rewrite Em, Eq. reflexivity.
             ++ pose proof (i_mwn s HI Em) as Hn. pose proof (i_mwq s HI) as Hq.
                destruct (mw s) eqn:Emw; try congruence.
                ** rewrite Eq in Hq. simpl in Hq. exfalso. tauto.
                ** stp LMWaitNotified. rewrite Em, Emw. reflexivity.
          -- apply merger_run_prog; auto. intros Em.
             destruct (i_mx s HI Em); congruence.
      + stp (LPPauseWRecv false false). rewrite Ep. cbn. rewrite Eq. reflexivity.
    - destruct (newer s) eqn:Enw; stp LPPick; rewrite Ep, Enw; reflexivity.
    - stp LPPersistNoMerge. rewrite Ep. reflexivity.
    - (* PSendMerge *) destruct (ipc s) eqn:Ei.
      + stp (LIRecvMerge SrcP). rewrite Ei, Ep. reflexivity.
      + apply intro_prog; congruence.
      + apply intro_prog; congruence.
      + apply intro_prog; congruence.
      + pose proof (i_ix s HI Ei) as Hc. stp LPSendMergeClose. rewrite Ep, Hc. reflexivity.
    - pose proof (proj1 (i_pm s HI) Ep) as Hi. apply intro_prog; congruence.
    - stp (LPDirect false). rewrite Ep. reflexivity.
    - (* PSendPersist *) destruct (ipc s) eqn:Ei.
      + stp LIRecvPersist. rewrite Ei, Ep. reflexivity.
      + apply intro_prog; congruence.
      + apply intro_prog; congruence.
      + apply intro_prog; congruence.
      + pose proof (i_ix s HI Ei) as Hc. stp LPSendPersistClose. rewrite Ep, Hc. reflexivity.
    - pose proof (proj1 (i_pa s HI) Ep) as Hi. apply intro_prog; congruence.
    - destruct ok; stp LPRelease; rewrite Ep; reflexivity.
    - (* PRegister *) destruct (inq s) as [|b rest] eqn:Eq.
      + stp LPRegisterSend. rewrite Ep, Eq. reflexivity.
      + destruct (ipc s) eqn:Ei.
        * stp LIRecvWatch. rewrite Ei, Eq. reflexivity.
        * apply intro_prog; congruence.
        * apply intro_prog; congruence.
        * apply intro_prog; congruence.
        * pose proof (i_ix s HI Ei) as Hc. stp LPRegisterClose. rewrite Ep, Hc. reflexivity.
  Qed.

  (* a caller inside the index always leads to an enabled step *)
  Lemma holder_prog i c : nth_error (callers s) i = Some c -> holding c = true -> can s.
  Proof.
    intros Hn Hh.
    destruct c; simpl in Hh; try discriminate.
    - destruct (open_ s) eqn:Eo; destruct k; stp (LTest i); rewrite Hn, Eo; reflexivity.
    - (* CSend *)
      destruct (ipc s) eqn:Ei.
      + stp (LIntroRecv i). rewrite Ei, Hn. reflexivity.
      + apply intro_prog; congruence.
      + apply intro_prog; congruence.
      + apply intro_prog; congruence.
      + pose proof (i_ix s HI Ei) as Hc.
        destruct (closed_no_holder _ _ Hc Hn eq_refl) as (k & a & [X | [a' X]]); discriminate.
    - pose proof (proj1 (i_apply s HI i) Hn) as Ei. apply intro_prog; congruence.
    - (* CWaitPersisted *)
      assert (Hd : disk s = true).
      { destruct (disk s) eqn:Ed; auto. pose proof (forallb_nth _ _ _ _ (i_wp s HI Ed) Hn). discriminate. }
      assert (Hncl : closed s = false).
      { destruct (closed s) eqn:Ec; auto.
        destruct (closed_no_holder _ _ Ec Hn eq_refl) as (k & a & [X | [a' X]]); discriminate. }
      destruct (ppc s) eqn:Ep;
        try (apply persister_prog; auto; congruence).
      + (* PWaitNotify *)
        assert (Hpk : picked = false).
        { destruct picked; auto.
          assert (Hp : persisting (ppc s) = false) by (rewrite Ep; reflexivity).
          pose proof (forallb_nth _ _ _ _ (i_pk s HI Hp) Hn). discriminate. }
        subst picked.
        assert (Hnew : newer s = true).
        { destruct (newer s) eqn:En; auto.
          pose proof (forallb_nth _ _ _ _ (i_unp s HI En) Hn). discriminate. }
        pose proof (i_pwn s HI Ep) as Hpw.
        destruct (pw s) eqn:Epw; try congruence.
        * (* queued: the introducer can take it *)
          pose proof (proj1 (i_pwq s HI) Epw) as Hin.
          destruct (inq s) as [|b rest] eqn:Eq; [ destruct Hin | ].
          destruct (ipc s) eqn:Ei.
          -- stp LIRecvWatch. rewrite Ei, Eq. reflexivity.
          -- apply intro_prog; congruence.
          -- apply intro_prog; congruence.
          -- apply intro_prog; congruence.
          -- pose proof (i_ix s HI Ei). congruence.
        * destruct (i_pwh s HI Epw Hnew) as [src Ei]. apply intro_prog; congruence.
        * stp LPWaitNotified. rewrite Ep, Epw. reflexivity.
      + (* PExit *) destruct (i_px s HI Ep); congruence.
    - stp (LReadDone i). rewrite Hn. reflexivity.
    - stp (LRUnlock i). rewrite Hn. reflexivity.
  Qed.

  Lemma nth_not_done i c : nth_error (callers s) i = Some c -> caller_done c = false ->
                           holding c = true \/ exists k, c = CStart k.
  Proof. destruct c; simpl; intros; try discriminate; eauto. Qed.

  (* a caller that has not returned: either it is inside (holder_prog) or it can take the read lock *)
  Lemma caller_prog i c :
    nth_error (callers s) i = Some c -> caller_done c = false ->
    kpc s = KIdle \/ kpc s = KDone -> can s.
  Proof.
    intros Hn Hd Hk. destruct (nth_not_done _ _ Hn Hd) as [Hh | [k Hc]].
    - eapply holder_prog; eauto.
    - subst c. destruct Hk as [Hk | Hk]; stp (LRLock i); rewrite Hn, (i_ww s HI), (i_wh s HI), Hk; reflexivity.
  Qed.

  (* a ForceMerge caller that has not returned *)
  Lemma fm_prog j f :
    disk s = true -> nth_error (fms s) j = Some f -> fm_done f = false -> can s.
  Proof.
    intros Hd Hn Hf.
    assert (Hdrain : fmq s <> [] -> can s).
    { intros Hq. destruct (fmq s) as [|j' rest] eqn:Eq; try congruence.
      destruct (m_idle (mpc s)) eqn:Eidle.
      - destruct (mpc s) eqn:Em; simpl in Eidle; try discriminate.
        + stp LMSendWatchFM. rewrite Em, Eq. reflexivity.
        + stp LMWaitFM. rewrite Em, Eq. reflexivity.
      - destruct (closed s) eqn:Ec.
        + destruct f; simpl in Hf; try discriminate.
          * stp (LFMSendClose j). rewrite Hn, Ec. reflexivity.
          * stp (LFMWaitClose j). rewrite Hn, Ec. reflexivity.
          * stp (LFMDone j). rewrite Hn. reflexivity.
        + apply merger_run_prog; auto. intros Em. destruct (i_mx s HI Em); congruence. }
    destruct f; simpl in Hf; try discriminate.
    - destruct (fmq s) eqn:Eq.
      + stp (LFMSend j). rewrite Hn, Eq. reflexivity.
      + apply Hdrain. congruence.
    - destruct (i_fm s HI j Hn) as [Hin | Hc].
      + apply Hdrain. intros Eq. rewrite Eq in Hin. destruct Hin.
      + destruct (closed s) eqn:Ec.
        * stp (LFMWaitClose j). rewrite Hn, Ec. reflexivity.
        * apply merger_run_prog.
          -- destruct (m_idle (mpc s)) eqn:Eidle; auto. pose proof (i_mc s HI Eidle). congruence.
          -- intros Em. destruct (i_mx s HI Em); congruence.
    - stp (LFMDone j). rewrite Hn. reflexivity.
  Qed.

  (* once Close has been issued it always leads to an enabled step *)
  Lemma closer_prog : kpc s <> KIdle -> kpc s <> KDone -> can s.
  Proof.
    intros H1 H2. destruct (kpc s) eqn:Ek; try congruence.
    - (* KWaitLock *) destruct (rcount s) eqn:Er.
      + stp LKAcquire. rewrite Ek, Er. reflexivity.
      + pose proof (i_rc s HI) as Hrc.
        destruct (count_pos_ex holding (callers s)) as (i & c & Hn & Hh); [ lia | ].
        eapply holder_prog; eauto.
    - stp LKSetOpen. rewrite Ek. reflexivity.
    - stp LKCloseCh. rewrite Ek. reflexivity.
    - (* KWaitTasks: closeCh is closed *)
      assert (Hc : closed s = true) by (rewrite (i_cl s HI), Ek; reflexivity).
      destruct (ipc s) eqn:Ei.
      + stp LIClose. rewrite Ei, Hc. reflexivity.
      + apply intro_prog; congruence.
      + apply intro_prog; congruence.
      + apply intro_prog; congruence.
      + destruct (ppc s) eqn:Ep.
        * stp LPTopClose. rewrite Ep, Hc. reflexivity.
        * stp (LPPauseGo false). rewrite Ep. reflexivity.
        * stp LPPauseWClose. rewrite Ep, Hc. reflexivity.
        * destruct (newer s) eqn:Enw; stp LPPick; rewrite Ep, Enw; reflexivity.
        * stp LPPersistNoMerge. rewrite Ep. reflexivity.
        * stp LPSendMergeClose. rewrite Ep, Hc. reflexivity.
        * pose proof (proj1 (i_pm s HI) Ep). congruence.
        * stp (LPDirect false). rewrite Ep. reflexivity.
        * stp LPSendPersistClose. rewrite Ep, Hc. reflexivity.
        * pose proof (proj1 (i_pa s HI) Ep). congruence.
        * destruct ok; stp LPRelease; rewrite Ep; reflexivity.
        * stp LPRegisterClose. rewrite Ep, Hc. reflexivity.
        * stp LPWaitClose. rewrite Ep, Hc. reflexivity.
        * destruct (mpc s) eqn:Em.
          -- stp LMTopClose. rewrite Em, Hc. reflexivity.
          -- stp LMPlanNone. rewrite Em. reflexivity.
          -- stp LMSendMergeClose. rewrite Em, Hc. reflexivity.
          -- pose proof (proj1 (i_mm s HI) Em). congruence.
          -- destruct (mctrl s) eqn:Emc; stp LMPlanDone; rewrite Em, Emc; reflexivity.
          -- stp LMSendWatchClose. rewrite Em, Hc. reflexivity.
          -- stp LMWaitClose. rewrite Em, Hc. reflexivity.
          -- stp LKTasksDone. rewrite Ek, Ei, Ep, Em. reflexivity.
    - stp LKRelease. rewrite Ek. reflexivity.
  Qed.
End P.

Definition busy (s : state) : bool :=
  negb (forallb caller_done (callers s)) || negb (forallb fm_done (fms s)) ||
  match kpc s with KIdle | KDone => false | _ => true end.

(* Deadlock freedom that does not lean on Close: whenever a caller or a ForceMerge caller has not
   returned, or Close is in progress, some step OTHER than "Close is issued" is enabled.
   Hypothesis [disk s = true \/ fms s = []]: on an in-memory scorch index (no merger goroutine)
   ForceMerge really does wait until Close (merge.go ForceMerge: select { <-msg.doneCh | <-s.closeCh }
   with nobody serving forceMergeRequestCh), see [mem_forcemerge_waits_for_close]. *)
Theorem callers_never_stuck_any : forall s,
  Inv s -> disk s = true \/ fms s = [] -> busy s = true -> can s.
Proof.
  intros s HI Hdf Hb. unfold busy in Hb.
  destruct (kpc s) eqn:Ek;
    try (apply closer_prog; auto; congruence).
  - (* KIdle *)
    rewrite orb_false_r in Hb. apply orb_true_iff in Hb. destruct Hb as [Hb | Hb]; apply negb_true_iff in Hb.
    + destruct (forallb_false_ex _ _ Hb) as (i & c & Hn & Hc). eapply caller_prog; eauto.
    + destruct (forallb_false_ex _ _ Hb) as (j & f & Hn & Hf).
      destruct Hdf as [Hd | Hd]; [ eapply fm_prog; eauto | rewrite Hd in Hn; destruct j; discriminate ].
  - (* KDone: everything is closed *)
    rewrite orb_false_r in Hb. apply orb_true_iff in Hb. destruct Hb as [Hb | Hb]; apply negb_true_iff in Hb.
    + destruct (forallb_false_ex _ _ Hb) as (i & c & Hn & Hc). eapply caller_prog; eauto.
    + destruct (forallb_false_ex _ _ Hb) as (j & f & Hn & Hf).
      assert (Hc : closed s = true) by (rewrite (i_cl s HI), Ek; reflexivity).
      destruct f; simpl in Hf; try discriminate.
      * stp (LFMSendClose j). rewrite Hn, Hc. reflexivity.
      * stp (LFMWaitClose j). rewrite Hn, Hc. reflexivity.
      * stp (LFMDone j). rewrite Hn. reflexivity.
Qed.

Theorem callers_never_stuck : forall s,
  reachable dg s -> disk s = true \/ fms s = [] -> busy s = true ->
  exists l s', step dg s l = Some s' /\ l <> LKStart.
Proof. intros s Hr. apply callers_never_stuck_any. apply inv_reachable; auto. Qed.

(* the statement of DESIGN.md: a reachable state with an unterminated process has an enabled step *)
Theorem no_stuck_state : forall s,
  reachable dg s -> terminated s = false -> enabled dg s <> [].
Proof.
  intros s Hr Ht. pose proof (inv_reachable s Hr) as HI.
  assert (Hex : exists l s', step dg s l = Some s').
  { destruct (kpc s) eqn:Ek.
    - exists LKStart. eexists. unfold step. rewrite Ek. reflexivity.
    - destruct (closer_prog s HI) as (l & s' & H & _); try congruence; eauto.
    - destruct (closer_prog s HI) as (l & s' & H & _); try congruence; eauto.
    - destruct (closer_prog s HI) as (l & s' & H & _); try congruence; eauto.
    - destruct (closer_prog s HI) as (l & s' & H & _); try congruence; eauto.
    - destruct (closer_prog s HI) as (l & s' & H & _); try congruence; eauto.
    - (* KDone: loops exited, so a caller or a ForceMerge caller has not returned *)
      unfold terminated, loops_exited, closer_done in Ht. rewrite Ek in Ht.
      destruct (i_kd s HI) as (Hi & Hp & Hm); [ rewrite Ek; reflexivity | ].
      rewrite Hi, Hp, Hm in Ht. rewrite !andb_true_r in Ht.
      assert (Hc : closed s = true) by (rewrite (i_cl s HI), Ek; reflexivity).
      apply andb_false_iff in Ht. destruct Ht as [Hb | Hb].
      + destruct (forallb_false_ex _ _ Hb) as (i & c & Hn & Hcd).
        destruct (caller_prog s HI i c Hn Hcd) as (l & s' & H & _); eauto.
      + destruct (forallb_false_ex _ _ Hb) as (j & f & Hn & Hf).
        destruct f; simpl in Hf; try discriminate.
        * exists (LFMSendClose j). eexists. unfold step. rewrite carm_default, Hn, Hc. reflexivity.
        * exists (LFMWaitClose j). eexists. unfold step. rewrite carm_default, Hn, Hc. reflexivity.
        * exists (LFMDone j). eexists. unfold step. rewrite Hn. reflexivity. }
  destruct Hex as (l & s' & H). intros He.
  assert (Hin : In l (enabled dg s)) by (apply enabled_spec; eauto).
  rewrite He in Hin. destruct Hin.
Qed.
