(* Protocol engine — invariants of the reachable states (default guard table, any number of callers). *)
From Coq Require Import List Bool Arith Lia.
From Verif Require Import Protocol.Model Protocol.ProofsBase.
Import ListNotations.

Definition kpc_wwait k := match k with KWaitLock => true | _ => false end.
Definition kpc_wheld k := match k with KLocked | KOpenFalse | KWaitTasks | KUnlock => true | _ => false end.
Definition kpc_open k := match k with KIdle | KWaitLock | KLocked => true | _ => false end.
Definition kpc_closed k := match k with KWaitTasks | KUnlock | KDone => true | _ => false end.
Definition kpc_tasks_done k := match k with KUnlock | KDone => true | _ => false end.

(* a caller that is not inside the index *)
Definition cold c := match c with CStart _ | CLocked _ _ | CUnlock RClosed _ | CDone _ _ => true | _ => false end.
Definition after_ok (o : bool) c :=
  match c with
  | CLocked _ true => negb o
  | CUnlock r true | CDone r true => match r with RClosed => true | _ => false end
  | _ => true
  end.
Definition not_unpicked c := match c with CWaitPersisted false => false | _ => true end.
Definition not_picked c := match c with CWaitPersisted true => false | _ => true end.
Definition not_waitp c := match c with CWaitPersisted _ => false | _ => true end.
Definition persisting p :=
  match p with
  | PPersist | PSendMerge | PWaitMergeReply | PDirect | PSendPersist | PWaitPApplied | PRelease _ => true
  | _ => false
  end.
Definition m_idle m := match m with MSendWatch | MWaitNotify => true | _ => false end.

Record Inv (s : state) : Prop := {
  i_rc : rcount s = count holding (callers s);
  i_ww : wwait s = kpc_wwait (kpc s);
  i_wh : wheld s = kpc_wheld (kpc s);
  i_op : open_ s = kpc_open (kpc s);
  i_cl : closed s = kpc_closed (kpc s);
  i_h0 : wheld s = true -> rcount s = 0;
  i_kd : kpc_tasks_done (kpc s) = true -> ipc s = IExit /\ ppc s = PExit /\ mpc s = MExit;
  i_cold : open_ s = false -> forallb cold (callers s) = true;
  i_after : forallb (after_ok (open_ s)) (callers s) = true;
  i_apply : forall k, nth_error (callers s) k = Some CWaitApplied <-> ipc s = IApply k;
  i_pa : ppc s = PWaitPApplied <-> ipc s = IPersistApply;
  i_pm : ppc s = PWaitMergeReply <-> ipc s = IMergeReply SrcP;
  i_mm : mpc s = MWaitReply <-> ipc s = IMergeReply SrcM;
  i_unp : newer s = false -> forallb not_unpicked (callers s) = true;
  i_pk : persisting (ppc s) = false -> forallb not_picked (callers s) = true;
  i_wp : disk s = false -> forallb not_waitp (callers s) = true;
  i_dk : disk s = false -> ppc s = PExit /\ mpc s = MExit;
  i_ix : ipc s = IExit -> closed s = true;
  i_px : ppc s = PExit -> closed s = true \/ disk s = false;
  i_mx : mpc s = MExit -> closed s = true \/ disk s = false;
  i_pr : ppc s = PRelease false -> closed s = true;
  i_md : mpc s = MPlanDone false -> is_fm (mctrl s) = false -> closed s = true;
  i_mc : m_idle (mpc s) = true -> mctrl s = CNone;
  i_pwq : pw s = WQueued <-> In true (inq s);
  i_inq : length (inq s) <= 1;
  i_pwn : ppc s = PWaitNotify -> pw s <> WNone;
  i_pwh : pw s = WHeld -> newer s = true -> exists src, ipc s = IMergeReply src;
  i_mwq : mw s = WQueued <-> In true (pnq s);
  i_pnq : length (pnq s) <= 1;
  i_mwn : mpc s = MWaitNotify -> mw s <> WNone;
  i_mwh : ppc s = PPauseWait -> mw s <> WHeld;
  i_fm : forall j, nth_error (fms s) j = Some FWaitDone -> In j (fmq s) \/ mctrl s = CFM j
}.

(* ---------- small facts ---------- *)
Lemma not_in_stale q : ~ In true (stale q).
Proof. unfold stale. intros H. apply in_map_iff in H. destruct H as (x & Hx & _). discriminate. Qed.

Lemma length_stale q : length (stale q) = length q.
Proof. apply map_length. Qed.

Lemma close_held_not_held w : close_held w <> WHeld.
Proof. destruct w; simpl; congruence. Qed.

Lemma close_held_queued w : close_held w = WQueued <-> w = WQueued.
Proof. destruct w; simpl; split; congruence. Qed.

Lemma close_held_none w : close_held w = WNone <-> w = WNone.
Proof. destruct w; simpl; split; congruence. Qed.

Lemma count0_cold l : count holding l = 0 -> forallb cold l = true.
Proof.
  induction l; simpl; auto. rewrite count_cons. intros H.
  destruct a; simpl in *; try lia; try (apply IHl; lia).
Qed.

Lemma nth_map_pick l k c :
  nth_error (map pick_c l) k = Some c -> exists a, nth_error l k = Some a /\ pick_c a = c.
Proof. apply nth_map_some. Qed.

Lemma pick_c_wa a : pick_c a = CWaitApplied <-> a = CWaitApplied.
Proof. destruct a; simpl; try destruct picked; split; congruence. Qed.

Lemma release_c_wa ok a : release_c ok a = CWaitApplied <-> a = CWaitApplied.
Proof. destruct a; simpl; try destruct picked; try destruct ok; split; congruence. Qed.

Lemma nth_map_wa (m : cpc -> cpc) l k :
  (forall a, m a = CWaitApplied <-> a = CWaitApplied) ->
  (nth_error (map m l) k = Some CWaitApplied <-> nth_error l k = Some CWaitApplied).
Proof.
  intros Hm. rewrite nth_error_map. destruct (nth_error l k) as [c|]; simpl; split; intros H;
    try discriminate; injection H as H1.
  - destruct (Hm c) as [Ha _]. rewrite (Ha H1). reflexivity.
  - destruct (Hm c) as [_ Hb]. rewrite (Hb H1). reflexivity.
Qed.

Lemma holding_pick c : holding (pick_c c) = holding c.
Proof. destruct c; simpl; try destruct picked; auto. Qed.
Lemma holding_release ok c : holding (release_c ok c) = holding c.
Proof. destruct c; simpl; try destruct picked; auto. Qed.

(* ---------- the step inversion tactic ---------- *)
Ltac dmatch H :=
  repeat match type of H with
         | context [match ?x with _ => _ end] =>
             let E := fresh "E" in destruct x eqn:E; try discriminate H
         end.

Ltac step_inv H :=
  unfold step, recv_pnq in H; rewrite ?carm_default in H; cbn [dflt] in H;
  rewrite ?andb_true_r, ?andb_false_r in H; dmatch H; try discriminate H;
  inversion H; subst; clear H.

(* contradiction from "element i of l is a" and "all elements satisfy f" with f a = false *)
Ltac contra_nth :=
  match goal with
  | Hn : nth_error ?l ?i = Some ?a, Hf : forallb ?f ?l = true |- _ =>
      let X := fresh in pose proof (forallb_nth f l i a Hf Hn) as X; simpl in X; discriminate X
  end.

Section Step.
  Variables (s s' : state) (l : label).
  Hypothesis HI : Inv s.
  Hypothesis HS : step default_guards s l = Some s'.

  (* invariants that only relate scalar fields *)
  Lemma inv_scalar :
    wwait s' = kpc_wwait (kpc s') /\ wheld s' = kpc_wheld (kpc s') /\
    open_ s' = kpc_open (kpc s') /\ closed s' = kpc_closed (kpc s') /\
    (kpc_tasks_done (kpc s') = true -> ipc s' = IExit /\ ppc s' = PExit /\ mpc s' = MExit) /\
    (disk s' = false -> ppc s' = PExit /\ mpc s' = MExit) /\
    (ipc s' = IExit -> closed s' = true) /\
    (ppc s' = PExit -> closed s' = true \/ disk s' = false) /\
    (mpc s' = MExit -> closed s' = true \/ disk s' = false) /\
    (ppc s' = PRelease false -> closed s' = true) /\
    (mpc s' = MPlanDone false -> is_fm (mctrl s') = false -> closed s' = true) /\
    (m_idle (mpc s') = true -> mctrl s' = CNone).
  Proof.
    destruct HI.
    destruct l; step_inv HS; cbn -[count] in *;
      repeat match goal with
             | H : ?a = ?b, H' : context [?a] |- _ => is_var a; fail 1
             | E : kpc s = _ |- _ => rewrite E in *
             | E : ipc s = _ |- _ => rewrite E in *
             | E : ppc s = _ |- _ => rewrite E in *
             | E : mpc s = _ |- _ => rewrite E in *
             | E : mctrl s = _ |- _ => rewrite E in *
             | E : closed s = _ |- _ => rewrite E in *
             end; cbn in *;
      repeat split; intros; try congruence; try discriminate; auto;
      try (destruct (disk s); [ | match goal with H : false = false -> _ |- _ => destruct (H eq_refl); congruence end ]);
      try tauto; try (left; congruence); try (right; congruence); try intuition congruence.
    all: match goal with E0 : orb _ _ = true |- _ => apply orb_true_iff in E0; destruct E0; congruence end.
  Qed.
End Step.
