(* Protocol engine — exhaustive exploration of SMALL instances by vm_compute.
   This is a FINITE CHECK (labelled as such wherever it is used), not the theorems: the theorems of
   Proofs*.v hold for every number of callers.  It is used (a) as a regression test of the model
   itself and (b) to exhibit the deadlock of the table without the persists arm. *)
From Coq Require Import List Bool Arith NArith PArith FMapPositive.
From Verif Require Import Protocol.Model.
Import ListNotations.

Definition b2n (b : bool) : N := if b then 1%N else 0%N.
Definition res_n (r : res) : N := match r with ROk => 0 | RClosed => 1 | RErr => 2 end%N.
Definition cpc_n (c : cpc) : N :=
  match c with
  | CStart KBatch => 0 | CStart KRead => 1
  | CLocked KBatch a => 2 + b2n a | CLocked KRead a => 4 + b2n a
  | CSend => 6 | CWaitApplied => 7 | CWaitPersisted p => 8 + b2n p | CRead => 10
  | CUnlock r a => 11 + 2 * res_n r + b2n a | CDone r a => 17 + 2 * res_n r + b2n a
  end%N.
Definition fpc_n (f : fpc) : N := match f with FStart => 0 | FWaitDone => 1 | FNotified => 2 | FDone => 3 end%N.
Definition kpc_n (k : kpc_t) : N :=
  match k with KIdle => 0 | KWaitLock => 1 | KLocked => 2 | KOpenFalse => 3 | KWaitTasks => 4 | KUnlock => 5 | KDone => 6 end%N.
Definition ipc_n (i : ipc_t) : N :=
  match i with ILoop => 0 | IPersistApply => 1 | IMergeReply SrcP => 2 | IMergeReply SrcM => 3 | IExit => 4
             | IApply k => 5 + N.of_nat k end%N.
Definition ppc_n (p : ppc_t) : N :=
  match p with
  | PTop => 0 | PPause => 1 | PPauseWait => 2 | PPick => 3 | PPersist => 4 | PSendMerge => 5
  | PWaitMergeReply => 6 | PDirect => 7 | PSendPersist => 8 | PWaitPApplied => 9
  | PRelease b => 10 + b2n b | PRegister => 12 | PWaitNotify => 13 | PExit => 14
  end%N.
Definition mpc_n (m : mpc_t) : N :=
  match m with
  | MTop => 0 | MPlan => 1 | MSendMerge => 2 | MWaitReply => 3 | MPlanDone b => 4 + b2n b
  | MSendWatch => 6 | MWaitNotify => 7 | MExit => 8
  end%N.
Definition wst_n (w : wst) : N := match w with WNone => 0 | WQueued => 1 | WHeld => 2 | WClosed => 3 end%N.
Definition ctrl_n (c : ctrl) : N := match c with CNone => 0 | CDflt => 1 | CFM j => 2 + N.of_nat j end%N.
Definition q_n (q : list bool) : N := match q with [] => 0 | b :: _ => 1 + b2n b end%N.
Definition fq_n (q : list nat) : N := match q with [] => 0 | j :: _ => 1 + N.of_nat j end%N.

Definition push (acc d : N) : N := (acc * 32 + d)%N.

Definition encode (s : state) : positive :=
  let a := fold_left (fun acc c => push acc (cpc_n c)) (callers s) 1%N in
  let a := fold_left (fun acc f => push acc (fpc_n f)) (fms s) a in
  let a := fold_left push
    [ N.of_nat (rcount s); b2n (wwait s); b2n (wheld s); b2n (open_ s); b2n (closed s);
      kpc_n (kpc s); ipc_n (ipc s); ppc_n (ppc s); mpc_n (mpc s); q_n (inq s); q_n (pnq s); fq_n (fmq s);
      wst_n (pw s); wst_n (mw s); b2n (newer s); ctrl_n (mctrl s) ] a in
  match a with N0 => 1%positive | Npos p => p end.

Record report := mkReport {
  n_states : nat;           (* distinct reachable states visited *)
  exhausted : bool;         (* the frontier became empty within the fuel *)
  stuck : list state;       (* reachable, not terminated, no enabled step *)
  bad : list state          (* reachable states violating the extra predicate *)
}.

Section BFS.
  Variable g : gtable.
  Variable ok : state -> bool.

  Definition succs (s : state) : list state :=
    flat_map (fun l => match step g s l with Some s' => [s'] | None => [] end) (enabled g s).

  (* one BFS layer *)
  Fixpoint layer (front : list state) (seen : PositiveMap.t unit) (next : list state)
                 (stk bd : list state) (cnt : nat)
    : PositiveMap.t unit * list state * list state * list state * nat :=
    match front with
    | [] => (seen, next, stk, bd, cnt)
    | s :: rest =>
        let en := enabled g s in
        let stk' := match en with [] => if terminated s then stk else s :: stk | _ => stk end in
        let bd' := if ok s then bd else s :: bd in
        let '(seen', next') :=
          fold_left (fun acc s' =>
                       let k := encode s' in
                       match PositiveMap.find k (fst acc) with
                       | Some _ => acc
                       | None => (PositiveMap.add k tt (fst acc), s' :: snd acc)
                       end) (succs s) (seen, next) in
        layer rest seen' next' stk' bd' (S cnt)
    end.

  Fixpoint bfs (fuel : nat) (front : list state) (seen : PositiveMap.t unit)
               (stk bd : list state) (cnt : nat) : report :=
    match front with
    | [] => mkReport cnt true stk bd
    | _ =>
        match fuel with
        | O => mkReport cnt false stk bd
        | S f =>
            let '(seen', next, stk', bd', cnt') := layer front seen [] stk bd cnt in
            bfs f next seen' stk' bd' cnt'
        end
    end.

  Definition explore (fuel : nat) (s0 : state) : report :=
    bfs fuel [s0] (PositiveMap.add (encode s0) tt (PositiveMap.empty unit)) [] [] 0.
End BFS.
