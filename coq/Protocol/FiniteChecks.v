(* Protocol engine — FINITE CHECKS by exhaustive exploration (vm_compute) of tiny instances.
   These are regression tests of the model and of the explorer, NOT the theorems: the theorems of
   Props_C11.v hold for every number of callers.  Instances: no caller / one Batch caller, disk
   configuration, safe batches. *)
From Coq Require Import List Bool Arith.
From Verif Require Import Protocol.Model Protocol.Explore Protocol.ProofsProgress.
Import ListNotations.

Definition strong (s : state) : bool :=
  negb (busy s) || existsb (fun l => match l with LKStart => false | _ => true end) (enabled default_guards s).

Definition summary (r : report) := (exhausted r, length (stuck r), length (bad r)).

(* finite check: all 2908 reachable states of the caller-less instance: none stuck, strong progress everywhere *)
Example finite_check_no_callers :
  summary (explore default_guards strong 400 (init [] 0 true true)) = (true, 0, 0).
Proof. vm_compute. reflexivity. Qed.

(* finite check: all 9498 reachable states with one safe Batch caller *)
Example finite_check_one_batch :
  summary (explore default_guards strong 400 (init [KBatch] 0 true true)) = (true, 0, 0).
Proof. vm_compute. reflexivity. Qed.

(* finite check: without the closeCh arm of the persists send the same instance has stuck states *)
Example finite_check_unguarded_has_stuck_states :
  let r := explore guards_without_persists_arm (fun _ => true) 400 (init [KBatch] 0 true false) in
  exhausted r = true /\ length (stuck r) <> 0.
Proof. vm_compute. split; [ reflexivity | discriminate ]. Qed.
