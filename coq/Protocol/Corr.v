(* Protocol engine — correspondence cases for C11: what the real index returned under concurrent
   use, checked against the specification of the closed-index behaviour, the collector model and
   (for traced runs) the protocol model. *)
From Coq Require Import ZArith List Bool.
From Verif Require Import Common.Bytes Extracted.Extracted Protocol.Model.
Import ListNotations.
Local Open Scope Z_scope.

(* ---------- API-level log ---------- *)
Inductive opk :=
| OIndex | ODelete | OBatch | OSetInternal | OSearch | OSearchDeadline | OSearchCancel | ODocument | ODocCount
| OFieldDict | OFields | OGetInternal | OStats | OForceMerge | OCopyTo | OClose.

(* phase: 0 = returned before any Close was issued; 1 = overlapped a Close;
          2 = started after a Close had returned.
   result: 0 = ok, 1 = ErrorIndexClosed, 2 = context.Canceled / DeadlineExceeded, 3 = any other error *)
Inductive oprec := Op (k : opk) (phase res : Z).

(* operations that go through indexImpl's mutex + open test *)
Definition locking (k : opk) : bool :=
  match k with OStats | OForceMerge | OClose => false | _ => true end.
Definition may_ctx (k : opk) : bool :=
  match k with OSearchDeadline | OSearchCancel => true | _ => false end.

(* SPEC (independent of the model): a call made after Close returned gets the closed-index error;
   a call that ended before Close was issued succeeds (a search with a cancelled / expired context
   may instead return the context's error); a call overlapping Close does one or the other;
   Stats and ForceMerge (reached without the mutex) just return; Close after Close returns nil or the
   closed error. *)
Definition res_ok (o : oprec) : bool :=
  match o with
  | Op k ph r =>
      match k with
      | OStats | OForceMerge => r =? 0
      | OClose => (r =? 0) || (r =? 1)
      | _ =>
          if ph =? 0 then (r =? 0) || (may_ctx k && (r =? 2))
          else if ph =? 1 then (r =? 0) || (r =? 1) || (may_ctx k && (r =? 2))
          else r =? 1
      end
  end.

(* within one goroutine: once a locking call has returned the closed error, so does every later one *)
Fixpoint mono (seen_closed : bool) (l : list oprec) : bool :=
  match l with
  | [] => true
  | Op k ph r :: rest =>
      if locking k then
        (if seen_closed then r =? 1 else true) && mono (seen_closed || (r =? 1)) rest
      else mono seen_closed rest
  end.

(* phases never go backwards in one goroutine *)
Fixpoint phases_mono (cur : Z) (l : list oprec) : bool :=
  match l with
  | [] => true
  | Op _ ph _ :: rest => (cur <=? ph) && phases_mono ph rest
  end.

Definition log_ok (l : list oprec) : bool := forallb res_ok l && mono false l && phases_mono 0 l.

(* ---------- cancellation inside the collector ---------- *)
(* [n] matching documents; the context is cancelled by the hit handler during its [c]-th call;
   the search handled [k] hits and returned a context error iff [cancelled]; afterwards the index
   answered DocCount = [count_after]. *)
Definition cancel_ok (n c k : Z) (cancelled : bool) (count_after : Z) : bool :=
  let E := Z.to_nat XProtocol.check_done_every in
  let '(b, k') := collect E (fun j => Nat.leb (Z.to_nat c) j) (Z.to_nat n) in
  Bool.eqb b cancelled && (Z.of_nat k' =? k) && (count_after =? n).
