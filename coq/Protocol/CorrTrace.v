(* Protocol engine — trace acceptance (T3) and the case type of the C11 harness.

   The hook events of a traced scorch-disk run (batch_send / introduce / batch_applied /
   batch_persisted / persist_pick / persist_intro / persist_release_waiters / merge_start /
   merge_finish / close_begin / close_tasks_done, in the order the recorder saw them, introducer
   events moved in front of a persist_pick that already observed their root) are projected onto the
   OBSERVABLE steps of the protocol model; all other steps are hidden.  [accept] keeps the SET of
   model states compatible with the events so far: before each event it closes the set under hidden
   steps, then fires the event's labels with the real [Model.step]; the trace is accepted iff the
   set never becomes empty.  So an accepted trace is the projection of at least one run of the
   model, over the instance with one caller per traced batch and one ForceMerge caller machine per
   ForceMerge call the harness issued ([nfm]).  ForceMerge has no hook, so the ForceMerge callers'
   steps and the merger's LMSendWatchFM / LMWaitFM are hidden steps (a request wakes the merger
   without the persister's notification; with no request outstanding the monitor does not allow
   that).  Read-only calls are not traced and not part of the instance: they only delay the closer. *)
From Coq Require Import ZArith List Bool Arith PArith FMapPositive.
From Verif Require Import Common.Bytes Extracted.Extracted Protocol.Model Protocol.Explore Protocol.Corr.
Import ListNotations.

Inductive pev :=
| EvSend (i : Z)              (* batch_send: prepareSegment is about to send introduction i *)
| EvIntroduce (i : Z)         (* introduce: the introducer swapped in the root containing batch i *)
| EvApplied (i : Z)           (* batch_applied *)
| EvPersisted (i : Z)         (* batch_persisted *)
| EvPick (nwait : Z)          (* persist_pick with len(ourPersisted) *)
| EvPersistIntro              (* persist_intro (introducePersist swapped the root) *)
| EvPersistIntroduced         (* persister side echo: ignored *)
| EvRelease (nwait : Z)       (* persist_release_waiters with len(ourPersisted) *)
| EvMergeStart (file : bool)  (* merge_start: a segmentMerge is about to be offered on s.merges *)
| EvMergeFinish (file : bool) (* merge_finish: introduceMerge swapped the root *)
| EvMergeIntroduced (file : bool)  (* requester side echo: ignored *)
| EvCloseBegin                (* close_begin: Scorch.Close entered (index write lock held, open = false) *)
| EvCloseTasksDone            (* close_tasks_done: asyncTasks.Wait() returned *)
| EvOther (name : list Z).

(* hidden steps: everything that has no hook of its own.  LPPick is hidden only when it does NOT pick
   (no persist_pick event then); the arms that exist only under other guard tables are left out. *)
Definition hidden_labels : list label :=
  [LIClose; LIRecvWatch; LIMergeReply;
   LPTopClose; LPTopRecv; LPTopDefault; LPPauseGo true; LPPauseGo false; LPPauseNapRecv true; LPPauseNapRecv false;
   LPPauseBlock; LPPauseWClose; LPPauseWRecv true true; LPPauseWRecv true false; LPPauseWRecv false true;
   LPPauseWRecv false false; LPPick; LPPersistNoMerge; LPPersistAbort; LPSendMergeClose; LPDirect true; LPDirect false;
   LPSendPersistClose; LPRegisterClose; LPRegisterSend; LPWaitClose; LPWaitNotified; LPWaitRecv;
   LMTopClose; LMTopGo true; LMTopGo false; LMPlanNone; LMPlanAbort; LMSendMergeClose; LMPlanDone;
   LMSendWatchClose; LMSendWatchSend; LMWaitClose; LMWaitNotified].

Definition hidden_step (s : state) (l : label) : option state :=
  match l with
  | LPPick => if newer s then None else step default_guards s l
  | _ => step default_guards s l
  end.

Definition seen := PositiveMap.t unit.

(* ---------- ForceMerge callers (untraced) ----------
   ForceMerge has no hook of its own, so the steps of the ForceMerge caller machines are hidden.  The
   instance contains [nfm] of them (the number of ForceMerge calls the harness issued).  Three sound
   reductions keep the state sets small; each only REMOVES interleavings, so every state the monitor
   holds is still reached by genuine [Model.step]s from [init]:
   - the callers are interchangeable, so the next one to act is always the first that is still FStart;
   - a caller's send (LFMSend) is delayed until the merger is about to receive it (LMSendWatchFM /
     LMWaitFM): [fm_use] is that pair of steps.  (The send only fills forceMergeRequestCh, which
     nobody but the merger reads.)
   - what a caller does after the merger answered or exited (LFMDone, LFMWaitClose, LFMSendClose)
     concerns no other process and is never needed: those steps are not taken.
   States that differ only in HOW MANY callers have been used are the same for every process but the
   unused callers; of such states the monitor keeps the one that used the fewest (it can do whatever
   the others can), which is what the level-wise closure below computes. *)
Definition is_fstart (f : fpc) : bool := match f with FStart => true | _ => false end.
Definition used (s : state) : nat := length (filter (fun f => negb (is_fstart f)) (fms s)).

Definition fm_use (s : state) : list state :=
  let j := used s in
  match run default_guards s [LFMSend j; LMSendWatchFM] with
  | Some s' => [s']
  | None => match run default_guards s [LFMSend j; LMWaitFM] with Some s' => [s'] | None => [] end
  end.

(* the key of a state up to the number of callers used *)
Definition rkey (s : state) : positive :=
  encode (set_mctrl (set_fms s []) (match mctrl s with CFM _ => CFM 0 | c => c end)).

(* add the states not seen yet *)
Fixpoint add_new (ss : list state) (sn : seen) (acc : list state) : seen * list state :=
  match ss with
  | [] => (sn, acc)
  | s :: rest =>
      let k := rkey s in
      match PositiveMap.find k sn with
      | Some _ => add_new rest sn acc
      | None => add_new rest (PositiveMap.add k tt sn) (s :: acc)
      end
  end.

Definition hidden_succs (s : state) : list state :=
  flat_map (fun l => match hidden_step s l with Some s' => [s'] | None => [] end) hidden_labels.

(* closure of a set of states under the hidden steps that use no further ForceMerge caller *)
Fixpoint closure (fuel : nat) (front : list state) (sn : seen) (all : list state) : seen * list state :=
  match front with
  | [] => (sn, all)
  | _ =>
      match fuel with
      | O => (sn, all)
      | S f =>
          let '(sn', next) := add_new (flat_map hidden_succs front) sn [] in
          closure f next sn' (next ++ all)
      end
  end.

(* level a: the states that have used a callers.  [front]: new states of this level; [later]: given
   states of higher levels.  A state whose key was seen at a lower level is dropped. *)
Fixpoint levels (fuel a : nat) (front later : list state) (sn : seen) (all : list state) : list state :=
  match fuel with
  | O => all
  | S f =>
      let '(sn1, lvl) := closure 64 front sn front in
      let '(now, later') := partition (fun s => Nat.eqb (used s) (S a)) later in
      let '(sn2, nxt) := add_new (flat_map fm_use lvl ++ now) sn1 [] in
      match nxt, later' with
      | [], [] => all ++ lvl
      | _, _ => levels f (S a) nxt later' sn2 (all ++ lvl)
      end
  end.

(* closure under all hidden steps; the result lists the states by increasing number of callers used *)
Definition close_set (nfm : nat) (ss : list state) : list state :=
  let '(zero, later) := partition (fun s => Nat.eqb (used s) 0) ss in
  let '(sn, front) := add_new zero (PositiveMap.empty unit) [] in
  levels (nfm + 2) 0 front later sn [].

Definition count_c (f : cpc -> bool) (s : state) : Z := Z.of_nat (length (filter f (callers s))).
Definition is_unpicked c := match c with CWaitPersisted false => true | _ => false end.
Definition is_picked c := match c with CWaitPersisted true => true | _ => false end.

(* the observable labels of an event, and a side condition on the state in which they fire *)
Definition obs (e : pev) (s : state) : option (list label) :=
  match e with
  | EvSend i => Some [LRLock (Z.to_nat i); LTest (Z.to_nat i)]
  | EvIntroduce i => Some [LIntroRecv (Z.to_nat i); LIntroApplied]
  | EvApplied i =>
      if eff_safe s then
        match nth_error (callers s) (Z.to_nat i) with
        | Some (CWaitPersisted _) | Some (CUnlock _ _) => Some []   (* introduced, now waiting for the persister *)
        | _ => None
        end
      else Some [LRUnlock (Z.to_nat i)]
  | EvPersisted i => Some [LRUnlock (Z.to_nat i)]
  | EvPick n => if newer s && (count_c is_unpicked s =? n)%Z then Some [LPPick] else None
  | EvPersistIntro => Some [LIRecvPersist; LIPersistApplied]
  | EvRelease n => if (count_c is_picked s =? n)%Z then Some [LPRelease] else None
  | EvMergeStart true => Some [LMPlanTasks]
  | EvMergeStart false => Some [LPPersistMerge]
  | EvMergeFinish true => Some [LIRecvMerge SrcM]
  | EvMergeFinish false => Some [LIRecvMerge SrcP]
  | EvCloseBegin => Some [LKStart; LKAcquire; LKSetOpen; LKCloseCh]
  | EvCloseTasksDone => Some [LKTasksDone; LKRelease]
  | EvPersistIntroduced | EvMergeIntroduced _ | EvOther _ => Some []
  end.

Definition ignored (e : pev) : bool :=
  match e with EvPersistIntroduced | EvMergeIntroduced _ | EvOther _ => true | _ => false end.

Definition fire (e : pev) (ss : list state) : list state :=
  if ignored e then ss
  else
    let cl := close_set (match ss with s :: _ => length (fms s) | [] => 0 end) ss in
    let nxt := flat_map (fun s => match obs e s with
                                  | Some ls => match run default_guards s ls with Some s' => [s'] | None => [] end
                                  | None => []
                                  end) cl in
    snd (add_new nxt (PositiveMap.empty unit) []).

(* returns the number of events accepted and the surviving state set *)
Fixpoint accept (ss : list state) (evs : list pev) (n : nat) : nat * list state :=
  match evs with
  | [] => (n, ss)
  | e :: rest =>
      match fire e ss with
      | [] => (n, [])
      | ss' => accept ss' rest (S n)
      end
  end.

Definition nbatches (evs : list pev) : nat :=
  length (filter (fun e => match e with EvSend _ => true | _ => false end) evs).

Definition trace_ok (safe : bool) (nfm : Z) (evs : list pev) : bool :=
  match snd (accept [init (repeat KBatch (nbatches evs)) (Z.to_nat nfm) true safe] evs 0) with
  | [] => false
  | _ => true
  end.

(* ---------- cases ---------- *)
Inductive case :=
| CLog (logs : list (list oprec))
| CCancel (n c k : Z) (cancelled : bool) (count_after : Z)
| CTrace (safe : bool) (nfm : Z) (evs : list pev)   (* nfm = ForceMerge calls issued during the run *)
| CMulti (cs : list case).

Fixpoint check (c : case) : bool :=
  match c with
  | CLog logs => forallb log_ok logs
  | CCancel n c k b a => cancel_ok n c k b a
  | CTrace safe nfm evs => trace_ok safe nfm evs
  | CMulti cs => forallb check cs
  end.

(* what the model expected, for replay files *)
Inductive expl :=
| XLog (bad_goroutines : list (Z * list oprec))      (* logs that violate the spec, with their index *)
| XCancel (model : bool * nat)
| XTrace (accepted : nat) (of : nat) (rejected : option pev) (states_before : nat)
| XMulti (l : list expl).

Fixpoint number {A} (i : Z) (l : list A) : list (Z * A) :=
  match l with [] => [] | x :: r => (i, x) :: number (i + 1)%Z r end.

Fixpoint explain (c : case) : expl :=
  match c with
  | CLog logs => XLog (filter (fun p => negb (log_ok (snd p))) (number 0%Z logs))
  | CCancel n c _ _ _ =>
      XCancel (collect (Z.to_nat XProtocol.check_done_every) (fun j => Nat.leb (Z.to_nat c) j) (Z.to_nat n))
  | CTrace safe nfm evs =>
      let '(k, ss) := accept [init (repeat KBatch (nbatches evs)) (Z.to_nat nfm) true safe] evs 0 in
      XTrace k (length evs) (nth_error evs k) (length ss)
  | CMulti cs => XMulti (map explain cs)
  end.
