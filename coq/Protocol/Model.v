(* Protocol engine (C11) — executable finite-control model of the lock / channel protocol between
   the public index API, the scorch background loops and Close.  DEFINITIONS ONLY.

   What each piece mirrors (all in /repo):
     callers      index_impl.go: every exported method = mutex.RLock; test i.open; work; RUnlock.
                  A Batch-like call (Index/Delete/Batch/SetInternal...) goes on to
                  index/scorch/scorch.go prepareSegment: s.introductions <- introduction;
                  <-introduction.applied; [safe batches] <-introduction.persisted.
     force merge  index/scorch/merge.go ForceMerge (reached through Advanced(): NO index mutex):
                  select {forceMergeRequestCh <- msg | closeCh}; select {<-msg.doneCh | closeCh}.
                  (The "already in progress" test only removes interleavings and adds an immediate
                  return; it is left out, which is conservative for deadlock freedom.)
     closer       index_impl.go Close: mutex.Lock; open = false; scorch.go Close: close(closeCh);
                  asyncTasks.Wait(); ... ; mutex.Unlock.
     introducer   index/scorch/introducer.go introducerLoop / introduceSegment / introducePersist /
                  introduceMerge (the root swap of introduceMerge precedes its blocking reply
                  nextMerge.notifyCh <- ..., the epoch watchers are notified after it).
     persister    index/scorch/persister.go persisterLoop, pausePersisterForMergerCatchUp,
                  persistSnapshot{,MaybeMerge,Direct}; merge.go mergeAndPersistInMemorySegments.
     merger       index/scorch/merge.go mergerLoop, planMergeAtSnapshot.
   Unbuffered channels (introductions, persists, merges, *.notifyCh of a segmentMerge) are
   rendezvous = one joint step; the 1-buffered channels (introducerNotifier, persisterNotifier,
   forceMergeRequestCh) are queues of length <= 1; the channels that are only ever closed
   (applied, epochWatcher.notifyCh, doneCh, persisted) are flags.
   Epochs are abstracted by booleans: [newer] = root.epoch > the epoch the persister picked last
   (= lastPersistedEpoch whenever the persister is not persisting); a watcher is notified by the
   introducer iff [newer].  Whether the merger's watcher lags (ew.epoch < lastPersistedEpoch) and
   whether a merge plan is empty are nondeterministic choices carried by the step label.
   sync.RWMutex: reader count + writer-waiting + writer-held; a waiting writer blocks NEW readers
   (Go's writer preference). *)
From Coq Require Import List Bool Arith.
Import ListNotations.

(* ---------- guard table: which blocking operation has a closeCh arm ---------- *)
Inductive gpoint :=
| GIntroLoop        (* introducerLoop: select over closeCh/introducerNotifier/merges/introductions/persists *)
| GIMergeReply      (* introduceMerge: nextMerge.notifyCh <- status *)
| GPTop             (* persisterLoop: select { closeCh; persisterNotifier; default } *)
| GPPauseWait       (* pausePersisterForMergerCatchUp: select { closeCh; persisterNotifier } *)
| GPSendMerge       (* mergeAndPersistInMemorySegments: select { closeCh; s.merges <- sm } *)
| GPWaitMergeReply  (* mergeAndPersistInMemorySegments: <-sm.notifyCh *)
| GPSendPersist     (* persistSnapshotDirect: select { closeCh; s.persists <- persist } *)
| GPWaitPApplied    (* persistSnapshotDirect: <-persist.applied *)
| GPRegister        (* persisterLoop: select { closeCh; s.introducerNotifier <- w } *)
| GPWaitNotify      (* persisterLoop: select { closeCh; <-w.notifyCh; <-persisterNotifier } *)
| GMTop             (* mergerLoop: select { closeCh; default } *)
| GMSendMerge       (* planMergeAtSnapshot: select { closeCh; s.merges <- sm } *)
| GMWaitReply       (* planMergeAtSnapshot: <-sm.notifyCh *)
| GMSendWatch       (* mergerLoop: select { closeCh; persisterNotifier <- ew; <-forceMergeRequestCh } *)
| GMWaitNotify      (* mergerLoop: select { closeCh; <-ew.notifyCh; <-forceMergeRequestCh } *)
| GFMSend           (* ForceMerge: select { forceMergeRequestCh <- msg; closeCh } *)
| GFMWait           (* ForceMerge: select { <-msg.doneCh; closeCh } *)
| GBatchSend        (* prepareSegment: s.introductions <- introduction *)
| GBatchApplied     (* prepareSegment: <-introduction.applied *)
| GBatchPersisted.  (* prepareSegment: <-introduction.persisted *)

Definition gpoint_eqb (a b : gpoint) : bool :=
  match a, b with
  | GIntroLoop, GIntroLoop | GIMergeReply, GIMergeReply | GPTop, GPTop | GPPauseWait, GPPauseWait
  | GPSendMerge, GPSendMerge | GPWaitMergeReply, GPWaitMergeReply | GPSendPersist, GPSendPersist
  | GPWaitPApplied, GPWaitPApplied | GPRegister, GPRegister | GPWaitNotify, GPWaitNotify
  | GMTop, GMTop | GMSendMerge, GMSendMerge | GMWaitReply, GMWaitReply | GMSendWatch, GMSendWatch
  | GMWaitNotify, GMWaitNotify | GFMSend, GFMSend | GFMWait, GFMWait | GBatchSend, GBatchSend
  | GBatchApplied, GBatchApplied | GBatchPersisted, GBatchPersisted => true
  | _, _ => false
  end.

Definition gtable := list (gpoint * bool).

Definition guarded (g : gtable) (p : gpoint) : bool :=
  existsb (fun e => gpoint_eqb (fst e) p && snd e) g.

(* what the source has today (re-checked against the regenerated table by Obligations_C11.v) *)
Definition default_guards : gtable :=
  [ (GIntroLoop, true); (GIMergeReply, false); (GPTop, true); (GPPauseWait, true);
    (GPSendMerge, true); (GPWaitMergeReply, false); (GPSendPersist, true); (GPWaitPApplied, false);
    (GPRegister, true); (GPWaitNotify, true); (GMTop, true); (GMSendMerge, true);
    (GMWaitReply, false); (GMSendWatch, true); (GMWaitNotify, true); (GFMSend, true);
    (GFMWait, true); (GBatchSend, false); (GBatchApplied, false); (GBatchPersisted, false) ].

(* the same table with the closeCh arm of the persister's "s.persists <- persist" select removed *)
Definition guards_without_persists_arm : gtable :=
  map (fun e => match fst e with GPSendPersist => (GPSendPersist, false) | _ => e end) default_guards.

(* ---------- processes ---------- *)
Inductive ckind := KBatch | KRead.
Inductive res := ROk | RClosed | RErr.

(* [after] (ghost) = the read lock was acquired after the closer released the write lock *)
Inductive cpc :=
| CStart (k : ckind)
| CLocked (k : ckind) (after : bool)   (* holds RLock, about to test i.open *)
| CSend                                (* offering on s.introductions *)
| CWaitApplied                         (* <-introduction.applied *)
| CWaitPersisted (picked : bool)       (* <-introduction.persisted; picked = the persister took it from rootPersisted *)
| CRead                                (* a read-only operation in progress (reader obtained) *)
| CUnlock (r : res) (after : bool)     (* about to RUnlock and return r *)
| CDone (r : res) (after : bool).

Inductive fpc := FStart | FWaitDone | FNotified | FDone.
Inductive kpc_t := KIdle | KWaitLock | KLocked | KOpenFalse | KWaitTasks | KUnlock | KDone.
Inductive msrc := SrcP | SrcM.         (* who sent a segmentMerge: persister (memory merge) or merger *)
Inductive ipc_t := ILoop | IApply (i : nat) | IPersistApply | IMergeReply (src : msrc) | IExit.
Inductive ppc_t :=
| PTop | PPause | PPauseWait | PPick | PPersist | PSendMerge | PWaitMergeReply | PDirect
| PSendPersist | PWaitPApplied | PRelease (ok : bool) | PRegister | PWaitNotify | PExit.
Inductive mpc_t :=
| MTop | MPlan | MSendMerge | MWaitReply | MPlanDone (ok : bool) | MSendWatch | MWaitNotify | MExit.
Inductive wst := WNone | WQueued | WHeld | WClosed.   (* state of a loop's CURRENT epoch watcher *)
Inductive ctrl := CNone | CDflt | CFM (j : nat).      (* mergerLoop's ctrlMsg *)

Record state := mkState {
  callers : list cpc;
  fms : list fpc;
  rcount : nat; wwait : bool; wheld : bool;   (* indexImpl.mutex *)
  open_ : bool;                               (* indexImpl.open *)
  closed : bool;                              (* closeCh closed *)
  kpc : kpc_t; ipc : ipc_t; ppc : ppc_t; mpc : mpc_t;
  inq : list bool;    (* introducerNotifier (cap 1); true = the persister's current watcher *)
  pnq : list bool;    (* persisterNotifier (cap 1); true = the merger's current watcher *)
  fmq : list nat;     (* forceMergeRequestCh (cap 1): index of the requesting ForceMerge caller *)
  pw : wst;           (* persister's current watcher w (registered with the introducer) *)
  mw : wst;           (* merger's current watcher ew (registered with the persister) *)
  newer : bool;       (* root.epoch > epoch last picked by the persister *)
  mctrl : ctrl;
  disk : bool;        (* persister and merger exist (s.path <> "" and not read-only) *)
  safe : bool         (* !unsafeBatch *)
}.

Definition eff_safe (s : state) : bool := disk s && safe s.

Definition holding (c : cpc) : bool :=
  match c with
  | CLocked _ _ | CSend | CWaitApplied | CWaitPersisted _ | CRead | CUnlock _ _ => true
  | CStart _ | CDone _ _ => false
  end.

Fixpoint upd {A} (l : list A) (i : nat) (x : A) : list A :=
  match l, i with
  | [], _ => []
  | _ :: t, O => x :: t
  | h :: t, S i' => h :: upd t i' x
  end.

Definition pick_c (c : cpc) : cpc := match c with CWaitPersisted false => CWaitPersisted true | _ => c end.
Definition release_c (ok : bool) (c : cpc) : cpc :=
  match c with CWaitPersisted true => CUnlock (if ok then ROk else RErr) false | _ => c end.
Definition notify_fm (f : fpc) : fpc := match f with FWaitDone => FNotified | _ => f end.
Definition close_held (w : wst) : wst := match w with WHeld => WClosed | _ => w end.
Definition stale (q : list bool) : list bool := map (fun _ => false) q.
Definition is_fm (c : ctrl) : bool := match c with CFM _ => true | _ => false end.

Inductive label :=
(* callers *)
| LRLock (i : nat) | LTest (i : nat) | LReadDone (i : nat) | LRUnlock (i : nat)
(* ForceMerge callers *)
| LFMSend (j : nat) | LFMSendClose (j : nat) | LFMWaitClose (j : nat) | LFMDone (j : nat)
(* closer *)
| LKStart | LKAcquire | LKSetOpen | LKCloseCh | LKTasksDone | LKRelease
(* introducer (joint steps carry the partner) *)
| LIClose | LIRecvWatch | LIntroRecv (i : nat) | LIntroApplied | LIRecvMerge (src : msrc)
| LIMergeReply | LIMergeReplyAbandon | LIRecvPersist | LIPersistApplied
(* persister *)
| LPTopClose | LPTopRecv | LPTopDefault | LPPauseGo (nf : bool) | LPPauseNapRecv (nf : bool) | LPPauseBlock
| LPPauseWClose | LPPauseWRecv (again nf : bool) | LPPick | LPPersistMerge | LPPersistNoMerge | LPPersistAbort
| LPSendMergeClose | LPWaitMergeAbandon | LPDirect (seg : bool) | LPSendPersistClose | LPWaitPAppliedAbandon
| LPRelease | LPRegisterClose | LPRegisterSend | LPWaitClose | LPWaitNotified | LPWaitRecv
(* merger *)
| LMTopClose | LMTopGo (plan : bool) | LMPlanNone | LMPlanTasks | LMPlanAbort | LMSendMergeClose
| LMWaitReplyAbandon | LMPlanDone | LMSendWatchClose | LMSendWatchSend | LMSendWatchFM
| LMWaitClose | LMWaitNotified | LMWaitFM.

Definition set_callers (s : state) (c : list cpc) : state :=
  mkState c (fms s) (rcount s) (wwait s) (wheld s) (open_ s) (closed s) (kpc s) (ipc s) (ppc s) (mpc s)
          (inq s) (pnq s) (fmq s) (pw s) (mw s) (newer s) (mctrl s) (disk s) (safe s).
Definition set_fms (s : state) (f : list fpc) : state :=
  mkState (callers s) f (rcount s) (wwait s) (wheld s) (open_ s) (closed s) (kpc s) (ipc s) (ppc s) (mpc s)
          (inq s) (pnq s) (fmq s) (pw s) (mw s) (newer s) (mctrl s) (disk s) (safe s).
Definition set_mutex (s : state) (rc : nat) (ww wh : bool) : state :=
  mkState (callers s) (fms s) rc ww wh (open_ s) (closed s) (kpc s) (ipc s) (ppc s) (mpc s)
          (inq s) (pnq s) (fmq s) (pw s) (mw s) (newer s) (mctrl s) (disk s) (safe s).
Definition set_open (s : state) (o : bool) : state :=
  mkState (callers s) (fms s) (rcount s) (wwait s) (wheld s) o (closed s) (kpc s) (ipc s) (ppc s) (mpc s)
          (inq s) (pnq s) (fmq s) (pw s) (mw s) (newer s) (mctrl s) (disk s) (safe s).
Definition set_closed (s : state) (c : bool) : state :=
  mkState (callers s) (fms s) (rcount s) (wwait s) (wheld s) (open_ s) c (kpc s) (ipc s) (ppc s) (mpc s)
          (inq s) (pnq s) (fmq s) (pw s) (mw s) (newer s) (mctrl s) (disk s) (safe s).
Definition set_kpc (s : state) (k : kpc_t) : state :=
  mkState (callers s) (fms s) (rcount s) (wwait s) (wheld s) (open_ s) (closed s) k (ipc s) (ppc s) (mpc s)
          (inq s) (pnq s) (fmq s) (pw s) (mw s) (newer s) (mctrl s) (disk s) (safe s).
Definition set_ipc (s : state) (i : ipc_t) : state :=
  mkState (callers s) (fms s) (rcount s) (wwait s) (wheld s) (open_ s) (closed s) (kpc s) i (ppc s) (mpc s)
          (inq s) (pnq s) (fmq s) (pw s) (mw s) (newer s) (mctrl s) (disk s) (safe s).
Definition set_ppc (s : state) (p : ppc_t) : state :=
  mkState (callers s) (fms s) (rcount s) (wwait s) (wheld s) (open_ s) (closed s) (kpc s) (ipc s) p (mpc s)
          (inq s) (pnq s) (fmq s) (pw s) (mw s) (newer s) (mctrl s) (disk s) (safe s).
Definition set_mpc (s : state) (m : mpc_t) : state :=
  mkState (callers s) (fms s) (rcount s) (wwait s) (wheld s) (open_ s) (closed s) (kpc s) (ipc s) (ppc s) m
          (inq s) (pnq s) (fmq s) (pw s) (mw s) (newer s) (mctrl s) (disk s) (safe s).
Definition set_inq (s : state) (q : list bool) : state :=
  mkState (callers s) (fms s) (rcount s) (wwait s) (wheld s) (open_ s) (closed s) (kpc s) (ipc s) (ppc s) (mpc s)
          q (pnq s) (fmq s) (pw s) (mw s) (newer s) (mctrl s) (disk s) (safe s).
Definition set_pnq (s : state) (q : list bool) : state :=
  mkState (callers s) (fms s) (rcount s) (wwait s) (wheld s) (open_ s) (closed s) (kpc s) (ipc s) (ppc s) (mpc s)
          (inq s) q (fmq s) (pw s) (mw s) (newer s) (mctrl s) (disk s) (safe s).
Definition set_fmq (s : state) (q : list nat) : state :=
  mkState (callers s) (fms s) (rcount s) (wwait s) (wheld s) (open_ s) (closed s) (kpc s) (ipc s) (ppc s) (mpc s)
          (inq s) (pnq s) q (pw s) (mw s) (newer s) (mctrl s) (disk s) (safe s).
Definition set_pw (s : state) (w : wst) : state :=
  mkState (callers s) (fms s) (rcount s) (wwait s) (wheld s) (open_ s) (closed s) (kpc s) (ipc s) (ppc s) (mpc s)
          (inq s) (pnq s) (fmq s) w (mw s) (newer s) (mctrl s) (disk s) (safe s).
Definition set_mw (s : state) (w : wst) : state :=
  mkState (callers s) (fms s) (rcount s) (wwait s) (wheld s) (open_ s) (closed s) (kpc s) (ipc s) (ppc s) (mpc s)
          (inq s) (pnq s) (fmq s) (pw s) w (newer s) (mctrl s) (disk s) (safe s).
Definition set_newer (s : state) (b : bool) : state :=
  mkState (callers s) (fms s) (rcount s) (wwait s) (wheld s) (open_ s) (closed s) (kpc s) (ipc s) (ppc s) (mpc s)
          (inq s) (pnq s) (fmq s) (pw s) (mw s) b (mctrl s) (disk s) (safe s).
Definition set_mctrl (s : state) (c : ctrl) : state :=
  mkState (callers s) (fms s) (rcount s) (wwait s) (wheld s) (open_ s) (closed s) (kpc s) (ipc s) (ppc s) (mpc s)
          (inq s) (pnq s) (fmq s) (pw s) (mw s) (newer s) c (disk s) (safe s).

(* the select arm "<-s.closeCh" of blocking point p is ready *)
Definition carm (g : gtable) (s : state) (p : gpoint) : bool := closed s && guarded g p.

(* receiving the merger's watcher from persisterNotifier; [cl] = the persister closes it at once *)
Definition recv_pnq (s : state) (cl : bool) : option state :=
  match pnq s with
  | b :: rest =>
      let s1 := set_pnq s rest in
      Some (if b then set_mw s1 (if cl then WClosed else WHeld) else s1)
  | [] => None
  end.

(* the root was swapped: the introducer's watcher loop (end of the iteration) closes the watcher *)
Definition swap_notify (s : state) : state := set_pw (set_newer s true) (close_held (pw s)).

(* ---------- the step function: [step g s l] = the successor when step l is enabled ---------- *)
Definition step (g : gtable) (s : state) (l : label) : option state :=
  match l with
  (* ---- callers (index_impl.go) ---- *)
  | LRLock i =>
      match nth_error (callers s) i with
      | Some (CStart k) =>
          if wwait s || wheld s then None
          else Some (set_mutex (set_callers s (upd (callers s) i (CLocked k (match kpc s with KDone => true | _ => false end))))
                               (S (rcount s)) (wwait s) (wheld s))
      | _ => None
      end
  | LTest i =>
      match nth_error (callers s) i with
      | Some (CLocked k a) =>
          if open_ s then Some (set_callers s (upd (callers s) i (match k with KBatch => CSend | KRead => CRead end)))
          else Some (set_callers s (upd (callers s) i (CUnlock RClosed a)))
      | _ => None
      end
  | LReadDone i =>
      match nth_error (callers s) i with
      | Some CRead => Some (set_callers s (upd (callers s) i (CUnlock ROk false)))
      | _ => None
      end
  | LRUnlock i =>
      match nth_error (callers s) i with
      | Some (CUnlock r a) =>
          Some (set_mutex (set_callers s (upd (callers s) i (CDone r a))) (pred (rcount s)) (wwait s) (wheld s))
      | _ => None
      end
  (* ---- ForceMerge callers (merge.go ForceMerge) ---- *)
  | LFMSend j =>
      match nth_error (fms s) j, fmq s with
      | Some FStart, [] => Some (set_fmq (set_fms s (upd (fms s) j FWaitDone)) [j])
      | _, _ => None
      end
  | LFMSendClose j =>
      match nth_error (fms s) j with
      | Some FStart => if carm g s GFMSend then Some (set_fms s (upd (fms s) j FDone)) else None
      | _ => None
      end
  | LFMWaitClose j =>
      match nth_error (fms s) j with
      | Some FWaitDone => if carm g s GFMWait then Some (set_fms s (upd (fms s) j FDone)) else None
      | _ => None
      end
  | LFMDone j =>
      match nth_error (fms s) j with
      | Some FNotified => Some (set_fms s (upd (fms s) j FDone))
      | _ => None
      end
  (* ---- closer (index_impl.go Close, scorch.go Close) ---- *)
  | LKStart => match kpc s with KIdle => Some (set_mutex (set_kpc s KWaitLock) (rcount s) true (wheld s)) | _ => None end
  | LKAcquire =>
      match kpc s, rcount s with
      | KWaitLock, O => Some (set_mutex (set_kpc s KLocked) O false true)
      | _, _ => None
      end
  | LKSetOpen => match kpc s with KLocked => Some (set_open (set_kpc s KOpenFalse) false) | _ => None end
  | LKCloseCh => match kpc s with KOpenFalse => Some (set_closed (set_kpc s KWaitTasks) true) | _ => None end
  | LKTasksDone =>
      match kpc s, ipc s, ppc s, mpc s with
      | KWaitTasks, IExit, PExit, MExit => Some (set_kpc s KUnlock)
      | _, _, _, _ => None
      end
  | LKRelease => match kpc s with KUnlock => Some (set_mutex (set_kpc s KDone) (rcount s) (wwait s) false) | _ => None end
  (* ---- introducer (introducer.go) ---- *)
  | LIClose => match ipc s with ILoop => if carm g s GIntroLoop then Some (set_ipc s IExit) else None | _ => None end
  | LIRecvWatch =>
      match ipc s, inq s with
      | ILoop, b :: rest =>
          let s1 := set_inq s rest in
          Some (if b then set_pw s1 (if newer s then WClosed else WHeld) else s1)
      | _, _ => None
      end
  | LIntroRecv i =>
      match ipc s, nth_error (callers s) i with
      | ILoop, Some CSend => Some (set_ipc (set_callers s (upd (callers s) i CWaitApplied)) (IApply i))
      | _, _ => None
      end
  | LIntroApplied =>
      match ipc s with
      | IApply i =>
          match nth_error (callers s) i with
          | Some CWaitApplied =>
              let c := if eff_safe s then CWaitPersisted false else CUnlock ROk false in
              Some (swap_notify (set_ipc (set_callers s (upd (callers s) i c)) ILoop))
          | _ => None
          end
      | _ => None
      end
  | LIRecvMerge src =>
      match ipc s with
      | ILoop =>
          match src, ppc s, mpc s with
          | SrcP, PSendMerge, _ => Some (set_newer (set_ipc (set_ppc s PWaitMergeReply) (IMergeReply SrcP)) true)
          | SrcM, _, MSendMerge => Some (set_newer (set_ipc (set_mpc s MWaitReply) (IMergeReply SrcM)) true)
          | _, _, _ => None
          end
      | _ => None
      end
  | LIMergeReply =>
      match ipc s with
      | IMergeReply SrcP =>
          match ppc s with
          | PWaitMergeReply => Some (swap_notify (set_ipc (set_ppc s PDirect) ILoop))
          | _ => None
          end
      | IMergeReply SrcM =>
          match mpc s with
          | MWaitReply => Some (swap_notify (set_ipc (set_mpc s (MPlanDone true)) ILoop))
          | _ => None
          end
      | _ => None
      end
  | LIMergeReplyAbandon =>   (* exists only if the reply send had a closeCh arm *)
      match ipc s with
      | IMergeReply _ => if carm g s GIMergeReply then Some (swap_notify (set_ipc s ILoop)) else None
      | _ => None
      end
  | LIRecvPersist =>
      match ipc s, ppc s with
      | ILoop, PSendPersist => Some (set_ipc (set_ppc s PWaitPApplied) IPersistApply)
      | _, _ => None
      end
  | LIPersistApplied =>
      match ipc s with
      | IPersistApply =>
          let s1 := match ppc s with PWaitPApplied => set_ppc s (PRelease true) | _ => s end in
          Some (swap_notify (set_ipc s1 ILoop))
      | _ => None
      end
  (* ---- persister (persister.go) ---- *)
  | LPTopClose => match ppc s with PTop => if carm g s GPTop then Some (set_ppc s PExit) else None | _ => None end
  | LPTopRecv => match ppc s with PTop => recv_pnq (set_ppc s PPause) false | _ => None end
  | LPTopDefault =>
      match ppc s, pnq s with
      | PTop, [] => if carm g s GPTop then None else Some (set_ppc s PPause)
      | _, _ => None
      end
  | LPPauseGo nf =>
      match ppc s with
      | PPause => Some (set_ppc (if nf then set_mw s (close_held (mw s)) else s) PPick)
      | _ => None
      end
  | LPPauseNapRecv nf => match ppc s with PPause => recv_pnq (set_ppc s PPick) nf | _ => None end
  | LPPauseBlock =>
      match ppc s with
      | PPause => Some (set_ppc (set_mw s (close_held (mw s))) PPauseWait)
      | _ => None
      end
  | LPPauseWClose =>
      match ppc s with PPauseWait => if carm g s GPPauseWait then Some (set_ppc s PPick) else None | _ => None end
  | LPPauseWRecv again nf =>
      match ppc s with
      | PPauseWait => recv_pnq (set_ppc s (if again then PPauseWait else PPick)) (again || nf)
      | _ => None
      end
  | LPPick =>
      match ppc s with
      | PPick =>
          if newer s then Some (set_ppc (set_newer (set_callers s (map pick_c (callers s))) false) PPersist)
          else Some (set_ppc s PRegister)
      | _ => None
      end
  | LPPersistMerge => match ppc s with PPersist => Some (set_ppc s PSendMerge) | _ => None end
  | LPPersistNoMerge => match ppc s with PPersist => Some (set_ppc s PDirect) | _ => None end
  | LPPersistAbort =>   (* MergeUsing(..., s.closeCh, ...) observed the close *)
      match ppc s with PPersist => if closed s then Some (set_ppc s (PRelease false)) else None | _ => None end
  | LPSendMergeClose =>
      match ppc s with PSendMerge => if carm g s GPSendMerge then Some (set_ppc s (PRelease false)) else None | _ => None end
  | LPWaitMergeAbandon =>
      match ppc s with
      | PWaitMergeReply => if carm g s GPWaitMergeReply then Some (set_ppc s (PRelease false)) else None
      | _ => None
      end
  | LPDirect seg =>
      match ppc s with PDirect => Some (set_ppc s (if seg then PSendPersist else PRelease true)) | _ => None end
  | LPSendPersistClose =>
      match ppc s with PSendPersist => if carm g s GPSendPersist then Some (set_ppc s (PRelease false)) else None | _ => None end
  | LPWaitPAppliedAbandon =>
      match ppc s with
      | PWaitPApplied => if carm g s GPWaitPApplied then Some (set_ppc s (PRelease false)) else None
      | _ => None
      end
  | LPRelease =>
      match ppc s with
      | PRelease ok =>
          let s1 := set_callers s (map (release_c ok) (callers s)) in
          if ok then Some (set_ppc (set_mw s1 (close_held (mw s1))) (if newer s then PTop else PRegister))
          else Some (set_ppc s1 PExit)
      | _ => None
      end
  | LPRegisterClose =>
      match ppc s with PRegister => if carm g s GPRegister then Some (set_ppc s PExit) else None | _ => None end
  | LPRegisterSend =>
      match ppc s, inq s with
      | PRegister, [] => Some (set_ppc (set_pw (set_inq s [true]) WQueued) PWaitNotify)
      | _, _ => None
      end
  | LPWaitClose =>
      match ppc s with PWaitNotify => if carm g s GPWaitNotify then Some (set_ppc s PExit) else None | _ => None end
  | LPWaitNotified =>
      match ppc s, pw s with
      | PWaitNotify, WClosed => Some (set_ppc (set_pw s WNone) PTop)
      | _, _ => None
      end
  | LPWaitRecv =>
      match ppc s with
      | PWaitNotify => recv_pnq (set_ppc (set_pw (set_inq s (stale (inq s))) WNone) PTop) false
      | _ => None
      end
  (* ---- merger (merge.go) ---- *)
  | LMTopClose => match mpc s with MTop => if carm g s GMTop then Some (set_mpc s MExit) else None | _ => None end
  | LMTopGo plan =>
      match mpc s with
      | MTop =>
          if carm g s GMTop then None
          else match mctrl s with
               | CNone => if plan then Some (set_mpc (set_mctrl s CDflt) MPlan) else Some (set_mpc s MSendWatch)
               | _ => Some (set_mpc s MPlan)
               end
      | _ => None
      end
  | LMPlanNone => match mpc s with MPlan => Some (set_mpc s (MPlanDone true)) | _ => None end
  | LMPlanTasks => match mpc s with MPlan => Some (set_mpc s MSendMerge) | _ => None end
  | LMPlanAbort =>   (* MergeUsing saw cw.cancelCh: index closed, or the ForceMerge context is done *)
      match mpc s with
      | MPlan => if closed s || is_fm (mctrl s) then Some (set_mpc s (MPlanDone false)) else None
      | _ => None
      end
  | LMSendMergeClose =>
      match mpc s with MSendMerge => if carm g s GMSendMerge then Some (set_mpc s (MPlanDone false)) else None | _ => None end
  | LMWaitReplyAbandon =>
      match mpc s with MWaitReply => if carm g s GMWaitReply then Some (set_mpc s (MPlanDone false)) else None | _ => None end
  | LMPlanDone =>
      match mpc s with
      | MPlanDone ok =>
          match mctrl s with
          | CFM j => Some (set_mpc (set_mctrl (set_fms s (match nth_error (fms s) j with
                                                          | Some f => upd (fms s) j (notify_fm f)
                                                          | None => fms s end)) CNone)
                                   (if ok then MSendWatch else MTop))
          | _ => Some (set_mpc (set_mctrl s CNone) (if ok then MSendWatch else MExit))
          end
      | _ => None
      end
  | LMSendWatchClose =>
      match mpc s with MSendWatch => if carm g s GMSendWatch then Some (set_mpc s MExit) else None | _ => None end
  | LMSendWatchSend =>
      match mpc s, pnq s with
      | MSendWatch, [] => Some (set_mpc (set_mw (set_pnq s [true]) WQueued) MWaitNotify)
      | _, _ => None
      end
  | LMSendWatchFM =>
      match mpc s, fmq s with
      | MSendWatch, j :: rest => Some (set_mpc (set_mctrl (set_fmq s rest) (CFM j)) MTop)
      | _, _ => None
      end
  | LMWaitClose =>
      match mpc s with MWaitNotify => if carm g s GMWaitNotify then Some (set_mpc s MExit) else None | _ => None end
  | LMWaitNotified =>
      match mpc s, mw s with
      | MWaitNotify, WClosed => Some (set_mpc (set_mw s WNone) MTop)
      | _, _ => None
      end
  | LMWaitFM =>
      match mpc s, fmq s with
      | MWaitNotify, j :: rest =>
          Some (set_mpc (set_mctrl (set_fmq (set_mw (set_pnq s (stale (pnq s))) WNone) rest) (CFM j)) MTop)
      | _, _ => None
      end
  end.

(* ---------- enabled steps ---------- *)
Definition bools := [true; false].
Definition all_labels (n m : nat) : list label :=
  flat_map (fun i => [LRLock i; LTest i; LReadDone i; LRUnlock i; LIntroRecv i]) (seq 0 n) ++
  flat_map (fun j => [LFMSend j; LFMSendClose j; LFMWaitClose j; LFMDone j]) (seq 0 m) ++
  [LKStart; LKAcquire; LKSetOpen; LKCloseCh; LKTasksDone; LKRelease;
   LIClose; LIRecvWatch; LIntroApplied; LIRecvMerge SrcP; LIRecvMerge SrcM; LIMergeReply; LIMergeReplyAbandon;
   LIRecvPersist; LIPersistApplied;
   LPTopClose; LPTopRecv; LPTopDefault; LPPauseGo true; LPPauseGo false; LPPauseNapRecv true; LPPauseNapRecv false;
   LPPauseBlock; LPPauseWClose; LPPauseWRecv true true; LPPauseWRecv true false; LPPauseWRecv false true;
   LPPauseWRecv false false; LPPick; LPPersistMerge; LPPersistNoMerge; LPPersistAbort; LPSendMergeClose;
   LPWaitMergeAbandon; LPDirect true; LPDirect false; LPSendPersistClose; LPWaitPAppliedAbandon; LPRelease;
   LPRegisterClose; LPRegisterSend; LPWaitClose; LPWaitNotified; LPWaitRecv;
   LMTopClose; LMTopGo true; LMTopGo false; LMPlanNone; LMPlanTasks; LMPlanAbort; LMSendMergeClose;
   LMWaitReplyAbandon; LMPlanDone; LMSendWatchClose; LMSendWatchSend; LMSendWatchFM; LMWaitClose;
   LMWaitNotified; LMWaitFM].

Definition is_some {A} (o : option A) : bool := match o with Some _ => true | None => false end.

Definition enabled (g : gtable) (s : state) : list label :=
  filter (fun l => is_some (step g s l)) (all_labels (length (callers s)) (length (fms s))).

(* ---------- initial states: any list of callers, any number of ForceMerge callers ---------- *)
Definition init (kinds : list ckind) (nfm : nat) (dsk sf : bool) : state :=
  mkState (map CStart kinds) (repeat FStart nfm) 0 false false true false
          KIdle ILoop (if dsk then PTop else PExit) (if dsk then MTop else MExit)
          [] [] [] WNone WNone false CNone dsk sf.

Inductive reachable (g : gtable) : state -> Prop :=
| reach_init : forall kinds nfm dsk sf, reachable g (init kinds nfm dsk sf)
| reach_step : forall s l s', reachable g s -> step g s l = Some s' -> reachable g s'.

(* running a list of labels *)
Fixpoint run (g : gtable) (s : state) (ls : list label) : option state :=
  match ls with
  | [] => Some s
  | l :: ls' => match step g s l with Some s' => run g s' ls' | None => None end
  end.

(* every process has terminated: callers returned, ForceMerge callers returned, loops exited, Close returned *)
Definition caller_done (c : cpc) : bool := match c with CDone _ _ => true | _ => false end.
Definition fm_done (f : fpc) : bool := match f with FDone => true | _ => false end.
Definition loops_exited (s : state) : bool :=
  match ipc s, ppc s, mpc s with IExit, PExit, MExit => true | _, _, _ => false end.
Definition closer_done (s : state) : bool := match kpc s with KDone => true | _ => false end.
Definition terminated (s : state) : bool :=
  forallb caller_done (callers s) && forallb fm_done (fms s) && loops_exited s && closer_done s.

(* ---------- collector loop (search/collector/topn.go Collect) ----------
   [done k] = ctx.Done() is closed once k matches have been handled; E = CheckDoneEvery.
   The context is polled before the first Next and then whenever totalDocs mod E = 0.
   Returns (cancelled?, number of matches handled). *)
Fixpoint collect_loop (E : nat) (done : nat -> bool) (fuel total : nat) : bool * nat :=
  match fuel with
  | O => (false, total)
  | S fuel' =>
      if (Nat.eqb (total mod E) 0) && done total then (true, total)
      else collect_loop E done fuel' (S total)
  end.

Definition collect (E : nat) (done : nat -> bool) (nmatches : nat) : bool * nat :=
  if done 0 then (true, 0) else collect_loop E done nmatches 0.
