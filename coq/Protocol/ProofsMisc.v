(* Protocol engine — calls after Close, the load-bearing guard, in-memory ForceMerge, the collector. *)
From Coq Require Import List Bool Arith Lia.
From Verif Require Import Protocol.Model Protocol.ProofsBase Protocol.ProofsInv Protocol.ProofsInv2
     Protocol.ProofsInv3 Protocol.ProofsProgress.
Import ListNotations.

(* ---------- calls that take the read lock after Close released the write lock ---------- *)
(* the three places such a call can be in; none of them is a channel operation *)
Definition afterc (c : cpc) : bool :=
  match c with CLocked _ true | CUnlock RClosed true | CDone RClosed true => true | _ => false end.

(* the ghost flag is set exactly when the lock is taken after the closer is done *)
Lemma after_flag_set s i s' :
  step dg s (LRLock i) = Some s' ->
  exists k, nth_error (callers s') i = Some (CLocked k (match kpc s with KDone => true | _ => false end)).
Proof.
  intros HS. unfold step in HS.
  destruct (nth_error (callers s) i) as [c|] eqn:Hn; try discriminate. destruct c; try discriminate.
  destruct (wwait s || wheld s); try discriminate. inversion HS; subst; cbn.
  exists k. eapply nth_upd_eq; eauto.
Qed.

Lemma after_close_state s i c :
  reachable dg s -> nth_error (callers s) i = Some c ->
  match c with
  | CLocked _ true => open_ s = false
  | CUnlock r true | CDone r true => r = RClosed
  | _ => True
  end.
Proof.
  intros Hr Hn. pose proof (forallb_nth _ _ _ _ (i_after s (inv_reachable s Hr)) Hn) as H.
  destruct c; simpl in *; auto; destruct after; auto.
  - destruct (open_ s); simpl in H; congruence.
  - destruct r; congruence.
  - destruct r; congruence.
Qed.

Lemma afterc_pick c : afterc c = true -> pick_c c = c.
Proof. destruct c; simpl; try discriminate; auto. Qed.
Lemma afterc_release ok c : afterc c = true -> release_c ok c = c.
Proof. destruct c; simpl; try discriminate; auto. Qed.

(* such a call only ever moves along CLocked -> CUnlock RClosed -> CDone RClosed: it sees open = false,
   returns the closed error and performs no channel operation *)
Theorem after_close_path : forall s l s' i c,
  reachable dg s -> step dg s l = Some s' ->
  nth_error (callers s) i = Some c -> afterc c = true ->
  exists c', nth_error (callers s') i = Some c' /\ afterc c' = true.
Proof.
  intros s l s' i c Hr HS Hn Ha.
  pose proof (after_close_state s i c Hr Hn) as Hst.
  destruct l; step_inv HS; cbn -[count] in *;
    try (exists c; split; auto; fail);
    try match goal with
        | E : nth_error (callers s) ?i0 = Some ?a |- context [upd (callers s) ?i0 ?x] =>
            rewrite (nth_upd _ _ i x _ E); destruct (Nat.eqb_spec i i0);
            [ subst; rewrite E in Hn; inversion Hn; subst; cbn in Ha; try discriminate Ha | exists c; split; auto ]
        end;
    try (rewrite nth_error_map, Hn; cbn; rewrite ?afterc_pick, ?afterc_release by auto; exists c; split; auto; fail).
  all: try (destruct after; try discriminate Ha; congruence).
  all: try (destruct after; try discriminate Ha; eexists; split; [ reflexivity | reflexivity ]).
  all: try (destruct r; try discriminate Ha; destruct after; try discriminate Ha;
            eexists; split; [ reflexivity | reflexivity ]).
Qed.

(* ---------- the closeCh arm of "s.persists <- persist" is load-bearing ---------- *)
Lemma run_reachable_g g s ls s' : reachable g s -> run g s ls = Some s' -> reachable g s'.
Proof.
  revert s; induction ls; simpl; intros s Hr H.
  - inversion H; subst; auto.
  - destruct (step g s a) eqn:E; try discriminate. eapply IHls; [ | eauto ]. eapply reach_step; eauto.
Qed.

(* one writer; Close arrives while the persister is about to hand its persisted segments to the
   introducer, the introducer takes its closeCh arm first: persister blocked forever, Close never returns *)
Definition stuck_labels : list label :=
  [LRLock 0; LTest 0; LIntroRecv 0; LIntroApplied; LRUnlock 0;
   LPTopDefault; LPPauseGo false; LPPick; LPPersistNoMerge; LPDirect true;
   LKStart; LKAcquire; LKSetOpen; LKCloseCh; LIClose; LMTopClose].

Theorem unguarded_persists_send_stuck :
  exists s, reachable guards_without_persists_arm s /\
            kpc s = KWaitTasks /\ ppc s = PSendPersist /\ terminated s = false /\
            enabled guards_without_persists_arm s = [].
Proof.
  destruct (run guards_without_persists_arm (init [KBatch] 0 true false) stuck_labels) as [s|] eqn:E;
    [ | vm_compute in E; discriminate E ].
  exists s. split.
  - eapply run_reachable_g; [ apply reach_init | exact E ].
  - vm_compute in E. inversion E; subst. vm_compute. repeat split; reflexivity.
Qed.

(* with today's table the same schedule is not stuck (the persister takes its closeCh arm) *)
Example guarded_same_schedule_not_stuck :
  exists s, run dg (init [KBatch] 0 true false) stuck_labels = Some s /\
            In LPSendPersistClose (enabled dg s).
Proof. eexists. split. vm_compute. reflexivity. vm_compute. auto. Qed.

(* ---------- ForceMerge on an in-memory scorch index waits for Close ---------- *)
Theorem mem_forcemerge_waits_for_close :
  exists s, reachable dg s /\ disk s = false /\ nth_error (fms s) 0 = Some FWaitDone /\
            enabled dg s = [LKStart].
Proof.
  destruct (run dg (init [] 1 false true) [LFMSend 0]) as [s|] eqn:E; [ | vm_compute in E; discriminate E ].
  exists s. split.
  - eapply run_reachable_g; [ apply reach_init | exact E ].
  - vm_compute in E. inversion E; subst. vm_compute. repeat split; reflexivity.
Qed.

(* ---------- collector: a cancelled context is observed within CheckDoneEvery matches ---------- *)
Lemma collect_loop_spec E done : forall f t b k,
  collect_loop E done f t = (b, k) ->
  t <= k <= t + f /\
  (b = true -> k mod E = 0 /\ done k = true) /\
  (b = false -> k = t + f) /\
  (forall j, t <= j < k -> (Nat.eqb (j mod E) 0) && done j = false).
Proof.
  induction f; intros t b k H; simpl in H.
  - inversion H; subst. repeat split; intros; try lia; try discriminate.
  - destruct ((Nat.eqb (t mod E) 0) && done t) eqn:Hp.
    + inversion H; subst. apply andb_true_iff in Hp. destruct Hp as [Hm Hd]. apply Nat.eqb_eq in Hm.
      repeat split; intros; try lia; try discriminate; auto.
    + destruct (IHf (S t) b k H) as (A & B & C & D).
      repeat split; intros; try lia; auto.
      all: try (apply B; auto; fail).
      all: try (rewrite C; auto; lia).
      all: try (destruct (Nat.eq_dec j t); [ subst; auto | apply D; lia ]).
Qed.

Theorem cancel_prompt : forall E done n c b k,
  E > 0 ->
  (forall x y, x <= y -> done x = true -> done y = true) ->   (* once done, always done *)
  done c = true ->
  collect E done n = (b, k) ->
  k < c + E /\ k <= n /\ (b = true \/ k = n) /\ (b = true -> done k = true).
Proof.
  intros E done n c b k HE Hmono Hc H. unfold collect in H.
  destruct (done 0) eqn:H0.
  - inversion H; subst. repeat split; auto; lia.
  - destruct (collect_loop_spec E done n 0 b k H) as (A & B & C & D).
    repeat split; try lia.
    + (* a multiple of E lies in [c, c+E): the poll at that match would have fired *)
      destruct (Nat.lt_ge_cases k (c + E)) as [|Hge]; auto. exfalso.
      pose proof (Nat.div_mod (c + E - 1) E ltac:(lia)) as Hdm.
      pose proof (Nat.mod_upper_bound (c + E - 1) E ltac:(lia)) as Hub.
      set (q := (c + E - 1) / E) in *. set (rm := (c + E - 1) mod E) in *.
      assert (Hj : c <= E * q /\ E * q < c + E) by lia.
      specialize (D (E * q) ltac:(lia)).
      rewrite (Hmono c (E * q)) in D by (lia || auto).
      rewrite Nat.mul_comm, Nat.mod_mul in D by lia. simpl in D. discriminate.
    + destruct b; auto.
    + intros Hb. apply B; auto.
Qed.

(* the hypotheses are satisfiable and the bound is attained *)
Example cancel_prompt_example :
  collect 1024 (fun k => Nat.leb 1500 k) 5000 = (true, 2048) /\
  collect 1024 (fun k => Nat.leb 1500 k) 2000 = (false, 2000).
Proof. split; vm_compute; reflexivity. Qed.
