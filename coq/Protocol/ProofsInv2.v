(* Protocol engine — preservation of the invariants about the caller list. *)
From Coq Require Import List Bool Arith Lia.
From Verif Require Import Protocol.Model Protocol.ProofsBase Protocol.ProofsInv.
Import ListNotations.

Ltac use_imps :=
  repeat match goal with
         | Himp : ?x = ?x -> _ |- _ => specialize (Himp eq_refl)
         | Himp : ?P -> _, HP : ?P |- _ => specialize (Himp HP)
         end.

Lemma after_ok_weaken c : after_ok true c = true -> after_ok false c = true.
Proof. destruct c; simpl; auto; destruct after; simpl; auto. Qed.

Lemma not_unpicked_pick c : not_unpicked (pick_c c) = true.
Proof. destruct c; simpl; auto; destruct picked; auto. Qed.
Lemma not_picked_release ok c : not_picked (release_c ok c) = true.
Proof. destruct c; simpl; auto; destruct picked; auto. Qed.
Lemma not_unpicked_release ok c : not_unpicked c = true -> not_unpicked (release_c ok c) = true.
Proof. destruct c; simpl; auto; destruct picked; auto. Qed.
Lemma not_waitp_pick c : not_waitp c = true -> not_waitp (pick_c c) = true.
Proof. destruct c; simpl; auto; destruct picked; auto. Qed.
Lemma not_waitp_release ok c : not_waitp c = true -> not_waitp (release_c ok c) = true.
Proof. destruct c; simpl; auto; destruct picked; auto. Qed.
Lemma cold_pick c : cold c = true -> cold (pick_c c) = true.
Proof. destruct c; simpl; auto; discriminate. Qed.
Lemma cold_release ok c : cold c = true -> cold (release_c ok c) = true.
Proof. destruct c; simpl; auto; discriminate. Qed.
Lemma after_ok_pick o c : after_ok o c = true -> after_ok o (pick_c c) = true.
Proof. destruct c; simpl; auto; destruct picked; auto. Qed.
Lemma after_ok_release o ok c : after_ok o c = true -> after_ok o (release_c ok c) = true.
Proof. destruct c; simpl; auto; destruct picked; auto. Qed.

Lemma forallb_map_same (f : cpc -> bool) (m : cpc -> cpc) l :
  (forall c, f c = true -> f (m c) = true) -> forallb f l = true -> forallb f (map m l) = true.
Proof. apply forallb_map_imp. Qed.

Ltac fb_map :=
  first [ apply forallb_map_same;
          [ intros;
            first [ apply not_unpicked_release | apply not_waitp_pick | apply not_waitp_release
                  | apply cold_pick | apply cold_release | apply after_ok_pick | apply after_ok_release ]; assumption
          | assumption ]
        | apply forallb_all_map; intros; first [ apply not_unpicked_pick | apply not_picked_release ] ].

Ltac rw_eqs :=
  try match goal with E : open_ _ = true |- _ => rewrite E in * end;
  try match goal with E : open_ _ = false |- _ => rewrite E in * end.

Ltac fb_upd :=
  apply forallb_upd; [ assumption | simpl; try reflexivity ].

Section Step.
  Variables (s s' : state) (l : label).
  Hypothesis HI : Inv s.
  Hypothesis HS : step default_guards s l = Some s'.

  Lemma inv_rc : rcount s' = count holding (callers s') /\ (wheld s' = true -> rcount s' = 0).
  Proof.
    destruct HI.
    destruct l; step_inv HS; cbn -[count holding] in *;
      try match goal with
          | E : nth_error (callers s) ?i = Some ?a |- context [upd (callers s) ?i ?x] =>
              let Hc := fresh "Hc" in pose proof (count_upd holding _ _ x _ E) as Hc; cbn in Hc
          end;
      rewrite ?(count_map holding pick_c) by (apply holding_pick);
      rewrite ?(count_map holding (release_c _)) by (apply holding_release);
      try match goal with E : _ || _ = false |- _ => apply orb_false_iff in E; destruct E end;
      split; intros; try lia; try congruence; try (use_imps; lia).
  Qed.

  Lemma inv_cold : open_ s' = false -> forallb cold (callers s') = true.
  Proof.
    destruct HI. pose proof inv_rc as [Hrc' _].
    destruct l; step_inv HS; cbn -[count] in *; intros; use_imps; try assumption; try congruence;
      try (fb_upd; fail); try (exfalso; contra_nth); try fb_map.
    (* LKSetOpen: the write lock is held, so nobody is inside *)
    all: try (apply count0_cold; cbn in *; use_imps; lia).
  Qed.

  Lemma inv_after : forallb (after_ok (open_ s')) (callers s') = true.
  Proof.
    destruct HI.
    destruct l; step_inv HS; cbn -[count] in *; rw_eqs; try assumption; try (fb_upd; fail); try fb_map.
    all: try (apply forallb_upd; [ assumption | ];
              match goal with
              | Hn : nth_error (callers s) ?i = Some ?a, Ha : forallb (after_ok _) (callers s) = true |- _ =>
                  let X := fresh in pose proof (forallb_nth _ _ _ _ Ha Hn) as X; cbn in *; auto
              end).
    all: try (eapply forallb_imp; [ | eassumption ]; intros c Hc; apply after_ok_weaken; assumption).
    all: try (match goal with Ho : true = kpc_open KDone |- _ => discriminate Ho end).
  Qed.

  Lemma inv_unp : newer s' = false -> forallb not_unpicked (callers s') = true.
  Proof.
    destruct HI.
    destruct l; step_inv HS; cbn -[count] in *; intros; try discriminate; use_imps; try assumption;
      try congruence; try (fb_upd; fail); try fb_map.
    all: try (apply forallb_upd; [ assumption | ]; destruct (eff_safe s); reflexivity).
  Qed.

  Lemma inv_pk : persisting (ppc s') = false -> forallb not_picked (callers s') = true.
  Proof.
    destruct HI.
    destruct l; step_inv HS; cbn -[count] in *; intros; try discriminate;
      repeat match goal with E : ppc s = _ |- _ => rewrite E in *; clear E end; cbn in *;
      use_imps; try assumption; try congruence; try (fb_upd; fail); try fb_map.
    all: try (apply forallb_upd; [ auto | ]; try destruct (eff_safe s); reflexivity).
    all: try (destruct ok; discriminate).
    all: try (destruct seg; discriminate).
    all: try (destruct again; discriminate).
  Qed.

  Lemma inv_wp : disk s' = false -> forallb not_waitp (callers s') = true.
  Proof.
    destruct HI.
    destruct l; step_inv HS; cbn -[count] in *; intros; use_imps; try assumption;
      try congruence; try (fb_upd; fail); try fb_map.
    all: try (exfalso; match goal with H : disk s = false, E : eff_safe s = true |- _ =>
                         unfold eff_safe in E; rewrite H in E; discriminate E end).
    all: try (apply forallb_upd; [ assumption | ]; destruct ok; reflexivity).
  Qed.
End Step.
