(* Protocol engine — preservation of the rendezvous / watcher / force-merge invariants, and
   Inv for every reachable state. *)
From Coq Require Import List Bool Arith Lia.
From Verif Require Import Protocol.Model Protocol.ProofsBase Protocol.ProofsInv Protocol.ProofsInv2.
Import ListNotations.

Ltac rw_pcs :=
  repeat match goal with
         | E : ipc ?s = _ |- _ => rewrite E in *; clear E
         | E : ppc ?s = _ |- _ => rewrite E in *; clear E
         | E : mpc ?s = _ |- _ => rewrite E in *; clear E
         end.

Lemma in_true_single b : In true [b] <-> b = true.
Proof. simpl. intuition congruence. Qed.

Lemma len1_tail {A} (b : A) rest : length (b :: rest) <= 1 -> rest = [].
Proof. destruct rest; simpl; auto; lia. Qed.

Lemma len_S_le1 {A} (rest : list A) : S (length rest) <= 1 -> rest = [].
Proof. destruct rest; simpl; auto; lia. Qed.

Section Step.
  Variables (s s' : state) (l : label).
  Hypothesis HI : Inv s.
  Hypothesis HS : step default_guards s l = Some s'.

  Lemma inv_rdv :
    (ppc s' = PWaitPApplied <-> ipc s' = IPersistApply) /\
    (ppc s' = PWaitMergeReply <-> ipc s' = IMergeReply SrcP) /\
    (mpc s' = MWaitReply <-> ipc s' = IMergeReply SrcM).
  Proof.
    destruct HI.
    destruct l; step_inv HS; cbn -[count] in *; rw_pcs; cbn in *;
      repeat split; intros; try congruence; try discriminate;
      try (exfalso; intuition congruence); try (intuition congruence).
  Qed.

  Lemma inv_apply : forall k, nth_error (callers s') k = Some CWaitApplied <-> ipc s' = IApply k.
  Proof.
    pose proof (i_apply s HI) as Happ. destruct HI. intro k0. pose proof (Happ k0) as Hk.
    destruct l; step_inv HS; cbn -[count] in *;
      try match goal with
          | E : nth_error (callers s) ?i = Some _ |- context [upd (callers s) ?i ?x] =>
              let Hi := fresh "Hi" in
              pose proof (Happ i) as Hi; rewrite (nth_upd _ _ k0 x _ E);
              destruct (Nat.eqb_spec k0 i); subst
          end;
      rewrite ?(nth_map_wa pick_c) by (apply pick_c_wa);
      rewrite ?(nth_map_wa (release_c _)) by (apply release_c_wa);
      rw_pcs; cbn in *; try assumption; try (intuition congruence).
  Qed.

  Lemma inv_pw :
    (pw s' = WQueued <-> In true (inq s')) /\ length (inq s') <= 1 /\
    (ppc s' = PWaitNotify -> pw s' <> WNone) /\
    (pw s' = WHeld -> newer s' = true -> exists src, ipc s' = IMergeReply src).
  Proof.
    destruct HI.
    destruct l; step_inv HS; cbn -[count] in *;
      try match goal with R : S (length _) <= 1 |- _ => apply len_S_le1 in R; subst end;
      try match goal with E : inq s = [] |- _ => try rewrite E in * end;
      rw_pcs; cbn in *;
      rewrite ?close_held_queued, ?length_stale;
      (split; [ | split; [ | split ] ]); intros;
      try (exfalso; eapply not_in_stale; eassumption);
      try (exfalso; eapply close_held_not_held; eassumption);
      try discriminate; try congruence; try lia; try tauto; eauto;
      try (intuition (try congruence; try discriminate); fail).
    all: try (split; intros; try discriminate; try congruence;
              try (exfalso; eapply not_in_stale; eassumption); intuition congruence).
    all: try (rewrite close_held_none; auto).
    all: try (intuition (try congruence; try discriminate); fail).
    all: try (exfalso;
              match goal with
              | Hh : _ = WHeld -> _ = true -> exists _, _ |- _ =>
                  let X := fresh in destruct (Hh ltac:(assumption) ltac:(assumption)) as [? X]; congruence
              end).
  Qed.

  Lemma inv_mw :
    (mw s' = WQueued <-> In true (pnq s')) /\ length (pnq s') <= 1 /\
    (mpc s' = MWaitNotify -> mw s' <> WNone) /\
    (ppc s' = PPauseWait -> mw s' <> WHeld).
  Proof.
    destruct HI.
    destruct l; step_inv HS; cbn -[count] in *;
      try match goal with E : pnq s = _ |- _ => rewrite E in * end; cbn -[count] in *;
      try match goal with R : S (length _) <= 1 |- _ => apply len_S_le1 in R; subst end;
      try match goal with E : pnq s = [] |- _ => try rewrite E in * end;
      rw_pcs; cbn in *;
      rewrite ?close_held_queued, ?length_stale;
      (split; [ | split; [ | split ] ]); intros;
      try (exfalso; eapply not_in_stale; eassumption);
      try (exfalso; eapply close_held_not_held; eassumption);
      try discriminate; try congruence; try lia; try tauto; eauto;
      try (intuition (try congruence; try discriminate); fail).
    all: try (split; intros; try discriminate; try congruence;
              try (exfalso; eapply not_in_stale; eassumption); intuition congruence).
    all: try (rewrite close_held_none; auto).
    all: try (apply close_held_not_held).
    all: try (intuition (try congruence; try discriminate); fail).
  Qed.

  Lemma inv_fm : forall j, nth_error (fms s') j = Some FWaitDone -> In j (fmq s') \/ mctrl s' = CFM j.
  Proof.
    pose proof (i_fm s HI) as Hfm. pose proof (i_mc s HI) as Hmc. destruct HI. intros j0.
    pose proof (Hfm j0) as Hj.
    destruct l; step_inv HS; cbn -[count] in *;
      try match goal with
          | E : nth_error (fms s) ?j = Some _ |- context [upd (fms s) ?j ?x] =>
              rewrite (nth_upd _ _ j0 x _ E); destruct (Nat.eqb_spec j0 j); subst
          end;
      rw_pcs; cbn in *; intros; try discriminate; try (intuition congruence).
    all: try (match goal with E : fmq s = _ |- _ => rewrite E in * end; cbn in *;
              use_imps; intuition (try congruence; try discriminate)).
    all: try (match goal with H : Some (notify_fm ?f) = Some FWaitDone |- _ => destruct f; discriminate H end).
  Qed.
End Step.

(* ---------- Inv holds in every reachable state ---------- *)
Lemma forallb_map_gen {A B} (f : B -> bool) (m : A -> B) l :
  (forall a, f (m a) = true) -> forallb f (map m l) = true.
Proof. intros Hm; induction l; simpl; auto. rewrite Hm, IHl; auto. Qed.

Lemma inv_init kinds nfm dsk sf : Inv (init kinds nfm dsk sf).
Proof.
  constructor; simpl; intros; auto; try discriminate; try lia; try tauto;
    try (apply forallb_map_gen; reflexivity);
    try (destruct dsk; auto; try discriminate; split; intros; discriminate);
    try (split; intros; try discriminate; tauto).
  - rewrite count_map_CStart. reflexivity.
  - split; intros H; try discriminate. apply nth_map_some in H. destruct H as (a & _ & Ha). discriminate.
  - apply nth_repeat in H. discriminate.
Qed.

Lemma inv_step s l s' : Inv s -> step default_guards s l = Some s' -> Inv s'.
Proof.
  intros HI HS.
  pose proof (inv_scalar s s' l HI HS) as (A1 & A2 & A3 & A4 & A5 & A6 & A7 & A8 & A9 & A10 & A11 & A12).
  pose proof (inv_rc s s' l HI HS) as (B1 & B2).
  pose proof (inv_rdv s s' l HI HS) as (C1 & C2 & C3).
  pose proof (inv_pw s s' l HI HS) as (D1 & D2 & D3 & D4).
  pose proof (inv_mw s s' l HI HS) as (E1 & E2 & E3 & E4).
  constructor; auto.
  - eapply inv_cold; eauto.
  - eapply inv_after; eauto.
  - eapply inv_apply; eauto.
  - eapply inv_unp; eauto.
  - eapply inv_pk; eauto.
  - eapply inv_wp; eauto.
  - eapply inv_fm; eauto.
Qed.

Lemma inv_reachable s : reachable default_guards s -> Inv s.
Proof.
  induction 1. apply inv_init. eapply inv_step; eauto.
Qed.
