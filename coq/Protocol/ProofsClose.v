(* Protocol engine — Close completes: a ranking that strictly decreases with every step once closeCh
   is closed, and the fair-run theorem built on it. *)
From Coq Require Import List Bool Arith Lia.
From Verif Require Import Protocol.Model Protocol.ProofsBase Protocol.ProofsInv Protocol.ProofsInv2
     Protocol.ProofsInv3 Protocol.ProofsProgress.
Import ListNotations.

Definition rank_k k := match k with KWaitTasks => 2 | KUnlock => 1 | _ => 0 end.
Definition rank_i i := match i with ILoop => 1 | IExit => 0 | _ => 2 end.
Definition rank_p p :=
  match p with
  | PPause => 14 | PPauseWait => 13 | PPick => 12 | PPersist => 11 | PSendMerge => 10
  | PWaitMergeReply => 9 | PDirect => 8 | PSendPersist => 7 | PWaitPApplied => 6 | PRelease _ => 5
  | PRegister => 4 | PWaitNotify => 3 | PTop => 2 | PExit => 0
  end.
Definition rank_m m :=
  match m with
  | MPlan => 9 | MSendMerge => 8 | MWaitReply => 7 | MPlanDone _ => 6 | MSendWatch => 5
  | MWaitNotify => 4 | MTop => 3 | MExit => 0
  end.
(* the merger may still hand one more watcher to the persister *)
Definition msend m := match m with MPlan | MSendMerge | MWaitReply | MPlanDone _ | MSendWatch => 1 | _ => 0 end.
Definition rank_f f := match f with FStart => 3 | FWaitDone => 2 | FNotified => 1 | FDone => 0 end.
Definition sum_f (l : list fpc) : nat := fold_right (fun f a => rank_f f + a) 0 l.

(* ranking function of the shutdown: pending rendezvous weighted so that every step pays *)
Definition mu (s : state) : nat :=
  rank_k (kpc s) + rank_i (ipc s) + length (inq s) + 2 * rank_p (ppc s) +
  30 * (length (pnq s) + msend (mpc s)) + 2 * rank_m (mpc s) + sum_f (fms s).

Lemma sum_f_upd l j x a : nth_error l j = Some a -> sum_f (upd l j x) + rank_f a = sum_f l + rank_f x.
Proof.
  revert j; induction l; intros [|j] H; simpl in *; try discriminate.
  - inversion H; subst. lia.
  - specialize (IHl _ H). lia.
Qed.

Lemma rank_notify f : rank_f (notify_fm f) <= rank_f f.
Proof. destruct f; simpl; lia. Qed.

Lemma no_holder_when_held s i c :
  Inv s -> wheld s = true -> nth_error (callers s) i = Some c -> holding c = false.
Proof.
  intros HI Hw Hn. pose proof (i_h0 s HI Hw) as H0. rewrite (i_rc s HI) in H0.
  eapply count_zero_nth; eauto.
Qed.

Section M.
  Variables (s s' : state) (l : label).
  Hypothesis HI : Inv s.
  Hypothesis Hc : closed s = true.
  Hypothesis Hk : kpc s <> KDone.
  Hypothesis HS : step dg s l = Some s'.

  Lemma held : wheld s = true.
  Proof.
    rewrite (i_wh s HI). pose proof (i_cl s HI) as H. rewrite Hc in H.
    destruct (kpc s); simpl in *; congruence.
  Qed.

  (* once closeCh is closed and until Close returns, EVERY step strictly decreases mu *)
  Lemma mu_decreases : mu s' < mu s.
  Proof.
    pose proof held as Hh. pose proof (i_apply s HI) as Happ.
    pose proof (i_cl s HI) as Hcl. rewrite Hc in Hcl.
    pose proof (i_inq s HI) as Hinq. pose proof (i_pnq s HI) as Hpnq.
    assert (Hnh : forall i c, nth_error (callers s) i = Some c -> holding c = false)
      by (intros; eapply no_holder_when_held; eauto).
    unfold mu.
    destruct l; step_inv HS; cbn -[Nat.mul sum_f] in *;
      try match goal with E : _ || _ = false |- _ => rewrite Hh, orb_true_r in E; discriminate E end;
      try (match goal with E : nth_error (callers s) _ = Some _ |- _ => apply Hnh in E; discriminate E end);
      try (match goal with E : ipc s = IApply ?i |- _ =>
             let X := fresh in pose proof (proj2 (Happ i) E) as X; apply Hnh in X; discriminate X end);
      try match goal with
          | E : nth_error (fms s) ?j = Some ?a |- context [upd (fms s) ?j ?x] =>
              let Hs := fresh "Hs" in pose proof (sum_f_upd _ _ x _ E) as Hs; cbn in Hs;
              try (pose proof (rank_notify a))
          end;
      repeat match goal with
             | E : kpc s = _ |- _ => rewrite E in *; clear E
             | E : ipc s = _ |- _ => rewrite E in *; clear E
             | E : ppc s = _ |- _ => rewrite E in *; clear E
             | E : mpc s = _ |- _ => rewrite E in *; clear E
             | E : inq s = _ |- _ => rewrite E in *; clear E
             | E : pnq s = _ |- _ => rewrite E in *; clear E
             | E : closed s = _ |- _ => rewrite E in *; clear E
             end;
      cbn -[Nat.mul sum_f] in *; rewrite ?length_stale; try discriminate; try congruence;
      try (destruct ok; cbn -[Nat.mul sum_f]); try (destruct seg; cbn -[Nat.mul sum_f]);
      try (destruct again; cbn -[Nat.mul sum_f]); try lia.
  Qed.
End M.

(* ---------- runs and fairness ---------- *)
(* an infinite sequence of states: each position takes an enabled step, or nothing is enabled and
   the state repeats (a maximal finite run padded by stuttering) *)
Definition is_run (r : nat -> state) : Prop :=
  forall n, (exists l, step dg (r n) l = Some (r (S n))) \/ (enabled dg (r n) = [] /\ r (S n) = r n).

(* the two steps Close performs between taking the write lock and closing closeCh *)
Definition closer_label (l : label) : bool := match l with LKSetOpen | LKCloseCh => true | _ => false end.
Definition closer_enabled (s : state) : bool := existsb closer_label (enabled dg s).
Definition closer_taken (r : nat -> state) (m : nat) : Prop :=
  exists l, closer_label l = true /\ step dg (r m) l = Some (r (S m)).
(* weak fairness towards the closer goroutine, in its constructive form: an enabled closer step is
   eventually taken or disabled *)
Definition closer_fair (r : nat -> state) : Prop :=
  forall n, closer_enabled (r n) = true ->
            exists m, m >= n /\ (closer_taken r m \/ closer_enabled (r m) = false).

Definition holds_lock (k : kpc_t) : bool :=
  match k with KLocked | KOpenFalse | KWaitTasks | KUnlock => true | _ => false end.

Lemma closer_enabled_iff s : closer_enabled s = true <-> kpc s = KLocked \/ kpc s = KOpenFalse.
Proof.
  unfold closer_enabled. rewrite existsb_exists. split.
  - intros (l & Hin & Hl). apply enabled_spec in Hin. destruct Hin as [s' Hs].
    destruct l; simpl in Hl; try discriminate; unfold step in Hs; destruct (kpc s); try discriminate; auto.
  - intros [H | H].
    + exists LKSetOpen. split; auto. apply enabled_spec. eexists. unfold step. rewrite H. reflexivity.
    + exists LKCloseCh. split; auto. apply enabled_spec. eexists. unfold step. rewrite H. reflexivity.
Qed.

Lemma kpc_step s l s' :
  step dg s l = Some s' ->
  kpc s' = kpc s \/
  (closer_label l = true /\ ((kpc s = KLocked /\ kpc s' = KOpenFalse) \/ (kpc s = KOpenFalse /\ kpc s' = KWaitTasks))) \/
  (closer_label l = false /\ kpc s <> KLocked /\ kpc s <> KOpenFalse).
Proof.
  intros HS. destruct l; step_inv HS; cbn; auto; right; try (left; split; auto; fail);
    right; repeat split; auto; congruence.
Qed.

Lemma closer_label_changes s l s' : closer_label l = true -> step dg s l = Some s' -> kpc s' <> kpc s.
Proof.
  intros Hl HS. destruct l; simpl in Hl; try discriminate; step_inv HS; cbn; congruence.
Qed.

Lemma closed_step s l s' : step dg s l = Some s' -> closed s = true -> closed s' = true.
Proof. intros HS Hc. destruct l; step_inv HS; cbn; auto; try congruence. Qed.

Lemma closed_can_step s :
  Inv s -> closed s = true -> kpc s = KDone \/ (kpc s <> KDone /\ exists l s', step dg s l = Some s' /\ mu s' < mu s).
Proof.
  intros HI Hc. destruct (kpc s) eqn:Ek; auto; right;
    try (exfalso; rewrite (i_cl s HI), Ek in Hc; discriminate Hc).
  - destruct (closer_prog s HI) as (l & s' & Hst & _); try congruence. split; [ congruence | ].
    exists l, s'. split; auto. eapply mu_decreases; eauto. congruence.
  - destruct (closer_prog s HI) as (l & s' & Hst & _); try congruence. split; [ congruence | ].
    exists l, s'. split; auto. eapply mu_decreases; eauto. congruence.
Qed.

Section Run.
  Variable r : nat -> state.
  Hypothesis Hr0 : reachable dg (r 0).
  Hypothesis Hrun : is_run r.

  Lemma run_reachable n : reachable dg (r n).
  Proof.
    induction n; auto. destruct (Hrun n) as [[l H] | [_ H]].
    - eapply reach_step; eauto.
    - rewrite H. auto.
  Qed.

  Lemma run_kpc_next n :
    kpc (r (S n)) = kpc (r n) \/
    (kpc (r n) = KLocked /\ kpc (r (S n)) = KOpenFalse) \/ (kpc (r n) = KOpenFalse /\ kpc (r (S n)) = KWaitTasks) \/
    (kpc (r n) <> KLocked /\ kpc (r n) <> KOpenFalse).
  Proof.
    destruct (Hrun n) as [[l H] | [_ H]].
    - destruct (kpc_step _ _ _ H) as [A | [[_ A] | [_ A]]]; auto. destruct A; auto.
    - rewrite H. auto.
  Qed.

  (* until the closer moves, its program counter stays where it is *)
  Lemma stays_or_moves n k0 k1 :
    ((k0 = KLocked /\ k1 = KOpenFalse) \/ (k0 = KOpenFalse /\ k1 = KWaitTasks)) ->
    kpc (r n) = k0 ->
    forall d, kpc (r (n + d)) = k0 \/ exists j, j <= d /\ kpc (r (n + j)) = k1.
  Proof.
    intros Hk H0. induction d.
    - rewrite Nat.add_0_r. auto.
    - destruct IHd as [Hs | (j & Hj & Hj1)].
      + replace (n + S d) with (S (n + d)) by lia.
        destruct (run_kpc_next (n + d)) as [A | [[A B] | [[A B] | [A B]]]].
        * left. congruence.
        * right. exists (S d). split; auto. replace (n + S d) with (S (n + d)) by lia.
          destruct Hk as [[X Y] | [X Y]]; subst; congruence.
        * right. exists (S d). split; auto. replace (n + S d) with (S (n + d)) by lia.
          destruct Hk as [[X Y] | [X Y]]; subst; congruence.
        * destruct Hk as [[X Y] | [X Y]]; subst; congruence.
      + right. exists j. split; auto.
  Qed.

  Hypothesis Hfair : closer_fair r.

  Lemma closer_moves n k0 k1 :
    ((k0 = KLocked /\ k1 = KOpenFalse) \/ (k0 = KOpenFalse /\ k1 = KWaitTasks)) ->
    kpc (r n) = k0 -> exists m, m >= n /\ kpc (r m) = k1.
  Proof.
    intros Hk H0.
    assert (He : closer_enabled (r n) = true).
    { apply closer_enabled_iff. destruct Hk as [[X _] | [X _]]; subst; auto. }
    destruct (Hfair n He) as (m & Hm & Hd).
    replace m with (n + (m - n)) in * by lia.
    destruct (stays_or_moves n k0 k1 Hk H0 (m - n)) as [Hs | (j & Hj & Hj1)].
    - destruct Hd as [(l & Hl & Hst) | Hne].
      + exists (S (n + (m - n))). split; [ lia | ].
        destruct (kpc_step _ _ _ Hst) as [A | [[_ A] | [A _]]].
        * (* a closer label always changes kpc *)
          exfalso. eapply closer_label_changes; eauto.
        * destruct Hk as [[X Y] | [X Y]]; destruct A as [[A B] | [A B]]; subst; congruence.
        * congruence.
      + exfalso. assert (closer_enabled (r (n + (m - n))) = true).
        { apply closer_enabled_iff. destruct Hk as [[X _] | [X _]]; subst; rewrite Hs; auto. }
        congruence.
    - exists (n + j). split; [ lia | auto ].
  Qed.

  (* the closed phase needs no fairness at all: every step decreases mu *)
  Lemma closed_phase_terminates : forall bound n,
    closed (r n) = true -> mu (r n) <= bound -> exists m, m >= n /\ kpc (r m) = KDone.
  Proof.
    induction bound; intros n Hc Hb;
      pose proof (run_reachable n) as Hre; pose proof (inv_reachable _ Hre) as HI;
      destruct (closed_can_step _ HI Hc) as [Hd | (Hk & l0 & s0 & Hst0 & Hlt0)];
      try (exists n; split; [ lia | exact Hd ]).
    - lia.
    - destruct (Hrun n) as [[l Hst] | [Hen _]].
      + assert (mu (r (S n)) < mu (r n)) by (eapply mu_decreases; eauto).
        destruct (IHbound (S n)) as (m & Hm & Hd);
          [ eapply closed_step; eauto | lia | exists m; split; [ lia | auto ] ].
      + exfalso. assert (Hin : In l0 (enabled dg (r n))) by (apply enabled_spec; eauto).
        rewrite Hen in Hin. destruct Hin.
  Qed.

  (* Close completes: from a reachable state in which Close holds the write lock, every run that
     is weakly fair to the closer goroutine reaches "all loops exited, Close returned". *)
  Theorem close_completes_run :
    holds_lock (kpc (r 0)) = true ->
    exists n, kpc (r n) = KDone /\ loops_exited (r n) = true.
  Proof.
    intros Hl.
    assert (Hclosed : exists n, closed (r n) = true).
    { destruct (kpc (r 0)) eqn:Ek; simpl in Hl; try discriminate.
      - destruct (closer_moves 0 KLocked KOpenFalse) as (m & _ & Hm); auto.
        destruct (closer_moves m KOpenFalse KWaitTasks) as (m' & _ & Hm'); auto.
        exists m'. rewrite (i_cl _ (inv_reachable _ (run_reachable m'))), Hm'. reflexivity.
      - destruct (closer_moves 0 KOpenFalse KWaitTasks) as (m' & _ & Hm'); auto.
        exists m'. rewrite (i_cl _ (inv_reachable _ (run_reachable m'))), Hm'. reflexivity.
      - exists 0. rewrite (i_cl _ (inv_reachable _ (run_reachable 0))), Ek. reflexivity.
      - exists 0. rewrite (i_cl _ (inv_reachable _ (run_reachable 0))), Ek. reflexivity. }
    destruct Hclosed as (n & Hc).
    destruct (closed_phase_terminates (mu (r n)) n Hc (le_n _)) as (m & _ & Hd).
    exists m. split; auto.
    destruct (i_kd _ (inv_reachable _ (run_reachable m))) as (A & B & C); [ rewrite Hd; reflexivity | ].
    unfold loops_exited. rewrite A, B, C. reflexivity.
  Qed.
End Run.

Theorem close_completes : forall r,
  reachable dg (r 0) -> is_run r -> closer_fair r -> holds_lock (kpc (r 0)) = true ->
  exists n, kpc (r n) = KDone /\ loops_exited (r n) = true.
Proof. intros. eapply close_completes_run; eauto. Qed.

(* the quantitative half, free of any fairness assumption *)
Theorem close_ranking : forall s l s',
  reachable dg s -> closed s = true -> kpc s <> KDone -> step dg s l = Some s' -> mu s' < mu s.
Proof. intros. eapply mu_decreases; eauto. apply inv_reachable; auto. Qed.

(* the hypotheses of close_completes are satisfiable: a run through a whole life cycle *)
Definition example_labels : list label :=
  [LRLock 0; LTest 0; LIntroRecv 0; LIntroApplied; LPTopDefault; LPPauseGo false; LPPick; LPPersistNoMerge;
   LPDirect true; LIRecvPersist; LIPersistApplied; LPRelease; LRUnlock 0;
   LKStart; LKAcquire; LKSetOpen; LKCloseCh; LIClose; LPTopClose; LMTopClose; LKTasksDone; LKRelease].
Example example_run_closes :
  exists s, run dg (init [KBatch] 0 true true) example_labels = Some s /\ terminated s = true.
Proof. eexists. split. vm_compute. reflexivity. vm_compute. reflexivity. Qed.
