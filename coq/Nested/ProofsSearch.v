(* Nested engine — the mechanism (TermSearchers joined by what ConjunctionQuery.Searcher builds,
   folded by the nested collector, external ids) returns exactly [sem_nested] for every
   conjunction of term leaves: same array, different depths of one array, sibling arrays and
   top-level fields alike. *)
From Coq Require Import ZArith List Bool Lia Sorted.
From Verif Require Import Common.Bytes Nested.Model Nested.ProofsSpec Nested.ProofsForest
  Nested.ProofsJoin Nested.ProofsFlatten Nested.ProofsCorr Nested.Proofs.
Import ListNotations.
Local Open Scope Z_scope.

(* ---------- the blocks of the parent documents ---------- *)

Definition dblock (p : Z * doc) : list fnode := flat_node (fst p) [] [] (dtree (snd p)).

Fixpoint sd_pairs (s : Z) (docs : list doc) : list (Z * doc) :=
  match docs with
  | [] => []
  | d :: docs' => (s, d) :: sd_pairs (s + zlen (flat_node s [] [] (dtree d))) docs'
  end.

Lemma sd_pairs_snd docs : forall s, map snd (sd_pairs s docs) = docs.
Proof. induction docs as [|d docs IH]; intro s; cbn; [reflexivity|now rewrite IH]. Qed.

Lemma flatten_from_cons s d docs :
  flatten_from s (d :: docs) =
  flat_node s [] [] (dtree d) ++ flatten_from (s + zlen (flat_node s [] [] (dtree d))) docs.
Proof. reflexivity. Qed.

Lemma flatten_blocks docs : forall s x,
  In x (flatten_from s docs) <-> exists p, In p (sd_pairs s docs) /\ In x (dblock p).
Proof.
  induction docs as [|d docs IH]; intros s x.
  - cbn. split; [intros []|intros (p & [] & _)].
  - rewrite flatten_from_cons, in_app_iff, IH. cbn [sd_pairs]. split.
    + intros [H|(p & Hp & Hx)]; [exists (s, d); split; [left; auto|exact H]|exists p; split; [right|]; auto].
    + intros (p & [<-|Hp] & Hx); [left; exact Hx|right; eauto].
Qed.

Lemma flat_node_nonempty s ab path n : 1 <= zlen (flat_node s ab path n).
Proof. destruct n. rewrite flat_node_unfold. unfold zlen. cbn [length]. lia. Qed.

Lemma sd_pairs_sorted docs : forall s,
  StronglySorted Z.lt (map fst (sd_pairs s docs)) /\ Forall (fun a => s <= a) (map fst (sd_pairs s docs)).
Proof.
  induction docs as [|d docs IH]; intro s; cbn; [split; constructor|].
  pose proof (flat_node_nonempty s [] [] (dtree d)) as H1.
  destruct (IH (s + zlen (flat_node s [] [] (dtree d)))) as [I1 I2]. split.
  - constructor; [exact I1|]. eapply Forall_impl; [|exact I2]. cbn. intros; lia.
  - constructor; [lia|]. eapply Forall_impl; [|exact I2]. cbn. intros; lia.
Qed.

Lemma root_of_anc_snoc pre s : root_of_anc (pre ++ [s]) = Some s.
Proof.
  rewrite root_of_anc_keyj. unfold keyj, ancestor_from_root. rewrite rev_app_distr. reflexivity.
Qed.

Lemma dblock_root p x : In x (dblock p) -> root_of_anc (fn_anc x) = Some (fst p).
Proof.
  intro Hx. destruct (blk_anc _ _ _ (flat_node_blk (dtree (snd p)) (fst p) [] []) x Hx) as (pre & E).
  rewrite E. apply root_of_anc_snoc.
Qed.

Lemma roots_are_starts docs : forall s,
  map fn_id (filter is_root (flatten_from s docs)) = map fst (sd_pairs s docs).
Proof.
  induction docs as [|d docs IH]; intro s; [reflexivity|].
  rewrite flatten_from_cons, filter_app, map_app, IH. cbn [sd_pairs map fst].
  destruct (flat_node_root s [] [] (dtree d)) as (Bs & E & Hsub). rewrite E at 1.
  assert (Hno : filter is_root Bs = []).
  { clear - Hsub. induction Bs as [|b Bs IHb]; [reflexivity|]. cbn [filter].
    destruct (Hsub b (or_introl eq_refl)) as (pre & Hne & Eb).
    assert (Hb : is_root b = false).
    { unfold is_root. rewrite Eb, app_length. apply Nat.eqb_neq. destruct pre; [contradiction|]. cbn. lia. }
    rewrite Hb. apply IHb. intros; apply Hsub; right; auto. }
  cbn [filter]. unfold is_root at 1. cbn [fn_anc length Nat.eqb]. rewrite Hno. reflexivity.
Qed.

Lemma root_table_pairs docs s :
  root_table (flatten_from s docs) docs = map (fun p => (fst p, did (snd p))) (sd_pairs s docs).
Proof.
  unfold root_table. rewrite roots_are_starts. rewrite <- (sd_pairs_snd docs s) at 2.
  induction (sd_pairs s docs) as [|p l IH]; cbn; [reflexivity|now rewrite IH].
Qed.

(* depth = length of the array path + 1 *)
Lemma flat_node_depth n : forall s ab path x,
  In x (flat_node s ab path n) ->
  (length (fn_anc x) + length path = length (fn_path x) + length ab + 1)%nat.
Proof.
  induction n as [fs arrs IH] using node_ind'. intros s ab path x Hx.
  rewrite flat_node_unfold in Hx. destruct Hx as [<-|Hx]; [cbn; lia|].
  apply flat_seq_in_elim in Hx as (p & s1 & Hp & Hx). apply flat_seq_in_elim in Hx as (e & s2 & He & Hx).
  rewrite Forall_forall in IH. specialize (IH p Hp). rewrite Forall_forall in IH.
  specialize (IH e He _ _ _ _ Hx). rewrite app_length in IH. cbn in IH. lia.
Qed.

Lemma flatten_depth docs x : In x (flatten docs) -> length (fn_anc x) = S (length (fn_path x)).
Proof.
  intro Hx. apply flatten_blocks in Hx as (p & _ & Hx). apply flat_node_depth in Hx. cbn in Hx. lia.
Qed.

(* ---------- external ids ---------- *)

Lemma ext_id_pairs (pairs : list (Z * doc)) p :
  StronglySorted Z.lt (map fst pairs) -> In p pairs ->
  ext_id (map (fun q => (fst q, did (snd q))) pairs) (fst p) = did (snd p).
Proof.
  induction pairs as [|q l IH]; intros Hs Hp; [destruct Hp|]. cbn [map] in *.
  inversion Hs as [|? ? Hs' Hq]; subst. unfold ext_id. cbn [find fst].
  destruct Hp as [->|Hp]; [now rewrite Z.eqb_refl|].
  destruct (Z.eqb_spec (fst q) (fst p)) as [E|_].
  - rewrite Forall_forall in Hq. specialize (Hq _ (in_map fst _ _ Hp)). lia.
  - apply IH; auto.
Qed.

Lemma assemble (pairs : list (Z * doc)) (g : doc -> bool) (R : list Z) :
  StronglySorted Z.lt (map fst pairs) -> StronglySorted Z.lt R ->
  (forall r, In r R <-> exists p, In p pairs /\ fst p = r /\ g (snd p) = true) ->
  map (ext_id (map (fun q => (fst q, did (snd q))) pairs)) R = map did (filter g (map snd pairs)).
Proof.
  intros Hs HR Hin.
  assert (ER : R = map fst (filter (fun p => g (snd p)) pairs)).
  { apply sorted_lt_ext; [exact HR|apply sorted_map_filter, Hs|].
    intro r. rewrite Hin, in_map_iff. split.
    - intros (p & Hp & <- & Hg). exists p. split; [reflexivity|]. apply filter_In; auto.
    - intros (p & <- & Hp). apply filter_In in Hp as [Hp Hg]. eauto. }
  rewrite ER. rewrite map_map.
  assert (E1 : map (fun p => ext_id (map (fun q => (fst q, did (snd q))) pairs) (fst p)) (filter (fun p => g (snd p)) pairs)
               = map (fun p => did (snd p)) (filter (fun p => g (snd p)) pairs)).
  { apply map_ext_in. intros p Hp. apply filter_In in Hp as [Hp _]. apply ext_id_pairs; auto. }
  rewrite E1. clear. induction pairs as [|p l IH]; cbn; [reflexivity|].
  destruct (g (snd p)); cbn; now rewrite IH.
Qed.

(* ---------- conjunctions of term leaves ---------- *)

Definition leafq (l : leaf) : query := QTerm (l_rest l) (l_f l) (l_t l).

Lemma leaf_paths_leaves leaves : flat_map leaf_paths (map leafq leaves) = map l_rest leaves.
Proof. induction leaves as [|l ls IH]; cbn; [reflexivity|now rewrite IH]. Qed.

Lemma raw_leaves F leaves :
  sequence_opt (map (raw F) (map leafq leaves)) =
  Some (map (fun l => raw_term F (l_rest l) (l_f l) (l_t l)) leaves).
Proof. induction leaves as [|l ls IH]; cbn; [reflexivity|]. cbn in IH. now rewrite IH. Qed.

Definition strip (k : nat) (l : leaf) : leaf := (skipn k (l_rest l), l_f l, l_t l).

Lemma sat_conj_leaves leaves n :
  leaves <> [] ->
  sat (QConj (map leafq leaves)) n 0 =
  descend n (lcp_all (map l_rest leaves))
          (leaves_hold (map (strip (length (lcp_all (map l_rest leaves)))) leaves)).
Proof.
  intro Hne. cbn [sat]. rewrite leaf_paths_leaves. cbn [skipn]. rewrite Nat.max_0_l.
  replace (is_nil (map leafq leaves)) with false by (destruct leaves; [contradiction|reflexivity]).
  cbn [negb andb].
  (* the predicates agree pointwise; descend only applies them *)
  set (k := length (lcp_all (map l_rest leaves))).
  assert (E : forall e, forallb (fun x => sat x e k) (map leafq leaves) = leaves_hold (map (strip k) leaves) e).
  { intro e. unfold leaves_hold. clearbody k. clear Hne.
    induction leaves as [|l ls IHl]; cbn; [reflexivity|]. now rewrite IHl. }
  clearbody k. clear - E. generalize (lcp_all (map l_rest leaves)) as P. intro P. revert n.
  induction P as [|a P IH]; intro n; cbn [descend]; [apply E|].
  induction (elements n a) as [|e es IHe]; cbn; [reflexivity|]. now rewrite IH, IHe.
Qed.

Lemma max_depth_ge (ps : list (list bytes)) : forall (m : nat) (p : list bytes), (In p ps -> length p <= fold_left (fun m p => Nat.max m (length p)) ps m)%nat
  /\ (m <= fold_left (fun m p => Nat.max m (length p)) ps m)%nat.
Proof.
  induction ps as [|q ps IH]; intros m p; cbn; [split; [intros []|lia]|].
  destruct (IH (Nat.max m (length q)) p) as [I1 I2]. split; [|lia].
  intros [<-|Hp]; [lia|auto].
Qed.

Lemma max_depth_le (p : list bytes) ps : In p ps -> (length p <= max_depth ps)%nat.
Proof. intro H. apply (max_depth_ge ps 0%nat p), H. Qed.

Lemma max_depth_witness (ps : list (list bytes)) : forall m : nat,
  (fold_left (fun m p => Nat.max m (length p)) ps m = m \/
   exists p, In p ps /\ length p = fold_left (fun m p => Nat.max m (length p)) ps m)%nat.
Proof.
  induction ps as [|q ps IH]; intro m; cbn; [left; reflexivity|].
  destruct (IH (Nat.max m (length q))) as [E|(p & Hp & E)].
  - rewrite E. destruct (Nat.max_spec m (length q)) as [[_ ->]|[_ ->]]; [right; exists q; split; auto|left; reflexivity].
  - right. exists p. split; [right|]; auto.
Qed.

Section ConjLeaves.
  Variable docs : list doc.
  Variable leaves : list leaf.
  Hypothesis Hne : leaves <> [].

  Let F := flatten docs.
  Let P := lcp_all (map l_rest leaves).
  Let j := length P.
  Let pairs := sd_pairs 0 docs.
  Let ms := map (fun l => fmatch (l_rest l) (l_f l) (l_t l)) leaves.
  Let cs := map (fun l => raw_term F (l_rest l) (l_f l) (l_t l)) leaves.

  Lemma W : forest_wf F. Proof. apply flatten_wf. Qed.

  Lemma leaf_prefix l : In l leaves -> l_rest l = P ++ skipn j (l_rest l).
  Proof.
    intro Hl. destruct (lcp_all_prefix (map l_rest leaves) (l_rest l) (in_map _ _ _ Hl)) as (r & E).
    fold P in E. unfold j. rewrite E at 2. now rewrite skipn_app_length.
  Qed.

  Lemma ms_strip : leaf_ms ([] ++ P) (map (strip j) leaves) = ms.
  Proof.
    unfold leaf_ms, ms. rewrite map_map. apply map_ext_in. intros l Hl. unfold strip, l_rest, l_f, l_t. cbn.
    change (fst (fst l)) with (l_rest l). now rewrite <- leaf_prefix.
  Qed.

  (* per parent: the spec holds iff the block has witnesses sharing their level-j ancestor *)
  Lemma block_sat p : In p pairs ->
    (wit j (dblock p) ms <-> sat (QConj (map leafq leaves)) (dtree (snd p)) 0 = true).
  Proof.
    intros _. rewrite sat_conj_leaves by exact Hne. fold P j. rewrite <- ms_strip.
    apply (block_join P (dtree (snd p)) (fst p) [] [] (map (strip j) leaves)).
    destruct leaves; [contradiction|discriminate].
  Qed.

  Lemma in_child l x : In x (raw_term F (l_rest l) (l_f l) (l_t l)) <->
    exists y, In y F /\ fn_id y = x /\ fmatch (l_rest l) (l_f l) (l_t l) y = true.
  Proof.
    rewrite raw_term_fmatch, in_map_iff. split.
    - intros (y & E & Hy). apply filter_In in Hy as [Hy Hm]. eauto.
    - intros (y & Hy & E & Hm). exists y. split; [exact E|]. apply filter_In; auto.
  Qed.

  Lemma child_sorted l : StronglySorted Z.lt (raw_term F (l_rest l) (l_f l) (l_t l)).
  Proof. rewrite raw_term_fmatch. apply sorted_map_filter, (wf_sorted F W). Qed.

  Lemma match_depth l y : In l leaves -> In y F -> fmatch (l_rest l) (l_f l) (l_t l) y = true ->
    exists K, keyj j (fn_anc y) = Some K.
  Proof.
    intros Hl Hy Hm. unfold fmatch in Hm. apply andb_true_iff in Hm as [Hm _]. apply names_eqb_eq in Hm.
    assert (Hd := flatten_depth docs y Hy). rewrite Hm, (leaf_prefix l Hl), app_length in Hd.
    unfold keyj, ancestor_from_root. destruct (nth_error (rev (fn_anc y)) j) eqn:E; [eauto|].
    apply nth_error_None in E. rewrite rev_length in E. fold j in Hd. lia.
  Qed.

  (* two documents with the same level-j ancestor have the same root *)
  Lemma same_key_same_root x y K : In x F -> In y F ->
    keyj j (fn_anc x) = Some K -> keyj j (fn_anc y) = Some K ->
    root_of_anc (fn_anc x) = root_of_anc (fn_anc y).
  Proof.
    intros Hx Hy Kx Ky.
    destruct (keyj_some_split _ _ _ Kx) as (p1 & r1 & E1 & L1).
    destruct (keyj_some_split _ _ _ Ky) as (p2 & r2 & E2 & L2).
    destruct (wf_closed F W x p1 K r1 Hx E1) as (k1 & Hk1 & Ik1 & Ak1).
    destruct (wf_closed F W y p2 K r2 Hy E2) as (k2 & Hk2 & Ik2 & Ak2).
    assert (k1 = k2) by (apply (sorted_lt_in_unique fn_id F k1 k2 (wf_sorted F W) Hk1 Hk2); congruence). subst k2.
    assert (Er : r1 = r2) by congruence. subst r2.
    rewrite !root_of_anc_keyj, E1, E2.
    rewrite !keyj_app_lt by (cbn; lia). reflexivity.
  Qed.

  Lemma in_dblock_by_root p y : In p pairs -> In y F -> root_of_anc (fn_anc y) = Some (fst p) -> In y (dblock p).
  Proof.
    intros Hp Hy Hr. apply flatten_blocks in Hy as (p' & Hp' & Hy').
    rewrite (dblock_root p' y Hy') in Hr. inversion Hr as [E].
    assert (p' = p); [|now subst].
    destruct (sd_pairs_sorted docs 0) as [Hs _]. fold pairs in Hs.
    eapply sorted_lt_in_unique; eauto.
  Qed.

  Lemma dblock_in_F p y : In p pairs -> In y (dblock p) -> In y F.
  Proof. intros Hp Hy. apply flatten_blocks. eauto. Qed.

  (* the raw result of the conjunction *)
  Definition OUT_ok (OUT : list Z) : Prop :=
    StronglySorted Z.lt OUT /\
    (forall m, In m OUT -> exists y, In y F /\ fn_id y = m) /\
    forall p, In p pairs -> ((exists m, In m OUT /\ root_in F m = Some (fst p)) <-> wit j (dblock p) ms).

  Lemma first_leaf : exists l0 ls, leaves = l0 :: ls.
  Proof. destruct leaves as [|l0 ls]; [contradiction|eauto]. Qed.

  Lemma root_in_node y : In y F -> root_in F (fn_id y) = root_of_anc (fn_anc y).
  Proof. intro Hy. unfold root_in. now rewrite (anc_of_in F y W Hy). Qed.

  Lemma join_out_ok OUT :
    nested_join F j cs = Some OUT -> StronglySorted Z.lt OUT ->
    (forall x, In x OUT <-> (In x (concat cs) /\ forall c, In c cs -> exists y, In y c /\ key_at F j y = key_at F j x)) ->
    OUT_ok OUT.
  Proof.
    intros _ HS HM. split; [exact HS|]. split.
    - intros m Hm. apply HM in Hm as [Hm _]. apply in_concat in Hm as (c & Hc & Hm).
      unfold cs in Hc. apply in_map_iff in Hc as (l & <- & Hl). apply in_child in Hm as (y & Hy & E & _). eauto.
    - intros p Hp. split.
      + intros (m & Hm & Hr). apply HM in Hm as [Hm Hw].
        apply in_concat in Hm as (c & Hc & Hm). unfold cs in Hc. apply in_map_iff in Hc as (l0 & <- & Hl0).
        apply in_child in Hm as (y0 & Hy0 & <- & Hm0).
        destruct (match_depth l0 y0 Hl0 Hy0 Hm0) as (K & HK). exists K.
        intros mm Hmm. unfold ms in Hmm. apply in_map_iff in Hmm as (l & <- & Hl).
        destruct (Hw (raw_term F (l_rest l) (l_f l) (l_t l))) as (x & Hx & Ex).
        { unfold cs. apply in_map_iff. eauto. }
        apply in_child in Hx as (y & Hy & <- & Hmy).
        rewrite !(key_at_in F W j) in Ex by assumption. rewrite HK in Ex.
        exists y. split; [|split; [exact Hmy|exact Ex]].
        apply in_dblock_by_root; auto. rewrite <- Hr, root_in_node by exact Hy0.
        eapply same_key_same_root; eauto.
      + intros (K & H). destruct first_leaf as (l0 & ls & El).
        assert (Hl0 : In l0 leaves) by (rewrite El; left; auto).
        destruct (H (fmatch (l_rest l0) (l_f l0) (l_t l0))) as (y0 & Hy0 & Hm0 & HK0).
        { unfold ms. apply in_map_iff. eauto. }
        assert (Hy0F := dblock_in_F p y0 Hp Hy0).
        exists (fn_id y0). split.
        * apply HM. split.
          -- apply in_concat. exists (raw_term F (l_rest l0) (l_f l0) (l_t l0)). split.
             ++ unfold cs. apply in_map_iff. eauto.
             ++ apply in_child. eauto.
          -- intros c Hc. unfold cs in Hc. apply in_map_iff in Hc as (l & <- & Hl).
             destruct (H (fmatch (l_rest l) (l_f l) (l_t l))) as (y & Hy & Hmy & HKy).
             { unfold ms. apply in_map_iff. eauto. }
             assert (HyF := dblock_in_F p y Hp Hy). exists (fn_id y). split; [apply in_child; eauto|].
             rewrite !(key_at_in F W j) by assumption. congruence.
        * rewrite root_in_node by exact Hy0F. apply dblock_root, Hy0.
  Qed.

  Lemma inter_out_ok :
    (forall l, In l leaves -> l_rest l = P) -> OUT_ok (raw_inter cs).
  Proof.
    intro Hall. destruct first_leaf as (l0 & ls & El).
    assert (Hl0 : In l0 leaves) by (rewrite El; left; auto).
    assert (Ecs : raw_inter cs = filter (fun x => forallb (memz x) (map (fun l => raw_term F (l_rest l) (l_f l) (l_t l)) ls))
                                        (raw_term F (l_rest l0) (l_f l0) (l_t l0))).
    { unfold cs. rewrite El. reflexivity. }
    assert (HM : forall x, In x (raw_inter cs) <-> forall l, In l leaves -> In x (raw_term F (l_rest l) (l_f l) (l_t l))).
    { intro x. rewrite Ecs, filter_In, forallb_forall. split.
      - intros [H0 Hr] l Hl. rewrite El in Hl. destruct Hl as [<-|Hl]; [exact H0|].
        apply memz_in, Hr. apply in_map_iff. eauto.
      - intro H. split; [apply H, Hl0|]. intros c Hc. apply in_map_iff in Hc as (l & <- & Hl).
        apply memz_in, H. rewrite El. right; auto. }
    assert (Hself : forall l y, In l leaves -> In y F -> fmatch (l_rest l) (l_f l) (l_t l) y = true ->
                                keyj j (fn_anc y) = Some (fn_id y)).
    { intros l y Hl Hy Hm. unfold fmatch in Hm. apply andb_true_iff in Hm as [Hm _]. apply names_eqb_eq in Hm.
      assert (Hd := flatten_depth docs y Hy). rewrite Hm, (Hall l Hl) in Hd. fold j in Hd.
      destruct (wf_head F W y Hy) as (rest & E). rewrite E in Hd |- *. cbn [length] in Hd.
      assert (Ej : j = length rest) by lia. rewrite Ej. apply keyj_top. }
    split; [rewrite Ecs; apply sorted_filter, child_sorted|]. split.
    - intros m Hm. pose proof (proj1 (HM m) Hm l0 Hl0) as Hm2. apply in_child in Hm2 as (y & Hy & E & _). eauto.
    - intros p Hp. split.
      + intros (m & Hm & Hr). assert (Hm' := proj1 (HM m) Hm).
        destruct (proj1 (in_child l0 m) (Hm' l0 Hl0)) as (y0 & Hy0 & <- & Hm0).
        exists (fn_id y0). intros mm Hmm. unfold ms in Hmm. apply in_map_iff in Hmm as (l & <- & Hl).
        destruct (proj1 (in_child l (fn_id y0)) (Hm' l Hl)) as (y & Hy & E & Hmy).
        assert (y = y0) by (apply (sorted_lt_in_unique fn_id F y y0 (wf_sorted F W) Hy Hy0); congruence). subst y.
        exists y0. split; [|split; [exact Hmy|eapply Hself; eauto]].
        apply in_dblock_by_root; auto. now rewrite <- root_in_node.
      + intros (K & H).
        destruct (H (fmatch (l_rest l0) (l_f l0) (l_t l0))) as (y0 & Hy0 & Hm0 & HK0).
        { unfold ms. apply in_map_iff. eauto. }
        assert (Hy0F := dblock_in_F p y0 Hp Hy0).
        exists (fn_id y0). split.
        * apply HM. intros l Hl.
          destruct (H (fmatch (l_rest l) (l_f l) (l_t l))) as (y & Hy & Hmy & HKy).
          { unfold ms. apply in_map_iff. eauto. }
          assert (HyF := dblock_in_F p y Hp Hy).
          rewrite (Hself l y Hl HyF Hmy) in HKy. rewrite (Hself l0 y0 Hl0 Hy0F Hm0) in HK0.
          apply in_child. exists y. repeat split; auto. congruence.
        * rewrite root_in_node by exact Hy0F. apply dblock_root, Hy0.
  Qed.

  (* from a good raw result to the search result *)
  Lemma finish OUT (folded : bool) :
    OUT_ok OUT ->
    (folded = false -> forall m, In m OUT -> root_in F m = Some m) ->
    map (ext_id (root_table F docs)) (if folded then fold_roots F OUT else OUT)
    = sem_nested docs (QConj (map leafq leaves)).
  Proof.
    intros (HS & HF & HP) Hplain.
    set (R := if folded then fold_roots F OUT else OUT).
    assert (HR : StronglySorted Z.lt R /\ forall r, In r R <-> exists m, In m OUT /\ root_in F m = Some r).
    { unfold R. destruct folded.
      - destruct (store_roots_once F OUT W HS HF) as (S1 & _ & M1). split; assumption.
      - split; [exact HS|]. intro r. split.
        + intro Hr. exists r. split; [exact Hr|apply Hplain; auto].
        + intros (m & Hm & E). rewrite (Hplain eq_refl m Hm) in E. inversion E; subst. exact Hm. }
    destruct HR as [HRs HRm].
    unfold sem_nested. unfold F at 1, flatten. rewrite root_table_pairs. fold pairs.
    assert (Ed : filter (fun d => sat (QConj (map leafq leaves)) (dtree d) 0) docs
                 = filter (fun d => sat (QConj (map leafq leaves)) (dtree d) 0) (map snd pairs))
      by (unfold pairs; now rewrite sd_pairs_snd).
    rewrite Ed.
    apply assemble; [apply sd_pairs_sorted|exact HRs|].
    intro r. rewrite HRm. split.
    - intros (m & Hm & Hr). destruct (HF m Hm) as (y & Hy & <-).
      assert (Hy' := Hy). apply flatten_blocks in Hy' as (p & Hp & Hyp). fold pairs in Hp.
      rewrite root_in_node, (dblock_root p y Hyp) in Hr by exact Hy. inversion Hr; subst r.
      exists p. split; [exact Hp|]. split; [reflexivity|]. apply block_sat; auto. apply HP; auto.
      exists (fn_id y). split; [exact Hm|]. rewrite root_in_node by exact Hy. apply dblock_root, Hyp.
    - intros (p & Hp & <- & Hs). apply HP; auto. apply block_sat; auto.
  Qed.

  Theorem conj_leaves_search :
    model_search docs (QConj (map leafq leaves)) = Some (sem_nested docs (QConj (map leafq leaves))).
  Proof.
    unfold model_search, model_collect. fold F. cbn [raw]. rewrite raw_leaves. fold cs. cbn [bind_opt].
    rewrite leaf_paths_leaves. unfold raw_conj.
    assert (Hcs : cs <> []) by (unfold cs; destruct leaves; [contradiction|discriminate]).
    destruct cs as [|c0 cs0] eqn:Ecs; [contradiction|]. rewrite <- Ecs.
    unfold common_depth. fold P j.
    set (q := QConj (map leafq leaves)).
    assert (Hunc : uses_nested_collector q = existsb (fun p => negb (is_nil p)) (map l_rest leaves)).
    { unfold uses_nested_collector, q. cbn [has_matchall leaf_paths]. rewrite leaf_paths_leaves.
      replace (existsb has_matchall (map leafq leaves)) with false; [reflexivity|].
      clear. induction leaves as [|l ls IH]; cbn; auto. }
    destruct (Nat.ltb_spec j (max_depth (map l_rest leaves))) as [Hlt|Hge].
    - (* joined at the common depth *)
      destruct (nested_conj_correct F j cs W) as (OUT & EO & SO & MO).
      { rewrite Ecs. discriminate. }
      { intros c Hc. unfold cs in Hc. apply in_map_iff in Hc as (l & <- & Hl). split; [apply child_sorted|].
        intros x Hx. apply in_child in Hx as (y & Hy & <- & Hm). rewrite (key_at_in F W j y Hy).
        eapply match_depth; eauto. }
      rewrite EO. assert (Hu : uses_nested_collector q = true).
      { rewrite Hunc. apply existsb_exists.
        destruct (max_depth_witness (map l_rest leaves) 0%nat) as [E|(p & Hp & E)].
        - unfold max_depth in Hlt. rewrite E in Hlt. lia.
        - exists p. split; [exact Hp|]. unfold max_depth in Hlt. rewrite <- E in Hlt.
          destruct p; [cbn in Hlt; lia|reflexivity]. }
      rewrite Hu. f_equal. apply (finish OUT true); [apply join_out_ok; auto|discriminate].
    - (* all leaves address the very same array chain: plain conjunction *)
      assert (Hall : forall l, In l leaves -> l_rest l = P).
      { intros l Hl. rewrite (leaf_prefix l Hl).
        assert (length (l_rest l) <= j)%nat.
        { pose proof (max_depth_le (l_rest l) (map l_rest leaves) (in_map _ _ _ Hl)). lia. }
        rewrite skipn_all2 by lia. now rewrite app_nil_r. }
      f_equal. destruct (uses_nested_collector q) eqn:Hu.
      + apply (finish (raw_inter cs) true); [apply inter_out_ok, Hall|discriminate].
      + apply (finish (raw_inter cs) false); [apply inter_out_ok, Hall|].
        intros _ m Hm. destruct (inter_out_ok Hall) as (_ & HF & _). destruct (HF m Hm) as (y & Hy & <-).
        (* no nested path at all: the matches are parents *)
        assert (Hex : existsb (fun p : list bytes => negb (is_nil p)) (map l_rest leaves) = false)
          by (first [symmetry; exact Hunc | rewrite <- Hunc; exact Hu]).
        destruct first_leaf as (l0 & ls & El).
        assert (HP0 : P = []).
        { assert (Hl0 : In l0 leaves) by (rewrite El; left; auto).
          rewrite <- (Hall l0 Hl0).
          destruct (l_rest l0) eqn:E0; [reflexivity|]. exfalso.
          assert (Ht : existsb (fun p : list bytes => negb (is_nil p)) (map l_rest leaves) = true).
          { apply existsb_exists. exists (l_rest l0). split; [apply in_map, Hl0|now rewrite E0]. }
          congruence. }
        assert (Hm' : forall l, In l leaves -> In (fn_id y) (raw_term F (l_rest l) (l_f l) (l_t l))).
        { intros l Hl. assert (Hm2 := Hm). unfold cs in Hm2. rewrite El in Hm2. cbn [map raw_inter] in Hm2.
          apply filter_In in Hm2 as [H0 Hr]. rewrite El in Hl. destruct Hl as [<-|Hl]; [exact H0|].
          rewrite forallb_forall in Hr. apply memz_in, Hr. apply in_map_iff. eauto. }
        assert (Hl0 : In l0 leaves) by (rewrite El; left; auto).
        destruct (proj1 (in_child l0 (fn_id y)) (Hm' l0 Hl0)) as (y' & Hy' & E' & Hmy).
        assert (y' = y) by (apply (sorted_lt_in_unique fn_id F y' y (wf_sorted F W) Hy' Hy); congruence). subst y'.
        unfold fmatch in Hmy. apply andb_true_iff in Hmy as [Hmy _]. apply names_eqb_eq in Hmy.
        rewrite (Hall l0 Hl0), HP0 in Hmy.
        assert (Hd := flatten_depth docs y Hy). rewrite Hmy in Hd. cbn in Hd.
        rewrite root_in_node by exact Hy. destruct (wf_head F W y Hy) as (rest & E). rewrite E in *.
        destruct rest; [reflexivity|discriminate].
  Qed.
End ConjLeaves.

(* ---------- the full statement and the part of it that is proved ---------- *)

(* FULL statement (not proved in general; every T2 case of kind "ws" checks an instance of it,
   together with implementation = model): on queries built only from shapes that are combined
   per parent today ([wellscoped]), the mechanism returns exactly the parents the spec selects.
   GAP: proved for conjunctions of term leaves (any mix of arrays, depths and top-level fields:
   [nested_search_correct_partial]); disjunction / boolean nodes and compound conjuncts (whose
   searchers emit sub-documents of several depths) are covered by T2 only.  Outside [wellscoped]
   the statement is false: see nested_bool_refuted & co. in Nested/Proofs.v. *)
Definition nested_search_correct_wellscoped_stmt : Prop :=
  forall docs q, wellscoped q = true -> model_search docs q = Some (sem_nested docs q).

Lemma conj_leaves_wellscoped leaves : leaves <> [] -> wellscoped (QConj (map leafq leaves)) = true.
Proof.
  intro Hne. cbn [wellscoped]. replace (is_nil (map leafq leaves)) with false by (destruct leaves; [contradiction|reflexivity]).
  cbn [negb andb]. clear. induction leaves as [|l ls IH]; cbn; auto.
Qed.

Theorem nested_search_correct_partial docs leaves :
  leaves <> [] ->
  wellscoped (QConj (map leafq leaves)) = true /\
  model_search docs (QConj (map leafq leaves)) = Some (sem_nested docs (QConj (map leafq leaves))).
Proof. intro Hne. split; [apply conj_leaves_wellscoped, Hne|apply conj_leaves_search, Hne]. Qed.

Example nested_search_correct_partial_ex :
  let docs := [mkDoc 1 (Node [([116], [[120]])] [([105], [Node [([99], [[114]])] []; Node [([122], [[115]])] [([117], [Node [([107], [[97]])] []])]])]);
               mkDoc 2 (Node [([116], [[120]])] [([105], [Node [([99], [[114]]); ([122], [[115]])] [([117], [Node [([107], [[97]])] []])]])])] in
  let leaves : list leaf := [([[105]], [99], [114]); ([[105]; [117]], [107], [97])] in
  leaves <> [] /\ model_search docs (QConj (map leafq leaves)) = Some [2] /\
  sem_nested docs (QConj (map leafq leaves)) = [2] /\ sem_flat docs (QConj (map leafq leaves)) = [1; 2].
Proof. cbn zeta. split; [discriminate|]. repeat split; vm_compute; reflexivity. Qed.
