(* Nested engine — correspondence cases (T2): an update/delete history of document trees run on
   a scorch index with the arrays mapped nested and on one with a flat mapping, the forest of
   document numbers read back through NestedReader.Ancestors, and what Index.Search /
   DocCount / Document returned.  [check] compares
     - nested hits and Total with the SPEC [sem_nested] (when the case is judged against the
       spec) and with the MECHANISM model [model_search];
     - flat hits and Total with the SPEC [sem_flat];
     - DocCount (both indexes) and Document presence with the live parents;
     - the real forest (rank-compressed document numbers + ancestor chains + which numbers are
       parents) with [flatten] of the live trees. *)
From Coq Require Import ZArith List Bool.
From Verif Require Import Common.Bytes Nested.Model.
Import ListNotations.
Local Open Scope Z_scope.

Inductive op :=
| OIndex (id : Z) (n : node)
| ODelete (id : Z).

(* last write wins; a batch is applied op by op (bleve batches keep the last op per id) *)
Definition remove_doc (id : Z) (live : list doc) : list doc :=
  filter (fun d => negb (did d =? id)) live.

Definition apply_op (live : list doc) (o : op) : list doc :=
  match o with
  | OIndex id n => remove_doc id live ++ [mkDoc id n]
  | ODelete id => remove_doc id live
  end.

Definition replay (ops : list op) : list doc := fold_left apply_op ops [].

Record qobs := mkQ {
  q_query : query;
  q_nhits : list Z;      (* nested index: hit ids ascending (a sub-document id is given as -1) *)
  q_ntotal : Z;
  q_fhits : list Z;      (* flat index *)
  q_ftotal : Z
}.

Inductive case :=
| CHist (judge_spec : bool)              (* false: mechanism-only twin of a known-finding case *)
        (ops : list op)
        (forest : list (Z * list Z * Z))  (* live document number, Ancestors, parent id or -1 *)
        (dc_nested dc_flat : Z)
        (present : list (Z * bool))       (* Index.Document(id) <> nil, nested index *)
        (qs : list qobs).

(* monomorphic constructors for the cases files (pairs with inferred type arguments are slow to
   elaborate in large literals) *)
Definition fld (n : bytes) (ts : list bytes) : bytes * list bytes := (n, ts).
Definition arr (n : bytes) (es : list node) : bytes * list node := (n, es).
Definition fent (num : Z) (anc : list Z) (ext : Z) : Z * list Z * Z := (num, anc, ext).
Definition pres (id : Z) (b : bool) : Z * bool := (id, b).

Fixpoint insert_z (x : Z) (l : list Z) : list Z :=
  match l with
  | [] => [x]
  | y :: l' => if x <=? y then x :: l else y :: insert_z x l'
  end.
Definition sort_z (l : list Z) : list Z := fold_right insert_z [] l.

Definition zlist_eqb := list_eqb Z.eqb.

(* the live documents in the order the nested index stores their parents *)
Fixpoint order_by (ids : list Z) (live : list doc) : option (list doc) :=
  match ids with
  | [] => Some []
  | i :: ids' =>
      match find (fun d => did d =? i) live, order_by ids' live with
      | Some d, Some r => Some (d :: r)
      | _, _ => None
      end
  end.

Fixpoint index_of (x : Z) (l : list Z) (i : Z) : Z :=
  match l with
  | [] => -1
  | y :: l' => if x =? y then i else index_of x l' (i + 1)
  end.

Definition obs_roots (forest : list (Z * list Z * Z)) : list Z :=
  map snd (filter (fun e => 0 <=? snd e) forest).

Definition entry_eqb (a b : Z * list Z * Z) : bool :=
  (fst (fst a) =? fst (fst b)) && zlist_eqb (snd (fst a)) (snd (fst b)) && (snd a =? snd b).

Definition model_forest (docs : list doc) : list (Z * list Z * Z) :=
  let f := flatten docs in
  let tbl := root_table f docs in
  map (fun x => (fn_id x, fn_anc x, ext_id tbl (fn_id x))) f.

Definition forest_ok (docs : list doc) (forest : list (Z * list Z * Z)) : bool :=
  let nums := map (fun e => fst (fst e)) forest in
  let rank x := index_of x nums 0 in
  list_eqb entry_eqb
    (map (fun e => (rank (fst (fst e)), map rank (snd (fst e)), snd e)) forest)
    (model_forest docs).

Definition query_ok (judge : bool) (docs : list doc) (o : qobs) : bool :=
  let q := q_query o in
  let spec_n := sort_z (sem_nested docs q) in
  let spec_f := sort_z (sem_flat docs q) in
  (if judge then zlist_eqb (q_nhits o) spec_n && (q_ntotal o =? zlen spec_n) else true)
  && match model_search docs q with
     | Some m => zlist_eqb (q_nhits o) (sort_z m) && (q_ntotal o =? zlen m)
     | None => false
     end
  && zlist_eqb (q_fhits o) spec_f && (q_ftotal o =? zlen spec_f).

Definition check (c : case) : bool :=
  match c with
  | CHist judge ops forest dcn dcf present qs =>
      let live := replay ops in
      match order_by (obs_roots forest) live with
      | None => false
      | Some docs =>
          (length docs =? length live)%nat
          && forest_ok docs forest
          && (dcn =? zlen live) && (dcf =? zlen live)
          && forallb (fun p => Bool.eqb (snd p) (existsb (fun d => did d =? fst p) live)) present
          && forallb (query_ok judge docs) qs
      end
  end.

(* what the model expected, for replay files *)
Record expected := mkE {
  e_live : list Z;
  e_forest : list (Z * list Z * Z);
  e_queries : list (list Z * option (list Z) * list Z)   (* sem_nested, model_search, sem_flat *)
}.

Definition explain (c : case) : expected :=
  match c with
  | CHist _ ops forest _ _ _ qs =>
      let live := replay ops in
      let docs := match order_by (obs_roots forest) live with Some d => d | None => live end in
      mkE (map did docs) (model_forest docs)
          (map (fun o => (sort_z (sem_nested docs (q_query o)),
                          option_map sort_z (model_search docs (q_query o)),
                          sort_z (sem_flat docs (q_query o)))) qs)
  end.
