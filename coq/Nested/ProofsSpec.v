(* Nested engine — lemmas about the SPEC alone (trees): results are parents in order,
   the flat reading, and nested ⊆ flat for conjunctions of term leaves. *)
From Coq Require Import ZArith List Bool Lia Sorted.
From Verif Require Import Common.Bytes Nested.Model.
Import ListNotations.
Local Open Scope Z_scope.

(* ---------- results are parents, in order, once ---------- *)

Lemma sorted_filter {A} (R : A -> A -> Prop) (f : A -> bool) l :
  StronglySorted R l -> StronglySorted R (filter f l).
Proof.
  induction 1 as [|x l Hs IH Hx]; cbn; [constructor|].
  destruct (f x); [|exact IH]. constructor; [exact IH|].
  rewrite Forall_forall in *. intros y Hy. apply filter_In in Hy. apply Hx, Hy.
Qed.

Lemma sorted_map_filter {A} (g : A -> Z) (f : A -> bool) l :
  StronglySorted Z.lt (map g l) -> StronglySorted Z.lt (map g (filter f l)).
Proof.
  induction l as [|x l IH]; cbn; intro H; [constructor|].
  inversion H as [|? ? Hs Hx]; subst. destruct (f x); cbn; [|auto].
  constructor; [auto|]. rewrite Forall_forall in *. intros y Hy.
  apply in_map_iff in Hy as (z & <- & Hz). apply filter_In in Hz as [Hz _].
  apply Hx, in_map, Hz.
Qed.

Lemma sorted_lt_nodup l : StronglySorted Z.lt l -> NoDup l.
Proof.
  induction 1 as [|x l Hs IH Hx]; constructor; [|exact IH].
  intro Hin. rewrite Forall_forall in Hx. specialize (Hx _ Hin). lia.
Qed.

Lemma sorted_lt_app l1 l2 :
  StronglySorted Z.lt l1 -> StronglySorted Z.lt l2 ->
  (forall x y, In x l1 -> In y l2 -> x < y) -> StronglySorted Z.lt (l1 ++ l2).
Proof.
  induction 1 as [|x l1 Hs IH Hx]; cbn; intros H2 Hlt; [exact H2|].
  constructor; [apply IH; auto; intros; apply Hlt; auto; right; auto|].
  apply Forall_app. split; [exact Hx|]. apply Forall_forall. intros y Hy. apply Hlt; [left; reflexivity|exact Hy].
Qed.

Lemma sem_nested_in docs q i :
  In i (sem_nested docs q) <-> exists d, In d docs /\ did d = i /\ sat q (dtree d) 0 = true.
Proof.
  unfold sem_nested. rewrite in_map_iff. split.
  - intros (d & E & Hd). apply filter_In in Hd as [Hd Hs]. eauto.
  - intros (d & Hd & E & Hs). exists d. split; [exact E|]. apply filter_In; auto.
Qed.

Lemma sem_flat_in docs q i :
  In i (sem_flat docs q) <-> exists d, In d docs /\ did d = i /\ satf q (dtree d) = true.
Proof.
  unfold sem_flat. rewrite in_map_iff. split.
  - intros (d & E & Hd). apply filter_In in Hd as [Hd Hs]. eauto.
  - intros (d & Hd & E & Hs). exists d. split; [exact E|]. apply filter_In; auto.
Qed.

(* hits are parent documents (ids of [docs], never of an element), strictly ascending when the
   documents are given in id order, hence each at most once *)
Theorem sem_nested_roots docs q :
  (forall i, In i (sem_nested docs q) -> In i (map did docs)) /\
  (StronglySorted Z.lt (map did docs) ->
     StronglySorted Z.lt (sem_nested docs q) /\ NoDup (sem_nested docs q)).
Proof.
  split.
  - intros i Hi. apply sem_nested_in in Hi as (d & Hd & <- & _). apply in_map, Hd.
  - intro Hs. assert (H := sorted_map_filter did (fun d => sat q (dtree d) 0) docs Hs).
    split; [exact H|]. apply sorted_lt_nodup, H.
Qed.

Theorem sem_flat_roots docs q :
  (forall i, In i (sem_flat docs q) -> In i (map did docs)) /\
  (StronglySorted Z.lt (map did docs) ->
     StronglySorted Z.lt (sem_flat docs q) /\ NoDup (sem_flat docs q)).
Proof.
  split.
  - intros i Hi. apply sem_flat_in in Hi as (d & Hd & <- & _). apply in_map, Hd.
  - intro Hs. assert (H := sorted_map_filter did (fun d => satf q (dtree d)) docs Hs).
    split; [exact H|]. apply sorted_lt_nodup, H.
Qed.

(* ---------- element chains ---------- *)

(* [reaches n names e]: e is n itself (names = []) or an element of the array names[0] of n from
   which the rest of the chain leads to e *)
Inductive reaches : node -> list bytes -> node -> Prop :=
| reach_here n : reaches n [] n
| reach_step n a rest e e' : In e (elements n a) -> reaches e rest e' -> reaches n (a :: rest) e'.

Lemma descend_reaches n names pred :
  descend n names pred = true <-> exists e, reaches n names e /\ pred e = true.
Proof.
  revert n; induction names as [|a rest IH]; intro n; cbn.
  - split.
    + intro H. exists n. split; [constructor|exact H].
    + intros (e & Hr & Hp). inversion Hr; subst. exact Hp.
  - rewrite existsb_exists. split.
    + intros (e & He & Hd). apply IH in Hd as (e' & Hr & Hp). exists e'. split; [|exact Hp].
      econstructor; eauto.
    + intros (e' & Hr & Hp). inversion Hr as [|? ? ? e ? He Hr']; subst.
      exists e. split; [exact He|]. apply IH. eauto.
Qed.

Lemma reaches_app n p1 e p2 e' : reaches n p1 e -> reaches e p2 e' -> reaches n (p1 ++ p2) e'.
Proof.
  induction 1 as [|n a rest e0 e1 He Hr IH]; cbn; intro H2; [exact H2|].
  econstructor; [exact He|]. apply IH, H2.
Qed.

Lemma holds_path_reaches n arrs f t :
  holds_path n arrs f t = true <-> exists e, reaches n arrs e /\ has_term e f t = true.
Proof. apply descend_reaches. Qed.

(* ---------- the flat reading: every leaf / clause is met by some element ---------- *)

Theorem flat_sem_spec docs :
  (forall arrs f t i,
      In i (sem_flat docs (QTerm arrs f t)) <->
      exists d e, In d docs /\ did d = i /\ reaches (dtree d) arrs e /\ has_term e f t = true) /\
  (forall qs i,
      In i (sem_flat docs (QConj qs)) <->
      exists d, In d docs /\ did d = i /\ qs <> [] /\ forall q, In q qs -> satf q (dtree d) = true).
Proof.
  split.
  - intros arrs f t i. rewrite sem_flat_in. cbn [satf]. split.
    + intros (d & Hd & E & H). apply holds_path_reaches in H as (e & Hr & Ht). eauto 8.
    + intros (d & e & Hd & E & Hr & Ht). exists d. repeat split; auto.
      apply holds_path_reaches. eauto.
  - intros qs i. rewrite sem_flat_in. cbn [satf]. split.
    + intros (d & Hd & E & H). apply andb_true_iff in H as [Hn Hall]. exists d. repeat split; auto.
      * intro; subst; discriminate.
      * rewrite forallb_forall in Hall. exact Hall.
    + intros (d & Hd & E & Hn & Hall). exists d. repeat split; auto.
      apply andb_true_iff; split; [destruct qs; [contradiction|reflexivity]|].
      apply forallb_forall, Hall.
Qed.

(* ---------- longest common prefix ---------- *)

Lemma lcp2_prefix_l a b : exists r, a = lcp2 a b ++ r.
Proof.
  revert b; induction a as [|x a IH]; intros [|y b]; cbn; eauto.
  destruct (beqb x y); cbn; [|eauto]. destruct (IH b) as (r & E). exists r. congruence.
Qed.

Lemma lcp2_prefix_r a b : exists r, b = lcp2 a b ++ r.
Proof.
  revert b; induction a as [|x a IH]; intros [|y b]; cbn; eauto.
  destruct (beqb x y) eqn:E; cbn; [|eauto]. apply beqb_eq in E; subst y.
  destruct (IH b) as (r & E). exists r. congruence.
Qed.

Lemma prefix_trans {A} (a b c : list A) : (exists r, b = a ++ r) -> (exists r, c = b ++ r) -> exists r, c = a ++ r.
Proof. intros (r1 & ->) (r2 & ->). exists (r1 ++ r2). apply app_assoc_reverse. Qed.

Lemma fold_lcp2_prefix rest : forall p,
  (exists r, p = fold_left lcp2 rest p ++ r) /\
  (forall q, In q rest -> exists r, q = fold_left lcp2 rest p ++ r).
Proof.
  induction rest as [|x rest IH]; intro p; cbn.
  - split; [exists []; symmetry; apply app_nil_r|intros q []].
  - destruct (IH (lcp2 p x)) as [H1 H2]. split.
    + eapply prefix_trans; [exact H1|apply lcp2_prefix_l].
    + intros q [<-|Hq]; [|auto]. eapply prefix_trans; [exact H1|apply lcp2_prefix_r].
Qed.

Lemma lcp_all_prefix ps p : In p ps -> exists r, p = lcp_all ps ++ r.
Proof.
  destruct ps as [|p0 rest]; [intros []|]. cbn [lcp_all].
  destruct (fold_lcp2_prefix rest p0) as [H1 H2]. intros [<-|Hp]; auto.
Qed.

Lemma skipn_app_length {A} (a b : list A) : skipn (length a) (a ++ b) = b.
Proof. induction a; cbn; auto. Qed.

(* ---------- nested ⊆ flat for conjunctions of term leaves ---------- *)

Definition is_term (q : query) : bool := match q with QTerm _ _ _ => true | _ => false end.

Lemma leaf_paths_terms_in qs arrs f t :
  In (QTerm arrs f t) qs -> In arrs (flat_map leaf_paths qs).
Proof. intro H. apply in_flat_map. exists (QTerm arrs f t). split; [exact H|left; reflexivity]. Qed.

Lemma conj_terms_nested_flat qs n :
  forallb is_term qs = true -> sat (QConj qs) n 0 = true -> satf (QConj qs) n = true.
Proof.
  intros Ht H. cbn [sat satf] in *. apply andb_true_iff in H as [Hn H].
  rewrite Hn. cbn [andb]. cbn [skipn] in H.
  apply descend_reaches in H as (e & Hr & Hall).
  rewrite forallb_forall in *. intros q Hq. specialize (Hall q Hq). specialize (Ht q Hq).
  destruct q as [arrs f t| | | |]; try discriminate. cbn [sat satf] in *.
  destruct (lcp_all_prefix _ _ (leaf_paths_terms_in _ _ _ _ Hq)) as (r & E).
  set (P := lcp_all (flat_map leaf_paths qs)) in *.
  rewrite Nat.max_0_l in Hall. rewrite E in Hall at 1. rewrite skipn_app_length in Hall.
  apply holds_path_reaches in Hall as (e' & Hr' & Hterm).
  apply holds_path_reaches. exists e'. split; [|exact Hterm]. rewrite E. eapply reaches_app; eauto.
Qed.

(* single-element satisfaction implies some-element satisfaction *)
Theorem nested_le_flat docs qs :
  forallb is_term qs = true ->
  forall i, In i (sem_nested docs (QConj qs)) -> In i (sem_flat docs (QConj qs)).
Proof.
  intros Ht i Hi. apply sem_nested_in in Hi as (d & Hd & E & Hs).
  apply sem_flat_in. exists d. repeat split; auto. apply conj_terms_nested_flat; auto.
Qed.

(* the same-array reading, spelled out: a conjunction of term leaves that all address fields of
   the array chain P (P non-empty or not) holds for a parent iff ONE element chain along P
   carries every term *)
Lemma same_array_conj_spec P (leaves : list (bytes * bytes)) n :
  leaves <> [] ->
  sat (QConj (map (fun l => QTerm P (fst l) (snd l)) leaves)) n 0 = true <->
  exists e, reaches n P e /\ forall l, In l leaves -> has_term e (fst l) (snd l) = true.
Proof.
  intro Hne. cbn [sat].
  assert (EP : lcp_all (flat_map leaf_paths (map (fun l => QTerm P (fst l) (snd l)) leaves)) = P).
  { destruct leaves as [|l0 rest]; [contradiction|]. cbn. clear Hne.
    assert (G : forall rest p, p = P ->
      fold_left lcp2 (flat_map leaf_paths (map (fun l : bytes * bytes => QTerm P (fst l) (snd l)) rest)) p = P).
    { clear. induction rest as [|x rest IH]; intros p ->; cbn; [reflexivity|]. apply IH.
      clear. induction P as [|a P IH]; cbn; [reflexivity|].
      rewrite (proj2 (beqb_eq a a) eq_refl). now rewrite IH. }
    apply G. reflexivity. }
  rewrite EP. cbn [skipn]. rewrite Nat.max_0_l.
  replace (is_nil (map _ leaves)) with false by (destruct leaves; [contradiction|reflexivity]).
  cbn [negb andb]. rewrite descend_reaches. split.
  - intros (e & Hr & Hall). exists e. split; [exact Hr|]. intros l Hl.
    rewrite forallb_forall in Hall. specialize (Hall _ (in_map _ _ _ Hl)). cbn [sat] in Hall.
    unfold holds_path in Hall. now rewrite skipn_all in Hall.
  - intros (e & Hr & Hall). exists e. split; [exact Hr|]. apply forallb_forall.
    intros q Hq. apply in_map_iff in Hq as (l & <- & Hl). cbn [sat]. unfold holds_path.
    rewrite skipn_all. cbn. auto.
Qed.

(* the hypotheses of the theorems above are satisfiable on a non-trivial value: two parents, the
   first has the two terms in different elements, the second in one element *)
Example spec_example :
  let red := [114;101;100] in let s := [115] in let items := [105] in let color := [99] in let size := [122] in
  let d1 := mkDoc 1 (Node [] [(items, [Node [(color, [red])] []; Node [(size, [s])] []])]) in
  let d2 := mkDoc 2 (Node [] [(items, [Node [(color, [red]); (size, [s])] []])]) in
  let q := QConj [QTerm [items] color red; QTerm [items] size s] in
  StronglySorted Z.lt (map did [d1; d2]) /\ forallb is_term [QTerm [items] color red; QTerm [items] size s] = true /\
  sem_nested [d1; d2] q = [2] /\ sem_flat [d1; d2] q = [1; 2].
Proof.
  cbn zeta. split; [repeat constructor|]. split; [reflexivity|]. split; vm_compute; reflexivity.
Qed.
