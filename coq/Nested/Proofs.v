(* Nested engine — the property-level lemmas: collector and join on flattened forests, and the
   statements that are FALSE of the faithful model of today's BooleanQuery / DisjunctionQuery
   searchers (refuted with smallest witnesses; these are the four known findings of C20). *)
From Coq Require Import ZArith List Bool Lia Sorted.
From Verif Require Import Common.Bytes Nested.Model Nested.ProofsSpec Nested.ProofsForest
  Nested.ProofsJoin Nested.ProofsFlatten.
Import ListNotations.
Local Open Scope Z_scope.

(* ---------- the collector on a flattened forest ---------- *)

Theorem nested_store_roots_once docs stream :
  StronglySorted Z.lt stream ->
  (forall id, In id stream -> exists x, In x (flatten docs) /\ fn_id x = id) ->
  let out := fold_roots (flatten docs) stream in
  StronglySorted Z.lt out /\ NoDup out /\
  (forall r, In r out <-> exists m, In m stream /\ root_in (flatten docs) m = Some r).
Proof. intros Hs Hin. apply store_roots_once; auto. apply flatten_wf. Qed.

Example nested_store_roots_once_ex :
  let docs := [mkDoc 7 (Node [] [([105], [Node [] []; Node [] []])]); mkDoc 9 (Node [] [([105], [Node [] []])])] in
  StronglySorted Z.lt [1; 2; 4] /\
  (forall id, In id [1; 2; 4] -> exists x, In x (flatten docs) /\ fn_id x = id) /\
  fold_roots (flatten docs) [1; 2; 4] = [0; 3].
Proof.
  cbn zeta. split; [repeat constructor|]. split; [|vm_compute; reflexivity].
  intros id Hid.
  match goal with |- exists x, In x ?F /\ _ => assert (H : In id (map fn_id F)) end.
  { vm_compute. cbn in Hid. intuition. }
  apply in_map_iff in H as (x & E & Hx). eauto.
Qed.

(* ---------- the join on a well-formed forest ---------- *)

Section ForestKey.
  Variable F : list fnode.
  Hypothesis W : forest_wf F.
  Variable j : nat.

  Lemma key_at_node x k : key_at F j x = Some k ->
    exists n, In n F /\ fn_id n = x /\ keyj j (fn_anc n) = Some k.
  Proof.
    unfold key_at, anc_of. destruct (find_node F x) as [n|] eqn:E.
    - intro H. apply find_node_some in E as [Hn En]. exists n. auto.
    - unfold ancestor_from_root. cbn. destruct j; discriminate.
  Qed.

  Lemma key_at_in n : In n F -> key_at F j (fn_id n) = keyj j (fn_anc n).
  Proof. intro Hn. unfold key_at. now rewrite anc_of_in. Qed.

  Lemma key_at_mono x y kx ky : key_at F j x = Some kx -> key_at F j y = Some ky -> x <= y -> kx <= ky.
  Proof.
    intros Hx Hy Hle. apply key_at_node in Hx as (nx & Hnx & <- & Kx).
    apply key_at_node in Hy as (ny & Hny & <- & Ky). eapply (wf_mono F W j nx ny); eauto.
  Qed.

  Lemma key_at_self x k : key_at F j x = Some k -> key_at F j k = Some k.
  Proof.
    intro Hx. apply key_at_node in Hx as (nx & Hnx & <- & Kx).
    destruct (wf_key_self F j nx k W Hnx Kx) as (y & Hy & <- & Ky). now rewrite key_at_in.
  Qed.

  Lemma key_at_le x k : key_at F j x = Some k -> k <= x.
  Proof.
    intro Hx. apply key_at_node in Hx as (nx & Hnx & <- & Kx). eapply wf_key_le; eauto.
  Qed.
End ForestKey.

Lemma join_init_same F j cs :
  (forall c, In c cs -> forall x, In x c -> exists k, key_at F j x = Some k) ->
  ~ In [] cs -> join_init F j cs = Some j.
Proof.
  intros Hk Hn. unfold join_init. destruct (heads cs) as [hs|] eqn:Hh.
  2:{ apply heads_none in Hh. contradiction. }
  destruct (heads_some _ _ Hh) as [-> _]. f_equal.
  assert (Hall : forall h, In h (map (hd 0) cs) -> (j < length (anc_of F h))%nat).
  { intros h Hin. apply in_map_iff in Hin as (c & <- & Hc). destruct c as [|x t]; [contradiction|].
    destruct (Hk _ Hc x (or_introl eq_refl)) as (k & Ek). cbn. unfold key_at in Ek.
    eapply keyj_lt_length. exact Ek. }
  clear Hh. induction (map (hd 0) cs) as [|h hs IH]; [reflexivity|]. cbn.
  assert (Hh0 := Hall h (or_introl eq_refl)).
  destruct (Nat.leb_spec (length (anc_of F h)) j); [lia|]. apply IH. intros; apply Hall; right; auto.
Qed.

(* the transcribed join over child lists = the child matches whose ancestor at joinIdx has a
   match from every child, ascending, each once *)
Theorem nested_conj_correct F j cs :
  forest_wf F -> cs <> [] ->
  (forall c, In c cs -> StronglySorted Z.lt c /\ forall x, In x c -> exists k, key_at F j x = Some k) ->
  exists out, nested_join F j cs = Some out /\ StronglySorted Z.lt out /\
    forall x, In x out <->
      (In x (concat cs) /\ forall c, In c cs -> exists y, In y c /\ key_at F j y = key_at F j x).
Proof.
  intros W Hne Hc. unfold nested_join. destruct cs as [|c0 cs0] eqn:Ecs; [contradiction|]. rewrite <- Ecs in *.
  destruct (in_dec (list_eq_dec Z.eq_dec) [] cs) as [Hnil|Hnonil].
  - (* a child without any match *)
    assert (join_init F j cs = None) as ->.
    { unfold join_init. apply heads_none in Hnil. now rewrite Hnil. }
    exists []. split; [reflexivity|]. split; [constructor|]. intro x. split; [intros []|].
    intros [_ Hw]. destruct (Hw [] Hnil) as (y & [] & _).
  - rewrite join_init_same; auto; [|intros c Hcin; apply Hc, Hcin].
    apply (join_loop_correct (key_at F j) (key_at_mono F W j) (key_at_self F W j) (key_at_le F W j)).
    + apply Forall_forall. intros c Hcin. exact (Hc c Hcin).
    + rewrite Ecs. discriminate.
    + unfold join_fuel. lia.
Qed.

Example nested_conj_correct_ex :
  (* items[0] = {color red}, items[1] = {size s}; items of the second parent has both in one *)
  let red := [114] in let s := [115] in let items := [105] in let color := [99] in let size := [122] in
  let docs := [mkDoc 1 (Node [([116], [[120]])] [(items, [Node [(color, [red])] []; Node [(size, [s])] []])]);
               mkDoc 2 (Node [([116], [[120]])] [(items, [Node [(color, [red]); (size, [s])] []])])] in
  let F := flatten docs in
  let cs := [raw_term F [] [116] [120]; raw_term F [items] color red] in
  forest_wf F /\ cs <> [] /\
  (forall c, In c cs -> StronglySorted Z.lt c /\ forall x, In x c -> exists k, key_at F 0 x = Some k) /\
  nested_join F 0 cs = Some [0; 1; 3; 4].
Proof.
  cbn zeta. split; [apply flatten_wf|]. split; [discriminate|]. split; [|vm_compute; reflexivity].
  intros c [<-|[<-|[]]]; vm_compute; (split; [repeat constructor|]);
    intros x Hx; repeat (destruct Hx as [<-|Hx]; [eexists; reflexivity|]); destruct Hx.
Qed.

(* ---------- statements that are false of today's searchers ---------- *)

(* FULL statement (kept visible): the mechanism returns exactly the parents the spec selects *)
Definition nested_search_correct_stmt (q : query) : Prop :=
  forall docs, model_search docs q = Some (sem_nested docs q).

(* ... for every boolean query: FALSE (four different shapes below) *)
Definition nested_bool_correct_stmt : Prop :=
  forall must should mustnot min, nested_search_correct_stmt (QBool must should mustnot min).

(* ... for every disjunction: FALSE for min >= 2 across scopes *)
Definition nested_disj_correct_stmt : Prop :=
  forall min qs, nested_search_correct_stmt (QDisj min qs).

Definition w_top : bytes := [116].     (* "t"  top-level field *)
Definition w_x : bytes := [120].
Definition w_y : bytes := [121].
Definition w_items : bytes := [105].
Definition w_parts : bytes := [112].
Definition w_color : bytes := [99].
Definition w_name : bytes := [110].
Definition w_red : bytes := [114].
Definition w_n1 : bytes := [49].
Definition w_n2 : bytes := [50].

(* d1 {t:x, items:[{color:red}], parts:[{name:n1}]}, d2 {t:x, items:[{color:red}], parts:[{name:n2}]},
   d4 {t:y} *)
Definition w_docs : list doc :=
  [mkDoc 1 (Node [(w_top, [w_x])] [(w_items, [Node [(w_color, [w_red])] []]); (w_parts, [Node [(w_name, [w_n1])] []])]);
   mkDoc 2 (Node [(w_top, [w_x])] [(w_items, [Node [(w_color, [w_red])] []]); (w_parts, [Node [(w_name, [w_n2])] []])]);
   mkDoc 4 (Node [(w_top, [w_y])] [])].

(* known finding nested-bool-cross-depth: must t:x, must_not items.color:red — the mechanism
   returns d1 and d2 (which have a red element), the per-parent answer is empty *)
Theorem nested_bool_refuted :
  exists docs must mustnot,
    model_search docs (QBool must [] mustnot 0) = Some [1; 2] /\
    sem_nested docs (QBool must [] mustnot 0) = [] /\
    must = [QTerm [] w_top w_x] /\ mustnot = [QTerm [w_items] w_color w_red].
Proof.
  exists w_docs, [QTerm [] w_top w_x], [QTerm [w_items] w_color w_red].
  split; [vm_compute; reflexivity|]. split; [vm_compute; reflexivity|]. split; reflexivity.
Qed.

Theorem nested_bool_correct_false : ~ nested_bool_correct_stmt.
Proof.
  intro H. specialize (H [QTerm [] w_top w_x] [] [QTerm [w_items] w_color w_red] 0 w_docs).
  vm_compute in H. discriminate.
Qed.

(* known finding nested-bool-sibling-arrays: must items.color:red, must_not parts.name:n1 *)
Theorem nested_bool_sibling_refuted :
  exists docs must mustnot,
    model_search docs (QBool must [] mustnot 0) = Some [1; 2] /\
    sem_nested docs (QBool must [] mustnot 0) = [2] /\
    must = [QTerm [w_items] w_color w_red] /\ mustnot = [QTerm [w_parts] w_name w_n1].
Proof.
  exists w_docs, [QTerm [w_items] w_color w_red], [QTerm [w_parts] w_name w_n1].
  split; [vm_compute; reflexivity|]. split; [vm_compute; reflexivity|]. split; reflexivity.
Qed.

(* known finding nested-bool-mustnot-only: must_not t:x — the hits are sub-documents (-1 stands
   for a sub-document id) and the excluded parents' elements; must_not items.color:red — every
   parent comes back *)
Theorem nested_bool_mustnot_only_refuted :
  exists docs,
    model_search docs (QBool [] [] [QTerm [] w_top w_x] 0) = Some [-1; -1; -1; -1; 4] /\
    sem_nested docs (QBool [] [] [QTerm [] w_top w_x] 0) = [4] /\
    model_search docs (QBool [] [] [QTerm [w_items] w_color w_red] 0) = Some [1; 2; 4] /\
    sem_nested docs (QBool [] [] [QTerm [w_items] w_color w_red] 0) = [4].
Proof. exists w_docs. repeat split; vm_compute; reflexivity. Qed.

(* known finding nested-disj-min-cross-scope: disjunction min 2 of items.color:red, t:x *)
Theorem nested_disj_min_refuted :
  exists docs qs,
    model_search docs (QDisj 2 qs) = Some [] /\ sem_nested docs (QDisj 2 qs) = [1; 2] /\
    model_search docs (QBool [] qs [] 2) = Some [] /\ sem_nested docs (QBool [] qs [] 2) = [1; 2] /\
    qs = [QTerm [w_items] w_color w_red; QTerm [] w_top w_x].
Proof.
  exists w_docs, [QTerm [w_items] w_color w_red; QTerm [] w_top w_x].
  repeat split; vm_compute; reflexivity.
Qed.

Theorem nested_disj_correct_false : ~ nested_disj_correct_stmt.
Proof.
  intro H. specialize (H 2 [QTerm [w_items] w_color w_red; QTerm [] w_top w_x] w_docs).
  vm_compute in H. discriminate.
Qed.

(* the same witness queries are NOT well scoped, i.e. outside the fragment for which
   [nested_search_correct_stmt] is claimed (and checked by T2) *)
Example witnesses_not_wellscoped :
  wellscoped (QBool [QTerm [] w_top w_x] [] [QTerm [w_items] w_color w_red] 0) = false /\
  wellscoped (QBool [QTerm [w_items] w_color w_red] [] [QTerm [w_parts] w_name w_n1] 0) = false /\
  wellscoped (QBool [] [] [QTerm [] w_top w_x] 0) = false /\
  wellscoped (QDisj 2 [QTerm [w_items] w_color w_red; QTerm [] w_top w_x]) = false.
Proof. repeat split; reflexivity. Qed.
