(* Nested engine — [flatten] produces a well-formed forest (root first, then its descendants
   in a contiguous block; ancestors are earlier documents; level-j ancestors are monotone), and
   CountRoot / AddNestedDocuments count and delete parents together with their elements. *)
From Coq Require Import ZArith List Bool Lia Sorted Permutation.
From Verif Require Import Common.Bytes Nested.Model Nested.ProofsSpec Nested.ProofsForest.
Import ListNotations.
Local Open Scope Z_scope.

(* ---------- induction on trees ---------- *)

Lemma node_ind' (P : node -> Prop) :
  (forall fs arrs, Forall (fun p => Forall P (snd p)) arrs -> P (Node fs arrs)) ->
  forall n, P n.
Proof.
  intro H. fix IH 1. intros [fs arrs]. apply H.
  induction arrs as [|[a els] arrs IHa]; constructor; [|exact IHa].
  cbn. induction els as [|e els IHe]; constructor; [apply IH|exact IHe].
Qed.

(* ---------- blocks: a document followed by the blocks of its sub-documents ---------- *)

Inductive blk : Z -> list Z -> list fnode -> Prop :=
| blk_node s above path fs Bs :
    blks (s + 1) (s :: above) Bs -> blk s above (mkF s (s :: above) path fs :: Bs)
with blks : Z -> list Z -> list fnode -> Prop :=
| blks_nil s above : blks s above []
| blks_cons s above B Bs :
    blk s above B -> blks (s + zlen B) above Bs -> blks s above (B ++ Bs).

Scheme blk_mut := Induction for blk Sort Prop
  with blks_mut := Induction for blks Sort Prop.
Combined Scheme blk_blks_ind from blk_mut, blks_mut.

Lemma zlen_app {A} (a b : list A) : zlen (a ++ b) = zlen a + zlen b.
Proof. unfold zlen. rewrite app_length. lia. Qed.

Lemma zlen_nonneg {A} (a : list A) : 0 <= zlen a.
Proof. unfold zlen. lia. Qed.

Lemma blks_app s above A : blks s above A -> forall B, blks (s + zlen A) above B -> blks s above (A ++ B).
Proof.
  induction 1 as [s above|s above B0 Bs Hb Hbs IH]; intros B HB.
  - unfold zlen in HB. cbn in *. rewrite Z.add_0_r in HB. exact HB.
  - rewrite <- app_assoc. constructor; [exact Hb|]. apply IH.
    rewrite zlen_app in HB. replace (s + zlen B0 + zlen Bs) with (s + (zlen B0 + zlen Bs)) by lia. exact HB.
Qed.

Lemma blk_blks s above B : blk s above B -> blks s above B.
Proof. intro H. rewrite <- (app_nil_r B). constructor; [exact H|constructor]. Qed.

Lemma flat_seq_blks {A} (f : Z -> A -> list fnode) above l :
  (forall x, In x l -> forall s, blks s above (f s x)) -> forall s, blks s above (flat_seq f s l).
Proof.
  induction l as [|x l IH]; intros H s; cbn; [constructor|].
  apply blks_app; [apply H; left; auto|]. apply IH. intros; apply H; right; auto.
Qed.

Lemma flat_node_unfold s above path fs arrs :
  flat_node s above path (Node fs arrs) =
  mkF s (s :: above) path fs ::
  flat_seq (fun s1 (p : bytes * list node) =>
              flat_seq (fun s2 e => flat_node s2 (s :: above) (path ++ [fst p]) e) s1 (snd p))
           (s + 1) arrs.
Proof. reflexivity. Qed.

Lemma flat_node_blk n : forall s above path, blk s above (flat_node s above path n).
Proof.
  induction n as [fs arrs IH] using node_ind'. intros s above path.
  rewrite flat_node_unfold. constructor. apply flat_seq_blks.
  intros p Hp s1. rewrite Forall_forall in IH. specialize (IH p Hp).
  apply flat_seq_blks. intros e He s2. rewrite Forall_forall in IH. apply blk_blks, IH, He.
Qed.

Lemma flatten_from_blks docs s : blks s [] (flatten_from s docs).
Proof. apply flat_seq_blks. intros d _ s1. apply blk_blks, flat_node_blk. Qed.

(* ---------- what blocks guarantee ---------- *)

(* x lies in a block occupying numbers [lo, hi) under the ancestors [above] *)
Definition inblock (lo hi : Z) (above : list Z) (x : fnode) : Prop :=
  exists pre, fn_anc x = pre ++ above /\ hd_error pre = Some (fn_id x) /\
              StronglySorted Z.gt pre /\ Forall (fun a => lo <= a < hi) pre.

Definition closed_in (L : list fnode) (above : list Z) : Prop :=
  forall x p1 a p2, In x L -> fn_anc x = p1 ++ a :: p2 ++ above ->
    exists y, In y L /\ fn_id y = a /\ fn_anc y = a :: p2 ++ above.

Definition mono_in (L : list fnode) (above : list Z) : Prop :=
  forall j x y kx ky, (length above <= j)%nat -> In x L -> In y L -> fn_id x <= fn_id y ->
    keyj j (fn_anc x) = Some kx -> keyj j (fn_anc y) = Some ky -> kx <= ky.

Definition block_ok (s : Z) (above : list Z) (L : list fnode) : Prop :=
  StronglySorted Z.lt (map fn_id L) /\
  (forall x, In x L -> inblock s (s + zlen L) above x) /\
  closed_in L above /\ mono_in L above.

Lemma inblock_id lo hi above x : inblock lo hi above x -> lo <= fn_id x < hi.
Proof.
  intros (pre & _ & Hh & _ & Hr). destruct pre as [|a pre]; [discriminate|]. inversion Hh; subst.
  inversion Hr; auto.
Qed.

Lemma inblock_widen lo hi lo' hi' above x : lo' <= lo -> hi <= hi' -> inblock lo hi above x -> inblock lo' hi' above x.
Proof.
  intros H1 H2 (pre & E & Hh & Hs & Hr). exists pre. repeat split; auto.
  eapply Forall_impl; [|exact Hr]. cbn. intros; lia.
Qed.

Lemma keyj_pre j pre above k : (length above <= j)%nat -> keyj j (pre ++ above) = Some k -> In k pre.
Proof.
  unfold keyj, ancestor_from_root. rewrite rev_app_distr. intros Hj H.
  rewrite nth_error_app2 in H by (rewrite rev_length; exact Hj).
  apply nth_error_In in H. now apply in_rev.
Qed.

Lemma keyj_none j anc : (length anc <= j)%nat -> keyj j anc = None.
Proof. intro H. unfold keyj, ancestor_from_root. apply nth_error_None. now rewrite rev_length. Qed.

Lemma app_last_split {A} (pre : list A) s p1 a p2 :
  pre ++ [s] = p1 ++ a :: p2 ->
  (p2 = [] /\ a = s /\ p1 = pre) \/ (exists p2', p2 = p2' ++ [s] /\ pre = p1 ++ a :: p2').
Proof.
  intro E. destruct p2 as [|b p2] using rev_ind.
  - left. change (p1 ++ [a]) with (p1 ++ [a]) in E. apply app_inj_tail in E as [E1 E2]. auto.
  - right. clear IHp2. change (p1 ++ a :: p2 ++ [b]) with (p1 ++ (a :: p2) ++ [b]) in E.
    rewrite app_assoc in E. apply app_inj_tail in E as [E1 E2]. subst b. exists p2. auto.
Qed.

Lemma sorted_gt_snoc pre s : StronglySorted Z.gt pre -> Forall (fun a => s < a) pre -> StronglySorted Z.gt (pre ++ [s]).
Proof.
  induction 1 as [|a pre Hs IH Ha]; intro Hr; cbn; [repeat constructor|].
  inversion Hr; subst. constructor; [apply IH; auto|].
  apply Forall_app. split; [exact Ha|]. constructor; [lia|constructor].
Qed.

Lemma blocks_ok :
  (forall s above L, blk s above L -> block_ok s above L /\
      (forall x, In x L -> exists pre, fn_anc x = pre ++ s :: above)) /\
  (forall s above L, blks s above L -> block_ok s above L).
Proof.
  apply blk_blks_ind.
  - (* a document and the blocks of its sub-documents *)
    intros s above path fs Bs HBs (IS & II & IC & IM).
    set (root := mkF s (s :: above) path fs).
    assert (Hlen : zlen (root :: Bs) = 1 + zlen Bs) by (unfold zlen; cbn [length]; lia).
    assert (Hanc : forall x, In x (root :: Bs) -> exists pre, fn_anc x = pre ++ s :: above).
    { intros x [<-|Hx]; [exists []; reflexivity|]. destruct (II x Hx) as (pre & E & _). eauto. }
    split; [|exact Hanc]. split; [|split; [|split]].
    + cbn [map]. constructor; [exact IS|]. apply Forall_forall. intros i Hi.
      apply in_map_iff in Hi as (x & <- & Hx). apply II, inblock_id in Hx. unfold root. cbn [fn_id]. lia.
    + intros x [<-|Hx].
      * pose proof (zlen_nonneg Bs) as HBs0. exists [s]. split; [reflexivity|]. split; [reflexivity|].
        split; [repeat constructor|]. constructor; [rewrite Hlen; lia|constructor].
      * destruct (II x Hx) as (pre & E & Hh & Hs & Hr). exists (pre ++ [s]).
        split; [rewrite E, <- app_assoc; reflexivity|]. split; [destruct pre; [discriminate|exact Hh]|].
        split; [apply sorted_gt_snoc; auto; eapply Forall_impl; [|exact Hr]; cbn; intros; lia|].
        pose proof (zlen_nonneg Bs) as HBs0.
        apply Forall_app. split; [eapply Forall_impl; [|exact Hr]; intros a0 Ha; cbn beta in *; rewrite Hlen; lia|].
        constructor; [|constructor]. rewrite Hlen. lia.
    + intros x p1 a p2 Hx E. destruct Hx as [<-|Hx].
      * assert (E3 : [s] = p1 ++ a :: p2).
        { apply (app_inv_tail above). rewrite <- app_assoc. exact E. }
        destruct p1 as [|b p1]; [|destruct p1; discriminate].
        cbn in E3. inversion E3; subst. exists root. split; [left; auto|]. split; reflexivity.
      * destruct (II x Hx) as (pre & Ex & _).
        assert (E2 : pre ++ [s] = p1 ++ a :: p2).
        { apply (app_inv_tail above). transitivity (fn_anc x).
          - rewrite Ex, <- app_assoc. reflexivity.
          - rewrite E, <- app_assoc. reflexivity. }
        apply app_last_split in E2 as [(-> & -> & ->)|(p2' & -> & Epre)].
        -- exists root. split; [left; auto|]. split; reflexivity.
        -- destruct (IC x p1 a p2' Hx) as (y & Hy & Ey & Ay).
           { rewrite Ex, Epre, <- app_assoc. reflexivity. }
           exists y. split; [right; exact Hy|]. split; [exact Ey|]. rewrite Ay, <- app_assoc. reflexivity.
    + intros j x y kx ky Hj Hx Hy Hle Kx Ky.
      destruct (Nat.eq_dec j (length above)) as [->|Hne].
      * destruct (Hanc x Hx) as (px & Ex). destruct (Hanc y Hy) as (py & Ey).
        rewrite Ex, keyj_app_lt, keyj_top in Kx by (cbn; lia).
        rewrite Ey, keyj_app_lt, keyj_top in Ky by (cbn; lia). inversion Kx; inversion Ky; lia.
      * assert (Hr : forall z kz, In z (root :: Bs) -> keyj j (fn_anc z) = Some kz -> In z Bs).
        { intros z kz [<-|Hz] Kz; [|exact Hz]. rewrite keyj_none in Kz; [discriminate|]. cbn. lia. }
        eapply (IM j x y); eauto. cbn. lia.
  - intros s above. split; [constructor|]. split; [intros x []|]. split.
    + intros x p1 a p2 [].
    + intros j x y kx ky _ [].
  - (* a block followed by further blocks *)
    intros s above B Bs HB ((BS & BI & BC & BM) & _) HBs (IS & II & IC & IM).
    assert (Hlen : zlen (B ++ Bs) = zlen B + zlen Bs) by apply zlen_app.
    pose proof (zlen_nonneg B) as HB0. pose proof (zlen_nonneg Bs) as HBs0.
    split; [|split; [|split]].
    + rewrite map_app. apply sorted_lt_app; [exact BS|exact IS|].
      intros i k Hi Hk. apply in_map_iff in Hi as (x & <- & Hx). apply in_map_iff in Hk as (y & <- & Hy).
      apply BI, inblock_id in Hx. apply II, inblock_id in Hy. lia.
    + intros x Hx. apply in_app_or in Hx as [Hx|Hx].
      * eapply inblock_widen; [| |apply BI, Hx]; lia.
      * eapply inblock_widen; [| |apply II, Hx]; lia.
    + intros x p1 a p2 Hx E. apply in_app_or in Hx as [Hx|Hx].
      * destruct (BC x p1 a p2 Hx E) as (y & Hy & R). exists y. split; [apply in_or_app; auto|exact R].
      * destruct (IC x p1 a p2 Hx E) as (y & Hy & R). exists y. split; [apply in_or_app; auto|exact R].
    + intros j x y kx ky Hj Hx Hy Hle Kx Ky.
      apply in_app_or in Hx as [Hx|Hx]; apply in_app_or in Hy as [Hy|Hy].
      * eapply (BM j x y); eauto.
      * destruct (BI x Hx) as (px & Ex & _ & _ & Rx). destruct (II y Hy) as (py & Ey & _ & _ & Ry).
        rewrite Ex in Kx. rewrite Ey in Ky. apply keyj_pre in Kx; auto. apply keyj_pre in Ky; auto.
        rewrite Forall_forall in Rx, Ry. specialize (Rx _ Kx). specialize (Ry _ Ky). lia.
      * apply BI, inblock_id in Hy. apply II, inblock_id in Hx. lia.
      * eapply (IM j x y); eauto.
Qed.

Lemma blks_forest_wf s F : blks s [] F -> forest_wf F.
Proof.
  intro H. destruct (proj2 blocks_ok s [] F H) as (S1 & I1 & C1 & M1). constructor.
  - exact S1.
  - intros x Hx. destruct (I1 x Hx) as (pre & E & Hh & _). rewrite app_nil_r in E.
    destruct pre as [|a pre]; [discriminate|]. inversion Hh; subst. exists pre. exact E.
  - intros x pre a rest Hx E. destruct (C1 x pre a rest Hx) as (y & Hy & Ey & Ay).
    + now rewrite app_nil_r.
    + rewrite app_nil_r in Ay. eauto.
  - intros x Hx. destruct (I1 x Hx) as (pre & E & _ & Hs & _). rewrite app_nil_r in E. now rewrite E.
  - intros j x y kx ky Hx Hy. apply M1; auto. cbn. lia.
Qed.

Theorem flatten_wf docs : forest_wf (flatten docs).
Proof. eapply blks_forest_wf, flatten_from_blks. Qed.

(* ---------- parents: one per document, first of its block ---------- *)

Lemma flat_node_root s above path n :
  exists Bs, flat_node s above path n = mkF s (s :: above) path (nfields n) :: Bs /\
             forall x, In x Bs -> exists pre, pre <> [] /\ fn_anc x = pre ++ s :: above.
Proof.
  assert (H := flat_node_blk n s above path). destruct n as [fs arrs]. rewrite flat_node_unfold in *.
  eexists. split; [reflexivity|]. inversion H as [? ? ? ? Bs HBs]; subst.
  intros x Hx. destruct (proj2 blocks_ok _ _ _ HBs) as (_ & II & _). destruct (II x Hx) as (pre & E & Hh & _).
  exists pre. split; [destruct pre; [discriminate|discriminate]|exact E].
Qed.

Lemma roots_of_flatten docs : forall s,
  length (filter is_root (flatten_from s docs)) = length docs /\
  Forall (fun x => fn_anc x = [fn_id x]) (filter is_root (flatten_from s docs)).
Proof.
  induction docs as [|d docs IH]; intro s; [split; [reflexivity|constructor]|].
  assert (Eu : flatten_from s (d :: docs) =
               flat_node s [] [] (dtree d) ++ flatten_from (s + zlen (flat_node s [] [] (dtree d))) docs)
    by reflexivity.
  rewrite Eu. destruct (flat_node_root s [] [] (dtree d)) as (Bs & E & Hsub).
  destruct (IH (s + zlen (flat_node s [] [] (dtree d)))) as [I1 I2].
  rewrite filter_app. rewrite E at 1 3.
  assert (Hno : filter is_root Bs = []).
  { clear - Hsub. induction Bs as [|b Bs IHb]; [reflexivity|]. cbn [filter].
    destruct (Hsub b (or_introl eq_refl)) as (pre & Hne & Eb).
    assert (Hb : is_root b = false).
    { unfold is_root. rewrite Eb, app_length. apply Nat.eqb_neq. destruct pre; [contradiction|]. cbn. lia. }
    rewrite Hb. apply IHb. intros; apply Hsub; right; auto. }
  cbn [filter]. unfold is_root at 1 3. cbn [fn_anc length Nat.eqb]. rewrite Hno. cbn [app].
  split; [cbn [length]; now rewrite I1|]. constructor; [reflexivity|exact I2].
Qed.

Lemma is_root_anc F x : forest_wf F -> In x F -> (is_root x = true <-> fn_anc x = [fn_id x]).
Proof.
  intros W Hx. destruct (wf_head F W x Hx) as (rest & E). unfold is_root. rewrite E. cbn.
  destruct rest; cbn; split; intro H; try reflexivity; try discriminate.
Qed.

(* ---------- DocCount, deletes ---------- *)

Lemma filter_filter {A} (f g : A -> bool) l : filter (fun x => f x && g x) l = filter g (filter f l).
Proof.
  induction l as [|a l IH]; cbn; [reflexivity|]. destruct (f a); cbn; [destruct (g a); now rewrite IH|exact IH].
Qed.

Lemma memz_in x l : memz x l = true <-> In x l.
Proof.
  unfold memz. rewrite existsb_exists. split.
  - intros (y & Hy & E). apply Z.eqb_eq in E. now subst.
  - intro H. exists x. split; [exact H|apply Z.eqb_refl].
Qed.

(* AddNestedDocuments: a document is dropped iff its parent is *)
Lemma add_nested_in F drops id :
  forest_wf F ->
  (In id (add_nested F drops) <-> exists x r, In x F /\ fn_id x = id /\ root_of_anc (fn_anc x) = Some r /\ In r drops).
Proof.
  intro W. unfold add_nested. rewrite in_map_iff. split.
  - intros (x & E & Hx). apply filter_In in Hx as [Hx Hr].
    destruct (root_of_anc (fn_anc x)) as [r|] eqn:Er; [|discriminate].
    exists x, r. repeat split; auto. now apply memz_in.
  - intros (x & r & Hx & E & Er & Hr). exists x. split; [exact E|]. apply filter_In. split; [exact Hx|].
    rewrite Er. now apply memz_in.
Qed.

(* DocCount = number of parent documents: CountRoot counts only documents without ancestors,
   and after the parents [drops] were deleted (with AddNestedDocuments) it counts the rest *)
Theorem count_roots docs :
  count_root (flatten docs) [] = zlen docs /\
  forall drops, NoDup drops ->
    (forall r, In r drops -> exists x, In x (flatten docs) /\ is_root x = true /\ fn_id x = r) ->
    count_root (flatten docs) (add_nested (flatten docs) drops) = zlen docs - zlen drops.
Proof.
  set (F := flatten docs). assert (W : forest_wf F) by apply flatten_wf.
  destruct (roots_of_flatten docs 0) as [Hlen _]. fold (flatten docs) in Hlen. fold F in Hlen.
  split.
  - assert (Hz : forall G : list fnode,
               filter (fun x => is_root x && existsb (Z.eqb (fn_id x)) []) G = []).
    { induction G as [|g G IHG]; cbn; [reflexivity|]. rewrite andb_false_r. exact IHG. }
    unfold count_root. rewrite Hz. unfold zlen. rewrite Hlen. cbn. lia.
  - intros drops Hnd Hdr. unfold count_root. rewrite filter_filter.
    unfold zlen at 1. rewrite Hlen. fold (zlen docs).
    set (R := filter is_root F).
    assert (HR : forall x, In x R -> In x F /\ is_root x = true) by (intros x Hx; apply filter_In in Hx; exact Hx).
    assert (Hperm : Permutation (map fn_id (filter (fun x => existsb (Z.eqb (fn_id x)) (add_nested F drops)) R)) drops).
    { apply NoDup_Permutation.
      - assert (S : StronglySorted Z.lt (map fn_id R)).
        { unfold R. apply sorted_map_filter, (wf_sorted F W). }
        apply sorted_lt_nodup. apply sorted_map_filter, S.
      - exact Hnd.
      - intro r. rewrite in_map_iff. split.
        + intros (x & <- & Hx). apply filter_In in Hx as [Hx Hm]. apply HR in Hx as [HxF Hroot].
          apply (memz_in (fn_id x)) in Hm. apply add_nested_in in Hm as (y & r & Hy & Ey & Er & Hr); auto.
          assert (y = x) by (eapply sorted_lt_in_unique; eauto using wf_sorted). subst y.
          apply (is_root_anc F x W HxF) in Hroot. rewrite Hroot in Er. cbn in Er. congruence.
        + intro Hr. destruct (Hdr r Hr) as (x & HxF & Hroot & <-). exists x. split; [reflexivity|].
          apply filter_In. split; [apply filter_In; auto|]. apply (memz_in (fn_id x)), add_nested_in; auto.
          exists x, (fn_id x). repeat split; auto. apply (is_root_anc F x W HxF) in Hroot. now rewrite Hroot. }
    apply Permutation_length in Hperm. rewrite map_length in Hperm.
    unfold zlen. rewrite Hperm. lia.
Qed.

(* deleting parents removes exactly the documents whose parent is deleted: nothing of a deleted
   parent stays searchable, nothing else is touched *)
Theorem delete_closed docs drops x :
  In x (flatten docs) ->
  (In (fn_id x) (add_nested (flatten docs) drops) <->
   exists r, root_of_anc (fn_anc x) = Some r /\ In r drops).
Proof.
  intro Hx. assert (W := flatten_wf docs). rewrite add_nested_in by exact W. split.
  - intros (y & r & Hy & E & Er & Hr).
    assert (y = x) by (eapply sorted_lt_in_unique; eauto using wf_sorted). subst y. eauto.
  - intros (r & Er & Hr). exists x, r. auto.
Qed.
