(* Nested engine — the NestedConjunctionSearcher join is correct: over children given as strictly
   ascending lists of document numbers, the transcribed alignment loop returns, in ascending
   order and once each, exactly the child matches whose ancestor at joinIdx has a match from
   every child. *)
From Coq Require Import ZArith List Bool Lia Sorted.
From Verif Require Import Common.Bytes Nested.Model Nested.ProofsSpec Nested.ProofsForest.
Import ListNotations.
Local Open Scope Z_scope.

(* ---------- small list facts ---------- *)

Lemma insert_uniq_in x l y : In y (insert_uniq x l) <-> y = x \/ In y l.
Proof.
  induction l as [|z l IH]; cbn; [intuition|].
  destruct (x <? z); [cbn; intuition|]. destruct (Z.eqb_spec x z) as [->|Hne]; cbn; [intuition|].
  rewrite IH. intuition.
Qed.

Lemma insert_uniq_sorted x l : StronglySorted Z.lt l -> StronglySorted Z.lt (insert_uniq x l).
Proof.
  induction 1 as [|z l Hs IH Hz]; cbn; [repeat constructor|].
  destruct (Z.ltb_spec x z) as [Hlt|Hge].
  - constructor; [constructor; auto|]. constructor; [exact Hlt|].
    rewrite Forall_forall in *. intros y Hy. specialize (Hz _ Hy). lia.
  - destruct (Z.eqb_spec x z) as [->|Hne]; [constructor; auto|].
    constructor; [exact IH|]. rewrite Forall_forall in *. intros y Hy.
    apply insert_uniq_in in Hy as [->|Hy]; [lia|auto].
Qed.

Lemma sort_uniq_in l y : In y (sort_uniq l) <-> In y l.
Proof.
  induction l as [|x l IH]; cbn; [intuition|]. rewrite insert_uniq_in, IH. intuition.
Qed.

Lemma sort_uniq_sorted l : StronglySorted Z.lt (sort_uniq l).
Proof. induction l as [|x l IH]; cbn; [constructor|apply insert_uniq_sorted, IH]. Qed.

(* two strictly ascending lists with the same members are equal *)
Lemma sorted_lt_ext l1 : forall l2,
  StronglySorted Z.lt l1 -> StronglySorted Z.lt l2 -> (forall x, In x l1 <-> In x l2) -> l1 = l2.
Proof.
  induction l1 as [|a l1 IH]; intros [|b l2] H1 H2 E.
  - reflexivity.
  - destruct (proj2 (E b) (or_introl eq_refl)).
  - destruct (proj1 (E a) (or_introl eq_refl)).
  - inversion H1 as [|? ? H1' Ha]; inversion H2 as [|? ? H2' Hb]; subst.
    rewrite Forall_forall in Ha, Hb.
    assert (a = b).
    { destruct (proj1 (E a) (or_introl eq_refl)) as [->|Hin]; [reflexivity|].
      destruct (proj2 (E b) (or_introl eq_refl)) as [->|Hin2]; [reflexivity|].
      specialize (Ha _ Hin2). specialize (Hb _ Hin). lia. }
    subst b. f_equal. apply IH; auto. intro x. split; intro Hx.
    + destruct (proj1 (E x) (or_intror Hx)) as [->|]; [|auto]. specialize (Ha _ Hx). lia.
    + destruct (proj2 (E x) (or_intror Hx)) as [->|]; [|auto]. specialize (Hb _ Hx). lia.
Qed.

Lemma zmax_fold_ge l : forall a, a <= fold_left Z.max l a /\ (forall k, In k l -> k <= fold_left Z.max l a)
  /\ (fold_left Z.max l a = a \/ In (fold_left Z.max l a) l).
Proof.
  induction l as [|x l IH]; intro a; cbn; [intuition lia|].
  destruct (IH (Z.max a x)) as (I1 & I2 & I3). repeat split.
  - lia.
  - intros k [<-|Hk]; [lia|auto].
  - destruct I3 as [E|Hin]; [|auto]. rewrite E. destruct (Z.max_spec a x) as [[_ ->]|[_ ->]]; auto.
Qed.

Lemma zmax_list_spec l : l <> [] -> In (zmax_list l) l /\ forall k, In k l -> k <= zmax_list l.
Proof.
  destruct l as [|a l]; [contradiction|]. intros _. cbn [zmax_list].
  destruct (zmax_fold_ge l a) as (I1 & I2 & I3). split.
  - destruct I3 as [->|]; [left; auto|right; auto].
  - intros k [<-|Hk]; auto.
Qed.

Lemma heads_none cs : heads cs = None <-> In [] cs.
Proof.
  induction cs as [|c cs IH]; cbn; [split; [discriminate|intros []]|].
  destruct c as [|x c]; [intuition|]. destruct (heads cs); split; intro H.
  - discriminate.
  - destruct H as [H|H]; [discriminate|]. apply IH in H. discriminate.
  - right. apply IH. reflexivity.
  - reflexivity.
Qed.

Lemma heads_some cs hs : heads cs = Some hs -> hs = map (hd 0) cs /\ ~ In [] cs.
Proof.
  revert hs; induction cs as [|c cs IH]; cbn; intros hs H.
  - inversion H. split; [reflexivity|intros []].
  - destruct c as [|x c]; [discriminate|]. destruct (heads cs) as [hs'|]; [|discriminate].
    inversion H; subst. destruct (IH hs' eq_refl) as [-> Hn]. split; [reflexivity|].
    intros [E|E]; [discriminate|auto].
Qed.

Lemma drop_below_spec t l : StronglySorted Z.lt l ->
  StronglySorted Z.lt (drop_below t l) /\ (forall x, In x (drop_below t l) <-> In x l /\ t <= x)
  /\ (length (drop_below t l) <= length l)%nat.
Proof.
  induction 1 as [|a l Hs IH Ha]; cbn.
  - split; [constructor|]. split; [intuition|lia].
  - destruct (Z.ltb_spec a t) as [Hlt|Hge].
    + destruct IH as (I1 & I2 & I3). split; [exact I1|]. split; [|lia].
      intro x. rewrite I2. intuition. subst. lia.
    + split; [constructor; auto|]. split; [|cbn; lia].
      intro x. cbn. rewrite Forall_forall in Ha. split.
      * intros [<-|Hx]; [intuition|]. specialize (Ha _ Hx). intuition lia.
      * intuition.
Qed.

(* ---------- the join, abstractly in the level-j ancestor function ---------- *)
Section Join.
  Variable key : Z -> option Z.
  Hypothesis key_mono : forall x y kx ky, key x = Some kx -> key y = Some ky -> x <= y -> kx <= ky.
  Hypothesis key_self : forall x k, key x = Some k -> key k = Some k.
  Hypothesis key_le : forall x k, key x = Some k -> k <= x.

  Definition child_ok (c : list Z) : Prop :=
    StronglySorted Z.lt c /\ forall x, In x c -> exists k, key x = Some k.

  Definition in_join (cs : list (list Z)) (x : Z) : Prop :=
    In x (concat cs) /\ forall c, In c cs -> exists y, In y c /\ key y = key x.

  Definition kz (x : Z) : Z := match key x with Some k => k | None => 0 end.

  Lemma kz_some x k : key x = Some k -> kz x = k.
  Proof. unfold kz. now intros ->. Qed.

  Lemma sequence_keys hs : (forall h, In h hs -> exists k, key h = Some k) ->
    sequence_opt (map key hs) = Some (map kz hs).
  Proof.
    induction hs as [|h hs IH]; intro H; cbn; [reflexivity|].
    destruct (H h (or_introl eq_refl)) as (k & E). rewrite E, (kz_some _ _ E).
    rewrite IH; [reflexivity|]. intros; apply H; right; auto.
  Qed.

  (* in a sorted child, everything is at or above the head, key-wise too *)
  Lemma child_keys_ge x t kx : child_ok (x :: t) -> key x = Some kx ->
    forall y ky, In y (x :: t) -> key y = Some ky -> kx <= ky.
  Proof.
    intros [Hs _] Hx y ky Hy Hky. inversion Hs as [|? ? _ Hall]; subst. rewrite Forall_forall in Hall.
    destruct Hy as [<-|Hy]; [assert (kx = ky) by congruence; lia|]. specialize (Hall _ Hy).
    eapply key_mono; eauto. lia.
  Qed.

  (* Advance of one child to the largest key K *)
  Definition adv (K : Z) (c : list Z) : list Z :=
    match c with
    | [] => []
    | x :: _ => match key x with
                | Some kx => if kx <? K then drop_below K c else c
                | None => c
                end
    end.

  Lemma adv_spec K c : child_ok c -> key K = Some K ->
    child_ok (adv K c) /\
    (forall x, In x (adv K c) <-> In x c /\ K <= kz x) /\
    (length (adv K c) <= length c)%nat /\
    (forall x t kx, c = x :: t -> key x = Some kx -> kx < K -> (length (adv K c) < length c)%nat).
  Proof.
    intros [Hs Hk] HK. destruct c as [|x t].
    - cbn. repeat split; auto; try tauto; try lia. intros; discriminate.
    - cbn [adv]. destruct (Hk x (or_introl eq_refl)) as (kx & Ex). rewrite Ex.
      destruct (Z.ltb_spec kx K) as [Hlt|Hge].
      + destruct (drop_below_spec K (x :: t) Hs) as (D1 & D2 & D3).
        split; [split; [exact D1|intros y Hy; apply D2 in Hy as [Hy _]; auto]|].
        split; [|split; [exact D3|]].
        * intro y. rewrite D2. split.
          -- intros [Hy Hge]. split; [exact Hy|]. destruct (Hk y Hy) as (ky & Ey).
             rewrite (kz_some _ _ Ey). eapply (key_mono K y); eauto.
          -- intros [Hy Hge]. split; [exact Hy|]. destruct (Hk y Hy) as (ky & Ey).
             rewrite (kz_some _ _ Ey) in Hge. specialize (key_le _ _ Ey). lia.
        * intros x0 t0 kx0 E Ex0 Hlt0. inversion E; subst x0 t0.
          (* the head is below K, so it is dropped *)
          assert (Hx : x < K).
          { destruct (Z.lt_ge_cases x K) as [|Hge]; [assumption|].
            assert (K <= kx) by (eapply (key_mono K x); eauto). lia. }
          cbn [drop_below]. destruct (Z.ltb_spec x K); [|lia].
          inversion Hs as [|? ? Hs' _]; subst.
          destruct (drop_below_spec K t Hs') as (_ & _ & L). cbn [length]. lia.
      + split; [split; assumption|]. split; [|split; [lia|]].
        * intro y. split; [|tauto]. intro Hy. split; [exact Hy|].
          destruct (Hk y Hy) as (ky & Ey). rewrite (kz_some _ _ Ey).
          assert (kx <= ky) by (eapply child_keys_ge; eauto; split; auto). lia.
        * intros x0 t0 kx0 E Ex0 Hlt0. inversion E; subst. rewrite Ex in Ex0. inversion Ex0. lia.
  Qed.

  (* buffering at an aligned key *)
  Lemma take_key_spec K l : StronglySorted Z.lt l -> (forall x, In x l -> exists k, key x = Some k) ->
    forall a b, take_key key K l = (a, b) ->
    l = a ++ b /\ (forall x, In x a -> key x = Some K) /\
    (forall y, In y b -> forall x kx, key x = Some kx -> kx <= K -> x <= y -> kz y <> K -> True) /\
    match b with [] => True | y :: _ => key y <> Some K end.
  Proof.
    induction l as [|x l IH]; intros Hs Hk a b E; cbn in E.
    - inversion E; subst. repeat split; auto. intros ? [].
    - destruct (Hk x (or_introl eq_refl)) as (kx & Ex). rewrite Ex in E.
      revert E. destruct (Z.eqb_spec kx K) as [EkK|Hne]; intro E.
      + subst kx. destruct (take_key key K l) as [a' b'] eqn:E'. inversion E; subst a b.
        inversion Hs as [|? ? Hs' _]; subst.
        destruct (IH Hs' (fun y Hy => Hk y (or_intror Hy)) a' b' eq_refl) as (I1 & I2 & _ & I4).
        split; [cbn; now rewrite <- I1|]. split; [intros y [<-|Hy]; auto|]. split; [auto|exact I4].
      + inversion E; subst a b. split; [reflexivity|]. split; [intros ? []|]. split; [auto|].
        rewrite Ex. congruence.
  Qed.

  Lemma buffer_child_spec K x t : child_ok (x :: t) -> key x = Some K ->
    forall a b, buffer_child key K (x :: t) = (a, b) ->
    x :: t = a ++ b /\ In x a /\ (forall y, In y a -> key y = Some K) /\
    child_ok b /\ (forall y, In y b -> K < kz y) /\ (length b < length (x :: t))%nat.
  Proof.
    intros Hc Hx a b E. destruct Hc as [Hs Hk]. cbn in E.
    destruct (take_key key K t) as [a' b'] eqn:E'. inversion E; subst a b.
    inversion Hs as [|? ? Hs' Hall]; subst.
    destruct (take_key_spec K t Hs' (fun y Hy => Hk y (or_intror Hy)) a' b' E') as (I1 & I2 & _ & I4).
    assert (Hsb : StronglySorted Z.lt b').
    { rewrite I1 in Hs'. clear - Hs'. induction a' as [|z a' IH]; cbn in *; [exact Hs'|].
      inversion Hs'; auto. }
    split; [cbn; now rewrite <- I1|]. split; [left; auto|].
    split; [intros y [<-|Hy]; auto|].
    assert (Hinb : forall y, In y b' -> In y t) by (intros y Hy; rewrite I1; apply in_or_app; auto).
    split; [split; [exact Hsb|intros y Hy; apply Hk; right; auto]|].
    split.
    - (* everything in b has a key above K *)
      intros y Hy. destruct b' as [|y0 b0]; [destruct Hy|].
      destruct (Hk y0 (or_intror (Hinb y0 (or_introl eq_refl)))) as (k0 & E0).
      assert (K <= k0).
      { eapply (child_keys_ge x t K); eauto; [split; auto|]. right. apply Hinb. left; auto. }
      assert (K < k0) by (assert (k0 <> K) by (intro; subst; apply I4; exact E0); lia).
      destruct (Hk y (or_intror (Hinb y Hy))) as (ky & Ey). rewrite (kz_some _ _ Ey).
      destruct Hy as [<-|Hy]; [congruence|].
      inversion Hsb as [|? ? _ Hall0]; subst. rewrite Forall_forall in Hall0. specialize (Hall0 _ Hy).
      assert (k0 <= ky) by (eapply (key_mono y0 y); eauto; lia). lia.
    - rewrite I1. cbn. rewrite app_length. lia.
  Qed.

  Lemma in_concat_map {A B} (f : A -> list B) l y : In y (concat (map f l)) <-> exists c, In c l /\ In y (f c).
  Proof. rewrite <- flat_map_concat_map. apply in_flat_map. Qed.

  Lemma in_concat' {A} (l : list (list A)) y : In y (concat l) <-> exists c, In c l /\ In y c.
  Proof. rewrite in_concat. split; intros (c & H1 & H2); eauto. Qed.

  Lemma length_concat_le {A} (f : list A -> list A) cs :
    (forall c, In c cs -> (length (f c) <= length c)%nat) ->
    (length (concat (map f cs)) <= length (concat cs))%nat.
  Proof.
    intro H. induction cs as [|c cs IH]; cbn [map concat]; [lia|]. rewrite !app_length.
    assert (H1 := H c (or_introl eq_refl)).
    assert (length (concat (map f cs)) <= length (concat cs))%nat; [|lia].
    apply IH. intros; apply H; right; auto.
  Qed.

  Lemma length_concat_lt {A} (f : list A -> list A) cs c0 :
    (forall c, In c cs -> (length (f c) <= length c)%nat) -> In c0 cs -> (length (f c0) < length c0)%nat ->
    (length (concat (map f cs)) < length (concat cs))%nat.
  Proof.
    intros H. induction cs as [|c cs IH]; cbn [map concat]; intros Hin Hlt; [destruct Hin|].
    rewrite !app_length. assert (Hc := H c (or_introl eq_refl)).
    assert (Hrest : (length (concat (map f cs)) <= length (concat cs))%nat).
    { apply length_concat_le. intros; apply H; right; auto. }
    destruct Hin as [->|Hin]; [lia|].
    assert (length (concat (map f cs)) < length (concat cs))%nat; [|lia].
    apply IH; auto. intros; apply H; right; auto.
  Qed.

  Theorem join_loop_correct : forall fuel cs,
    Forall child_ok cs -> cs <> [] -> (length (concat cs) < fuel)%nat ->
    exists out, join_loop fuel key cs = Some out /\ StronglySorted Z.lt out /\
                (forall x, In x out <-> in_join cs x).
  Proof.
    induction fuel as [|fuel IH]; intros cs Hok Hne Hfuel; [lia|].
    rewrite Forall_forall in Hok. cbn [join_loop].
    destruct (heads cs) as [hs|] eqn:Hh.
    2:{ (* a child is exhausted *)
      apply heads_none in Hh. exists []. split; [reflexivity|]. split; [constructor|].
      intro x. split; [intros []|]. intros [_ Hw]. destruct (Hw [] Hh) as (y & [] & _). }
    destruct (heads_some _ _ Hh) as [-> Hnonil].
    assert (Hheads : forall h, In h (map (hd 0) cs) -> exists k, key h = Some k).
    { intros h Hin. apply in_map_iff in Hin as (c & <- & Hc). destruct c as [|x t]; [contradiction|].
      apply (proj2 (Hok _ Hc)). left; auto. }
    rewrite (sequence_keys _ Hheads).
    set (K := zmax_list (map kz (map (hd 0) cs))).
    assert (Hks : map kz (map (hd 0) cs) <> []) by (destruct cs; [contradiction|discriminate]).
    destruct (zmax_list_spec _ Hks) as [HKin HKmax]. fold K in HKin, HKmax.
    (* K is the key of some head: a child c* all of whose keys are >= K, and key K = K *)
    apply in_map_iff in HKin as (hstar & EK & Hstar). apply in_map_iff in Hstar as (cstar & Ehs & Hcstar).
    destruct cstar as [|xs ts]; [contradiction|]. cbn in Ehs. subst hstar.
    destruct (proj2 (Hok _ Hcstar) xs (or_introl eq_refl)) as (ks & Eks).
    rewrite (kz_some _ _ Eks) in EK. subst ks.
    assert (HKK : key K = Some K) by (eapply key_self; eauto).
    assert (Hstar_ge : forall y, In y (xs :: ts) -> K <= kz y).
    { intros y Hy. destruct (proj2 (Hok _ Hcstar) y Hy) as (ky & Ey). rewrite (kz_some _ _ Ey).
      eapply child_keys_ge; eauto. }
    clearbody K.
    (* the advanced children *)
    assert (Hcs1 : map (fun c => match c with
                       | [] => []
                       | x :: _ => match key x with
                                   | Some kx => if kx <? K then drop_below K c else c
                                   | None => c end end) cs = map (adv K) cs) by reflexivity.
    rewrite Hcs1. set (cs1 := map (adv K) cs).
    assert (Hok1 : forall c, In c cs1 -> child_ok c).
    { intros c Hc. apply in_map_iff in Hc as (c0 & <- & Hc0). apply adv_spec; auto. }
    assert (Hjoin1 : forall x, in_join cs x <-> in_join cs1 x).
    { intro x. unfold in_join, cs1. rewrite !in_concat'. split.
      - intros [(c & Hc & Hx) Hw].
        assert (HxK : K <= kz x).
        { destruct (Hw _ Hcstar) as (y & Hy & Ey). specialize (Hstar_ge y Hy).
          unfold kz in *. now rewrite <- Ey. }
        split.
        + exists (adv K c). split; [apply in_map, Hc|]. apply adv_spec; auto.
        + intros c' Hc'. apply in_map_iff in Hc' as (c0 & <- & Hc0).
          destruct (Hw _ Hc0) as (y & Hy & Ey). exists y. split; [|exact Ey].
          apply adv_spec; auto. split; [exact Hy|]. unfold kz in *. now rewrite Ey.
      - intros [(c & Hc & Hx) Hw]. apply in_map_iff in Hc as (c0 & <- & Hc0).
        apply adv_spec in Hx as [Hx _]; auto. split; [eauto|].
        intros c' Hc'. destruct (Hw (adv K c') (in_map _ _ _ Hc')) as (y & Hy & Ey).
        apply adv_spec in Hy as [Hy _]; auto. eauto. }
    assert (Hlen1 : (length (concat cs1) <= length (concat cs))%nat).
    { unfold cs1. apply length_concat_le. intros c Hc. apply adv_spec; auto. }
    destruct (heads cs1) as [hs1|] eqn:Hh1.
    2:{ apply heads_none in Hh1. exists []. split; [reflexivity|]. split; [constructor|].
        intro x. rewrite Hjoin1. split; [intros []|]. intros [_ Hw]. destruct (Hw [] Hh1) as (y & [] & _). }
    destruct (heads_some _ _ Hh1) as [-> Hnonil1].
    assert (Hheads1 : forall h, In h (map (hd 0) cs1) -> exists k, key h = Some k).
    { intros h Hin. apply in_map_iff in Hin as (c & <- & Hc). destruct c as [|x t]; [contradiction|].
      apply (proj2 (Hok1 _ Hc)). left; auto. }
    rewrite (sequence_keys _ Hheads1).
    assert (Hne1 : cs1 <> []) by (unfold cs1; destruct cs; [contradiction|discriminate]).
    destruct (forallb (fun k1 => k1 =? K) (map kz (map (hd 0) cs1))) eqn:Hal.
    - (* aligned: buffer and emit *)
      rewrite forallb_forall in Hal.
      assert (Hhead1 : forall c, In c cs1 -> exists x t, c = x :: t /\ key x = Some K).
      { intros c Hc. destruct c as [|x t]; [contradiction|]. exists x, t. split; [reflexivity|].
        destruct (proj2 (Hok1 _ Hc) x (or_introl eq_refl)) as (k & Ek).
        assert (kz x =? K = true).
        { apply Hal. apply in_map. change x with (hd 0 (x :: t)). apply in_map, Hc. }
        rewrite (kz_some _ _ Ek) in H. apply Z.eqb_eq in H. congruence. }
      set (bufs := map (buffer_child key K) cs1).
      assert (Hbuf : forall c, In c cs1 ->
                c = fst (buffer_child key K c) ++ snd (buffer_child key K c) /\
                (exists x, In x (fst (buffer_child key K c))) /\
                (forall y, In y (fst (buffer_child key K c)) -> key y = Some K) /\
                child_ok (snd (buffer_child key K c)) /\
                (forall y, In y (snd (buffer_child key K c)) -> K < kz y) /\
                (length (snd (buffer_child key K c)) < length c)%nat).
      { intros c Hc. destruct (Hhead1 c Hc) as (x & t & -> & Ex).
        destruct (buffer_child key K (x :: t)) as [a b] eqn:Eb.
        destruct (buffer_child_spec K x t (Hok1 _ Hc) Ex a b Eb) as (B1 & B2 & B3 & B4 & B5 & B6).
        cbn [fst snd]. repeat split; eauto; apply B4. }
      assert (Hlen2 : (length (concat (map snd bufs)) < fuel)%nat).
      { unfold bufs. rewrite map_map.
        assert (length (concat (map (fun c => snd (buffer_child key K c)) cs1)) < length (concat cs1))%nat; [|lia].
        destruct cs1 as [|c0 cs1'] eqn:Ecs1; [contradiction|].
        apply (length_concat_lt (fun c => snd (buffer_child key K c)) (c0 :: cs1') c0).
        - intros c Hc. destruct (Hbuf c Hc) as (_ & _ & _ & _ & _ & L). lia.
        - left; auto.
        - destruct (Hbuf c0 (or_introl eq_refl)) as (_ & _ & _ & _ & _ & L). exact L. }
      destruct (IH (map snd bufs)) as (out & Eout & Sout & Mout).
      { apply Forall_forall. intros b Hb. unfold bufs in Hb. rewrite map_map in Hb.
        apply in_map_iff in Hb as (c & <- & Hc). apply Hbuf, Hc. }
      { unfold bufs. destruct cs1; [contradiction|discriminate]. }
      { exact Hlen2. }
      rewrite Eout. eexists. split; [reflexivity|].
      assert (Hbatch : forall x, In x (flat_map fst bufs) <-> exists c, In c cs1 /\ In x (fst (buffer_child key K c))).
      { intro x. rewrite in_flat_map. unfold bufs. split.
        - intros (p & Hp & Hx). apply in_map_iff in Hp as (c & <- & Hc). eauto.
        - intros (c & Hc & Hx). exists (buffer_child key K c). split; [apply in_map, Hc|exact Hx]. }
      assert (Hrestin : forall x, In x (concat (map snd bufs)) <-> exists c, In c cs1 /\ In x (snd (buffer_child key K c))).
      { intro x. unfold bufs. rewrite map_map, in_concat_map. tauto. }
      split.
      + apply sorted_lt_app; [apply sort_uniq_sorted|exact Sout|].
        intros x y Hx Hy. apply sort_uniq_in, Hbatch in Hx as (c & Hc & Hx).
        apply Mout in Hy as [Hy _]. apply Hrestin in Hy as (c' & Hc' & Hy).
        destruct (Hbuf c Hc) as (_ & _ & Bk & _). destruct (Hbuf c' Hc') as (_ & _ & _ & Bok & Bgt & _).
        specialize (Bk _ Hx). specialize (Bgt _ Hy).
        destruct (proj2 Bok y Hy) as (ky & Ey). rewrite (kz_some _ _ Ey) in Bgt.
        destruct (Z.lt_ge_cases x y) as [|Hge]; [assumption|].
        assert (ky <= K) by (eapply (key_mono y x); eauto). lia.
      + intro x. rewrite in_app_iff, sort_uniq_in, Hbatch, Mout, Hjoin1. split.
        * intros [(c & Hc & Hx)|[Hx Hw]].
          -- destruct (Hbuf c Hc) as (Ec & _ & Bk & _). split.
             ++ apply in_concat'. exists c. split; [exact Hc|]. rewrite Ec. apply in_or_app; auto.
             ++ intros c' Hc'. destruct (Hbuf c' Hc') as (Ec' & (y & Hy) & Bk' & _).
                exists y. split; [rewrite Ec'; apply in_or_app; auto|]. rewrite (Bk' _ Hy). symmetry; auto.
          -- apply Hrestin in Hx as (c & Hc & Hx). split.
             ++ apply in_concat'. exists c. split; [exact Hc|]. destruct (Hbuf c Hc) as (Ec & _).
                rewrite Ec. apply in_or_app; auto.
             ++ intros c' Hc'. destruct (Hw (snd (buffer_child key K c'))) as (y & Hy & Ey).
                { unfold bufs. rewrite map_map. apply in_map_iff. eauto. }
                exists y. split; [|exact Ey]. destruct (Hbuf c' Hc') as (Ec' & _).
                rewrite Ec'. apply in_or_app; auto.
        * intros [Hx Hw]. apply in_concat' in Hx as (c & Hc & Hx).
          destruct (Hbuf c Hc) as (Ec & _ & Bk & Bok & Bgt & _).
          rewrite Ec in Hx. apply in_app_or in Hx as [Hx|Hx]; [left; eauto|right].
          split; [apply Hrestin; eauto|].
          intros b Hb. unfold bufs in Hb. rewrite map_map in Hb. apply in_map_iff in Hb as (c' & <- & Hc').
          destruct (Hw c' Hc') as (y & Hy & Ey). exists y. split; [|exact Ey].
          destruct (Hbuf c' Hc') as (Ec' & _ & Bk' & _). rewrite Ec' in Hy.
          apply in_app_or in Hy as [Hy|Hy]; [|exact Hy].
          (* y has key K, but x's key is above K *)
          specialize (Bk' _ Hy). specialize (Bgt _ Hx). unfold kz in Bgt. rewrite <- Ey, Bk' in Bgt. lia.
    - (* not aligned: some child was advanced, go round again *)
      assert (Hlt : (length (concat cs1) < length (concat cs))%nat).
      { (* some head key differs from K after the advance; had no child been behind K, all keys
           would equal K *)
        destruct (forallb (fun c => match c with [] => true | x :: _ => K <=? kz x end) cs) eqn:Hall.
        - exfalso. rewrite forallb_forall in Hall.
          assert (Ecs : cs1 = cs).
          { unfold cs1. clear - Hall Hok. induction cs as [|c cs IHc]; [reflexivity|]. cbn [map].
            rewrite IHc; [|intros; apply Hok; right; auto|intros; apply Hall; right; auto]. f_equal.
            specialize (Hall c (or_introl eq_refl)). destruct c as [|x t]; [reflexivity|]. cbn [adv].
            destruct (proj2 (Hok _ (or_introl eq_refl)) x (or_introl eq_refl)) as (kx & Ex).
            rewrite Ex. rewrite (kz_some _ _ Ex) in Hall. destruct (Z.ltb_spec kx K); [|reflexivity].
            apply Z.leb_le in Hall. lia. }
          rewrite Ecs in Hal. apply Bool.not_true_iff_false in Hal. apply Hal.
          apply forallb_forall. intros k Hk. apply Z.eqb_eq. specialize (HKmax k Hk).
          apply in_map_iff in Hk as (h & <- & Hh'). apply in_map_iff in Hh' as (c & <- & Hc).
          specialize (Hall c Hc). destruct c as [|x t]; [contradiction|]. cbn [hd] in *.
          apply Z.leb_le in Hall. lia.
        - assert (Hex : exists c, In c cs /\ match c with [] => false | x :: _ => kz x <? K end = true).
          { clear - Hall. induction cs as [|c cs IHc]; [discriminate|]. cbn in Hall.
            apply andb_false_iff in Hall as [Hc|Hr].
            - exists c. split; [left; auto|]. destruct c; [discriminate|]. apply Z.leb_gt in Hc. now apply Z.ltb_lt.
            - destruct (IHc Hr) as (c' & Hc' & E). exists c'. split; [right; auto|exact E]. }
          destruct Hex as (c0 & Hc0 & E0). destruct c0 as [|x0 t0]; [discriminate|]. apply Z.ltb_lt in E0.
          destruct (proj2 (Hok _ Hc0) x0 (or_introl eq_refl)) as (k0 & Ek0). rewrite (kz_some _ _ Ek0) in E0.
          unfold cs1. apply (length_concat_lt (adv K) cs (x0 :: t0)).
          + intros c Hc. apply adv_spec; auto.
          + exact Hc0.
          + destruct (adv_spec K (x0 :: t0) (Hok _ Hc0) HKK) as (_ & _ & _ & L). eapply L; eauto. }
      destruct (IH cs1) as (out & Eout & Sout & Mout).
      { apply Forall_forall, Hok1. }
      { exact Hne1. }
      { lia. }
      exists out. split; [exact Eout|]. split; [exact Sout|]. intro x. rewrite Mout, Hjoin1. tauto.
  Qed.
End Join.
