(* Nested engine — well-formed forests (what the theorems need of [flatten]) and the collector:
   for any strictly ascending match stream, ProcessNestedDocument + Current() emit exactly the
   distinct roots of the matches, each once, ascending. *)
From Coq Require Import ZArith List Bool Lia Sorted.
From Verif Require Import Common.Bytes Nested.Model Nested.ProofsSpec.
Import ListNotations.
Local Open Scope Z_scope.

(* ancestor at level j (0 = root) of an ancestry chain self, parent, ..., root *)
Definition keyj (j : nat) (anc : list Z) : option Z := ancestor_from_root anc j.

Record forest_wf (F : list fnode) : Prop := {
  wf_sorted : StronglySorted Z.lt (map fn_id F);
  wf_head : forall x, In x F -> exists rest, fn_anc x = fn_id x :: rest;
  (* every ancestor is itself a document of the forest, with the corresponding chain *)
  wf_closed : forall x pre a rest, In x F -> fn_anc x = pre ++ a :: rest ->
                exists y, In y F /\ fn_id y = a /\ fn_anc y = a :: rest;
  (* self > parent > ... > root *)
  wf_desc : forall x, In x F -> StronglySorted Z.gt (fn_anc x);
  (* documents in number order have their level-j ancestors in number order *)
  wf_mono : forall j x y kx ky, In x F -> In y F -> fn_id x <= fn_id y ->
              keyj j (fn_anc x) = Some kx -> keyj j (fn_anc y) = Some ky -> kx <= ky
}.

Lemma sorted_lt_in_unique {A} (g : A -> Z) l x y :
  StronglySorted Z.lt (map g l) -> In x l -> In y l -> g x = g y -> x = y.
Proof.
  induction l as [|z l IH]; cbn; intros Hs Hx Hy E; [destruct Hx|].
  inversion Hs as [|? ? Hs' Hz]; subst. rewrite Forall_forall in Hz.
  destruct Hx as [<-|Hx], Hy as [<-|Hy]; auto.
  - specialize (Hz _ (in_map g _ _ Hy)). lia.
  - specialize (Hz _ (in_map g _ _ Hx)). lia.
Qed.

Lemma find_node_in F x : forest_wf F -> In x F -> find_node F (fn_id x) = Some x.
Proof.
  intros W Hx. unfold find_node.
  destruct (find (fun y => fn_id y =? fn_id x) F) as [y|] eqn:E.
  - apply find_some in E as [Hy Ey]. apply Z.eqb_eq in Ey. f_equal.
    eapply sorted_lt_in_unique; eauto using wf_sorted.
  - eapply find_none in E; [|exact Hx]. rewrite Z.eqb_refl in E. discriminate.
Qed.

Lemma find_node_some F id x : find_node F id = Some x -> In x F /\ fn_id x = id.
Proof. unfold find_node. intro E. apply find_some in E as [H1 H2]. apply Z.eqb_eq in H2. auto. Qed.

Lemma anc_of_in F x : forest_wf F -> In x F -> anc_of F (fn_id x) = fn_anc x.
Proof. intros W Hx. unfold anc_of. now rewrite find_node_in. Qed.

Lemma root_of_anc_keyj anc : root_of_anc anc = keyj 0 anc.
Proof.
  unfold root_of_anc, keyj, ancestor_from_root.
  induction anc as [|a anc IH]; [reflexivity|].
  destruct anc as [|b anc']; [reflexivity|].
  replace (last (map Some (a :: b :: anc')) None) with (last (map Some (b :: anc')) None) by reflexivity.
  rewrite IH. change (rev (a :: b :: anc')) with (rev (b :: anc') ++ [a]).
  destruct (rev (b :: anc')) eqn:E; [|reflexivity].
  apply (f_equal (@length Z)) in E. rewrite rev_length in E. discriminate.
Qed.

Lemma keyj_app_lt j pre rest : (j < length rest)%nat -> keyj j (pre ++ rest) = keyj j rest.
Proof.
  intro H. unfold keyj, ancestor_from_root. rewrite rev_app_distr. apply nth_error_app1.
  now rewrite rev_length.
Qed.

Lemma keyj_top a rest : keyj (length rest) (a :: rest) = Some a.
Proof.
  unfold keyj, ancestor_from_root. cbn [rev]. rewrite nth_error_app2 by (rewrite rev_length; lia).
  rewrite rev_length, Nat.sub_diag. reflexivity.
Qed.

Lemma keyj_some_split j anc k : keyj j anc = Some k ->
  exists pre rest, anc = pre ++ k :: rest /\ length rest = j.
Proof.
  unfold keyj, ancestor_from_root. intro H. apply nth_error_split in H as (l1 & l2 & E & L).
  exists (rev l2), (rev l1). split.
  - rewrite <- (rev_involutive anc), E, rev_app_distr. cbn [rev]. now rewrite <- app_assoc.
  - now rewrite rev_length.
Qed.

Lemma keyj_lt_length j anc k : keyj j anc = Some k -> (j < length anc)%nat.
Proof.
  unfold keyj, ancestor_from_root. intro H.
  assert (nth_error (rev anc) j <> None) by congruence.
  apply nth_error_Some in H0. now rewrite rev_length in H0.
Qed.

(* the three facts the join needs of the level-j ancestor function *)
Lemma wf_key_self F j x k : forest_wf F -> In x F -> keyj j (fn_anc x) = Some k ->
  exists y, In y F /\ fn_id y = k /\ keyj j (fn_anc y) = Some k.
Proof.
  intros W Hx Hk. destruct (keyj_some_split _ _ _ Hk) as (pre & rest & E & L).
  destruct (wf_closed F W x pre k rest Hx E) as (y & Hy & Ey & Ay).
  exists y. repeat split; auto. rewrite Ay, <- L. apply keyj_top.
Qed.

Lemma sorted_gt_head_ge a l x : StronglySorted Z.gt (a :: l) -> In x (a :: l) -> x <= a.
Proof.
  intros H [<-|Hx]; [lia|]. inversion H as [|? ? _ Ha]; subst. rewrite Forall_forall in Ha.
  specialize (Ha _ Hx). lia.
Qed.

Lemma wf_key_le F j x k : forest_wf F -> In x F -> keyj j (fn_anc x) = Some k -> k <= fn_id x.
Proof.
  intros W Hx Hk. destruct (wf_head F W x Hx) as (rest & E).
  assert (Hd := wf_desc F W x Hx). rewrite E in Hd.
  apply sorted_gt_head_ge with (x := k) in Hd; [exact Hd|].
  rewrite <- E. destruct (keyj_some_split _ _ _ Hk) as (p & r & E2 & _). rewrite E2.
  apply in_or_app. right. left. reflexivity.
Qed.

Lemma wf_root_some F x : forest_wf F -> In x F -> exists r, root_of_anc (fn_anc x) = Some r.
Proof.
  intros W Hx. destruct (wf_head F W x Hx) as (rest & E). rewrite root_of_anc_keyj.
  unfold keyj, ancestor_from_root. rewrite E.
  destruct (nth_error (rev (fn_id x :: rest)) 0) eqn:N; eauto.
  apply nth_error_None in N. rewrite rev_length in N. cbn in N. lia.
Qed.

(* ---------- the collector ---------- *)

(* what fold_run does, as a function of the roots of the stream *)
Fixpoint run_roots (cur : option Z) (rs : list Z) : list Z :=
  match rs with
  | [] => match cur with Some c => [c] | None => [] end
  | r :: rs' =>
      match cur with
      | Some c => if c =? r then run_roots cur rs' else c :: run_roots (Some r) rs'
      | None => run_roots (Some r) rs'
      end
  end.

Lemma fold_run_roots F stream : forall cur rs,
  Forall2 (fun id r => root_of_anc (anc_of F id) = Some r) stream rs ->
  fold_run F cur stream = run_roots cur rs.
Proof.
  induction stream as [|id stream IH]; intros cur rs H; inversion H as [|? r ? rs' Hr Hrest]; subst; cbn.
  - reflexivity.
  - unfold fold_step. rewrite Hr. destruct cur as [c|].
    + destruct (c =? r); [apply IH, Hrest|]. f_equal. apply IH, Hrest.
    + apply IH, Hrest.
Qed.

Lemma run_roots_sorted rs : forall c,
  Sorted Z.le (c :: rs) ->
  StronglySorted Z.lt (run_roots (Some c) rs) /\
  (forall x, In x (run_roots (Some c) rs) <-> x = c \/ In x rs) /\
  (forall x, In x (run_roots (Some c) rs) -> c <= x).
Proof.
  induction rs as [|r rs IH]; intros c Hs; cbn.
  - split; [repeat constructor|]. split; intros x; [intuition|intros [<-|[]]; lia].
  - assert (Hs' : Sorted Z.le (r :: rs)) by (inversion Hs; auto).
    assert (Hcr : c <= r) by (inversion Hs as [|? ? _ Hh]; inversion Hh; auto).
    destruct (Z.eqb_spec c r) as [->|Hne].
    + destruct (IH r Hs') as (I1 & I2 & I3). split; [exact I1|]. split; [|exact I3].
      intro x. rewrite I2. intuition.
    + destruct (IH r Hs') as (I1 & I2 & I3). split; [|split].
      * constructor; [exact I1|]. apply Forall_forall. intros x Hx. specialize (I3 _ Hx). lia.
      * intro x. cbn [In]. rewrite I2. intuition.
      * intros x [<-|Hx]; [lia|]. specialize (I3 _ Hx). lia.
Qed.

Lemma run_roots_none rs :
  Sorted Z.le rs ->
  StronglySorted Z.lt (run_roots None rs) /\ (forall x, In x (run_roots None rs) <-> In x rs).
Proof.
  destruct rs as [|r rs]; cbn; intro Hs.
  - split; [constructor|intuition].
  - destruct (run_roots_sorted rs r Hs) as (I1 & I2 & _). split; [exact I1|].
    intro x. rewrite I2. intuition.
Qed.

Definition root_in (F : list fnode) (id : Z) : option Z := root_of_anc (anc_of F id).

(* for ANY strictly ascending stream of document numbers of a well-formed forest, the folded
   output is exactly the distinct roots of the matches, each once, ascending *)
Theorem store_roots_once F stream :
  forest_wf F ->
  StronglySorted Z.lt stream ->
  (forall id, In id stream -> exists x, In x F /\ fn_id x = id) ->
  StronglySorted Z.lt (fold_roots F stream) /\
  NoDup (fold_roots F stream) /\
  (forall r, In r (fold_roots F stream) <-> exists m, In m stream /\ root_in F m = Some r).
Proof.
  intros W Hs Hin.
  assert (Hrs : exists rs, Forall2 (fun id r => root_in F id = Some r) stream rs).
  { clear Hs. induction stream as [|id st IH]; [exists []; constructor|].
    destruct IH as (rs & Hrs); [intros; apply Hin; right; auto|].
    destruct (Hin id (or_introl eq_refl)) as (x & Hx & E).
    destruct (wf_root_some F x W Hx) as (r & Hr).
    exists (r :: rs). constructor; [|exact Hrs]. unfold root_in. rewrite <- E, anc_of_in; auto. }
  destruct Hrs as (rs & Hrs).
  assert (Hsorted : Sorted Z.le rs).
  { clear - W Hs Hin Hrs. revert rs Hrs. induction stream as [|id st IH]; intros rs Hrs;
      inversion Hrs as [|? r ? rs' Hr Hrest]; subst; [constructor|].
    inversion Hs as [|? ? Hs' Hlt]; subst.
    constructor; [apply IH; auto; intros; apply Hin; right; auto|].
    destruct rs' as [|r2 rs2]; [constructor|]. constructor.
    inversion Hrest as [|id2 ? st2 ? Hr2 _]; subst.
    destruct (Hin id (or_introl eq_refl)) as (x & Hx & Ex).
    destruct (Hin id2 (or_intror (or_introl eq_refl))) as (y & Hy & Ey).
    unfold root_in in Hr, Hr2. rewrite <- Ex, anc_of_in, root_of_anc_keyj in Hr by auto.
    rewrite <- Ey, anc_of_in, root_of_anc_keyj in Hr2 by auto.
    eapply (wf_mono F W 0 x y); eauto. rewrite Forall_forall in Hlt.
    specialize (Hlt id2 (or_introl eq_refl)). lia. }
  unfold fold_roots. rewrite (fold_run_roots F stream None rs Hrs).
  destruct (run_roots_none rs Hsorted) as (I1 & I2).
  split; [exact I1|]. split; [apply sorted_lt_nodup, I1|].
  intro r. rewrite I2. clear - Hrs. split.
  - intro Hr. induction Hrs as [|id r' st rs' H Hrest IH]; [destruct Hr|].
    destruct Hr as [<-|Hr]; [exists id; split; [left; auto|exact H]|].
    destruct (IH Hr) as (m & Hm & E). exists m. split; [right; auto|exact E].
  - intros (m & Hm & E). induction Hrs as [|id r' st rs' H Hrest IH]; [destruct Hm|].
    destruct Hm as [<-|Hm]; [left; congruence|right; auto].
Qed.
