(* Nested engine — executable model and spec (definitions only; proofs live in Nested/Proofs*.v).

   SPEC (written from the statement of property C20, on document TREES):
     [sem_nested]   arrays of objects mapped `nested`
     [sem_flat]     the same documents mapped without nesting

   MECHANISM, transcribed from /repo:
     mapping/document.go        walkDocument (Slice case: one sub-document per object element of
                                a `nested` array, attached to the enclosing document)
     index/scorch/scorch.go     analyze -> VisitNestedDocuments (sub-documents follow their parent)
     zapx nested_cache.go       ancestry (self, parent, ..., root), countRootDeleted, and
     index/scorch/snapshot_segment.go  Ancestors / CountRoot; introducer.go AddNestedDocuments
                                -> [flatten], [anc_of], [count_root], [add_nested]
     mapping/index.go, registry/nested.go   NestedDepth (common / max depth of a field set)
                                -> [common_depth], [max_depth]
     search/query/conjunction.go   ConjunctionQuery.Searcher (plain conjunction iff common = max,
                                otherwise NestedConjunctionSearcher joined at the common depth)
     search/searcher/search_conjunction_nested.go   initialize + Next (alignment loop on the
                                ancestor at joinIdx, CoalesceQueue)  -> [join_init], [join_loop]
     search/query/disjunction.go, boolean.go, searcher/search_boolean.go   NOT nesting aware:
                                plain searchers over raw document numbers -> [raw_disj], [raw_bool]
     search/collector/nested.go ProcessNestedDocument + Current(), topn.go Collect
                                -> [fold_step], [fold_roots]
     index_impl.go              buildTopNCollector (nested collector only when the query's fields
                                intersect a nested prefix or contain _id) -> [uses_nested_collector]

   Conventions: names and terms are byte strings (list Z); document numbers are Z; children of a
   compound searcher are strictly ascending lists of document numbers (the Searcher contract,
   property C08): Next = tail, Advance(t) = drop everything below t.  Fuel exhaustion = None. *)
From Coq Require Import ZArith List Bool.
From Verif Require Import Common.Bytes.
Import ListNotations.
Local Open Scope Z_scope.

(* ------------------------------------------------------------------------------------------ *)
(** * Documents as trees, queries *)

Inductive node :=
| Node (fields : list (bytes * list bytes)) (arrays : list (bytes * list node)).

Definition nfields (n : node) := match n with Node fs _ => fs end.
Definition narrays (n : node) := match n with Node _ arrs => arrs end.

Record doc := mkDoc { did : Z; dtree : node }.

(* A term leaf addresses field [f] inside the chain of arrays [arrs] ([] = top-level field):
   bleve's field name is the dotted path arrs.f *)
Inductive query :=
| QTerm (arrs : list bytes) (f : bytes) (t : bytes)
| QConj (qs : list query)
| QDisj (min : Z) (qs : list query)
| QBool (must should mustnot : list query) (minShould : Z)
| QMatchAll.

Definition is_nil {A} (l : list A) : bool := match l with [] => true | _ => false end.

Fixpoint countb {A} (f : A -> bool) (l : list A) : Z :=
  match l with
  | [] => 0
  | x :: l' => (if f x then 1 else 0) + countb f l'
  end.

Definition elements (n : node) (a : bytes) : list node :=
  flat_map (fun p => if beqb (fst p) a then snd p else []) (narrays n).

Definition has_term (n : node) (f t : bytes) : bool :=
  existsb (fun p => beqb (fst p) f && existsb (beqb t) (snd p)) (nfields n).

(* some chain of elements along [names] ends in a node satisfying [pred] *)
Fixpoint descend (n : node) (names : list bytes) (pred : node -> bool) : bool :=
  match names with
  | [] => pred n
  | a :: rest => existsb (fun e => descend e rest pred) (elements n a)
  end.

Definition holds_path (n : node) (arrs : list bytes) (f t : bytes) : bool :=
  descend n arrs (fun e => has_term e f t).

Definition names_eqb := list_eqb beqb.

(* the array paths addressed by the leaves of a query; match-all addresses the document itself *)
Fixpoint leaf_paths (q : query) : list (list bytes) :=
  match q with
  | QTerm arrs _ _ => [arrs]
  | QConj qs => flat_map leaf_paths qs
  | QDisj _ qs => flat_map leaf_paths qs
  | QBool m s n _ => flat_map leaf_paths m ++ flat_map leaf_paths s ++ flat_map leaf_paths n
  | QMatchAll => [[]]
  end.

Fixpoint has_matchall (q : query) : bool :=
  match q with
  | QMatchAll => true
  | QTerm _ _ _ => false
  | QConj qs => existsb has_matchall qs
  | QDisj _ qs => existsb has_matchall qs
  | QBool m s n _ => existsb has_matchall m || existsb has_matchall s || existsb has_matchall n
  end.

Fixpoint lcp2 (a b : list bytes) : list bytes :=
  match a, b with
  | x :: a', y :: b' => if beqb x y then x :: lcp2 a' b' else []
  | _, _ => []
  end.

(* longest common prefix of all paths ([] for no path at all) *)
Definition lcp_all (ps : list (list bytes)) : list bytes :=
  match ps with
  | [] => []
  | p :: rest => fold_left lcp2 rest p
  end.

(* boolean clause combination on already evaluated clauses (must / should / must-not lists):
   every must, no must-not, at least [min] shoulds; without must clauses at least one should;
   a query with no clause at all matches nothing *)
Definition bool_sem (m s n : list bool) (min : Z) : bool :=
  let c := countb (fun b => b) s in
  negb (is_nil m && is_nil s && is_nil n)
  && forallb (fun b => b) m && negb (existsb (fun b => b) n) && (min <=? c)
  && (if is_nil m && negb (is_nil s) then 1 <=? c else true).

Definition disj_sem (min : Z) (s : list bool) : bool :=
  let c := countb (fun b => b) s in (1 <=? c) && (min <=? c).

(* ------------------------------------------------------------------------------------------ *)
(** * SPEC — nested mapping

   [sat q n k]: query [q] holds at node [n], which sits [k] arrays below the root on the chain
   the enclosing conjunctions selected.  A conjunction all of whose leaves address the same array
   (path prefix P beyond the current scope) holds iff ONE element (chain) along P satisfies every
   conjunct — recursively, so two levels need one element of the outer and one of the inner
   array; leaves/clauses that do not share an array are combined at the current node, i.e. per
   parent document at the top.  A lone leaf holds iff some element has the term. *)
Fixpoint sat (q : query) (n : node) (k : nat) {struct q} : bool :=
  match q with
  | QTerm arrs f t => holds_path n (skipn k arrs) f t
  | QConj qs =>
      let P := lcp_all (flat_map leaf_paths qs) in
      let k' := Nat.max k (length P) in
      negb (is_nil qs) && descend n (skipn k P) (fun e => forallb (fun x => sat x e k') qs)
  | QDisj min qs => disj_sem min (map (fun x => sat x n k) qs)
  | QBool m s mn min =>
      (* the must clauses of a boolean query form a conjunction (BooleanQuery.Must is a
         ConjunctionQuery), the should and must-not clauses disjunctions *)
      let P := lcp_all (flat_map leaf_paths m) in
      let k' := Nat.max k (length P) in
      bool_sem (match m with
                | [] => []
                | _ => [descend n (skipn k P) (fun e => forallb (fun x => sat x e k') m)]
                end)
               (map (fun x => sat x n k) s) (map (fun x => sat x n k) mn) min
  | QMatchAll => true
  end.

Definition sem_nested (docs : list doc) (q : query) : list Z :=
  map did (filter (fun d => sat q (dtree d) 0) docs).

(** * SPEC — the same documents mapped without nesting: every leaf is met by some element *)
Fixpoint satf (q : query) (n : node) {struct q} : bool :=
  match q with
  | QTerm arrs f t => holds_path n arrs f t
  | QConj qs => negb (is_nil qs) && forallb (fun x => satf x n) qs
  | QDisj min qs => disj_sem min (map (fun x => satf x n) qs)
  | QBool m s mn min =>
      bool_sem (map (fun x => satf x n) m) (map (fun x => satf x n) s)
               (map (fun x => satf x n) mn) min
  | QMatchAll => true
  end.

Definition sem_flat (docs : list doc) (q : query) : list Z :=
  map did (filter (fun d => satf q (dtree d)) docs).

(* ------------------------------------------------------------------------------------------ *)
(** * MECHANISM — the forest of document numbers *)

Record fnode := mkF {
  fn_id : Z;                          (* document number *)
  fn_anc : list Z;                    (* Ancestors(): self, parent, ..., root *)
  fn_path : list bytes;               (* arrays from the root to this sub-document *)
  fn_fields : list (bytes * list bytes)
}.

Definition zlen {A} (l : list A) : Z := Z.of_nat (length l).

(* lay out consecutive items one after the other, each starting where the previous ended *)
Definition flat_seq {A} (f : Z -> A -> list fnode) : Z -> list A -> list fnode :=
  fix go (s : Z) (l : list A) {struct l} : list fnode :=
    match l with
    | [] => []
    | x :: l' => let r := f s x in r ++ go (s + zlen r) l'
    end.

(* a document first, then — array by array, element by element — its sub-documents, each
   followed by its own sub-documents (walkDocument / VisitNestedDocuments order) *)
Fixpoint flat_node (s : Z) (above : list Z) (path : list bytes) (n : node) {struct n} : list fnode :=
  match n with
  | Node fs arrs =>
      mkF s (s :: above) path fs ::
      flat_seq (fun s1 (p : bytes * list node) =>
                  flat_seq (fun s2 e => flat_node s2 (s :: above) (path ++ [fst p]) e) s1 (snd p))
               (s + 1) arrs
  end.

Definition flatten_from (s : Z) (docs : list doc) : list fnode :=
  flat_seq (fun s1 d => flat_node s1 [] [] (dtree d)) s docs.

Definition flatten (docs : list doc) : list fnode := flatten_from 0 docs.

Definition find_node (forest : list fnode) (id : Z) : option fnode :=
  find (fun x => fn_id x =? id) forest.

(* NestedReader.Ancestors *)
Definition anc_of (forest : list fnode) (id : Z) : list Z :=
  match find_node forest id with Some x => fn_anc x | None => [] end.

Definition is_root (x : fnode) : bool := (length (fn_anc x) =? 1)%nat.

Definition root_of_anc (anc : list Z) : option Z := last (map Some anc) None.

(* the roots in document-number order, paired with the external ids of [docs] *)
Definition root_table (forest : list fnode) (docs : list doc) : list (Z * Z) :=
  combine (map fn_id (filter is_root forest)) (map did docs).

(* zapx CountRoot(deleted) = countRoot() - countRootDeleted(deleted): documents without a parent
   edge, minus the deleted ones among them *)
Definition count_root (forest : list fnode) (deleted : list Z) : Z :=
  zlen (filter is_root forest)
  - zlen (filter (fun x => is_root x && existsb (Z.eqb (fn_id x)) deleted) forest).

(* zapx AddNestedDocuments: the dropped roots plus all their descendants *)
Definition add_nested (forest : list fnode) (drops : list Z) : list Z :=
  map fn_id (filter (fun x => match root_of_anc (fn_anc x) with
                              | Some r => existsb (Z.eqb r) drops
                              | None => false end) forest).

(* ------------------------------------------------------------------------------------------ *)
(** * MECHANISM — nesting depth of a field set (NestedDepth), every array being mapped nested *)

Definition max_depth (ps : list (list bytes)) : nat :=
  fold_left (fun m p => Nat.max m (length p)) ps 0%nat.

Definition common_depth (ps : list (list bytes)) : nat := length (lcp_all ps).

(* ------------------------------------------------------------------------------------------ *)
(** * MECHANISM — NestedConjunctionSearcher (search_conjunction_nested.go) *)

(* ancestorFromRoot(ancestors, pos) = ancestors[len - pos - 1] *)
Definition ancestor_from_root (anc : list Z) (pos : nat) : option Z := nth_error (rev anc) pos.

Definition key_at (forest : list fnode) (j : nat) (id : Z) : option Z :=
  ancestor_from_root (anc_of forest id) j.

Fixpoint drop_below (t : Z) (l : list Z) : list Z :=
  match l with
  | [] => []
  | x :: l' => if x <? t then drop_below t l' else l
  end.

(* heads of all children; None as soon as one child is exhausted (currs[i] == nil) *)
Fixpoint heads (cs : list (list Z)) : option (list Z) :=
  match cs with
  | [] => Some []
  | [] :: _ => None
  | (x :: _) :: cs' => match heads cs' with Some hs => Some (x :: hs) | None => None end
  end.

Fixpoint sequence_opt {A} (l : list (option A)) : option (list A) :=
  match l with
  | [] => Some []
  | None :: _ => None
  | Some x :: l' => match sequence_opt l' with Some r => Some (x :: r) | None => None end
  end.

(* initialize(): first match of every child; joinIdx is lowered to the shortest ancestry chain
   seen ("if s.joinIdx >= len(s.currAncestors[i]) { s.joinIdx = len(...) - 1 }") *)
Definition join_init (forest : list fnode) (j : nat) (cs : list (list Z)) : option nat :=
  match heads cs with
  | None => None
  | Some hs =>
      Some (fold_left (fun jj h => let n := length (anc_of forest h) in
                                   if (n <=? jj)%nat then Nat.pred n else jj) hs j)
  end.

(* the buffering loop of one child at an aligned key: the current match is enqueued, then
   every following match until the key changes or the child is exhausted *)
Fixpoint take_key (key : Z -> option Z) (k : Z) (l : list Z) : list Z * list Z :=
  match l with
  | [] => ([], [])
  | x :: l' =>
      match key x with
      | Some kx => if kx =? k then let (a, b) := take_key key k l' in (x :: a, b) else ([], l)
      | None => ([], l)
      end
  end.

Definition buffer_child (key : Z -> option Z) (k : Z) (l : list Z) : list Z * list Z :=
  match l with
  | [] => ([], [])
  | x :: l' => let (a, b) := take_key key k l' in (x :: a, b)
  end.

(* CoalesceQueue: Finalize sorts by document number, Dequeue merges equal numbers *)
Fixpoint insert_uniq (x : Z) (l : list Z) : list Z :=
  match l with
  | [] => [x]
  | y :: l' => if x <? y then x :: l else if x =? y then l else y :: insert_uniq x l'
  end.
Definition sort_uniq (l : list Z) : list Z := fold_right insert_uniq [] l.

Definition zmax_list (l : list Z) : Z :=
  match l with [] => 0 | x :: l' => fold_left Z.max l' x end.

(* Next() until exhaustion: every round of the OUTER loop either stops (a child is exhausted),
   advances the children that are behind the largest key, or — all keys equal — buffers and
   emits the matches under that key.  Output = everything Next returns, in order. *)
Fixpoint join_loop (fuel : nat) (key : Z -> option Z) (cs : list (list Z)) : option (list Z) :=
  match fuel with
  | O => None
  | S fuel' =>
      match heads cs with
      | None => Some []
      | Some hs =>
          match sequence_opt (map key hs) with
          | None => None                       (* ancestry shorter than joinIdx: index panic *)
          | Some ks =>
              let maxKey := zmax_list ks in
              (* children whose key is below maxKey are advanced to maxKey *)
              let cs1 := map (fun c => match c with
                                       | [] => []
                                       | x :: _ => match key x with
                                                   | Some kx => if kx <? maxKey then drop_below maxKey c else c
                                                   | None => c end
                                       end) cs in
              match heads cs1 with
              | None => Some []
              | Some hs1 =>
                  match sequence_opt (map key hs1) with
                  | None => None
                  | Some ks1 =>
                      if forallb (fun k1 => k1 =? maxKey) ks1 then
                        let bufs := map (buffer_child key maxKey) cs1 in
                        match join_loop fuel' key (map snd bufs) with
                        | Some out => Some (sort_uniq (flat_map fst bufs) ++ out)
                        | None => None
                        end
                      else join_loop fuel' key cs1
                  end
              end
          end
      end
  end.

Definition join_fuel (cs : list (list Z)) : nat := S (length (concat cs)).

Definition nested_join (forest : list fnode) (j : nat) (cs : list (list Z)) : option (list Z) :=
  match cs with
  | [] => Some []
  | _ =>
    match join_init forest j cs with
    | None => Some []                           (* a child has no match at all *)
    | Some j' => join_loop (join_fuel cs) (key_at forest j') cs
    end
  end.

(* ------------------------------------------------------------------------------------------ *)
(** * MECHANISM — what Query.Searcher builds today, as sets of RAW document numbers *)

Definition memz (x : Z) (l : list Z) : bool := existsb (Z.eqb x) l.

(* TermSearcher on field arrs.f: the (sub-)documents that carry the field *)
Definition raw_term (forest : list fnode) (arrs : list bytes) (f t : bytes) : list Z :=
  map fn_id (filter (fun x => names_eqb (fn_path x) arrs
                              && existsb (fun p => beqb (fst p) f && existsb (beqb t) (snd p)) (fn_fields x))
                    forest).

(* ConjunctionSearcher: numbers present in every child *)
Definition raw_inter (cs : list (list Z)) : list Z :=
  match cs with
  | [] => []
  | c :: rest => filter (fun x => forallb (memz x) rest) c
  end.

(* DisjunctionSearcher(min): numbers matched by at least max(min,1) children *)
Definition raw_disj (min : Z) (cs : list (list Z)) : list Z :=
  filter (fun x => let c := countb (memz x) cs in (1 <=? c) && (min <=? c))
         (sort_uniq (concat cs)).

(* BooleanSearcher over must (conjunction) / should (disjunction with min) / must-not
   (disjunction): candidates come from must, or from should when there is no must; a candidate is
   dropped when must-not has the same number; with a must clause a should match is required only
   when shouldSearcher.Min() > 0 *)
Definition raw_bool (all : list Z) (must should mustnot : option (list Z)) (min : Z) : list Z :=
  match must, should, mustnot with
  | None, None, None => []                     (* MatchNoneSearcher *)
  | _, _, _ =>
      let cands := match must, should with
                   | Some m, _ => m
                   | None, Some s => s
                   | None, None => all        (* "if only mustNotSearcher, start with MatchAll" *)
                   end in
      filter (fun x =>
                negb (match mustnot with Some n => memz x n | None => false end)
                && match must, should with
                   | Some _, Some s => memz x s || (min <=? 0)
                   | _, _ => true
                   end) cands
  end.

Definition all_ids (forest : list fnode) : list Z := map fn_id forest.

Definition lift2 {A B C} (f : A -> B -> C) (a : option A) (b : option B) : option C :=
  match a, b with Some x, Some y => Some (f x y) | _, _ => None end.

(* the conjunction of ConjunctionQuery.Searcher given its children *)
Definition raw_conj (forest : list fnode) (ps : list (list bytes)) (cs : list (list Z)) : option (list Z) :=
  match cs with
  | [] => Some []                               (* MatchNoneSearcher *)
  | _ =>
      (* a match-all / _id leaf forces commonDepth = 0; its path [] does that by itself *)
      let common := common_depth ps in
      let mx := max_depth ps in
      if (common <? mx)%nat then nested_join forest common cs else Some (raw_inter cs)
  end.

(* an absent / empty clause list gives no searcher *)
Definition clause_of {A} (qs : list A) (r : option (list Z)) : option (option (list Z)) :=
  match qs with
  | [] => Some None
  | _ => match r with Some x => Some (Some x) | None => None end
  end.

Definition bind_opt {A B} (a : option A) (f : A -> option B) : option B :=
  match a with Some x => f x | None => None end.

Fixpoint raw (forest : list fnode) (q : query) {struct q} : option (list Z) :=
  match q with
  | QTerm arrs f t => Some (raw_term forest arrs f t)
  | QMatchAll => Some (all_ids forest)
  | QConj qs =>
      bind_opt (sequence_opt (map (raw forest) qs)) (raw_conj forest (flat_map leaf_paths qs))
  | QDisj min qs =>
      bind_opt (sequence_opt (map (raw forest) qs)) (fun cs => Some (raw_disj min cs))
  | QBool m s mn min =>
      (* BooleanQuery: Must is a ConjunctionQuery, Should a DisjunctionQuery(min), MustNot a
         DisjunctionQuery(0) *)
      match clause_of m (bind_opt (sequence_opt (map (raw forest) m)) (raw_conj forest (flat_map leaf_paths m))),
            clause_of s (bind_opt (sequence_opt (map (raw forest) s)) (fun cs => Some (raw_disj min cs))),
            clause_of mn (bind_opt (sequence_opt (map (raw forest) mn)) (fun cs => Some (raw_disj 0 cs))) with
      | Some must, Some should, Some mustnot =>
          Some (raw_bool (all_ids forest) must should mustnot min)
      | _, _, _ => None
      end
  end.

(* ------------------------------------------------------------------------------------------ *)
(** * MECHANISM — the collector (collector/nested.go, topn.go) *)

(* ProcessNestedDocument: state = number of the interim root (currRoot); returns the new state
   and the completed root handed on for ranking, if any *)
Definition fold_step (forest : list fnode) (cur : option Z) (id : Z) : option Z * option Z :=
  match root_of_anc (anc_of forest id) with
  | None => (cur, None)                         (* len(ancestors) == 0: ignored *)
  | Some r =>
      match cur with
      | Some c => if c =? r then (cur, None) else (Some r, Some c)
      | None => (Some r, None)
      end
  end.

Fixpoint fold_run (forest : list fnode) (cur : option Z) (stream : list Z) : list Z :=
  match stream with
  | [] => match cur with Some c => [c] | None => [] end      (* final Current() *)
  | id :: rest =>
      let (cur', out) := fold_step forest cur id in
      match out with
      | Some c => c :: fold_run forest cur' rest
      | None => fold_run forest cur' rest
      end
  end.

Definition fold_roots (forest : list fnode) (stream : list Z) : list Z := fold_run forest None stream.

(* buildTopNCollector: the nested collector is used iff the query mentions _id (match-all) or a
   field under a nested prefix *)
Definition uses_nested_collector (q : query) : bool :=
  has_matchall q || existsb (fun p => negb (is_nil p)) (leaf_paths q).

(* document numbers handed to the ranking stage *)
Definition model_collect (forest : list fnode) (q : query) : option (list Z) :=
  match raw forest q with
  | None => None
  | Some ids => Some (if uses_nested_collector q then fold_roots forest ids else ids)
  end.

(* external id of a collected number: the id of the parent document when it is a root, -1 for a
   sub-document (its external id is not a document id of the application) *)
Definition ext_id (tbl : list (Z * Z)) (num : Z) : Z :=
  match find (fun p => fst p =? num) tbl with Some p => snd p | None => -1 end.

Definition model_search (docs : list doc) (q : query) : option (list Z) :=
  let forest := flatten docs in
  match model_collect forest q with
  | None => None
  | Some nums => Some (map (ext_id (root_table forest docs)) nums)
  end.

(* ------------------------------------------------------------------------------------------ *)
(** * Query shapes on which the statement is (not) met today *)

Definition all_top (qs : list query) : bool :=
  forallb is_nil (flat_map leaf_paths qs) && negb (existsb has_matchall qs).

(* queries built only from shapes whose raw-number evaluation is per parent: disjunctions with
   min >= 2 and booleans with a must-not / required should only over top-level fields, and no
   boolean made of must-not clauses alone *)
Fixpoint wellscoped (q : query) : bool :=
  match q with
  | QTerm _ _ _ => true
  | QMatchAll => true
  | QConj qs => negb (is_nil qs) && forallb wellscoped qs
  | QDisj min qs => negb (is_nil qs) && forallb wellscoped qs && ((min <=? 1) || all_top qs)
  | QBool m s mn min =>
      forallb wellscoped m && forallb wellscoped s && forallb wellscoped mn
      && negb (is_nil m && is_nil s)
      && (if is_nil mn then
            (if is_nil m then (min <=? 1) || all_top s else (min <=? 0) || all_top (m ++ s))
          else all_top (m ++ s ++ mn))
  end.
