(* Nested engine — from document numbers back to trees: which sub-documents of a flattened
   block carry a term (L1), and when the matches of several leaves share their ancestor at the
   join level (L2: iff ONE element chain satisfies all of them). *)
From Coq Require Import ZArith List Bool Lia Sorted.
From Verif Require Import Common.Bytes Nested.Model Nested.ProofsSpec Nested.ProofsForest
  Nested.ProofsFlatten.
Import ListNotations.
Local Open Scope Z_scope.

Lemma names_eqb_eq a b : names_eqb a b = true <-> a = b.
Proof.
  unfold names_eqb. revert b; induction a as [|x a IH]; intros [|y b]; cbn; split; intro H;
    try reflexivity; try discriminate.
  - apply andb_true_iff in H as [H1 H2]. apply beqb_eq in H1. apply IH in H2. congruence.
  - inversion H; subst. apply andb_true_iff. split; [now apply beqb_eq|now apply IH].
Qed.

(* TermSearcher match of a (sub-)document *)
Definition fmatch (path : list bytes) (f t : bytes) (x : fnode) : bool :=
  names_eqb (fn_path x) path
  && existsb (fun p => beqb (fst p) f && existsb (beqb t) (snd p)) (fn_fields x).

Lemma raw_term_fmatch F arrs f t : raw_term F arrs f t = map fn_id (filter (fmatch arrs f t) F).
Proof. reflexivity. Qed.

(* ---------- membership in laid-out sequences ---------- *)

Lemma flat_seq_in_elim {A} (f : Z -> A -> list fnode) l : forall s x,
  In x (flat_seq f s l) -> exists e s', In e l /\ In x (f s' e).
Proof.
  induction l as [|e l IH]; intros s x H; cbn in H; [destruct H|].
  apply in_app_or in H as [H|H]; [exists e, s; split; [left|]; auto|].
  destruct (IH _ _ H) as (e' & s' & He & Hx). exists e', s'. split; [right|]; auto.
Qed.

Lemma flat_seq_in_intro {A} (f : Z -> A -> list fnode) (Q : fnode -> Prop) l e :
  In e l -> (forall s', exists y, In y (f s' e) /\ Q y) ->
  forall s, exists y, In y (flat_seq f s l) /\ Q y.
Proof.
  induction l as [|e0 l IH]; intros He H s; [destruct He|]. cbn.
  destruct He as [->|He].
  - destruct (H s) as (y & Hy & Qy). exists y. split; [apply in_or_app; left|]; auto.
  - destruct (IH He H (s + zlen (f s e0))) as (y & Hy & Qy). exists y. split; [apply in_or_app; right|]; auto.
Qed.

(* ---------- paths inside a block ---------- *)

Lemma flat_node_path n : forall s ab path x,
  In x (flat_node s ab path n) -> exists suf, fn_path x = path ++ suf.
Proof.
  induction n as [fs arrs IH] using node_ind'. intros s ab path x Hx.
  rewrite flat_node_unfold in Hx. destruct Hx as [<-|Hx]; [exists []; cbn; now rewrite app_nil_r|].
  apply flat_seq_in_elim in Hx as (p & s1 & Hp & Hx). apply flat_seq_in_elim in Hx as (e & s2 & He & Hx).
  rewrite Forall_forall in IH. specialize (IH p Hp). rewrite Forall_forall in IH.
  destruct (IH e He _ _ _ _ Hx) as (suf & E). exists (fst p :: suf). rewrite E, <- app_assoc. reflexivity.
Qed.

Lemma app_neq_self {A} (a : list A) x b : a <> a ++ x :: b.
Proof.
  intro E. apply (f_equal (@length A)) in E. rewrite app_length in E. cbn in E. lia.
Qed.

(* ---------- L1: a term leaf matches a sub-document of the block iff some element chain
   carries the term ---------- *)
Lemma block_term rest : forall n s ab path f t,
  (exists y, In y (flat_node s ab path n) /\ fmatch (path ++ rest) f t y = true) <->
  holds_path n rest f t = true.
Proof.
  induction rest as [|a rest IH]; intros [fs arrs] s ab path f t; rewrite flat_node_unfold.
  - rewrite app_nil_r. unfold holds_path. cbn [descend]. split.
    + intros (y & [<-|Hy] & Hm).
      * unfold fmatch in Hm. apply andb_true_iff in Hm as [_ Hm]. exact Hm.
      * exfalso. apply flat_seq_in_elim in Hy as (p & s1 & Hp & Hy).
        apply flat_seq_in_elim in Hy as (e & s2 & He & Hy).
        apply flat_node_path in Hy as (suf & E). unfold fmatch in Hm.
        apply andb_true_iff in Hm as [Hm _]. apply names_eqb_eq in Hm. rewrite E, <- app_assoc in Hm.
        symmetry in Hm. exact (app_neq_self _ _ _ Hm).
    + intro H. eexists. split; [left; reflexivity|]. unfold fmatch. cbn [fn_path fn_fields].
      rewrite (proj2 (names_eqb_eq path path) eq_refl). exact H.
  - unfold holds_path. cbn [descend]. fold (holds_path). rewrite existsb_exists. split.
    + intros (y & [<-|Hy] & Hm).
      * exfalso. unfold fmatch in Hm. cbn [fn_path] in Hm. apply andb_true_iff in Hm as [Hm _].
        apply names_eqb_eq in Hm. exact (app_neq_self _ _ _ Hm).
      * apply flat_seq_in_elim in Hy as (p & s1 & Hp & Hy).
        apply flat_seq_in_elim in Hy as (e & s2 & He & Hy).
        assert (Hpath := flat_node_path _ _ _ _ _ Hy). destruct Hpath as (suf & E).
        assert (Hm' := Hm). unfold fmatch in Hm'. apply andb_true_iff in Hm' as [Hm' _].
        apply names_eqb_eq in Hm'. rewrite E, <- app_assoc in Hm'. apply app_inv_head in Hm'.
        cbn in Hm'. inversion Hm' as [[Ea Es]].
        exists e. split.
        -- unfold elements. apply in_flat_map. exists p. split; [exact Hp|]. cbn [narrays].
           rewrite Ea, (proj2 (beqb_eq a a) eq_refl). exact He.
        -- change (descend e rest (fun e0 => has_term e0 f t)) with (holds_path e rest f t).
           apply (IH e s2 (s :: ab) (path ++ [fst p]) f t). exists y. split; [exact Hy|].
           rewrite Ea, <- app_assoc. exact Hm.
    + intros (e & He & Hh). unfold elements in He. apply in_flat_map in He as (p & Hp & He).
      cbn [narrays] in Hp. destruct (beqb (fst p) a) eqn:Ea; [|destruct He]. apply beqb_eq in Ea.
      change (descend e rest (fun e0 => has_term e0 f t)) with (holds_path e rest f t) in Hh.
      assert (G : forall s', exists y, In y (flat_node s' (s :: ab) (path ++ [fst p]) e) /\
                                      fmatch (path ++ a :: rest) f t y = true).
      { intro s'. destruct (proj2 (IH e s' (s :: ab) (path ++ [fst p]) f t) Hh) as (y & Hy & Hm).
        exists y. split; [exact Hy|]. rewrite Ea, <- app_assoc in Hm. exact Hm. }
      destruct (flat_seq_in_intro
                  (fun s1 (p0 : bytes * list node) =>
                     flat_seq (fun s2 e0 => flat_node s2 (s :: ab) (path ++ [fst p0]) e0) s1 (snd p0))
                  (fun y => fmatch (path ++ a :: rest) f t y = true) arrs p Hp
                  (fun s1 => flat_seq_in_intro _ _ (snd p) e He G s1) (s + 1)) as (y & Hy & Hm).
      exists y. split; [right; exact Hy|exact Hm].
Qed.

(* ---------- witnesses sharing their level-j ancestor ---------- *)

Definition wit (j : nat) (S : list fnode) (ms : list (fnode -> bool)) : Prop :=
  exists K, forall m, In m ms -> exists y, In y S /\ m y = true /\ keyj j (fn_anc y) = Some K.

Lemma wit_incl j S S' ms : incl S S' -> wit j S ms -> wit j S' ms.
Proof.
  intros Hi (K & H). exists K. intros m Hm. destruct (H m Hm) as (y & Hy & R). exists y. split; auto.
Qed.

Lemma blks_key_range s ab L j y K :
  blks s ab L -> (length ab <= j)%nat -> In y L -> keyj j (fn_anc y) = Some K -> s <= K < s + zlen L.
Proof.
  intros HB Hj Hy HK. destruct (proj2 blocks_ok s ab L HB) as (_ & II & _).
  destruct (II y Hy) as (pre & E & _ & _ & Hr). rewrite E in HK. apply keyj_pre in HK; auto.
  rewrite Forall_forall in Hr. exact (Hr K HK).
Qed.

Lemma wit_flat_seq {A} (f : Z -> A -> list fnode) ab j ms (R : A -> Prop) l :
  ms <> [] -> (length ab <= j)%nat ->
  (forall x, In x l -> forall s, blks s ab (f s x)) ->
  (forall x, In x l -> forall s, wit j (f s x) ms <-> R x) ->
  forall s, wit j (flat_seq f s l) ms <-> exists x, In x l /\ R x.
Proof.
  intros Hms Hj. induction l as [|x l IH]; intros HB HR s.
  - cbn. split.
    + intros (K & H). destruct ms as [|m ms]; [contradiction|].
      destruct (H m (or_introl eq_refl)) as (y & [] & _).
    + intros (x & [] & _).
  - cbn [flat_seq]. set (A1 := f s x). set (s' := s + zlen A1).
    assert (B1 : blks s ab A1) by (apply HB; left; auto).
    assert (B2 : blks s' ab (flat_seq f s' l)) by (apply flat_seq_blks; intros; apply HB; right; auto).
    assert (IHl := IH (fun x0 H0 => HB x0 (or_intror H0)) (fun x0 H0 => HR x0 (or_intror H0)) s').
    split.
    + intros (K & H). destruct (Z.lt_ge_cases K s') as [Hlt|Hge].
      * exists x. split; [left; auto|]. apply (HR x (or_introl eq_refl) s). exists K.
        intros m Hm. destruct (H m Hm) as (y & Hy & Hmy & HK). exists y. split; [|auto].
        apply in_app_or in Hy as [Hy|Hy]; [exact Hy|].
        pose proof (blks_key_range _ _ _ _ _ _ B2 Hj Hy HK). lia.
      * destruct (proj1 IHl) as (x0 & Hx0 & R0).
        { exists K. intros m Hm. destruct (H m Hm) as (y & Hy & Hmy & HK). exists y. split; [|auto].
          apply in_app_or in Hy as [Hy|Hy]; [|exact Hy].
          pose proof (blks_key_range _ _ _ _ _ _ B1 Hj Hy HK). unfold s' in Hge. lia. }
        exists x0. split; [right|]; auto.
    + intros (x0 & [<-|Hx0] & R0).
      * apply (wit_incl j A1); [intros y Hy; apply in_or_app; auto|]. apply (HR x (or_introl eq_refl) s), R0.
      * apply (wit_incl j (flat_seq f s' l)); [intros y Hy; apply in_or_app; auto|]. apply IHl. eauto.
Qed.

(* ---------- L2 ---------- *)

Definition leaf := (list bytes * bytes * bytes)%type.      (* rest of the path, field, term *)
Definition l_rest (l : leaf) := fst (fst l).
Definition l_f (l : leaf) := snd (fst l).
Definition l_t (l : leaf) := snd l.

Definition leaf_ms (prefix : list bytes) (leaves : list leaf) : list (fnode -> bool) :=
  map (fun l => fmatch (prefix ++ l_rest l) (l_f l) (l_t l)) leaves.

Definition leaves_hold (leaves : list leaf) (e : node) : bool :=
  forallb (fun l => holds_path e (l_rest l) (l_f l) (l_t l)) leaves.

Lemma blk_anc s ab L : blk s ab L -> forall x, In x L -> exists pre, fn_anc x = pre ++ s :: ab.
Proof. intro H. exact (proj2 (proj1 blocks_ok s ab L H)). Qed.

Lemma block_join P : forall n s ab path leaves,
  leaves <> [] ->
  (wit (length ab + length P) (flat_node s ab path n) (leaf_ms (path ++ P) leaves) <->
   descend n P (leaves_hold leaves) = true).
Proof.
  induction P as [|a P IH]; intros n s ab path leaves Hne.
  - rewrite app_nil_r, Nat.add_0_r. cbn [descend]. unfold leaves_hold. rewrite forallb_forall. split.
    + intros (K & H) l Hl. apply (block_term (l_rest l) n s ab path).
      destruct (H _ (in_map _ _ _ Hl)) as (y & Hy & Hm & _). eauto.
    + intro H. exists s. intros m Hm. apply in_map_iff in Hm as (l & <- & Hl).
      destruct (proj2 (block_term (l_rest l) n s ab path (l_f l) (l_t l)) (H l Hl)) as (y & Hy & Hm).
      exists y. repeat split; auto.
      destruct (blk_anc _ _ _ (flat_node_blk n s ab path) y Hy) as (pre & E).
      rewrite E, keyj_app_lt by (cbn; lia). apply keyj_top.
  - destruct n as [fs arrs]. rewrite flat_node_unfold.
    set (j := (length ab + length (a :: P))%nat).
    set (ms := leaf_ms (path ++ a :: P) leaves).
    assert (Hms : ms <> []) by (unfold ms, leaf_ms; destruct leaves; [contradiction|discriminate]).
    set (fe := fun (p : bytes * list node) s2 e => flat_node s2 (s :: ab) (path ++ [fst p]) e).
    set (fa := fun s1 (p : bytes * list node) => flat_seq (fe p) s1 (snd p)).
    set (S := flat_seq fa (s + 1) arrs).
    change (wit j (mkF s (s :: ab) path fs :: S) ms <-> descend (Node fs arrs) (a :: P) (leaves_hold leaves) = true).
    (* the root of the block matches no leaf: its path is too short *)
    assert (Hroot : wit j (mkF s (s :: ab) path fs :: S) ms <-> wit j S ms).
    { split; [|apply wit_incl; intros y Hy; right; exact Hy].
      intros (K & H). exists K. intros m Hm. destruct (H m Hm) as (y & [<-|Hy] & Hmy & HK); [|eauto].
      exfalso. unfold ms, leaf_ms in Hm. apply in_map_iff in Hm as (l & <- & _).
      unfold fmatch in Hmy. cbn [fn_path] in Hmy. apply andb_true_iff in Hmy as [Hmy _].
      apply names_eqb_eq in Hmy. rewrite <- app_assoc in Hmy. exact (app_neq_self _ _ _ Hmy). }
    rewrite Hroot.
    assert (Hj : (length (s :: ab) <= j)%nat) by (unfold j; cbn; lia).
    (* one element *)
    assert (He : forall p e, forall s2,
               wit j (fe p s2 e) ms <-> (beqb (fst p) a = true /\ descend e P (leaves_hold leaves) = true)).
    { intros p e s2. unfold fe. destruct (beqb (fst p) a) eqn:Ea.
      - apply beqb_eq in Ea. rewrite Ea.
        assert (Ems : ms = leaf_ms ((path ++ [a]) ++ P) leaves).
        { unfold ms, leaf_ms. apply map_ext. intro l. now rewrite <- !app_assoc. }
        rewrite Ems. replace j with (length (s :: ab) + length P)%nat by (unfold j; cbn; lia).
        rewrite (IH e s2 (s :: ab) (path ++ [a]) leaves Hne). tauto.
      - split; [|intros [? _]; discriminate]. intros (K & H). exfalso.
        destruct leaves as [|l0 leaves']; [contradiction|].
        destruct (H _ (or_introl eq_refl)) as (y & Hy & Hmy & _).
        apply flat_node_path in Hy as (suf & E). unfold fmatch in Hmy. apply andb_true_iff in Hmy as [Hmy _].
        apply names_eqb_eq in Hmy. rewrite E, <- !app_assoc in Hmy. apply app_inv_head in Hmy.
        cbn in Hmy. inversion Hmy as [[Ea' Es']]. rewrite Ea', (proj2 (beqb_eq a a) eq_refl) in Ea. discriminate. }
    (* one array *)
    assert (Ha : forall p s1,
               wit j (fa s1 p) ms <-> exists e, In e (snd p) /\ (beqb (fst p) a = true /\ descend e P (leaves_hold leaves) = true)).
    { intros p s1. unfold fa.
      apply (wit_flat_seq (fe p) (s :: ab) j ms
               (fun e => beqb (fst p) a = true /\ descend e P (leaves_hold leaves) = true) (snd p) Hms Hj).
      - intros e _ s2. apply blk_blks, flat_node_blk.
      - intros e _ s2. apply He. }
    unfold S.
    rewrite (wit_flat_seq fa (s :: ab) j ms
               (fun p => exists e, In e (snd p) /\ (beqb (fst p) a = true /\ descend e P (leaves_hold leaves) = true))
               arrs Hms Hj).
    + cbn [descend]. rewrite existsb_exists. unfold elements. cbn [narrays]. split.
      * intros (p & Hp & e & He' & Ea & Hd). exists e. split; [|exact Hd].
        apply in_flat_map. exists p. split; [exact Hp|]. now rewrite Ea.
      * intros (e & He' & Hd). apply in_flat_map in He' as (p & Hp & He').
        destruct (beqb (fst p) a) eqn:Ea; [|destruct He']. exists p. split; [exact Hp|]. eauto.
    + intros p _ s1. unfold fa. apply flat_seq_blks. intros e _ s2. apply blk_blks, flat_node_blk.
    + intros p _ s1. apply Ha.
Qed.
