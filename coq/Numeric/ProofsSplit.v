(* Numeric engine — C07, part 3 of the range-splitting proofs: NewNumericRangeSearcher's
   bounds + candidate terms against the order of the reals (uses f2i_order from ProofsEnc),
   and the refutation of a step bound for the legacy base-256 Enumerate. *)
From Coq Require Import ZArith Lia ZifyBool List Bool.
From Verif Require Import Common.Bytes Numeric.Model Numeric.ProofsEnc Numeric.ProofsSplit1 Numeric.ProofsSplit2.
Import ListNotations.
Local Open Scope Z_scope.

(* ---------- 6. the numeric range searcher against the order of the reals ---------- *)

(* a float64 bit pattern that is neither NaN nor -0 *)
Definition ok_bits (b : Z) : Prop := in_u64 b = true /\ is_nan b = false /\ is_neg_zero b = false.
Definition ok_opt (o : option Z) : Prop := match o with Some b => ok_bits b | None => True end.

Lemma ok_bits_f2i b : ok_bits b -> in_int64 (f2i b) = true /\ min_int64 < f2i b < max_int64.
Proof.
  intros (Hu & Hn & _). split; [apply f2i_range; exact Hu|].
  rewrite (f2i_closed b Hu). unfold is_nan, f_exp_all_ones_mag in Hn.
  destruct (f_sign_mag b Hu) as [(_ & Hm & Hl)|(_ & Hm & Hl)]; rewrite Hm in Hn;
    apply in_u64_iff in Hu; unfold min_int64, max_int64 in *; rewrite two63_val in *.
  - replace (b <? 9223372036854775808) with true by lia.
    change (2047 * 2 ^ 52) with 9218868437227405312 in Hn. lia.
  - replace (b <? 9223372036854775808) with false by lia.
    change (2047 * 2 ^ 52) with 9218868437227405312 in Hn. lia.
Qed.

Lemma ok_neg_inf : ok_bits neg_inf_bits.
Proof. vm_compute. repeat split. Qed.
Lemma ok_pos_inf : ok_bits pos_inf_bits.
Proof. vm_compute. repeat split. Qed.

Lemma f_leb_f2i a b : ok_bits a -> ok_bits b -> f_leb a b = (f2i a <=? f2i b).
Proof.
  intros (Ha1 & Ha2 & Ha3) (Hb1 & Hb2 & Hb3). unfold f_leb.
  rewrite <- (f2i_order a b) by assumption.
  destruct (Z.compare_spec (f2i a) (f2i b)); lia.
Qed.
Lemma f_ltb_f2i a b : ok_bits a -> ok_bits b -> f_ltb a b = (f2i a <? f2i b).
Proof.
  intros (Ha1 & Ha2 & Ha3) (Hb1 & Hb2 & Hb3). unfold f_ltb.
  rewrite <- (f2i_order a b) by assumption.
  destruct (Z.compare_spec (f2i a) (f2i b)); lia.
Qed.

Theorem numeric_range_correct mn mx imin imax v :
  ok_opt mn -> ok_opt mx -> ok_bits v ->
  range_matches_model 4 mn mx imin imax v = Some (range_matches_spec mn mx imin imax v).
Proof.
  intros Hmn Hmx Hv. unfold range_matches_model, range_matches_spec, range_bounds.
  set (mnb := match mn with Some b => b | None => neg_inf_bits end).
  set (mxb := match mx with Some b => b | None => pos_inf_bits end).
  set (imin' := match imin with Some b => b | None => true end).
  set (imax' := match imax with Some b => b | None => false end).
  assert (Hmnb : ok_bits mnb) by (unfold mnb; destruct mn; [exact Hmn|exact ok_neg_inf]).
  assert (Hmxb : ok_bits mxb) by (unfold mxb; destruct mx; [exact Hmx|exact ok_pos_inf]).
  destruct (ok_bits_f2i mnb Hmnb) as [Hlo1 Hlo2]. destruct (ok_bits_f2i mxb Hmxb) as [Hhi1 Hhi2].
  destruct (ok_bits_f2i v Hv) as [Hv1 Hv2].
  cbv zeta.
  set (lo' := if negb imin' && negb (f2i mnb =? max_int64) then f2i mnb + 1 else f2i mnb).
  set (hi' := if negb imax' && negb (f2i mxb =? min_int64) then f2i mxb - 1 else f2i mxb).
  assert (Hlo' : lo' = if imin' then f2i mnb else f2i mnb + 1).
  { unfold lo'. replace (f2i mnb =? max_int64) with false by lia. destruct imin'; reflexivity. }
  assert (Hhi' : hi' = if imax' then f2i mxb else f2i mxb - 1).
  { unfold hi'. replace (f2i mxb =? min_int64) with false by lia. destruct imax'; reflexivity. }
  assert (Hlo'i : in_int64 lo' = true).
  { rewrite Hlo'. unfold in_int64 in *. destruct imin'; lia. }
  assert (Hhi'i : in_int64 hi' = true).
  { rewrite Hhi'. unfold in_int64 in *. destruct imax'; lia. }
  destruct (range_candidates_total lo' hi' Hlo'i Hhi'i) as (cands & Hc & _).
  rewrite Hc. f_equal.
  pose proof (candidates_match_iff lo' hi' (f2i v) cands Hlo'i Hhi'i Hv1 Hc) as Hiff.
  apply eq_iff_eq_true. rewrite Hiff. rewrite Hlo', Hhi'.
  rewrite andb_true_iff.
  destruct imin', imax'; rewrite ?f_leb_f2i, ?f_ltb_f2i by assumption; lia.
Qed.

Example numeric_range_correct_example :
  (* 1.0 < v <= 2.5 on v = 2.5 and v = 1.0 *)
  let one := 1023 * 2 ^ 52 in let twohalf := 1024 * 2 ^ 52 + 2 ^ 50 in
  ok_opt (Some one) /\ ok_opt (Some twohalf) /\ ok_bits twohalf /\ ok_bits one /\
  range_matches_spec (Some one) (Some twohalf) (Some false) (Some true) twohalf = true /\
  range_matches_model 4 (Some one) (Some twohalf) (Some false) (Some true) twohalf = Some true /\
  range_matches_model 4 (Some one) (Some twohalf) (Some false) (Some true) one = Some false.
Proof. vm_compute. repeat split. Qed.

(* ---------- 7. the legacy base-256 enumeration is not bounded ---------- *)

Theorem enum256_refuted :
  exists lo hi vrs v tr, in_int64 lo = true /\ in_int64 hi = true /\ lo <= hi /\
    split_range lo hi 4 = Some vrs /\ In v vrs /\ vrange_terms v = Some tr /\
    2 ^ 56 < enum256_steps tr /\ enum7_steps tr = 2.
Proof.
  exists (-1), 0, [mkv 0 (-1) 0], (mkv 0 (-1) 0).
  eexists. repeat split; try (vm_compute; reflexivity); try (left; reflexivity).
  vm_compute. discriminate.
Qed.
