(* Numeric engine — link of the model's float order [f_compare] (Numeric/Model.v) to the IEEE-754
   semantics of Flocq: on non-NaN binary64 bit patterns, [f_compare] IS Flocq's [Bcompare] on
   [b64_of_bits].  With Flocq's [Bcompare_correct] this is the order of the real values
   (and -0 = +0); [Bcompare_correct] itself is not used here: [Bcompare] is a computable function
   and the proof is a case analysis on sign / biased exponent / mantissa. *)
From Coq Require Import ZArith Lia ZifyBool Bool.
From Flocq Require Import IEEE754.Binary IEEE754.Bits.
From Verif Require Import Common.Bytes Numeric.Model Numeric.ProofsEnc.
Local Open Scope Z_scope.

(* [Bcompare] only looks at the underlying full_float, not at the validity proofs *)
Lemma Bcompare_FF2B prec emax x y Hx Hy :
  Bcompare prec emax (FF2B prec emax x Hx) (FF2B prec emax y Hy)
  = SpecFloat.SFcompare (FF2SF x) (FF2SF y).
Proof. destruct x, y; reflexivity. Qed.

Section Fields.
Local Ltac Zify.zify_post_hook ::= Z.div_mod_to_equations.

(* sign, biased exponent and mantissa fields of a pattern *)
Lemma fields a : in_u64 a = true ->
  let mx := a mod 2 ^ 52 in
  let ex := (a / 2 ^ 52) mod 2 ^ 11 in
  0 <= mx < 4503599627370496 /\ 0 <= ex < 2048 /\
  f_mag a = ex * 4503599627370496 + mx /\
  (2 ^ 52 * 2 ^ 11 <=? a) = f_sign a.
Proof.
  intros Ha. apply in_u64_iff in Ha. unfold f_mag, f_sign. rewrite two63_val.
  change (2 ^ 52) with 4503599627370496. change (2 ^ 11) with 2048. cbv zeta.
  repeat split; lia.
Qed.
End Fields.

(* what [binary_float_of_bits_aux] makes of a non-NaN pattern *)
Lemma aux_cases a : in_u64 a = true -> Model.is_nan a = false ->
  let x := binary_float_of_bits_aux 52 11 a in
  (x = F754_zero (f_sign a) /\ f_mag a = 0) \/
  (x = F754_infinity (f_sign a) /\ f_mag a = 2047 * 4503599627370496) \/
  (exists m e, x = F754_finite (f_sign a) m e /\ -1074 <= e <= 971 /\
     f_mag a = (e + 1074) * 4503599627370496 + Z.pos m /\
     Z.pos m < 9007199254740992 /\ (-1074 < e -> 4503599627370496 <= Z.pos m)).
Proof.
  intros Ha Hn. destruct (fields a Ha) as (Hmx & Hex & Hmag & Hs).
  unfold Model.is_nan, f_exp_all_ones_mag in Hn. change (2 ^ 52) with 4503599627370496 in Hn at 1.
  unfold binary_float_of_bits_aux, split_bits. cbv zeta.
  rewrite Hs. change (SpecFloat.emin (52 + 1) (2 ^ (11 - 1))) with (-1074).
  change (2 ^ 11 - 1) with 2047.
  set (mx := a mod 2 ^ 52) in *. set (ex := (a / 2 ^ 52) mod 2 ^ 11) in *.
  change (2 ^ 52) with 4503599627370496.
  destruct (Zeq_bool ex 0) eqn:E0.
  - apply Zeq_bool_eq in E0.
    destruct mx as [|px|px] eqn:Emx; [left|right; right|lia].
    + split; [reflexivity|lia].
    + exists px, (-1074). repeat split; try lia.
  - apply Zeq_bool_neq in E0.
    destruct (Zeq_bool ex 2047) eqn:E1.
    + apply Zeq_bool_eq in E1.
      destruct mx as [|px|px] eqn:Emx; [right; left|lia|lia].
      split; [reflexivity|lia].
    + apply Zeq_bool_neq in E1. right; right.
      destruct (mx + 4503599627370496) as [|px|px] eqn:Emx; [lia| |lia].
      exists px, (ex + -1074 - 1). repeat split; try lia.
Qed.

Lemma cmp_lt x y : x < y -> (x ?= y) = Lt. Proof. apply Z.compare_lt_iff. Qed.
Lemma cmp_gt x y : y < x -> (x ?= y) = Gt. Proof. intros; apply Z.compare_gt_iff; assumption. Qed.

(* closes the goals [c = (p ?= q)] / [c = if (p =? 0) && (q =? 0) then Eq else c'] with c a
   constructor; leaves the two finite/finite same-sign goals *)
Local Ltac fin :=
  match goal with
  | |- ?c = ?c => reflexivity
  | |- Lt = (_ ?= _) => symmetry; apply cmp_lt; lia
  | |- Gt = (_ ?= _) => symmetry; apply cmp_gt; lia
  | |- Eq = (_ ?= _) => symmetry; apply Z.compare_eq_iff; lia
  | |- _ = (if (?p =? 0) && (?q =? 0) then _ else _) =>
      destruct (Z.eqb_spec p 0); destruct (Z.eqb_spec q 0); cbn [andb];
      first [reflexivity | exfalso; lia]
  | _ => idtac
  end.

(* statement over arbitrary validity proofs: free of the real-number axioms *)
Theorem f_compare_Bcompare_FF a b Ha Hb :
  in_u64 a = true -> in_u64 b = true -> Model.is_nan a = false -> Model.is_nan b = false ->
  Bcompare 53 1024 (FF2B 53 1024 (binary_float_of_bits_aux 52 11 a) Ha)
                   (FF2B 53 1024 (binary_float_of_bits_aux 52 11 b) Hb)
  = Some (f_compare a b).
Proof.
  intros Ua Ub Na Nb. rewrite Bcompare_FF2B.
  pose proof (aux_cases a Ua Na) as Ca. pose proof (aux_cases b Ub Nb) as Cb. cbv zeta in Ca, Cb.
  unfold f_compare. clear Ua Ub Na Nb Ha Hb.
  destruct Ca as [(-> & Ma)|[(-> & Ma)|(m1 & e1 & -> & He1 & Ma & Lm1 & Nm1)]];
  destruct Cb as [(-> & Mb)|[(-> & Mb)|(m2 & e2 & -> & He2 & Mb & Lm2 & Nm2)]];
  rewrite Ma, Mb; cbn [FF2SF SpecFloat.SFcompare]; f_equal;
  destruct (f_sign a), (f_sign b); fin.
  all: change (Pos.compare_cont Eq m1 m2) with (Z.pos m1 ?= Z.pos m2).
  - destruct (Z.compare_spec e1 e2) as [->|Hlt|Hgt].
    + rewrite Z.add_compare_mono_l. symmetry. apply Z.compare_antisym.
    + symmetry; apply cmp_gt; lia.
    + symmetry; apply cmp_lt; lia.
  - destruct (Z.compare_spec e1 e2) as [->|Hlt|Hgt].
    + symmetry. apply Z.add_compare_mono_l.
    + symmetry; apply cmp_lt; lia.
    + symmetry; apply cmp_gt; lia.
Qed.

Theorem f_compare_Bcompare a b :
  in_u64 a = true -> in_u64 b = true -> Model.is_nan a = false -> Model.is_nan b = false ->
  Bcompare 53 1024 (b64_of_bits a) (b64_of_bits b) = Some (f_compare a b).
Proof. intros. apply f_compare_Bcompare_FF; assumption. Qed.

(* NaN patterns are exactly Flocq's NaNs, so the hypothesis above is the right one *)
Lemma is_nan_FF2B prec emax x Hx :
  Binary.is_nan prec emax (FF2B prec emax x Hx) = match x with F754_nan _ _ => true | _ => false end.
Proof. destruct x; reflexivity. Qed.

Theorem is_nan_b64 a : in_u64 a = true ->
  Binary.is_nan 53 1024 (b64_of_bits a) = Model.is_nan a.
Proof.
  intros Ua. unfold b64_of_bits, binary_float_of_bits. rewrite is_nan_FF2B.
  destruct (Model.is_nan a) eqn:Na.
  - destruct (fields a Ua) as (Hmx & Hex & Hmag & Hs).
    unfold Model.is_nan, f_exp_all_ones_mag in Na. change (2 ^ 52) with 4503599627370496 in Na at 1.
    unfold binary_float_of_bits_aux, split_bits. cbv zeta.
    change (2 ^ 11 - 1) with 2047.
    set (mx := a mod 2 ^ 52) in *. set (ex := (a / 2 ^ 52) mod 2 ^ 11) in *.
    assert (E : ex = 2047) by lia. rewrite E. change (Zeq_bool 2047 0) with false.
    change (Zeq_bool 2047 2047) with true. cbv iota.
    destruct mx; [lia|reflexivity|reflexivity].
  - pose proof (aux_cases a Ua Na) as C. cbv zeta in C.
    destruct C as [(-> & _)|[(-> & _)|(m & e & -> & _)]]; reflexivity.
Qed.

(* DESIGN.md's form of f2i_order: the int64 images compare as Flocq compares the floats *)
Theorem f2i_order_flocq a b :
  in_u64 a = true -> in_u64 b = true -> Model.is_nan a = false -> Model.is_nan b = false ->
  is_neg_zero a = false -> is_neg_zero b = false ->
  Bcompare 53 1024 (b64_of_bits a) (b64_of_bits b) = Some (f2i a ?= f2i b).
Proof.
  intros Ua Ub Na Nb Za Zb. rewrite (f2i_order a b) by assumption.
  apply f_compare_Bcompare; assumption.
Qed.

Theorem numeric_sort_flocq a b ta tb :
  in_u64 a = true -> in_u64 b = true -> Model.is_nan a = false -> Model.is_nan b = false ->
  is_neg_zero a = false -> is_neg_zero b = false ->
  encode (f2i a) 0 = Some ta -> encode (f2i b) 0 = Some tb ->
  Bcompare 53 1024 (b64_of_bits a) (b64_of_bits b) = Some (bcompare ta tb).
Proof.
  intros Ua Ub Na Nb Za Zb Ea Eb.
  rewrite (numeric_sort_correct a b ta tb) by assumption.
  apply f_compare_Bcompare; assumption.
Qed.

(* and, through Flocq's Bcompare_correct, the order of the real values of finite floats *)
Theorem f_compare_Rcompare a b :
  in_u64 a = true -> in_u64 b = true ->
  is_finite 53 1024 (b64_of_bits a) = true -> is_finite 53 1024 (b64_of_bits b) = true ->
  Raux.Rcompare (B2R 53 1024 (b64_of_bits a)) (B2R 53 1024 (b64_of_bits b)) = f_compare a b.
Proof.
  intros Ua Ub Fa Fb.
  assert (Na : Model.is_nan a = false).
  { rewrite <- is_nan_b64 by assumption. destruct (b64_of_bits a); try reflexivity; discriminate. }
  assert (Nb : Model.is_nan b = false).
  { rewrite <- is_nan_b64 by assumption. destruct (b64_of_bits b); try reflexivity; discriminate. }
  pose proof (Bcompare_correct 53 1024 _ _ Fa Fb) as C.
  rewrite (f_compare_Bcompare a b Ua Ub Na Nb) in C. injection C as C. symmetry. exact C.
Qed.

Example f_compare_Bcompare_ex :
  let a := two63 + 5 in let b := 1023 * 2 ^ 52 in
  in_u64 a = true /\ in_u64 b = true /\ Model.is_nan a = false /\ Model.is_nan b = false /\
  Bcompare 53 1024 (b64_of_bits a) (b64_of_bits b) = Some Lt.
Proof. vm_compute. repeat split. Qed.
