(* Numeric engine — correspondence cases: what the implementation returned on an input,
   checked against the executable model (and, for API-level cases, the spec). *)
From Coq Require Import ZArith List Bool.
From Verif Require Import Common.Bytes Numeric.Model.
Import ListNotations.
Local Open Scope Z_scope.

Definition bytes_list_eqb := list_eqb beqb.
Definition optZ_eqb := option_eqb Z.eqb.
Definition optB_eqb := option_eqb beqb.

Inductive case :=
| CF2I (bits impl_i impl_back : Z)        (* Float64ToInt64(frombits bits); bits(Int64ToFloat64(that)) *)
| CI2F (i impl_bits impl_back : Z)        (* bits(Int64ToFloat64 i); Float64ToInt64 of that *)
| CEnc (x shift : Z) (impl : option bytes)
| CDec (p : bytes) (impl : option Z) (impl_valid : option Z)
| CCmp (a b : Z) (impl_fcmp impl_tcmp : Z)  (* float compare of patterns a,b; bytes.Compare of shift-0 terms *)
| CSplit (lo hi step : Z) (impl : list (bytes * bytes))
| CCand (mn mx : option Z) (imin imax : option bool) (impl_cands : list bytes)
| CApi (mn mx : option Z) (imin imax : option bool) (docs : list (list Z)) (impl_hits : list bool)
| CDate (lo hi : option Z) (imin imax : option bool) (docs : list (list Z)) (impl_hits : list bool)
| CSort (vals : list Z) (impl_order : list Z)
(* sort by a multi-valued numeric (bit patterns) or datetime (int64 nanoseconds) field with
   SortField{Mode, Desc, Missing}: doc i holds [nth i docs]; [impl_order] = doc indices of the hits *)
| CSortM (date : bool) (mode : Z) (desc mfirst : bool) (docs : list (list Z)) (impl_order : list Z).

Definition cmp_code (c : comparison) : Z := match c with Lt => -1 | Eq => 0 | Gt => 1 end.

Definition pair_eqb (a b : bytes * bytes) : bool := beqb (fst a) (fst b) && beqb (snd a) (snd b).

Definition model_split (lo hi step : Z) : option (list (bytes * bytes)) :=
  match split_range lo hi step with
  | None => None
  | Some vrs =>
      match sequence_opt (map vrange_terms vrs) with
      | None => None
      | Some trs => Some (map (fun t => (tr_start t, tr_end t)) trs)
      end
  end.

Definition model_cands (mn mx : option Z) (imin imax : option bool) : option (list bytes) :=
  let '(lo, hi) := range_bounds mn mx imin imax in range_candidates lo hi 4.

Definition doc_matches_model (mn mx : option Z) (imin imax : option bool) (vals : list Z) : option bool :=
  fold_left (fun acc v =>
    match acc, range_matches_model 4 mn mx imin imax v with
    | Some a, Some b => Some (a || b)
    | _, _ => None
    end) vals (Some false).

Definition doc_matches_spec (mn mx : option Z) (imin imax : option bool) (vals : list Z) : bool :=
  existsb (range_matches_spec mn mx imin imax) vals.

(* stable insertion sort of doc indices by f2i of the value: numeric sort ascending, ties by
   index order *)
Fixpoint insert_by (key : Z -> Z) (x : Z) (l : list Z) : list Z :=
  match l with
  | [] => [x]
  | y :: l' => if key x <? key y then x :: l else y :: insert_by key x l'
  end.
Definition sort_indices (vals : list Z) : list Z :=
  let n := Z.of_nat (length vals) in
  let key i := f2i (nth (Z.to_nat i) vals 0) in
  fold_left (fun acc i => insert_by key i acc) (map Z.of_nat (seq 0 (length vals))) [].

Definition bool_list_eqb := list_eqb Bool.eqb.
Definition Z_list_eqb := list_eqb Z.eqb.

(* SPEC for dates: integer nanoseconds; absent bound = unbounded on that side.
   (bleve passes a zero time.Time as "absent".) *)
Definition date_matches_spec (lo hi : option Z) (imin imax : option bool) (vals : list Z) : bool :=
  let imin' := match imin with Some b => b | None => true end in
  let imax' := match imax with Some b => b | None => false end in
  existsb (fun v =>
    (match lo with None => true | Some l => if imin' then l <=? v else l <? v end) &&
    (match hi with None => true | Some h => if imax' then v <=? h else v <? h end)) vals.

(* ---- SPEC for sorting by a multi-valued field (search.SortField with Mode / Desc / Missing) ----
   The sort key of a document is a NUMBER: the least (mode 1 = min) or greatest (mode 2 = max) of its
   values in numeric order ([f2i] of the bit pattern — C07_f2i_order: that is the float order — or the
   int64 nanoseconds of a date), or "missing" when it has no value.  Missing documents come first or
   last as requested, in both directions.  The hits must be a permutation of the documents whose keys
   never step down.  (Which of two documents with EQUAL keys comes first is C06's subject, not judged
   here.)  Mode 0 (default) does not say which of several values is the key — the implementation takes
   the first one its doc-value reader visits — so the judgement is: there is a choice of one value per
   document under which the keys never step down (greedy: the least feasible value). *)
Inductive mkey := KMissing | KVal (z : Z).

Definition num (date : bool) (v : Z) : Z := if date then v else f2i v.

(* strictly before, in the requested direction and missing placement *)
Definition mkey_ltb (desc mfirst : bool) (a b : mkey) : bool :=
  match a, b with
  | KMissing, KMissing => false
  | KMissing, KVal _ => mfirst
  | KVal _, KMissing => negb mfirst
  | KVal x, KVal y => if desc then y <? x else x <? y
  end.

Definition doc_key (date : bool) (mode : Z) (vals : list Z) : mkey :=
  match map (num date) vals with
  | [] => KMissing
  | x :: l => if mode =? 2 then KVal (fold_left Z.max l x) else KVal (fold_left Z.min l x)
  end.

Definition doc_candidates (date : bool) (vals : list Z) : list mkey :=
  match vals with [] => [KMissing] | _ => map (fun v => KVal (num date v)) vals end.

(* the least (in the requested direction) candidate that is not before [prev] *)
Definition least_feasible (desc mfirst : bool) (prev : option mkey) (cands : list mkey) : option mkey :=
  fold_left (fun best c =>
    let ok := match prev with None => true | Some p => negb (mkey_ltb desc mfirst c p) end in
    if ok then match best with
               | None => Some c
               | Some b => if mkey_ltb desc mfirst c b then Some c else best
               end
    else best) cands None.

Fixpoint never_steps_down (desc mfirst : bool) (prev : option mkey) (ks : list mkey) : bool :=
  match ks with
  | [] => true
  | k :: ks' =>
      match prev with None => true | Some p => negb (mkey_ltb desc mfirst k p) end &&
      never_steps_down desc mfirst (Some k) ks'
  end.

Fixpoint some_choice_never_steps_down (desc mfirst : bool) (prev : option mkey) (cs : list (list mkey)) : bool :=
  match cs with
  | [] => true
  | c :: cs' =>
      match least_feasible desc mfirst prev c with
      | None => false
      | Some k => some_choice_never_steps_down desc mfirst (Some k) cs'
      end
  end.

Definition is_permutation_of_indices (n : nat) (order : list Z) : bool :=
  (length order =? n)%nat &&
  forallb (fun i => existsb (Z.eqb (Z.of_nat i)) order) (seq 0 n).

Definition sortm_ok (date : bool) (mode : Z) (desc mfirst : bool) (docs : list (list Z)) (order : list Z) : bool :=
  is_permutation_of_indices (length docs) order &&
  let vals_of i := nth (Z.to_nat i) docs [] in
  if (mode =? 1) || (mode =? 2)
  then never_steps_down desc mfirst None (map (fun i => doc_key date mode (vals_of i)) order)
  else some_choice_never_steps_down desc mfirst None (map (fun i => doc_candidates date (vals_of i)) order).

(* for replay files: a sorted order (stable insertion sort by the key, ties in index order);
   for mode 0 the key shown is the least value *)
Fixpoint insert_idx (ltb : Z -> Z -> bool) (x : Z) (l : list Z) : list Z :=
  match l with
  | [] => [x]
  | y :: l' => if ltb x y then x :: l else y :: insert_idx ltb x l'
  end.
Definition sortm_expected (date : bool) (mode : Z) (desc mfirst : bool) (docs : list (list Z)) : list Z :=
  let key i := doc_key date mode (nth (Z.to_nat i) docs []) in
  fold_left (fun acc i => insert_idx (fun a b => mkey_ltb desc mfirst (key a) (key b)) i acc)
            (map Z.of_nat (seq 0 (length docs))) [].

Definition check (c : case) : bool :=
  match c with
  | CF2I bits ii back =>
      (f2i bits =? ii) && (i2f ii =? back) &&
      (* round trip is exact on every pattern *)
      (back =? bits)
  | CI2F i b back => (i2f i =? b) && (f2i b =? back) && (back =? i)
  | CEnc x s impl => optB_eqb (encode x s) impl
  | CDec p impl v => optZ_eqb (decode p) impl && optZ_eqb (valid_term p) v
  | CCmp a b fc tc =>
      (cmp_code (f_compare a b) =? fc) &&
      match encode (f2i a) 0, encode (f2i b) 0 with
      | Some ta, Some tb =>
          (cmp_code (bcompare ta tb) =? tc) &&
          (* the property: terms order as the numbers do, except -0 < +0 *)
          (if is_neg_zero a || is_neg_zero b then true else fc =? tc)
      | _, _ => false
      end
  | CSplit lo hi step impl =>
      match model_split lo hi step with
      | Some m => list_eqb pair_eqb m impl
      | None => false
      end
  | CCand mn mx imin imax impl =>
      match model_cands mn mx imin imax with
      | Some m => bytes_list_eqb m impl
      | None => false
      end
  | CApi mn mx imin imax docs hits =>
      bool_list_eqb (map (doc_matches_spec mn mx imin imax) docs) hits &&
      list_eqb (option_eqb Bool.eqb) (map (doc_matches_model mn mx imin imax) docs) (map Some hits)
  | CDate lo hi imin imax docs hits =>
      let mn := option_map i2f lo in
      let mx := option_map i2f hi in
      let fdocs := map (map i2f) docs in
      bool_list_eqb (map (date_matches_spec lo hi imin imax) docs) hits &&
      list_eqb (option_eqb Bool.eqb) (map (doc_matches_model mn mx imin imax) fdocs) (map Some hits)
  | CSort vals order => Z_list_eqb (sort_indices vals) order
  | CSortM date mode desc mfirst docs order => sortm_ok date mode desc mfirst docs order
  end.

(* what the model expects, for replay files *)
Inductive expl :=
| EZ (a b : Z) | EOB (o : option bytes) | EOZ (a b : option Z) | ECmp (a b : Z)
| ESplit (o : option (list (bytes * bytes))) | ECand (o : option (list bytes))
| EApi (spec : list bool) (model : list (option bool)) | ESort (l : list Z).

Definition explain (c : case) : expl :=
  match c with
  | CF2I bits _ _ => EZ (f2i bits) (i2f (f2i bits))
  | CI2F i _ _ => EZ (i2f i) (f2i (i2f i))
  | CEnc x s _ => EOB (encode x s)
  | CDec p _ _ => EOZ (decode p) (valid_term p)
  | CCmp a b _ _ => ECmp (cmp_code (f_compare a b))
                      (match encode (f2i a) 0, encode (f2i b) 0 with
                       | Some ta, Some tb => cmp_code (bcompare ta tb) | _, _ => 99 end)
  | CSplit lo hi step _ => ESplit (model_split lo hi step)
  | CCand mn mx imin imax _ => ECand (model_cands mn mx imin imax)
  | CApi mn mx imin imax docs _ =>
      EApi (map (doc_matches_spec mn mx imin imax) docs) (map (doc_matches_model mn mx imin imax) docs)
  | CDate lo hi imin imax docs _ =>
      EApi (map (date_matches_spec lo hi imin imax) docs)
           (map (doc_matches_model (option_map i2f lo) (option_map i2f hi) imin imax) (map (map i2f) docs))
  | CSort vals _ => ESort (sort_indices vals)
  | CSortM date mode desc mfirst docs _ => ESort (sortm_expected date mode desc mfirst docs)
  end.
