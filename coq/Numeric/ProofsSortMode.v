(* Numeric engine — sorting by a multi-valued numeric / datetime field (SortField.Mode min / max).

   search/sort.go SortField.Value keeps the shift-0 prefix-coded terms of the document's values
   (filterTermsByType) and filterTermsByMode then takes the least / greatest TERM in byte order
   (sort.Sort(BytesSlice) + first / last; transcribed in Collect/TopN.v as [filter_terms_by_mode]).
   Here: whatever order the doc-value reader visits the terms in, that term is the encoding of the
   numerically least / greatest VALUE — the key the spec of the CSortM cases (Numeric/Corr.v
   [doc_key]) uses. *)
From Coq Require Import ZArith List Bool Lia Permutation.
From Verif Require Import Common.Bytes Numeric.Model Numeric.ProofsEnc Numeric.Corr Collect.TopN.
Import ListNotations.
Local Open Scope Z_scope.

(* the shift-0 term of a sortable int64 *)
Definition enc0 (x : Z) : bytes := match encode x 0 with Some t => t | None => [] end.

Lemma enc0_some x : encode x 0 = Some (enc0 x).
Proof. unfold enc0. destruct (encode_total x 0) as (t & E); [lia|]. rewrite E. reflexivity. Qed.

Lemma bltb_enc0 x y : in_int64 x = true -> in_int64 y = true -> bltb (enc0 x) (enc0 y) = (x <? y).
Proof.
  intros Hx Hy. unfold bltb.
  rewrite (encode_order x y (enc0 x) (enc0 y) Hx Hy (enc0_some x) (enc0_some y)).
  unfold Z.ltb. destruct (x ?= y); reflexivity.
Qed.

Lemma in_int64_min a b : in_int64 a = true -> in_int64 b = true -> in_int64 (Z.min a b) = true.
Proof. intros Ha Hb. destruct (Z.min_spec a b) as [(_ & ->)|(_ & ->)]; assumption. Qed.
Lemma in_int64_max a b : in_int64 a = true -> in_int64 b = true -> in_int64 (Z.max a b) = true.
Proof. intros Ha Hb. destruct (Z.max_spec a b) as [(_ & ->)|(_ & ->)]; assumption. Qed.

Lemma bmin_enc0 l : forall a, in_int64 a = true -> Forall (fun y => in_int64 y = true) l ->
  bmin (enc0 a) (map enc0 l) = enc0 (fold_left Z.min l a).
Proof.
  induction l as [|b l IH]; intros a Ha Hl; [reflexivity|].
  inversion Hl as [|? ? Hb Hl']; subst. cbn [map bmin fold_left].
  rewrite (bltb_enc0 b a Hb Ha).
  replace (if b <? a then enc0 b else enc0 a) with (enc0 (Z.min a b)).
  - apply IH; [apply in_int64_min; assumption | assumption].
  - destruct (Z.ltb_spec b a); [rewrite Z.min_r by lia | rewrite Z.min_l by lia]; reflexivity.
Qed.

Lemma bmax_enc0 l : forall a, in_int64 a = true -> Forall (fun y => in_int64 y = true) l ->
  bmax (enc0 a) (map enc0 l) = enc0 (fold_left Z.max l a).
Proof.
  induction l as [|b l IH]; intros a Ha Hl; [reflexivity|].
  inversion Hl as [|? ? Hb Hl']; subst. cbn [map bmax fold_left].
  rewrite (bltb_enc0 a b Ha Hb).
  replace (if a <? b then enc0 b else enc0 a) with (enc0 (Z.max a b)).
  - apply IH; [apply in_int64_max; assumption | assumption].
  - destruct (Z.ltb_spec a b); [rewrite Z.max_r by lia | rewrite Z.max_l by lia]; reflexivity.
Qed.

(* Mode min / max on the shift-0 terms of a document's values = the term of the numerically
   least / greatest value, for every missing / direction setting *)
Theorem sort_mode_key x l mf d :
  Forall (fun y => in_int64 y = true) (x :: l) ->
  filter_terms_by_mode 1 mf d (map enc0 (x :: l)) = enc0 (fold_left Z.min l x) /\
  filter_terms_by_mode 2 mf d (map enc0 (x :: l)) = enc0 (fold_left Z.max l x).
Proof.
  intros H. inversion H as [|? ? Hx Hl]; subst.
  destruct l as [|b l]; [split; reflexivity|].
  unfold filter_terms_by_mode. cbn [map]. cbn [Z.eqb Pos.eqb].
  split; [apply (bmin_enc0 (b :: l) x Hx Hl) | apply (bmax_enc0 (b :: l) x Hx Hl)].
Qed.

Lemma fold_min_spec l : forall a,
  In (fold_left Z.min l a) (a :: l) /\ (forall y, In y (a :: l) -> fold_left Z.min l a <= y).
Proof.
  induction l as [|b l IH]; intros a; cbn [fold_left].
  - split; [left; reflexivity|]. intros y [<-|[]]. lia.
  - destruct (IH (Z.min a b)) as (I & L). split.
    + destruct I as [E|I]; [|right; right; exact I].
      rewrite <- E. destruct (Z.min_spec a b) as [(_ & ->)|(_ & ->)]; [left|right; left]; reflexivity.
    + intros y [<-|[<-|Hy]].
      * specialize (L (Z.min a b) (or_introl eq_refl)). lia.
      * specialize (L (Z.min a b) (or_introl eq_refl)). lia.
      * apply L. right. exact Hy.
Qed.
Lemma fold_max_spec l : forall a,
  In (fold_left Z.max l a) (a :: l) /\ (forall y, In y (a :: l) -> y <= fold_left Z.max l a).
Proof.
  induction l as [|b l IH]; intros a; cbn [fold_left].
  - split; [left; reflexivity|]. intros y [<-|[]]. lia.
  - destruct (IH (Z.max a b)) as (I & L). split.
    + destruct I as [E|I]; [|right; right; exact I].
      rewrite <- E. destruct (Z.max_spec a b) as [(_ & ->)|(_ & ->)]; [right; left|left]; reflexivity.
    + intros y [<-|[<-|Hy]].
      * specialize (L (Z.max a b) (or_introl eq_refl)). lia.
      * specialize (L (Z.max a b) (or_introl eq_refl)). lia.
      * apply L. right. exact Hy.
Qed.

(* ... hence the key does not depend on the order in which the values (terms) are visited *)
Theorem sort_mode_key_order_independent vs vs' mf d mode :
  mode = 1 \/ mode = 2 ->
  Forall (fun y => in_int64 y = true) vs -> Permutation vs vs' ->
  filter_terms_by_mode mode mf d (map enc0 vs) = filter_terms_by_mode mode mf d (map enc0 vs').
Proof.
  intros M F P.
  assert (F' : Forall (fun y => in_int64 y = true) vs').
  { rewrite Forall_forall in *. intros y Hy. apply F. eapply Permutation_in; [apply Permutation_sym; exact P|exact Hy]. }
  destruct vs as [|x l]; [apply Permutation_nil in P; subst; reflexivity|].
  destruct vs' as [|x' l']; [apply Permutation_sym, Permutation_nil in P; discriminate|].
  destruct (sort_mode_key x l mf d F) as (A1 & A2).
  destruct (sort_mode_key x' l' mf d F') as (B1 & B2).
  pose proof (Permutation_sym P) as P'.
  assert (Emin : fold_left Z.min l x = fold_left Z.min l' x').
  { destruct (fold_min_spec l x) as (I1 & L1). destruct (fold_min_spec l' x') as (I2 & L2).
    pose proof (L1 _ (Permutation_in _ P' I2)). pose proof (L2 _ (Permutation_in _ P I1)). lia. }
  assert (Emax : fold_left Z.max l x = fold_left Z.max l' x').
  { destruct (fold_max_spec l x) as (I1 & L1). destruct (fold_max_spec l' x') as (I2 & L2).
    pose proof (L1 _ (Permutation_in _ P' I2)). pose proof (L2 _ (Permutation_in _ P I1)). lia. }
  destruct M as [-> | ->]; [rewrite A1, B1, Emin | rewrite A2, B2, Emax]; reflexivity.
Qed.

(* the CSortM spec key of a numeric document is the decoded value of that term *)
Theorem doc_key_is_mode_term (date : bool) x l :
  doc_key date 1 (x :: l) = KVal (fold_left Z.min (map (num date) l) (num date x)) /\
  doc_key date 2 (x :: l) = KVal (fold_left Z.max (map (num date) l) (num date x)).
Proof. split; reflexivity. Qed.

(* hypotheses are satisfiable on a non-trivial value: three values, unsorted, negative included *)
Example sort_mode_key_ex :
  Forall (fun y => in_int64 y = true) [5; -7; 3] /\
  filter_terms_by_mode 1 false false (map enc0 [5; -7; 3]) = enc0 (-7) /\
  filter_terms_by_mode 2 false true (map enc0 [5; -7; 3]) = enc0 5.
Proof. split; [repeat constructor|]. vm_compute. split; reflexivity. Qed.
