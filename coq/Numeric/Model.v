(* Numeric engine — executable model (definitions only; proofs live in Numeric/Proofs*.v).

   Transcribed from /repo:
     numeric/float.go            Float64ToInt64, Int64ToFloat64
     numeric/prefix_coded.go     NewPrefixCodedInt64Prealloc, Shift, Int64, ValidPrefixCodedTermBytes
     search/searcher/search_numeric_range.go
                                 NewNumericRangeSearcher (bounds), splitInt64Range, newRange,
                                 termRange.Enumerate/incrementBytes (legacy, base 256) and
                                 enumeratePrefixCoded/incrementPrefixCoded (7-bit carry)
     document/field_numeric.go   NumericField.Analyze (terms at shifts 0, step, 2*step, ...)

   Conventions: an int64 is a Z in [-2^63, 2^63); a uint64 / float64 bit pattern is a Z in
   [0, 2^64); every place where the Go code can wrap is written with [wrap64]/[u64].
   Z.land / Z.lor / Z.lxor / Z.ldiff on Z are two's-complement with infinite sign extension,
   which coincides with the Go operators on int64 for in-range operands. *)
From Coq Require Import ZArith List Bool.
From Verif Require Import Common.Bytes.
Import ListNotations.
Local Open Scope Z_scope.

Definition two63 : Z := 2 ^ 63.
Definition two64 : Z := 2 ^ 64.
Definition min_int64 : Z := - two63.
Definition max_int64 : Z := two63 - 1.

Definition u64 (x : Z) : Z := x mod two64.
Definition wrap64 (x : Z) : Z :=
  let m := x mod two64 in if m <? two63 then m else m - two64.

Definition in_int64 (x : Z) : bool := (min_int64 <=? x) && (x <=? max_int64).
Definition in_u64 (x : Z) : bool := (0 <=? x) && (x <? two64).

(* ---------- float64 <-> sortable int64 (numeric/float.go) ---------- *)

(* [bits] is math.Float64bits(f). *)
Definition f2i (bits : Z) : Z :=
  let s := wrap64 bits in
  if s <? 0 then Z.lxor s max_int64 else s.

(* result is the bit pattern handed to math.Float64frombits *)
Definition i2f (i : Z) : Z :=
  u64 (if i <? 0 then Z.lxor i max_int64 else i).

(* IEEE-754 binary64 classification on bit patterns *)
Definition f_sign (bits : Z) : bool := two63 <=? bits.
Definition f_mag (bits : Z) : Z := bits mod two63.            (* exponent and mantissa *)
Definition f_exp_all_ones_mag : Z := 2047 * 2 ^ 52.            (* magnitude of +Inf *)
Definition is_nan (bits : Z) : bool := f_exp_all_ones_mag <? f_mag bits.
Definition is_neg_zero (bits : Z) : bool := bits =? two63.

(* The order of the reals (extended with +-Inf) on non-NaN patterns, with -0 = +0:
   sign-magnitude comparison.  [Numeric/FlocqLink.v] proves this is Flocq's Bcompare. *)
Definition f_compare (a b : Z) : comparison :=
  match f_sign a, f_sign b with
  | false, false => f_mag a ?= f_mag b
  | true, true => f_mag b ?= f_mag a
  | false, true => if (f_mag a =? 0) && (f_mag b =? 0) then Eq else Gt
  | true, false => if (f_mag a =? 0) && (f_mag b =? 0) then Eq else Lt
  end.

(* ---------- prefix coding (numeric/prefix_coded.go) ---------- *)

Definition shift_start : Z := 32.   (* ShiftStartInt64 = 0x20; re-checked against Extracted.v *)

Definition nchars (shift : Z) : Z := (63 - shift) / 7 + 1.

(* n 7-bit groups of v, most significant first *)
Fixpoint groups7 (n : nat) (v : Z) : list Z :=
  match n with
  | O => []
  | S n' => groups7 n' (Z.shiftr v 7) ++ [Z.land v 127]
  end.

Definition encode (x shift : Z) : option bytes :=
  if (shift <? 0) || (63 <? shift) then None
  else
    let sortable := Z.lxor (u64 x) two63 in
    let sb := Z.shiftr sortable shift in
    Some ((shift_start + shift) :: groups7 (Z.to_nat (nchars shift)) sb).

(* PrefixCoded.Shift: note the Go test is [shift < 63], so shift 63 is rejected here although
   ValidPrefixCodedTermBytes accepts it. *)
Definition term_shift (p : bytes) : option Z :=
  match p with
  | [] => None
  | b0 :: _ => let s := (b0 - shift_start) mod 256 in if s <? 63 then Some s else None
  end.

Definition decode (p : bytes) : option Z :=
  match term_shift p with
  | None => None
  | Some s =>
      let sb := fold_left (fun acc b => Z.lor (wrap64 (acc * 128)) b) (tl p) 0 in
      Some (wrap64 (Z.lxor (u64 (wrap64 (sb * 2 ^ s))) two63))
  end.

Definition valid_term (p : bytes) : option Z :=
  match p with
  | [] => None
  | b0 :: _ =>
      if (b0 <? shift_start) || (shift_start + 63 <? b0) then None
      else
        let s := b0 - shift_start in
        if Z.of_nat (length p) =? nchars s + 1 then Some s else None
  end.

(* terms a numeric field value is indexed under (precision step [step]) *)
Fixpoint index_terms_from (fuel : nat) (step x shift : Z) : list bytes :=
  match fuel with
  | O => []
  | S f =>
      if shift <? 64 then
        match encode x shift with
        | Some t => t :: index_terms_from f step x (shift + step)
        | None => []
        end
      else []
  end.
Definition index_terms (step x : Z) : list bytes := index_terms_from 65 step x 0.

(* ---------- range splitting (search_numeric_range.go) ---------- *)

Record trange := { tr_start : bytes; tr_end : bytes }.

(* the value interval a range stands for, kept beside the terms for the proofs *)
Record vrange := { vr_shift : Z; vr_lo : Z; vr_hi : Z }.

Definition new_range (minB maxB shift : Z) : vrange :=
  {| vr_shift := shift; vr_lo := minB; vr_hi := Z.lor maxB (2 ^ shift - 1) |}.

Definition vrange_terms (v : vrange) : option trange :=
  match encode (vr_lo v) (vr_shift v), encode (vr_hi v) (vr_shift v) with
  | Some a, Some b => Some {| tr_start := a; tr_end := b |}
  | _, _ => None
  end.

Fixpoint split_loop (fuel : nat) (minB maxB shift step : Z) : option (list vrange) :=
  match fuel with
  | O => None                                   (* out of fuel: excluded by [split_fuel_ok] *)
  | S f =>
      let diff := wrap64 (2 ^ (shift + step)) in
      let mask := wrap64 ((2 ^ step - 1) * 2 ^ shift) in
      let hasLower := negb (Z.land minB mask =? 0) in
      let hasUpper := negb (Z.land maxB mask =? mask) in
      let nextMin := if hasLower then Z.ldiff (wrap64 (minB + diff)) mask else Z.ldiff minB mask in
      let nextMax := if hasUpper then Z.ldiff (wrap64 (maxB - diff)) mask else Z.ldiff maxB mask in
      let lowerWrapped := nextMin <? minB in
      let upperWrapped := maxB <? nextMax in
      if (64 <=? shift + step) || (nextMax <? nextMin) || lowerWrapped || upperWrapped then
        Some [new_range minB maxB shift]
      else
        let l := if hasLower then [new_range minB (Z.lor minB mask) shift] else [] in
        let u := if hasUpper then [new_range (Z.ldiff maxB mask) maxB shift] else [] in
        match split_loop f nextMin nextMax (shift + step) step with
        | Some rest => Some (l ++ u ++ rest)
        | None => None
        end
  end.

Definition split_range (minB maxB step : Z) : option (list vrange) :=
  if maxB <? minB then Some [] else split_loop 65 minB maxB 0 step.

(* ---------- enumeration of candidate terms ---------- *)

(* big-endian value of a byte string in base [base] *)
Definition be_value (base : Z) (bs : bytes) : Z := fold_left (fun acc b => acc * base + b) bs 0.

(* Legacy termRange.Enumerate: one incrementBytes (base 256) step per candidate, so the number
   of loop iterations is the base-256 distance of the two equally long terms (+1). *)
Definition enum256_steps (r : trange) : Z :=
  if bleb (tr_start r) (tr_end r)
  then be_value 256 (tr_end r) - be_value 256 (tr_start r) + 1 else 0.

(* incrementPrefixCoded: carry at 0x80 on bytes 1.., byte 0 (the shift byte) untouched *)
Fixpoint inc7_rev (rev_tail : list Z) : list Z :=
  match rev_tail with
  | [] => []
  | b :: rest => if b + 1 <? 128 then (b + 1) :: rest else 0 :: inc7_rev rest
  end.
Definition inc7 (t : bytes) : bytes :=
  match t with
  | [] => []
  | b0 :: tail => b0 :: rev (inc7_rev (rev tail))
  end.

(* enumeratePrefixCoded on one range: start, inc7 start, ... until end (inclusive);
   nothing if start > end.  Fuel bounds the walk; [None] = fuel exhausted. *)
Fixpoint enum7_loop (fuel : nat) (cur stop : bytes) : option (list bytes) :=
  match fuel with
  | O => None
  | S f =>
      if beqb cur stop then Some [cur]
      else match enum7_loop f (inc7 cur) stop with
           | Some l => Some (cur :: l)
           | None => None
           end
  end.
Definition enum7 (fuel : nat) (r : trange) : option (list bytes) :=
  if bleb (tr_start r) (tr_end r) then enum7_loop fuel (tr_start r) (tr_end r) else Some [].

Definition enum7_steps (r : trange) : Z :=
  if bleb (tr_start r) (tr_end r)
  then be_value 128 (tl (tr_end r)) - be_value 128 (tl (tr_start r)) + 1 else 0.

Fixpoint sequence_opt {A} (l : list (option A)) : option (list A) :=
  match l with
  | [] => Some []
  | None :: _ => None
  | Some x :: l' => match sequence_opt l' with Some r => Some (x :: r) | None => None end
  end.

(* all candidate terms of a value range [minB,maxB], in the order the searcher probes them *)
Definition range_candidates (minB maxB step : Z) : option (list bytes) :=
  match split_range minB maxB step with
  | None => None
  | Some vrs =>
      match sequence_opt (map vrange_terms vrs) with
      | None => None
      | Some trs =>
          match sequence_opt (map (enum7 64) trs) with
          | None => None
          | Some ls => Some (concat ls)
          end
      end
  end.

(* ---------- NewNumericRangeSearcher bounds ---------- *)

Definition pos_inf_bits : Z := 2047 * 2 ^ 52.
Definition neg_inf_bits : Z := two63 + 2047 * 2 ^ 52.

(* min/max: optional float bit patterns; incl flags optional with Go's defaults *)
Definition range_bounds (mn mx : option Z) (imin imax : option bool) : Z * Z :=
  let mnb := match mn with Some b => b | None => neg_inf_bits end in
  let mxb := match mx with Some b => b | None => pos_inf_bits end in
  let imin' := match imin with Some b => b | None => true end in
  let imax' := match imax with Some b => b | None => false end in
  let lo := f2i mnb in
  let lo' := if negb imin' && negb (lo =? max_int64) then lo + 1 else lo in
  let hi := f2i mxb in
  let hi' := if negb imax' && negb (hi =? min_int64) then hi - 1 else hi in
  (lo', hi').

(* does a document holding value [v] (bit pattern) match the range query?  Model of the
   searcher: some candidate term is one of the document's index terms. *)
Definition mem_bytes (t : bytes) (l : list bytes) : bool := existsb (beqb t) l.

Definition range_matches_model (step : Z) (mn mx : option Z) (imin imax : option bool) (v : Z)
  : option bool :=
  let '(lo, hi) := range_bounds mn mx imin imax in
  match range_candidates lo hi step with
  | None => None
  | Some cands =>
      let its := index_terms step (f2i v) in
      Some (existsb (fun c => mem_bytes c its) cands)
  end.

(* the SPEC: v lies in the stated interval of the reals *)
Definition f_leb (a b : Z) : bool := match f_compare a b with Gt => false | _ => true end.
Definition f_ltb (a b : Z) : bool := match f_compare a b with Lt => true | _ => false end.

Definition range_matches_spec (mn mx : option Z) (imin imax : option bool) (v : Z) : bool :=
  let mnb := match mn with Some b => b | None => neg_inf_bits end in
  let mxb := match mx with Some b => b | None => pos_inf_bits end in
  let imin' := match imin with Some b => b | None => true end in
  let imax' := match imax with Some b => b | None => false end in
  (if imin' then f_leb mnb v else f_ltb mnb v) &&
  (if imax' then f_leb v mxb else f_ltb v mxb).
