(* Numeric engine — lemmas about the model in Numeric/Model.v. *)
From Coq Require Import ZArith List Bool Lia.
From Verif Require Import Common.Bytes Numeric.Model.
Import ListNotations.
Local Open Scope Z_scope.

Lemma split_empty lo hi step : hi < lo -> split_range lo hi step = Some [].
Proof. intros H. unfold split_range. apply Z.ltb_lt in H. rewrite H. reflexivity. Qed.
