(* Numeric engine — C07, part 2 of the range-splitting proofs: the 7-bit-carry enumeration
   (enumeratePrefixCoded / incrementPrefixCoded) of one emitted range, the candidate term list
   of a whole query range, and "a value matches iff it lies in [lo, hi]".
   Part 1 (split_range itself) is Numeric/ProofsSplit1.v; the float-level statement and the
   base-256 refutation are in Numeric/ProofsSplit.v. *)
From Coq Require Import ZArith Lia ZifyBool List Bool.
From Verif Require Import Common.Bytes Numeric.Model Numeric.Proofs Numeric.ProofsSplit1.
Import ListNotations.
Local Open Scope Z_scope.

(* ---------- the sortable bits of an int64 ---------- *)

Lemma land_two63_small z : 0 <= z < 2 ^ 63 -> Z.land z (2 ^ 63) = 0.
Proof.
  intros Hz. apply Z.bits_inj'. intros n Hn. rewrite Z.land_spec, Z.bits_0.
  rewrite Z.pow2_bits_eqb by lia. destruct (Z.eqb_spec 63 n) as [<-|Hne]; [|apply andb_false_r].
  rewrite andb_true_r. apply Z.testbit_false; [lia|]. rewrite Z.div_small by lia. reflexivity.
Qed.

Lemma lxor_two63_small z : 0 <= z < 2 ^ 63 -> Z.lxor z (2 ^ 63) = z + 2 ^ 63.
Proof. intros Hz. symmetry. apply Z.add_nocarry_lxor. apply land_two63_small. exact Hz. Qed.

Lemma sortable_eq x : - 2 ^ 63 <= x < 2 ^ 63 -> Z.lxor (u64 x) two63 = x + 2 ^ 63.
Proof.
  intros Hx. unfold u64, two64, two63. destruct (Z_lt_le_dec x 0) as [Hn|Hp].
  - replace (x mod 2 ^ 64) with (x + 2 ^ 64) by (apply Z.mod_unique with (q := -1); lia).
    replace (x + 2 ^ 64) with ((x + 2 ^ 63) + 2 ^ 63) by lia.
    rewrite <- (lxor_two63_small (x + 2 ^ 63)) by lia.
    rewrite Z.lxor_assoc, Z.lxor_nilpotent, Z.lxor_0_r. reflexivity.
  - rewrite Z.mod_small by lia. apply lxor_two63_small. lia.
Qed.

(* ---------- 7-bit groups ---------- *)

Lemma groups7_S n v : groups7 (S n) v = groups7 n (v / 128) ++ [v mod 128].
Proof.
  cbn [groups7]. rewrite Z.shiftr_div_pow2 by lia. change 127 with (Z.ones 7).
  rewrite Z.land_ones by lia. reflexivity.
Qed.

Lemma groups7_len n v : length (groups7 n v) = n.
Proof.
  revert v; induction n as [|n IH]; intros v; [reflexivity|].
  rewrite groups7_S, app_length, IH. cbn [length]. lia.
Qed.

(* incrementPrefixCoded's carry loop is +1 on the group value *)
Lemma groups7_succ n v : rev (groups7 n (v + 1)) = inc7_rev (rev (groups7 n v)).
Proof.
  revert v; induction n as [|n IH]; intros v; [reflexivity|].
  rewrite !groups7_S, !rev_unit. cbn [inc7_rev].
  pose proof (Z.div_mod v 128 ltac:(lia)) as Hd. pose proof (Z.mod_pos_bound v 128 ltac:(lia)) as Hm.
  destruct (v mod 128 + 1 <? 128) eqn:E.
  - assert (H1 : (v + 1) mod 128 = v mod 128 + 1).
    { symmetry. apply Z.mod_unique with (q := v / 128); lia. }
    assert (H2 : (v + 1) / 128 = v / 128).
    { symmetry. apply Z.div_unique with (r := v mod 128 + 1); lia. }
    rewrite H1, H2. reflexivity.
  - assert (H1 : (v + 1) mod 128 = 0).
    { symmetry. apply Z.mod_unique with (q := v / 128 + 1); lia. }
    assert (H2 : (v + 1) / 128 = v / 128 + 1).
    { symmetry. apply Z.div_unique with (r := 0); lia. }
    rewrite H1, H2, IH. reflexivity.
Qed.

Lemma bcompare_app_tail a b x y : length a = length b ->
  bcompare (a ++ [x]) (b ++ [y]) = match bcompare a b with Eq => x ?= y | c => c end.
Proof.
  revert b; induction a as [|a0 a IH]; intros [|b0 b] Hlen; try discriminate.
  - cbn. destruct (x ?= y); reflexivity.
  - cbn [app bcompare]. destruct (a0 ?= b0); try reflexivity. apply IH. cbn in Hlen. lia.
Qed.

Lemma groups7_compare n v w : 0 <= v < 128 ^ Z.of_nat n -> 0 <= w < 128 ^ Z.of_nat n ->
  bcompare (groups7 n v) (groups7 n w) = (v ?= w).
Proof.
  revert v w; induction n as [|n IH]; intros v w Hv Hw.
  - change (128 ^ Z.of_nat 0) with 1 in *. assert (v = 0) by lia. assert (w = 0) by lia. subst. reflexivity.
  - rewrite Nat2Z.inj_succ, Z.pow_succ_r in Hv, Hw by lia.
    rewrite !groups7_S, bcompare_app_tail by (rewrite !groups7_len; reflexivity).
    pose proof (Z.div_mod v 128 ltac:(lia)) as Hdv. pose proof (Z.mod_pos_bound v 128 ltac:(lia)) as Hmv.
    pose proof (Z.div_mod w 128 ltac:(lia)) as Hdw. pose proof (Z.mod_pos_bound w 128 ltac:(lia)) as Hmw.
    rewrite IH by lia.
    destruct (Z.compare_spec (v / 128) (w / 128)) as [He|Hl|Hg].
    + destruct (Z.compare_spec (v mod 128) (w mod 128)); symmetry;
        [apply Z.compare_eq_iff|apply Z.compare_lt_iff|apply Z.compare_gt_iff]; lia.
    + symmetry. apply Z.compare_lt_iff. lia.
    + symmetry. apply Z.compare_gt_iff. lia.
Qed.

Lemma groups7_inj n v w : 0 <= v < 128 ^ Z.of_nat n -> 0 <= w < 128 ^ Z.of_nat n ->
  groups7 n v = groups7 n w -> v = w.
Proof.
  intros Hv Hw He. apply Z.compare_eq. rewrite <- (groups7_compare n v w Hv Hw), He.
  apply bcompare_refl.
Qed.

(* ---------- prefix-coded terms of one shift, indexed by the shifted sortable value ---------- *)

Definition enc_raw (s v : Z) : bytes := (shift_start + s) :: groups7 (Z.to_nat (nchars s)) v.

Lemma encode_raw x s : 0 <= s <= 63 -> - 2 ^ 63 <= x < 2 ^ 63 ->
  encode x s = Some (enc_raw s ((x + 2 ^ 63) / 2 ^ s)).
Proof.
  intros Hs Hx. unfold encode. replace ((s <? 0) || (63 <? s)) with false by lia.
  rewrite sortable_eq by lia. rewrite Z.shiftr_div_pow2 by lia. reflexivity.
Qed.

Definition cap (s : Z) : Z := 128 ^ Z.of_nat (Z.to_nat (nchars s)).

Lemma cap_ge s : 0 <= s <= 63 -> 2 ^ (64 - s) <= cap s.
Proof.
  intros Hs. unfold cap, nchars. 
  assert (H7 : 0 <= (63 - s) / 7) by (apply Z.div_pos; lia).
  rewrite Z2Nat.id by lia. change 128 with (2 ^ 7). rewrite <- Z.pow_mul_r by lia.
  apply Z.pow_le_mono_r; [lia|].
  pose proof (Z.div_mod (63 - s) 7 ltac:(lia)). pose proof (Z.mod_pos_bound (63 - s) 7 ltac:(lia)). lia.
Qed.

Lemma inc7_raw s v : inc7 (enc_raw s v) = enc_raw s (v + 1).
Proof.
  unfold enc_raw, inc7. f_equal. rewrite <- groups7_succ. apply rev_involutive.
Qed.

Lemma enc_raw_compare s v w : 0 <= v < cap s -> 0 <= w < cap s ->
  bcompare (enc_raw s v) (enc_raw s w) = (v ?= w).
Proof.
  intros Hv Hw. unfold enc_raw. cbn [bcompare]. rewrite Z.compare_refl.
  apply groups7_compare; assumption.
Qed.

Lemma enc_raw_shift s s' v w : enc_raw s v = enc_raw s' w -> s = s'.
Proof. intros He. unfold enc_raw in He. assert (H1 := f_equal (hd 0) He). cbn [hd] in H1. lia. Qed.

Lemma enc_raw_inj s v w : 0 <= v < cap s -> 0 <= w < cap s ->
  enc_raw s v = enc_raw s w -> v = w.
Proof.
  intros Hv Hw He. unfold enc_raw in He. assert (H2 := f_equal (@tl Z) He). cbn [tl] in H2.
  eapply groups7_inj; eassumption.
Qed.

Lemma enc_raw_beqb s v w : 0 <= v < cap s -> 0 <= w < cap s ->
  beqb (enc_raw s v) (enc_raw s w) = (v =? w).
Proof.
  intros Hv Hw. destruct (Z.eqb_spec v w) as [->|Hne].
  - apply beqb_eq. reflexivity.
  - destruct (beqb (enc_raw s v) (enc_raw s w)) eqn:E; [|reflexivity].
    apply beqb_eq in E. apply enc_raw_inj in E; [lia|assumption..].
Qed.

(* ---------- 4. enumeratePrefixCoded walks v, v+1, ..., w ---------- *)

Definition raw_terms (s v : Z) (n : nat) : list bytes :=
  map (fun j => enc_raw s (v + Z.of_nat j)) (seq 0 n).

Lemma raw_terms_S s v n : raw_terms s v (S n) = enc_raw s v :: raw_terms s (v + 1) n.
Proof.
  unfold raw_terms. cbn [seq map]. rewrite Z.add_0_r. f_equal.
  rewrite <- seq_shift, map_map. apply map_ext. intros j. f_equal. lia.
Qed.

Lemma enum7_loop_spec s m : forall fuel v, (m < fuel)%nat -> 0 <= v -> v + Z.of_nat m < cap s ->
  enum7_loop fuel (enc_raw s v) (enc_raw s (v + Z.of_nat m)) = Some (raw_terms s v (S m)).
Proof.
  induction m as [|m IH]; intros fuel v Hf Hv Hcap; (destruct fuel as [|fuel]; [lia|]); cbn [enum7_loop].
  - rewrite enc_raw_beqb by lia. replace (v =? v + Z.of_nat 0) with true by lia.
    rewrite raw_terms_S. reflexivity.
  - rewrite enc_raw_beqb by lia. replace (v =? v + Z.of_nat (S m)) with false by lia.
    rewrite inc7_raw. replace (v + Z.of_nat (S m)) with (v + 1 + Z.of_nat m) by lia.
    rewrite IH by lia. rewrite (raw_terms_S s v (S m)). reflexivity.
Qed.

(* ---------- a well-formed vrange in units of p = 2^shift ---------- *)

Lemma vr_wf_rep v : vr_wf v ->
  exists c n, vr_lo v = c * 2 ^ vr_shift v /\ vr_hi v = (c + n) * 2 ^ vr_shift v - 1 /\
              1 <= n /\ vr_count v = n /\
              - 2 ^ (63 - vr_shift v) <= c /\ c + n <= 2 ^ (63 - vr_shift v).
Proof.
  intros (Hs & Hm1 & Hm2 & Hmin & Hlh & Hmax).
  pose proof (pow63_split (vr_shift v) Hs) as H63.
  assert (Hp : 0 < 2 ^ vr_shift v) by (apply Z.pow_pos_nonneg; lia).
  unfold vr_count, min_int64, max_int64, two63 in *.
  set (p := 2 ^ vr_shift v) in *. set (T := 2 ^ (63 - vr_shift v)) in *.
  pose proof (Z.div_mod (vr_lo v) p ltac:(lia)) as Hd1. rewrite Hm1 in Hd1.
  pose proof (Z.div_mod (vr_hi v + 1) p ltac:(lia)) as Hd2. rewrite Hm2 in Hd2.
  set (c := vr_lo v / p) in *. set (q := (vr_hi v + 1) / p) in *.
  exists c, (q - c).
  assert (Hcq : c < q) by nia.
  repeat split; try lia; try nia.
  replace (vr_hi v - vr_lo v + 1) with ((q - c) * p) by lia. apply Z_div_mult. lia.
Qed.

Definition vr_base (v : vrange) : Z := (vr_lo v + 2 ^ 63) / 2 ^ vr_shift v.
Definition vr_tr (v : vrange) : trange :=
  {| tr_start := enc_raw (vr_shift v) (vr_base v);
     tr_end := enc_raw (vr_shift v) (vr_base v + vr_count v - 1) |}.
Definition vr_termlist (v : vrange) : list bytes :=
  raw_terms (vr_shift v) (vr_base v) (Z.to_nat (vr_count v)).

Lemma vrange_enum v : vr_wf v -> vr_count v <= 64 ->
  vrange_terms v = Some (vr_tr v) /\ enum7 64 (vr_tr v) = Some (vr_termlist v).
Proof.
  intros Hwf Hc64. destruct (vr_wf_rep v Hwf) as (c & n & Hlo & Hhi & Hn & Hcnt & Hc & Hcn).
  destruct Hwf as (Hs & _). pose proof (pow63_split (vr_shift v) Hs) as H63.
  pose proof (cap_ge (vr_shift v) Hs) as Hcap.
  assert (H64 : 2 ^ (64 - vr_shift v) = 2 * 2 ^ (63 - vr_shift v)).
  { replace (64 - vr_shift v) with (1 + (63 - vr_shift v)) by lia. rewrite Z.pow_add_r by lia. reflexivity. }
  assert (Hp : 0 < 2 ^ vr_shift v) by (apply Z.pow_pos_nonneg; lia).
  unfold vr_tr, vr_termlist, vr_base, vrange_terms. rewrite Hcnt.
  set (s := vr_shift v) in *. set (p := 2 ^ s) in *. set (T := 2 ^ (63 - s)) in *.
  assert (HA : (vr_lo v + 2 ^ 63) / p = c + T).
  { rewrite Hlo, <- H63. replace (c * p + T * p) with ((c + T) * p) by ring. apply Z_div_mult. lia. }
  assert (HB : (vr_hi v + 2 ^ 63) / p = c + T + n - 1).
  { symmetry. apply Z.div_unique with (r := p - 1); [lia|]. rewrite Hhi, <- H63. ring. }
  rewrite !encode_raw by (try lia; nia). fold p. rewrite HA, HB. split; [reflexivity|].
  unfold enum7. cbn [tr_start tr_end]. unfold bleb.
  rewrite enc_raw_compare by lia.
  destruct (Z.compare_spec (c + T) (c + T + n - 1)); try lia.
  - replace (c + T + n - 1) with (c + T + Z.of_nat (Z.to_nat (n - 1))) by lia.
    rewrite enum7_loop_spec by lia. do 2 f_equal. lia.
  - replace (c + T + n - 1) with (c + T + Z.of_nat (Z.to_nat (n - 1))) by lia.
    rewrite enum7_loop_spec by lia. do 2 f_equal. lia.
Qed.

Lemma vr_termlist_encode v : vr_wf v ->
  map Some (vr_termlist v) =
  map (fun j => encode (vr_lo v + Z.of_nat j * 2 ^ vr_shift v) (vr_shift v))
      (seq 0 (Z.to_nat (vr_count v))).
Proof.
  intros Hwf. destruct (vr_wf_rep v Hwf) as (c & n & Hlo & Hhi & Hn & Hcnt & Hc & Hcn).
  destruct Hwf as (Hs & _). pose proof (pow63_split (vr_shift v) Hs) as H63.
  assert (Hp : 0 < 2 ^ vr_shift v) by (apply Z.pow_pos_nonneg; lia).
  unfold vr_termlist, raw_terms, vr_base. rewrite Hcnt, map_map.
  apply map_ext_in. intros j Hj. apply in_seq in Hj.
  set (s := vr_shift v) in *. set (p := 2 ^ s) in *. set (T := 2 ^ (63 - s)) in *.
  rewrite encode_raw by (try lia; nia). fold p. do 2 f_equal.
  replace (vr_lo v + Z.of_nat j * p + 2 ^ 63) with (vr_lo v + 2 ^ 63 + Z.of_nat j * p) by ring.
  rewrite Z.div_add by lia. reflexivity.
Qed.

(* 4. enum7 = the prefixes of vr_lo, vr_lo + 2^shift, ..., in order *)
Theorem enum7_spec v tr l : vr_wf v -> vr_count v <= 64 ->
  vrange_terms v = Some tr -> enum7 64 tr = Some l ->
  map Some l = map (fun j => encode (vr_lo v + Z.of_nat j * 2 ^ vr_shift v) (vr_shift v))
                   (seq 0 (Z.to_nat (vr_count v))) /\
  Z.of_nat (length l) = vr_count v.
Proof.
  intros Hwf Hc Htr Hl. destruct (vrange_enum v Hwf Hc) as [H1 H2].
  rewrite H1 in Htr. injection Htr as <-. rewrite H2 in Hl. injection Hl as <-.
  split; [apply vr_termlist_encode; exact Hwf|].
  unfold vr_termlist, raw_terms. rewrite map_length, seq_length.
  destruct (vr_wf_rep v Hwf) as (c & n & _ & _ & Hn & Hcnt & _). lia.
Qed.

(* 3b. the 7-bit enumeration never runs out of its fuel of 64 steps *)
Theorem enum7_total v : vr_wf v -> vr_count v <= 64 ->
  exists tr l, vrange_terms v = Some tr /\ enum7 64 tr = Some l.
Proof. intros Hwf Hc. destruct (vrange_enum v Hwf Hc) as [H1 H2]. eauto. Qed.

Example enum7_spec_example :
  let v := mkv 4 (-32) 31 in
  vr_wf v /\ vr_count v = 4 /\
  vrange_terms v = Some {| tr_start := [36; 7; 127; 127; 127; 127; 127; 127; 127; 126];
                           tr_end := [36; 8; 0; 0; 0; 0; 0; 0; 0; 1] |} /\
  enum7 64 {| tr_start := [36; 7; 127; 127; 127; 127; 127; 127; 127; 126];
              tr_end := [36; 8; 0; 0; 0; 0; 0; 0; 0; 1] |}
  = Some [[36; 7; 127; 127; 127; 127; 127; 127; 127; 126];
          [36; 7; 127; 127; 127; 127; 127; 127; 127; 127];
          [36; 8; 0; 0; 0; 0; 0; 0; 0; 0]; [36; 8; 0; 0; 0; 0; 0; 0; 0; 1]].
Proof. vm_compute. repeat split; try discriminate. Qed.

(* ---------- 3c. range_candidates is total and bounded ---------- *)

Lemma sequence_opt_map {A B} (f : A -> option B) (g : A -> B) l :
  (forall x, In x l -> f x = Some (g x)) -> sequence_opt (map f l) = Some (map g l).
Proof.
  induction l as [|a l IH]; intros H; [reflexivity|].
  cbn [map sequence_opt]. rewrite (H a (or_introl eq_refl)).
  rewrite IH by (intros x Hx; apply H; right; exact Hx). reflexivity.
Qed.

Lemma range_candidates_of_split lo hi vrs : split_range lo hi 4 = Some vrs ->
  (forall v, In v vrs -> vr_wf v /\ vr_count v <= 64) ->
  range_candidates lo hi 4 = Some (concat (map vr_termlist vrs)).
Proof.
  intros Hs Hall. unfold range_candidates. rewrite Hs.
  rewrite (sequence_opt_map vrange_terms vr_tr).
  2:{ intros v Hv. destruct (Hall v Hv) as [Hw Hc]. apply (vrange_enum v Hw Hc). }
  rewrite map_map. rewrite (sequence_opt_map (fun v => enum7 64 (vr_tr v)) vr_termlist).
  2:{ intros v Hv. destruct (Hall v Hv) as [Hw Hc]. apply (vrange_enum v Hw Hc). }
  reflexivity.
Qed.

Lemma split_all_wf lo hi vrs : in_int64 lo = true -> in_int64 hi = true ->
  split_range lo hi 4 = Some vrs ->
  forall v, In v vrs -> vr_wf v /\ vr_count v <= 64 /\ exists k, 0 <= k <= 15 /\ vr_shift v = 4 * k.
Proof.
  intros H1 H2 Hs v Hv.
  destruct (split_range_cases lo hi vrs H1 H2 Hs) as [[_ ->]|[_ (Hall & _)]]; [destruct Hv|].
  rewrite Forall_forall in Hall. destruct (Hall v Hv) as (Hwf & (j & Hj & Hsj) & _ & _ & Hc).
  split; [exact Hwf|]. split; [lia|]. exists j. split; lia.
Qed.

Lemma range_candidates_eq lo hi vrs : in_int64 lo = true -> in_int64 hi = true ->
  split_range lo hi 4 = Some vrs ->
  range_candidates lo hi 4 = Some (concat (map vr_termlist vrs)).
Proof.
  intros H1 H2 Hs. apply range_candidates_of_split; [exact Hs|].
  intros v Hv. destruct (split_all_wf lo hi vrs H1 H2 Hs v Hv) as (? & ? & _). split; assumption.
Qed.

Lemma length_termlists vrs : (forall v, In v vrs -> 0 <= vr_count v) ->
  Z.of_nat (length (concat (map vr_termlist vrs))) = sum_count vrs.
Proof.
  induction vrs as [|v vrs IH]; intros H; [reflexivity|].
  cbn [map concat]. rewrite app_length, Nat2Z.inj_add, IH by (intros w Hw; apply H; right; exact Hw).
  unfold vr_termlist at 1, raw_terms. rewrite map_length, seq_length.
  rewrite Z2Nat.id by (apply H; left; reflexivity).
  unfold sum_count. cbn [fold_right]. reflexivity.
Qed.

Theorem range_candidates_total lo hi : in_int64 lo = true -> in_int64 hi = true ->
  exists cands, range_candidates lo hi 4 = Some cands /\ (length cands <= 464)%nat.
Proof.
  intros H1 H2. destruct (split_range_total lo hi H1 H2) as (vrs & Hs).
  eexists. split; [apply (range_candidates_eq lo hi vrs H1 H2 Hs)|].
  assert (Hlen : Z.of_nat (length (concat (map vr_termlist vrs))) = sum_count vrs).
  { apply length_termlists. intros v Hv.
    destruct (split_ranges_wf lo hi vrs H1 H2 Hs v Hv) as (_ & _ & _ & _ & _ & _ & _ & Hc). lia. }
  destruct (Z_lt_le_dec hi lo) as [Hlt|Hle].
  - rewrite (split_empty lo hi 4 Hlt) in Hs. injection Hs as <-. cbn. lia.
  - destruct (range_span lo hi vrs H1 H2 Hle Hs) as (_ & _ & _ & _ & _ & Hsum & _). lia.
Qed.

(* the bound of [range_candidates_total] is attained *)
Example range_candidates_464 :
  option_map (@length bytes) (range_candidates (min_int64 + 1) (max_int64 - 1) 4) = Some 464%nat.
Proof. vm_compute. reflexivity. Qed.

(* ---------- 5. a document value matches iff it lies in [lo, hi] ---------- *)

Fixpoint shifts_from (fuel : nat) (s : Z) : list Z :=
  match fuel with
  | O => []
  | S f => if s <? 64 then s :: shifts_from f (s + 4) else []
  end.

Lemma index_terms_from_raw x : - 2 ^ 63 <= x < 2 ^ 63 -> forall fuel s, 0 <= s ->
  index_terms_from fuel 4 x s = map (fun s => enc_raw s ((x + 2 ^ 63) / 2 ^ s)) (shifts_from fuel s).
Proof.
  intros Hx. induction fuel as [|f IH]; intros s Hs; [reflexivity|].
  cbn [index_terms_from shifts_from]. destruct (s <? 64) eqn:E; [|reflexivity].
  rewrite encode_raw by lia. cbn [map]. rewrite IH by lia. reflexivity.
Qed.

Definition shifts16 : list Z := [0; 4; 8; 12; 16; 20; 24; 28; 32; 36; 40; 44; 48; 52; 56; 60].

Lemma index_terms_raw x : - 2 ^ 63 <= x < 2 ^ 63 ->
  index_terms 4 x = map (fun s => enc_raw s ((x + 2 ^ 63) / 2 ^ s)) shifts16.
Proof.
  intros Hx. unfold index_terms. rewrite (index_terms_from_raw x Hx) by lia.
  replace (shifts_from 65 0) with shifts16 by (vm_compute; reflexivity). reflexivity.
Qed.

Lemma shifts16_in s : In s shifts16 <-> exists k, 0 <= k <= 15 /\ s = 4 * k.
Proof.
  unfold shifts16. cbn [In]. split.
  - intros H. exists (s / 4). repeat destruct H as [<-|H]; try (vm_compute; split; [split; discriminate|reflexivity]).
    destruct H.
  - intros (k & Hk & ->).
    assert (Hc : k = 0 \/ k = 1 \/ k = 2 \/ k = 3 \/ k = 4 \/ k = 5 \/ k = 6 \/ k = 7 \/ k = 8 \/ k = 9 \/
                 k = 10 \/ k = 11 \/ k = 12 \/ k = 13 \/ k = 14 \/ k = 15) by lia.
    repeat destruct Hc as [->|Hc]; try subst k; cbn; tauto.
Qed.

Lemma mem_bytes_In c l : mem_bytes c l = true <-> In c l.
Proof.
  unfold mem_bytes. rewrite existsb_exists. split.
  - intros (t & Ht & Hb). apply beqb_eq in Hb. subst. exact Ht.
  - intros H. exists c. split; [exact H|apply beqb_eq; reflexivity].
Qed.

Lemma term_match v x : vr_wf v -> (exists k, 0 <= k <= 15 /\ vr_shift v = 4 * k) ->
  - 2 ^ 63 <= x < 2 ^ 63 ->
  (exists c, In c (vr_termlist v) /\ In c (index_terms 4 x)) <-> vr_lo v <= x <= vr_hi v.
Proof.
  intros Hwf Hk Hx. destruct (vr_wf_rep v Hwf) as (c & n & Hlo & Hhi & Hn & Hcnt & Hc & Hcn).
  destruct Hwf as (Hs & _). pose proof (pow63_split (vr_shift v) Hs) as H63.
  pose proof (cap_ge (vr_shift v) Hs) as Hcap.
  assert (H64 : 2 ^ (64 - vr_shift v) = 2 * 2 ^ (63 - vr_shift v)).
  { replace (64 - vr_shift v) with (1 + (63 - vr_shift v)) by lia. rewrite Z.pow_add_r by lia. reflexivity. }
  assert (Hp : 0 < 2 ^ vr_shift v) by (apply Z.pow_pos_nonneg; lia).
  rewrite (index_terms_raw x Hx). unfold vr_termlist, raw_terms, vr_base. rewrite Hcnt.
  set (s := vr_shift v) in *. set (p := 2 ^ s) in *. set (T := 2 ^ (63 - s)) in *.
  assert (HA : (vr_lo v + 2 ^ 63) / p = c + T).
  { rewrite Hlo, <- H63. replace (c * p + T * p) with ((c + T) * p) by ring. apply Z_div_mult. lia. }
  rewrite HA.
  pose proof (Z.div_mod (x + 2 ^ 63) p ltac:(lia)) as Hdx.
  pose proof (Z.mod_pos_bound (x + 2 ^ 63) p ltac:(lia)) as Hmx.
  split.
  - intros (t & Ht1 & Ht2). apply in_map_iff in Ht1 as (j & <- & Hj). apply in_seq in Hj.
    apply in_map_iff in Ht2 as (s' & He & Hs').
    symmetry in He. pose proof (enc_raw_shift _ _ _ _ He) as <-. fold p in He.
    assert (Hq : 0 <= (x + 2 ^ 63) / p < 2 * T).
    { split; [apply Z.div_pos; lia|]. apply Z.div_lt_upper_bound; nia. }
    apply enc_raw_inj in He; [|lia|lia]. nia.
  - intros Hin. set (j := (x + 2 ^ 63) / p - (c + T)).
    assert (Hj : 0 <= j < n) by (unfold j; nia).
    exists (enc_raw s (c + T + j)). split.
    + apply in_map_iff. exists (Z.to_nat j). split; [f_equal; lia|]. apply in_seq. lia.
    + apply in_map_iff. exists s. split; [fold p; f_equal; unfold j; lia|].
      apply shifts16_in. exact Hk.
Qed.

Theorem candidates_match_iff lo hi x cands :
  in_int64 lo = true -> in_int64 hi = true -> in_int64 x = true ->
  range_candidates lo hi 4 = Some cands ->
  (existsb (fun c => mem_bytes c (index_terms 4 x)) cands = true <-> lo <= x <= hi).
Proof.
  intros H1 H2 Hx Hc. destruct (split_range_total lo hi H1 H2) as (vrs & Hs).
  rewrite (range_candidates_eq lo hi vrs H1 H2 Hs) in Hc. injection Hc as <-.
  rewrite (split_cover lo hi vrs H1 H2 Hs x). apply in_int64_bounds in Hx.
  rewrite existsb_exists. split.
  - intros (c & Hc1 & Hc2). apply mem_bytes_In in Hc2.
    apply in_concat in Hc1 as (l & Hl & Hcl). apply in_map_iff in Hl as (v & <- & Hv).
    exists v. split; [exact Hv|].
    destruct (split_all_wf lo hi vrs H1 H2 Hs v Hv) as (Hwf & _ & Hk).
    apply (term_match v x Hwf Hk Hx). exists c. split; assumption.
  - intros (v & Hv & Hxv).
    destruct (split_all_wf lo hi vrs H1 H2 Hs v Hv) as (Hwf & _ & Hk).
    apply (term_match v x Hwf Hk Hx) in Hxv as (c & Hc1 & Hc2).
    exists c. split; [|apply mem_bytes_In; exact Hc2].
    apply in_concat. exists (vr_termlist v). split; [|exact Hc1].
    apply in_map. exact Hv.
Qed.

Example candidates_match_example :
  in_int64 (-20) = true /\ in_int64 300 = true /\ in_int64 17 = true /\
  match range_candidates (-20) 300 4 with
  | Some cands => existsb (fun c => mem_bytes c (index_terms 4 17)) cands = true /\
                  existsb (fun c => mem_bytes c (index_terms 4 301)) cands = false /\
                  length cands = 21%nat
  | None => False
  end.
Proof. vm_compute. repeat split. Qed.
